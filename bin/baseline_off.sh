#!/bin/sh
# Runs the repository's pinned test suite with the verif build tag OFF, in a scratch copy of /repo's working tree
# (the suite rewrites files under internal/mobius/test/config, so it is never run inside /repo).
# Prints `go test -json` output on stdout; exit status is go test's.
set -e
REPO=${VERIF_REPO:-/repo}
d=$(mktemp -d /var/tmp/verif-baseline.XXXXXX)
trap 'rm -rf "$d"' EXIT
mkdir "$d/repo"
(cd "$REPO" && tar --exclude=.git -cf - .) | (cd "$d/repo" && tar -xf -)
cd "$d/repo"
export GOFLAGS=-mod=mod GOPROXY=off GOSUMDB=off GOTOOLCHAIN=local
go build ./...
go test -json -vet=off -count=1 -timeout 25m ./...
