"""Orchestration library for the /verif checks.

A check = (1) TLC model-checks the TLA+ module for the property family with small constants (design level),
(2) TLC generates action scripts from the same module (simulation or exhaustive emission) and/or the Go driver
draws random scripts, (3) the Go harness executes the scripts against the real code built from /repo's working
tree and records an ndjson event log of what the real code did, (4) TLC validates the log against the trace
specification (Trace_<Module>.tla), which prints one "VIOL {...}" line per step whose real observation
contradicts the property and one "DRIFT {...}" line per step where the model and the code disagree on something
the property does not constrain.  Exit codes: 0 held, 1 violation (real-code observation), 2 anything else.
"""
import hashlib
import json
import os
import re
import shutil
import subprocess
import sys
import tempfile
import time

VERIF = os.path.dirname(os.path.dirname(os.path.abspath(__file__)))
REPO = os.environ.get("VERIF_REPO", "/repo")
SPEC = os.path.join(VERIF, "spec")
HARNESS = os.path.join(VERIF, "harness")
BIN = os.path.join(HARNESS, "bin", "vharness")
NCPU = os.cpu_count() or 4

GOENV = dict(os.environ, GOFLAGS="-mod=mod", GOPROXY="off", GOSUMDB="off", GOTOOLCHAIN="local", CGO_ENABLED="0")


class Fatal(Exception):
    """Anything that is not a verdict about the real code (tool failure, timeout, drift, vacuity): exit 2."""


def log(*a):
    print("[vcheck]", *a, file=sys.stderr, flush=True)


def sh(cmd, cwd=None, timeout=600, env=None, stdin=None, check=False):
    t0 = time.time()
    try:
        p = subprocess.run(cmd, cwd=cwd, env=env, input=stdin, stdout=subprocess.PIPE, stderr=subprocess.STDOUT,
                           timeout=timeout, text=True, errors="replace")
    except subprocess.TimeoutExpired as e:
        out = e.stdout if isinstance(e.stdout, str) else (e.stdout or b"").decode("utf8", "replace")
        raise Fatal("timeout after %ss: %s\n%s" % (timeout, " ".join(map(str, cmd))[:200], out[-2000:]))
    if check and p.returncode != 0:
        raise Fatal("command failed (%d): %s\n%s" % (p.returncode, " ".join(map(str, cmd))[:300], p.stdout[-4000:]))
    return p.returncode, p.stdout, time.time() - t0


def build_harness(race=False, name="vharness"):
    """Rebuild a Go harness binary (harness/cmd/<name>) against /repo's current working tree, verif hooks enabled."""
    out = os.path.join(HARNESS, "bin", name) + ("-race" if race else "")
    os.makedirs(os.path.dirname(out), exist_ok=True)
    # go.sum of the harness must cover /repo's dependencies
    try:
        repo_sum = open(os.path.join(REPO, "go.sum")).read()
        mine_path = os.path.join(HARNESS, "go.sum")
        mine = open(mine_path).read() if os.path.exists(mine_path) else ""
        missing = [l for l in repo_sum.splitlines() if l and l not in mine]
        if missing:
            with open(mine_path, "a") as f:
                f.write("\n".join(missing) + "\n")
    except OSError:
        pass
    env = dict(GOENV)
    cmd = ["go", "build", "-tags", "verif", "-o", out]
    if os.path.abspath(REPO) != "/repo":
        # development aid: build against another checkout (VERIF_REPO) without touching /repo
        tag = hashlib.sha1(REPO.encode()).hexdigest()[:8]
        alt = os.path.join(HARNESS, "go.alt-%s.mod" % tag)
        with open(alt, "w") as f:
            f.write(open(os.path.join(HARNESS, "go.mod")).read().replace("=> /repo", "=> " + os.path.abspath(REPO)))
        shutil.copyfile(os.path.join(HARNESS, "go.sum"), alt[:-4] + ".sum")
        out = out + "-alt-" + tag
        cmd = ["go", "build", "-modfile", alt, "-tags", "verif", "-o", out]
    if race:
        cmd.insert(2, "-race")
        env["CGO_ENABLED"] = "1"
    cmd.append("./cmd/" + name)
    # build under a private name and rename: two checks running at the same time never see a half-written binary
    final = out
    tmp = "%s.tmp.%d" % (out, os.getpid())
    cmd[cmd.index("-o") + 1] = tmp
    rc, o, dt = sh(cmd, cwd=HARNESS, env=env, timeout=900)
    if rc != 0:
        try:
            os.remove(tmp)
        except OSError:
            pass
        raise Fatal("harness build failed against %s:\n%s" % (REPO, o[-4000:]))
    os.replace(tmp, final)
    return final


class TLCResult:
    def __init__(self):
        self.rc = None
        self.out = ""
        self.generated = 0
        self.distinct = 0
        self.depth = 0
        self.printed = []  # decoded PrintT strings
        self.ok = False
        self.violated = None  # name of violated invariant / property
        self.wall = 0.0
        self.coverage_zero = []


_PRINT_RE = re.compile(r'^"((?:[^"\\]|\\.)*)"$')


def tlc(ctx, module, cfg=None, workers=None, simulate=None, depth=None, seed=None, coverage=False, timeout=600,
        heap=None, deadlock=False, extra=None, dfs=False):
    """Run TLC on spec/<module>.tla in the context's scratch copy of the spec directory."""
    r = TLCResult()
    specdir = ctx.specdir
    md = tempfile.mkdtemp(prefix="md-", dir=ctx.scratch)
    # TLC unpacks its standard modules into java.io.tmpdir on every start: keep that inside the run's scratch
    cmd = ["java", "-XX:+UseParallelGC", "-Xss64m", "-Djava.io.tmpdir=" + md]
    if heap:
        cmd.append("-Xmx" + heap)
    if dfs:
        cmd.append("-Dtlc2.tool.queue.IStateQueue=StateDeque")
    cmd += ["-cp", "/opt/veriftools/tla/tla2tools.jar:/opt/veriftools/tla/CommunityModules-deps.jar", "tlc2.TLC",
            "-metadir", md, "-noGenerateSpecTE"]
    cmd += ["-workers", str(workers or "auto")]
    if cfg:
        cmd += ["-config", cfg]
    if simulate:
        cmd += ["-simulate", "num=%d" % simulate]
        if depth:
            cmd += ["-depth", str(depth)]
        if seed is not None:
            cmd += ["-seed", str(seed)]
    if coverage:
        cmd += ["-coverage", "1"]
    if deadlock:
        cmd += ["-deadlock"]
    if extra:
        cmd += extra
    cmd.append(module + ".tla")
    rc, out, dt = sh(cmd, cwd=specdir, timeout=timeout)
    shutil.rmtree(md, ignore_errors=True)
    r.rc, r.out, r.wall = rc, out, dt
    for line in out.splitlines():
        m = _PRINT_RE.match(line)
        if m:
            try:
                r.printed.append(json.loads(line))
            except ValueError:
                pass
    m = re.search(r"(\d+) states generated, (\d+) distinct states found", out)
    if m:
        r.generated, r.distinct = int(m.group(1)), int(m.group(2))
    m = re.search(r"The depth of the complete state graph search is (\d+)", out)
    if m:
        r.depth = int(m.group(1))
    m = re.search(r"Invariant (\S+) is violated", out)
    if m:
        r.violated = m.group(1)
    m = re.search(r"Action property (\S+) is violated|Temporal properties were violated", out)
    if m and not r.violated:
        r.violated = m.group(1) or "temporal"
    r.ok = (rc == 0 and "Error:" not in out)
    if simulate and rc == 0:
        r.ok = True
    if coverage:
        for line in out.splitlines():
            mm = re.match(r"^<(\w+) line .*>: (\d+):(\d+)$", line.strip())
            if mm and mm.group(3) == "0" and mm.group(2) == "0":
                r.coverage_zero.append(mm.group(1))
    return r


def printed_json(res, prefix):
    """PrintT lines of the form '<prefix> <json>' decoded."""
    out = []
    for s in res.printed:
        if isinstance(s, str) and s.startswith(prefix + " "):
            out.append(json.loads(s[len(prefix) + 1:]))
    return out


class Ctx:
    def __init__(self, prop, tier, seed):
        self.prop = prop
        self.tier = tier
        self.seed = seed
        self.t0 = time.time()
        base = os.environ.get("VERIF_SCRATCH", "/var/tmp")
        self.scratch = tempfile.mkdtemp(prefix="verif.%s." % prop, dir=base)
        self.specdir = os.path.join(self.scratch, "spec")
        shutil.copytree(SPEC, self.specdir)
        self.violations = []  # dicts: sig, what, replay (object to store)
        self.drift = []
        self.cov = {"states": 0, "transitions": 0, "traces_validated_against_impl": 0, "samples": []}
        self.assumptions = []
        self.notes = {}
        self.bin = None

    def path(self, name):
        return os.path.join(self.scratch, name)

    def cleanup(self):
        shutil.rmtree(self.scratch, ignore_errors=True)

    def quick(self):
        return self.tier != "thorough"

    # ---- building blocks -------------------------------------------------------------------------------------
    def build(self, race=False, name="vharness"):
        """name: the harness command under harness/cmd/ (each family has its own binary so that one family's
        compile problem cannot break another's check)."""
        b = build_harness(race, name)
        if not race:
            self.bin = b
        return b

    def harness(self, args, timeout=900, env=None, binpath=None):
        e = dict(os.environ, VERIF_SCRATCH=self.scratch, VERIF_SEED=str(self.seed))
        if env:
            e.update(env)
        rc, out, dt = sh([binpath or self.bin] + list(args), cwd=self.scratch, timeout=timeout, env=e)
        if rc != 0:
            raise Fatal("harness %s failed (%d):\n%s" % (args[:3], rc, out[-6000:]))
        return out

    def model_check(self, module, cfg, timeout=900, workers=None, coverage=True, must_cover=None, heap=None):
        """Design-level check: the property's invariants hold in the specification within the cfg's constants."""
        r = tlc(self, module, cfg=cfg, workers=workers, coverage=coverage, timeout=timeout, heap=heap)
        if not r.ok:
            raise Fatal("TLC rejected the design model %s/%s (violated=%s):\n%s" % (module, cfg, r.violated, r.out[-5000:]))
        if r.distinct < 1:
            raise Fatal("TLC explored no states for %s/%s" % (module, cfg))
        if coverage and must_cover:
            zero = [a for a in must_cover if a in r.coverage_zero]
            if zero:
                raise Fatal("vacuous model check: actions never taken: %s" % zero)
        self.cov["states"] += r.distinct
        self.cov["transitions"] += r.generated
        self.notes.setdefault("model_checks", []).append(
            {"module": module, "cfg": cfg, "distinct_states": r.distinct, "states_generated": r.generated,
             "depth": r.depth, "wall_s": round(r.wall, 1)})
        log("MC %s/%s: %d distinct / %d generated, depth %d, %.1fs" % (module, cfg, r.distinct, r.generated, r.depth, r.wall))
        return r

    def generate(self, module, cfg, out_name, prefix="B", simulate=None, depth=None, timeout=900, workers=1, extra_seed=0):
        """Let TLC emit behaviours (PrintT("<prefix> " \\o ToJson(...))) and store them as ndjson."""
        r = tlc(self, module, cfg=cfg, workers=workers, simulate=simulate, depth=depth,
                seed=(self.seed * 7919 + extra_seed) if simulate else None, timeout=timeout)
        if r.rc != 0 and not simulate:
            raise Fatal("TLC generation failed %s/%s:\n%s" % (module, cfg, r.out[-5000:]))
        if simulate and r.rc not in (0,):
            raise Fatal("TLC simulation failed %s/%s:\n%s" % (module, cfg, r.out[-5000:]))
        items = printed_json(r, prefix)
        if not items:
            raise Fatal("TLC generated no behaviours for %s/%s:\n%s" % (module, cfg, r.out[-3000:]))
        p = self.path(out_name)
        with open(p, "w") as f:
            for it in items:
                f.write(json.dumps(it) + "\n")
        if not simulate:
            self.cov["states"] += r.distinct
            self.cov["transitions"] += r.generated
        self.notes.setdefault("generation", []).append(
            {"module": module, "cfg": cfg, "behaviours": len(items), "mode": "simulate" if simulate else "exhaustive",
             "wall_s": round(r.wall, 1)})
        log("GEN %s/%s: %d behaviours, %.1fs" % (module, cfg, len(items), r.wall))
        return p, items

    def validate(self, module, cfg, logfile, timeout=1200, heap=None, logname="log.ndjson"):
        """Trace validation: TLC consumes the recorded log.  Returns (viol, drift) lists of decoded records."""
        dst = os.path.join(self.specdir, logname)
        if os.path.abspath(logfile) != os.path.abspath(dst):
            shutil.copyfile(logfile, dst)
        nlines = sum(1 for _ in open(dst))
        if nlines == 0:
            raise Fatal("empty event log %s" % logfile)
        r = tlc(self, module, cfg=cfg, workers=1, timeout=timeout, heap=heap)
        viol = printed_json(r, "VIOL")
        drift = printed_json(r, "DRIFT")
        # NOTE lines: the specification covers more of the system than the property states; a disagreement there is
        # recorded in the evidence (notes.beyond_property) and never changes the verdict or the exit status
        for n in printed_json(r, "NOTE")[:20]:
            self.notes.setdefault("beyond_property", []).append(n)
        if not r.ok:
            raise Fatal("trace validation did not complete for %s (rc=%s, %d lines):\n%s" % (module, r.rc, nlines, r.out[-6000:]))
        self.notes.setdefault("trace_validation", []).append(
            {"module": module, "events": nlines, "states": r.distinct, "wall_s": round(r.wall, 1)})
        self.cov["states"] += r.distinct
        self.cov["transitions"] += r.generated
        log("TRACE %s: %d events, %d VIOL, %d DRIFT, %.1fs" % (module, nlines, len(viol), len(drift), r.wall))
        if (self.tier == "thorough" or os.environ.get("VERIF_BINDDEMO")) and not self.notes.get("binding_demo"):
            try:
                self._binding_demo(module, cfg, dst, timeout, heap)
            except Exception as e:  # informational only
                self.notes["binding_demo"] = {"error": str(e)[:300]}
        return viol, drift

    def _binding_demo(self, module, cfg, dst, timeout, heap):
        """Informational (never decides): shows that the trace specification is bound to what the real code logged.
        A prefix of the recorded log is validated as it is and then six more times with ONE logged field of ONE
        event falsified; a falsified log must be rejected (more VIOL/DRIFT lines than the untouched prefix, or TLC
        refusing it).  The outcome is stored in the evidence (notes.binding_demo)."""
        import random
        orig = open(dst).read().splitlines()
        # whole runs only (a run starts with a "world" event): the judgements at the end of a run must be in
        cut = len(orig)
        if len(orig) > 3000:
            for i in range(3000, 200, -1):
                try:
                    if json.loads(orig[i]).get("op") == "world":
                        cut = i
                        break
                except ValueError:
                    pass
        prefix = orig[:cut]

        def run(lines):
            with open(dst, "w") as f:
                f.write("\n".join(lines) + "\n")
            r = tlc(self, module, cfg=cfg, workers=1, timeout=min(timeout, 600), heap=heap)
            return (len(printed_json(r, "VIOL")) + len(printed_json(r, "DRIFT")), r.ok)
        try:
            base, base_ok = run(prefix)
            rng = random.Random(self.seed * 7919 + 13)
            cands = []
            for i, ln in enumerate(prefix):
                try:
                    e = json.loads(ln)
                except ValueError:
                    continue
                if e.get("op") in ("world", None):
                    continue
                keys = [k for k, v in e.items() if k not in ("op", "run", "seq", "line", "ms", "wall") and isinstance(v, (bool, int, list)) ]
                if keys:
                    cands.append((i, sorted(keys)))
            rng.shuffle(cands)
            # one event of every kind first (logs are dominated by a few kinds)
            byop, order = {}, []
            for i, keys in cands:
                byop.setdefault(json.loads(prefix[i]).get("op"), []).append((i, keys))
            while len(order) < 6 and any(byop.values()):
                for op in sorted(byop):
                    if byop[op] and len(order) < 6:
                        order.append(byop[op].pop())
            details = []
            for i, keys in order:
                e = json.loads(prefix[i])
                k = keys[rng.randrange(len(keys))]
                v = e[k]
                if isinstance(v, bool):
                    e[k] = not v
                elif isinstance(v, int):
                    e[k] = v + 1
                else:
                    e[k] = v[:-1] if v else [0]
                lines = list(prefix)
                lines[i] = json.dumps(e)
                n, ok = run(lines)
                details.append({"event": i + 1, "op": e.get("op"), "field": k, "rejected": (n > base) or not ok})
            self.notes["binding_demo"] = {"module": module, "prefix_events": len(prefix), "baseline_reports": base, "baseline_accepted": base_ok,
                                          "falsified_logs": len(details), "rejected": sum(1 for d in details if d["rejected"]), "details": details}
            log("BIND %s: %d/%d falsified logs rejected" % (module, self.notes["binding_demo"]["rejected"], len(details)))
        finally:
            with open(dst, "w") as f:
                f.write("\n".join(orig) + "\n")

    # ---- verdict ---------------------------------------------------------------------------------------------
    def add_violation(self, sig, what, replay=None):
        self.violations.append({"sig": sig, "what": what, "replay": replay})

    def add_drift(self, what):
        self.drift.append(what)

    def sample(self, obj):
        if len(self.cov["samples"]) < 5:
            s = json.dumps(obj)
            if len(s) > 1500:
                s = s[:1500] + "..."
                self.cov["samples"].append(s)
            else:
                self.cov["samples"].append(obj)


def load_known():
    p = os.path.join(VERIF, "known_findings.json")
    if not os.path.exists(p):
        return []
    return json.load(open(p)).get("findings", [])


def finish(ctx, err=None):
    """Write evidence, print verdict lines, return exit code."""
    known = [k for k in load_known() if k.get("property") == ctx.prop and k.get("status") == "open"]
    new, listed = [], {}
    for v in ctx.violations:
        k = next((k for k in known if re.fullmatch(k["signature"], v["sig"])), None)
        if k is not None:
            listed.setdefault(k["signature"], k)
        else:
            new.append(v)
    rc = 0
    if err is not None:
        rc = 2
    elif ctx.drift:
        rc = 2
    for sig, k in listed.items():
        print("KNOWN-FINDING: property=%s %s" % (ctx.prop, k.get("what", sig)), flush=True)
    seen = set()
    if new and err is None:
        rc = 1
        rdir = os.path.join(VERIF, "replays", ctx.prop)
        if os.path.abspath(REPO) != "/repo":
            rdir = os.path.join("/var/tmp/verif-alt-replays", ctx.prop)
        os.makedirs(rdir, exist_ok=True)
        for v in new:
            if v["sig"] in seen:
                continue
            seen.add(v["sig"])
            h = hashlib.sha1(v["sig"].encode()).hexdigest()[:10]
            rp = os.path.join(rdir, "%s.json" % h)
            with open(rp, "w") as f:
                json.dump({"property": ctx.prop, "signature": v["sig"], "what": v["what"], "tier": ctx.tier,
                           "seed": ctx.seed, "replay": v["replay"]}, f, indent=1)
            print("VIOLATION property=%s replay=%s" % (ctx.prop, rp), flush=True)
            print("  signature: %s" % v["sig"], flush=True)
            print("  what: %s" % (json.dumps(v["what"])[:600]), flush=True)
    if ctx.drift and err is None:
        for d in ctx.drift[:10]:
            print("SPEC-DRIFT property=%s %s" % (ctx.prop, json.dumps(d)[:600]), flush=True)
    if err is not None:
        print("CHECK-ERROR property=%s %s" % (ctx.prop, str(err)[:6000]), flush=True)
    cov = dict(ctx.cov)
    cov["states"] = max(int(cov.get("states", 0)), 0)
    cov["transitions"] = max(int(cov.get("transitions", 0)), 0)
    cov.update(ctx.notes)
    if not cov["samples"]:
        cov["samples"] = ["(no sample recorded)"]
    ev = {
        "property_id": ctx.prop, "tier": "thorough" if ctx.tier == "thorough" else "quick", "seed": int(ctx.seed),
        "level": "model_checking", "coverage": cov, "assumptions": ctx.assumptions,
        "wall_s": round(time.time() - ctx.t0, 2), "violations": len(seen),
        "known_findings_seen": sorted(listed.keys()), "exit_code": rc,
    }
    if cov["states"] < 1 or cov["transitions"] < 1:
        # nothing was explored (error before TLC ran): keep the file schema-valid but honest
        ev["level"] = "other"
        cov["explanation"] = "check aborted before any exploration: %s" % (str(err)[:300] if err else "n/a")
    evdir = os.path.join(VERIF, "evidence")
    if os.path.abspath(REPO) != "/repo":
        evdir = "/var/tmp/verif-alt-evidence"  # development runs against another checkout do not touch the evidence
    os.makedirs(evdir, exist_ok=True)
    with open(os.path.join(evdir, "%s.json" % ctx.prop), "w") as f:
        json.dump(ev, f, indent=1)
    return rc


def run_check(prop, tier, seed, fn):
    ctx = Ctx(prop, tier, seed)
    err = None
    try:
        fn(ctx)
    except Fatal as e:
        err = e
    except Exception as e:  # orchestration bug: never a verdict
        import traceback
        err = Fatal("internal error: %s\n%s" % (e, traceback.format_exc()))
    finally:
        rc = finish(ctx, err)
        if os.environ.get("VERIF_KEEP"):
            log("scratch kept at", ctx.scratch)
        else:
            ctx.cleanup()
    log("%s tier=%s seed=%s exit=%d wall=%.1fs" % (prop, tier, seed, rc, time.time() - ctx.t0))
    return rc


def sig_of(rec):
    """Default signature of a violation record printed by a trace spec: property-specific 'sig' field."""
    return rec.get("sig") or json.dumps(rec, sort_keys=True)[:200]
