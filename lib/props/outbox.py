"""C14: Outbox.tla - whole, well-formed, correlated transactions per client.

S binding: TLC enumerates every interleaving of the chunked lock-free writer (Gen_Outbox, Atomic = FALSE); vh-outbox
enacts each schedule on the real sendTransaction through a gating connection; Trace_Outbox judges the write order the
real connection saw and the re-framed byte stream.  T binding: free-running goroutine clients against the real
processOutbox; Trace_Outbox validates each connection's ledger (frames, replies vs requests).
"""
import json
from vlib import Fatal


def inductive_lock(ctx):
    """Thorough tier, design level: OutboxLock.tla (acquire / write a piece / release, any number of senders) -
    Apalache discharges IndInv as an inductive invariant (Init => IndInv; IndInv /\\ Next => IndInv' from an ARBITRARY
    state satisfying IndInv, not only the reachable ones) for 4 senders, sizes <= 6, wire windows <= 6; IndInv contains
    WholeFrames.  Negative control: without the `lock = 0` guard of Acquire the step must fail."""
    import subprocess, shutil, os, re
    sd = ctx.specdir
    res = {}
    def apa(workdir, init, length):
        cmd = ["apalache-mc", "check", "--cinit=ConstInit", "--init=" + init, "--inv=IndInv", "--length=%d" % length,
               "--out-dir=" + os.path.join(ctx.scratch, "apalache-out"), "MC_OutboxLock.tla"]
        try:
            p = subprocess.run(cmd, cwd=workdir, capture_output=True, text=True, timeout=900)
        except subprocess.TimeoutExpired:
            return "timeout"
        m = re.search(r"EXITCODE: (\S+)", p.stdout)
        return m.group(1) if m else "rc=%d" % p.returncode
    res["base"] = apa(sd, "Init", 0)
    res["step"] = apa(sd, "IndInit", 1)
    bad = os.path.join(ctx.scratch, "apalache-neg")
    os.makedirs(bad, exist_ok=True)
    src = open(os.path.join(sd, "OutboxLock.tla")).read()
    assert "Acquire(i) == /\\ lock = 0 /\\ off[i] = 0" in src
    open(os.path.join(bad, "OutboxLock.tla"), "w").write(src.replace("Acquire(i) == /\\ lock = 0 /\\ off[i] = 0", "Acquire(i) == /\\ off[i] = 0"))
    shutil.copy(os.path.join(sd, "MC_OutboxLock.tla"), bad)
    res["negative_control_step"] = apa(bad, "IndInit", 1)
    ctx.notes["apalache_inductive_invariant"] = dict(res, module="OutboxLock", invariant="IndInv (contains WholeFrames)",
                                                     bounds="MaxTx=4, MaxLen=6, Chunk=2, wire window 6")
    from vlib import Fatal, log
    log("APALACHE OutboxLock: base=%s step=%s negative-control=%s" % (res["base"], res["step"], res["negative_control_step"]))
    if res["base"] != "OK" or res["step"] != "OK" or res["negative_control_step"] == "OK":
        raise Fatal("OutboxLock inductive invariant check: %r" % res)


def run(ctx, prop):
    quick = ctx.quick()
    ctx.build(name="vh-outbox")
    ctx.model_check("MC_Outbox", "MC_Outbox.cfg", coverage=False, timeout=300)
    if not quick:
        inductive_lock(ctx)
    _, items = ctx.generate("MC_Outbox", "Gen_Outbox.cfg", "sched_all.ndjson", timeout=300)
    uniq = {}
    for it in items:
        uniq[json.dumps(it, sort_keys=True)] = it
    scheds = list(uniq.values())
    step = 6 if quick else 1
    off = ctx.seed % step
    scheds = scheds[off::step]
    sp = ctx.path("sched.ndjson")
    with open(sp, "w") as f:
        for s in scheds:
            f.write(json.dumps(s) + "\n")
    ctx.sample({"schedule": scheds[len(scheds) // 2]})
    # the reply ledger over every request type and argument class (cases from MC_Outbox!LedgerCases)
    _, cases = ctx.generate("Gen_OutboxLedger", "Gen_OutboxLedger.cfg", "ledger_cases.ndjson", timeout=120)
    cases.sort(key=lambda c: (c["variant"] != "ok", c["variant"], c["type"]))
    cp = ctx.path("ledger_cases_sorted.ndjson")
    with open(cp, "w") as f:
        for c in cases:
            f.write(json.dumps(c) + "\n")
    l1, l2 = ctx.path("sched_log.ndjson"), ctx.path("stress_log.ndjson")
    l3, l4 = ctx.path("slow_log.ndjson"), ctx.path("sweep_log.ndjson")
    # the four drivers are independent processes with their own servers: sweep and slow reader (both mostly waiting)
    # run next to the schedules and the stress runs
    import threading
    errs = []

    def bg(args, timeout):
        try:
            ctx.harness(args, timeout=timeout)
        except Exception as e:  # re-raised below
            errs.append(e)
    th = [threading.Thread(target=bg, args=(["sweep", "-cases", cp, "-out", l4], 600)),
          # a real TCP client that stalls for several seconds in the middle of the replies, then resumes
          threading.Thread(target=bg, args=(["slow", "-out", l3, "-stall", "6500ms" if quick else "12s"], 300))]
    for t in th:
        t.start()
    ctx.harness(["sched", "-scripts", sp, "-out", l1, "-par", "64"], timeout=900)
    ctx.harness(["stress", "-out", l2, "-runs", "2" if quick else "10", "-clients", "8" if quick else "24",
                 "-requests", "150" if quick else "400", "-seed", str(ctx.seed)], timeout=1500)
    for t in th:
        t.join()
    if errs:
        raise errs[0]
    ctx.notes["ledger_sweep_cases"] = len(cases)
    lp = ctx.path("log.ndjson")
    with open(lp, "w") as f:
        f.write(open(l1).read())
        f.write(open(l2).read())
        f.write(open(l3).read())
        f.write(open(l4).read())
    viol, drift = ctx.validate("Trace_Outbox", "Trace_Outbox.cfg", lp, timeout=1200)
    nstress = sum(1 for line in open(l2) if '"ledger"' in line)
    ctx.cov["traces_validated_against_impl"] += len(scheds) + nstress
    ctx.notes["schedules_enacted"] = len(scheds)
    ctx.notes["schedules_infeasible_on_real_code"] = sum(1 for line in open(l1) if '"infeasible":true' in line)
    ctx.notes["stress_connection_ledgers"] = nstress
    for v in viol:
        d = v.get("detail")
        sig = "C14/%s/%s" % (v.get("op"), d.get("sig") if isinstance(d, dict) else "stray-bytes")
        replay = None
        if v.get("op") in ("end", "write") and v.get("run") and v["run"] <= len(scheds):
            replay = {"driver": "vh-outbox sched", "schedule": scheds[v["run"] - 1]}
        else:
            replay = {"driver": "vh-outbox stress", "seed": ctx.seed}
        ctx.add_violation(sig, d, replay)
    for d in drift:
        ctx.add_drift(d)
    nstuck = sum(1 for line in open(l1) if '"op":"stuck"' in line.replace(" ", ""))
    ctx.notes["schedule_runs_not_judged_senders_unfinished"] = nstuck
    if nstuck > max(3, len(scheds) // 10):
        ctx.add_drift({"op": "stuck", "detail": "%d of %d schedule runs did not finish" % (nstuck, len(scheds))})
    ctx.assumptions += [
        "a Write call on a connection is atomic (TCP semantics); schedules are enumerated at the granularity of Write calls",
        "abstract sizes 1/3/5 stand for 120 B / 40 000 B / 70 000 B transactions (copy buffer 32 KiB)",
        "a schedule the real code cannot follow (a lock serialises the senders) is infeasible, not a failure",
    ]
