"""C10: folder transfers reproduce the tree, item by item (Folder.tla).

quick:    MC_Folder exhaustively checks the C10 invariants on every tree with <= 3 nodes (download) / <= 2 nodes
          (upload) and TLC emits every complete behaviour as a script (tree x per-item client choices; local tree x
          pre-existing complete/partial files x cut points, then download again); the Go generator adds seeded
          random larger scripts; `vh-folder` executes all of them on the real server with a reference folder
          client; Trace_Folder validates the recorded log.
thorough: trees with <= 4 / <= 3 nodes (about 87 000 behaviours), thousands of random scripts with trees of up to 60
          nodes and files of up to 1 MiB.
"""
import json
import os

from vlib import Fatal, log

ACTIONS = ["DoDlReq", "DoDlItem", "DoDlEnd", "DoUpReq", "DoUpItem", "DoUpEnd"]
CHUNK = 60000  # events per trace validation run


def sig_of(v):
    return "%s/%s/%s" % (v.get("prop", "C10"), v.get("clause", "?"), v.get("kind", "?"))


def _run_scripts(ctx, scripts, tag):
    """Execute scripts on the real server and validate the log; returns (viol, drift, events, ops)."""
    sp = ctx.path("scripts-%s.ndjson" % tag)
    with open(sp, "w") as f:
        for s in scripts:
            f.write(json.dumps(s) + "\n")
    lp = ctx.path("log-%s.ndjson" % tag)
    ctx.harness(["-scripts", sp, "-out", lp, "-par", "16"], timeout=1500)
    # split at run boundaries so that one TLC run deserialises a bounded log
    chunks, cur, ops, nev = [], [], {}, 0
    for line in open(lp):
        e = json.loads(line)
        ops[e["op"]] = ops.get(e["op"], 0) + 1
        nev += 1
        if e["op"] == "world" and len(cur) >= CHUNK:
            chunks.append(cur)
            cur = []
        cur.append(line)
    if cur:
        chunks.append(cur)
    viol, drift = [], []
    for i, ch in enumerate(chunks):
        cp = ctx.path("log-%s-%d.ndjson" % (tag, i))
        with open(cp, "w") as f:
            f.writelines(ch)
        v, d = ctx.validate("Trace_Folder", "Trace_Folder.cfg", cp, timeout=1500, heap="6g")
        viol += v
        drift += d
    return viol, drift, nev, ops


def _judge(ctx, prop, scripts, viol, drift):
    classes = {}
    for v in viol:
        if v.get("prop") != prop:
            continue
        s = sig_of(v)
        classes[s] = classes.get(s, 0) + 1
        r = v.get("run")
        ctx.add_violation(s, {"clause": v.get("clause"), "kind": v.get("kind"), "op": v.get("op"), "line": v.get("line"),
                              "step": v.get("step"), "detail": v.get("detail")},
                          replay={"driver": "vh-folder", "trace_module": "Trace_Folder",
                                  "script": dict(scripts[r - 1], loc=scripts[r - 1].get("loc", r % 3)) if r and r <= len(scripts) else None})
    for d in drift:
        ctx.add_drift({"clause": d.get("clause"), "kind": d.get("kind"), "op": d.get("op"), "run": d.get("run"),
                       "step": d.get("step"), "detail": d.get("detail")})
    return classes


def _features(scripts):
    f = {"download": 0, "upload": 0, "upload_then_download": 0, "resume_download_items": 0, "skip_items": 0,
         "send_items": 0, "cut_uploads": 0, "pre_partial": 0, "pre_complete": 0, "dot_entries": 0, "empty_folders": 0,
         "name_order_differs_from_path_order": 0, "max_nodes": 0, "max_file_size": 0}
    for s in scripts:
        ops = [x["op"] for x in s["steps"]]
        if s["mode"] == "down":
            f["download"] += 1
        else:
            f["upload"] += 1
            if "dlreq" in ops:
                f["upload_then_download"] += 1
        nodes = list(s["pre"])
        for x in s["steps"]:
            if x["op"] == "dlitem":
                a = x.get("act", 3)
                f["resume_download_items" if a == 2 else "send_items" if a == 1 else "skip_items"] += 1
            if x["op"] == "upitem":
                nodes.append(x)
                if x.get("cut", -1) is not None and x.get("cut", -1) >= 0:
                    f["cut_uploads"] += 1
        for n in s["pre"]:
            if n["kind"] == "file" and s["mode"] == "up":
                f["pre_partial" if n["partial"] else "pre_complete"] += 1
        paths = {tuple(tuple(c) for c in n["path"]) for n in nodes}
        dirs = {tuple(tuple(c) for c in n["path"]) for n in nodes if n["kind"] == "dir"}
        if any(p[-1][:1] == (46,) for p in paths):
            f["dot_entries"] += 1
        if any(not any(q[:-1] == d for q in paths) for d in dirs):
            f["empty_folders"] += 1
        flat = sorted(paths, key=lambda p: b"/".join(bytes(c) for c in p))
        if flat != sorted(paths):
            f["name_order_differs_from_path_order"] += 1
        f["max_nodes"] = max(f["max_nodes"], len(paths))
        f["max_file_size"] = max([f["max_file_size"]] + [n.get("size", 0) for n in nodes])
    return f


def run(ctx, prop):
    quick = ctx.quick()
    ctx.build(name="vh-folder")
    # 1. design level: the C10 invariants hold in the bounded model, every action is taken
    ctx.model_check("MC_Folder", "MC_Folder.cfg" if quick else "MC_Folder_deep.cfg", timeout=1800, coverage=True,
                    must_cover=ACTIONS)
    # 2. every complete behaviour of the bounded model becomes a script
    _, scripts = ctx.generate("MC_Folder", "Gen_Folder.cfg" if quick else "Gen_Folder_deep.cfg", "gen.ndjson", timeout=1800)
    n_tlc = len(scripts)
    # 3. seeded random larger scripts from the Go generator
    for tag, n, big in ([("rnd", 400, False), ("big", 40, True)] if quick else [("rnd", 6000, False), ("big", 1500, True)]):
        gp = ctx.path("gen-%s.ndjson" % tag)
        ctx.harness(["-gen", str(n), "-genout", gp] + (["-big"] if big else []), timeout=300)
        scripts += [json.loads(x) for x in open(gp)]
    ctx.sample({"tlc_script": scripts[min(3000, n_tlc - 1)]})
    ctx.sample({"random_script": scripts[n_tlc]})
    # 4. execute on the real server, 5. validate
    viol, drift, nev, ops = _run_scripts(ctx, scripts, "all")
    classes = _judge(ctx, prop, scripts, viol, drift)
    ctx.cov["traces_validated_against_impl"] += len(scripts)
    ctx.cov["exhaustive"] = True  # the bounded script space of MC_Folder is enumerated completely; the random part is not
    ctx.cov["rule"] = ("scripts = every complete behaviour of MC_Folder within the cfg's bounds (tree x per-item client choice; local tree x "
                       "pre-existing complete/partial files x cut point, then download again), each emitted once by TLC, plus seeded random "
                       "larger scripts from `vh-folder -gen`; every script is executed on the real server and every recorded event is judged by "
                       "Trace_Folder with the operators MC_Folder checks")
    ctx.notes["scripts"] = {"tlc_exhaustive": n_tlc, "random": len(scripts) - n_tlc}
    ctx.notes["events_by_op"] = ops
    ctx.notes["events"] = nev
    ctx.notes["script_features"] = _features(scripts)
    ctx.notes["violation_classes"] = classes
    ctx.assumptions += [
        "file content is a function of the path below the transfer folder; files carry no resource/information side files (PreserveResourceForks off)",
        "names are ASCII (plus one UTF-8 name in random scripts), at most 40 bytes, including names that end in or contain .incomplete and partial files next to their final name (a file x never next to an entry named x.incomplete in an uploaded tree: the server stores x's partial data under that name); nothing hangs below a dot-named folder in TLC scripts (random scripts: 5%, judged as DRIFT only)",
        "the reference client takes 'the bytes that follow' to be everything the server wrote until it blocked reading the connection again (state based, no timing)",
        "an upload is cut only inside the data section of one file; parents are streamed before their content",
        "transfers run over in-memory connections through the real handleFileTransfer; the 3 s courtesy sleep of the handler is not waited for (end of the handler body = removal of the transfer from FileTransferMgr)",
    ]


def replay(ctx, prop, rp):
    sc = (rp.get("replay") or {}).get("script")
    if not sc:
        raise Fatal("replay file has no script")
    ctx.build(name="vh-folder")
    ctx.model_check("MC_Folder", "MC_Folder.cfg", timeout=600, coverage=False)
    viol, drift, nev, ops = _run_scripts(ctx, [sc], "replay")
    _judge(ctx, prop, [sc], viol, drift)
    ctx.cov["traces_validated_against_impl"] += 1
    ctx.sample({"script": sc})
    log("replayed 1 script: %d events, %d VIOL, %d DRIFT" % (nev, len(viol), len(drift)))
