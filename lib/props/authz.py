"""C05, C06, C16: Authz.tla (what a privilege number means, which privilege governs which effect of which request,
account creation without amplification, protected users).

Pipeline of one run:
  1. TLC checks the bounded instance MC_Authz (Mode "all": every case family at the quick size, both readings of
     sequence requests, account-creation chains) against the invariants of the three properties;
  2. TLC emits the property's cases (Gen_Authz_<Cxx>.cfg: exhaustive, one JSON object per transition from the
     fresh world; Tier and Seed select the sampled part) - the invariants are checked on exactly these cases too;
  3. `vh-authz` runs every case in its own fresh world on the real server code and records what it did;
  4. Trace_Authz validates the log and prints VIOL / DRIFT lines.

quick:    ~900 (C05) / ~1000 (C06) / ~290 (C16) cases.
thorough: every single bit and complement per (type, context) (C05: ~14 k cases), all 64 x 64 creator/requested
          pairs on both creation requests (C06: ~25 k), all 780 pairs of defined privileges + 2000 pseudo-random
          subsets (C16: ~3 k).
"""
import json
import os
import re

from vlib import Fatal, log

MODE = {"C05": "c05", "C06": "c06", "C16": "c16"}


def _write_cfg(ctx, name, tier, seed):
    """The cfg templates in spec/ carry Tier = "quick" / Seed = 1; the run's values go into the scratch copy."""
    p = os.path.join(ctx.specdir, name)
    s = open(p).read()
    s = re.sub(r'Tier = "\w+"', 'Tier = "%s"' % ("thorough" if tier == "thorough" else "quick"), s)
    s = re.sub(r"Seed = \d+", "Seed = %d" % (int(seed) % 1000), s)
    with open(p, "w") as f:
        f.write(s)


def _bits(l):
    l = sorted(l or [])
    if len(l) > 8:
        return "%dbits" % len(l)
    return ".".join(str(x) for x in l) or "none"


def sig_of(v):
    """Signature = failing class: property / what / where (row or request) / which channel or bits."""
    st = v.get("step", {})
    d = v.get("detail") if isinstance(v.get("detail"), dict) else {}
    what = v.get("what", "?")
    op = v.get("op")
    if op == "handle":
        parts = [v.get("prop"), what, "%s.%s" % (st.get("t"), st.get("k"))]
        if what == "permitted-request-not-executed":
            parts.append("reply-%s" % st.get("reply"))
        if what == "effect-without-privilege":
            parts.append("+".join(sorted(d.get("changed", []))))
        return "/".join(str(x) for x in parts)
    if op == "create":
        # one class per creation request and place; the privilege numbers gained are listed in the report
        return "/".join(str(x) for x in [v.get("prop"), what, "via%s" % st.get("via")] + ([] if st.get("shape") in (None, "full") else ["access-field-" + st["shape"]]))
    if op == "kick":
        return "%s/%s/ban%s" % (v.get("prop"), what, st.get("ban")) + ("/bystander-%s-address" % st.get("third") if "bystander" in what else "") + ("/shared-account" if st.get("shared") else "")
    if op == "multi":
        return "%s/%s/edit%s/%s" % (v.get("prop"), what, st.get("edit"), d.get("session", "?"))
    if op == "batch":
        return "%s/%s/%s" % (v.get("prop"), what, "+".join(d.get("kinds") or []))
    if op == "open":
        return "%s/%s/editor-%s" % (v.get("prop"), what, "16+17" if 17 in (st.get("racc") or []) else "16")
    if op == "upd":
        return "%s/%s/via%s" % (v.get("prop"), what, st.get("via")) + ("/namesake-%s" % st.get("near") if "bystander" in what else "")
    if op == "rt":
        return "%s/%s/missing=%s/extra=%s" % (v.get("prop"), what, _bits(d.get("missing")), _bits(d.get("extra")))
    return "%s/%s" % (v.get("prop"), what)


def _case_of(ev):
    """The script (input) part of a logged event."""
    keys = {"handle": ("op", "t", "k", "acc", "rd"), "create": ("op", "via", "by", "acc", "login", "want", "shape"),
            "kick": ("op", "acc", "tacc", "ban", "third", "pacc", "shared"), "rt": ("op", "S", "bytes", "names"),
            "upd": ("op", "via", "S", "old", "bytes", "near", "B"),
            "batch": ("op", "acc", "entries"),
            "open": ("op", "S", "racc", "bytes", "rbytes"),
            "multi": ("op", "kind", "edit", "n", "k", "a0", "a1", "ban", "via", "want", "near")}.get(ev.get("op"), ())
    return {k: ev[k] for k in keys if k in ev}


ALLNAMES = None


def _execute(ctx, prop, cases, label):
    sp = ctx.path("scripts-%s.ndjson" % label)
    with open(sp, "w") as f:
        for c in cases:
            f.write(json.dumps(c) + "\n")
    lp = ctx.path("log-%s.ndjson" % label)
    out = ctx.harness(["-scripts", sp, "-out", lp, "-par", "64"], timeout=2400)
    viol, drift = ctx.validate("Trace_Authz", "Trace_Authz.cfg", lp, timeout=2400)
    return lp, viol, drift


def _report(ctx, prop, viol, drift):
    sibling = {}
    gained = {}
    for v in viol:
        if v.get("op") == "create" and str(v.get("what", "")).startswith("amplified"):
            d = v.get("detail") or {}
            gained.setdefault(sig_of(v), set()).update(d.get("mem") if "memory" in v["what"] else d.get("disk"))
    for v in viol:
        if v.get("prop") != prop:
            # a case of this family also witnessed a violation of a sibling property of the same module: that
            # property's own check reports it; noted here
            sibling[sig_of(v)] = sibling.get(sig_of(v), 0) + 1
            continue
        st = v.get("step", {})
        ctx.add_violation(sig_of(v), {"what": v.get("what"), "op": v.get("op"), "line": v.get("line"), "detail": v.get("detail"),
                                      "privileges_gained_over_all_cases": sorted(gained.get(sig_of(v), [])),
                                      "observed": {k: st.get(k) for k in st if k not in ("allnames",)}},
                          replay={"driver": "vh-authz", "trace_module": "Trace_Authz", "case": _case_of(st)})
    if sibling:
        ctx.notes["sibling_property_violations_seen"] = sibling
    for d in drift:
        ctx.add_drift({"what": d.get("what"), "op": d.get("op"), "run": d.get("run"), "detail": d.get("detail"),
                       "case": _case_of(d.get("step", {}))})


def run(ctx, prop):
    quick = ctx.quick()
    ctx.build(name="vh-authz")
    for cfg in ("MC_Authz.cfg", "Gen_Authz_%s.cfg" % prop):
        _write_cfg(ctx, cfg, ctx.tier, ctx.seed)
    # 1. design level
    r = ctx.model_check("MC_Authz", "MC_Authz.cfg", timeout=900, coverage=False)
    if r.distinct < 2500 or r.depth < 3:
        raise Fatal("vacuous model check of MC_Authz: %d states, depth %d" % (r.distinct, r.depth))
    # 2. cases
    _, cases = ctx.generate("MC_Authz", "Gen_Authz_%s.cfg" % prop, "gen.ndjson", workers=1, timeout=1800)
    ops = {}
    for c in cases:
        ops[c["op"]] = ops.get(c["op"], 0) + 1
    if prop == "C05":
        types = {c["t"] for c in cases if c["op"] == "handle"}
        rows = {(c["t"], c["k"]) for c in cases if c["op"] == "handle"}
        if len(types) != 43 or len(rows) < 70:
            raise Fatal("case generation does not cover the 43 transaction types (%d types, %d rows)" % (len(types), len(rows)))
        ctx.notes["rows"] = len(rows)
    if prop == "C06" and (ops.get("create", 0) < 500 or ops.get("kick", 0) < 30):
        raise Fatal("too few C06 cases: %s" % ops)
    if prop == "C16" and (ops.get("rt", 0) < 250 or ops.get("upd", 0) < 200):
        raise Fatal("too few C16 cases: %s" % ops)
    ctx.notes["cases_by_op"] = ops
    # 3 + 4. real code, then the specification judges
    lp, viol, drift = _execute(ctx, prop, cases, "main")
    ctx.cov["traces_validated_against_impl"] += len(cases)
    # samples of real observations
    want = {"C05": [("handle", 204), ("handle", 203)], "C06": [("create", None), ("kick", None)], "C16": [("rt", None)]}[prop]
    seen = set()
    for line in open(lp):
        ev = json.loads(line)
        key = (ev.get("op"), ev.get("t") if ev.get("op") == "handle" else None)
        if key in want and key not in seen and (ev.get("acc") or ev.get("S")):
            seen.add(key)
            ev.pop("allnames", None)
            ctx.sample(ev)
        if len(seen) == len(want):
            break
    _report(ctx, prop, viol, drift)
    ctx.assumptions += [
        "every case runs in its own fresh world (real server, real stores on a temp dir, two logged-in clients over in-memory connections); histories of one privileged request, not sequences",
        "the requester's account gets the case's 64-bit bitmap through the real account manager before it logs in",
        "a privilege refusal is recognised by the error text (\"You are not allowed to ...\" / \"... only allowed to upload to the ...\"); an error reply with another text while every reading's privilege is held is reported as drift, never as a violation",
        "where the statement or the protocol document can be read in several ways (folder transfers 38/39 vs 1/2, list requests without an Access line, refused sequence requests) a violation must contradict every reading",
        "delayed disconnects are awaited with a bound (6 s after a positive reply, 1.6-1.8 s after a refusal)",
        "the number<->meaning table and the bit layout in Authz.tla are the trusted transcription of the protocol document (0..37) and of the de-facto numbers 38, 39, 40",
    ]


def replay(ctx, prop, rp):
    """Re-run the one recorded case on the real code and validate it."""
    case = (rp.get("replay") or {}).get("case")
    if not case:
        raise Fatal("replay file carries no case")
    ctx.build(name="vh-authz")
    if case.get("op") == "rt":
        # the key list of the named format comes from the specification
        _write_cfg(ctx, "Gen_Authz_C16.cfg", "quick", 1)
        _, cases = ctx.generate("MC_Authz", "Gen_Authz_C16.cfg", "gen.ndjson", workers=1, timeout=600)
        case["allnames"] = cases[0]["allnames"]
    lp, viol, drift = _execute(ctx, prop, [case], "replay")
    ctx.cov["traces_validated_against_impl"] += 1
    ctx.sample(json.loads(open(lp).readline()))
    _report(ctx, prop, viol, drift)
    log("replayed %s: %d violation record(s)" % (rp.get("signature"), len([v for v in viol if v.get("prop") == prop])))
