#!/opt/veriftools/pyvenv/bin/python
"""Binding demonstration for C15 (not part of `vcheck run`): builds `vh-accounts` against scratch MUTATIONS of /repo
(`go build -overlay`, /repo itself is never touched), executes TLC-generated scripts on each mutant and validates the
log with Trace_Accounts.  Every mutant must be rejected (VIOL lines) with the listed signature class; the unmutated
tree must be accepted.  Usage: lib/props/accounts_mutants.py [n_scripts]      (about 2 minutes)

  r1  revert eeebad7: rename deletes the new key instead of the old one (F17)      -> update[..ren!..]/canLogin:extra,listed:extra
  r2  revert cc0cf25: passwords > 72 bytes are not truncated before bcrypt         -> ..{pw>72}/canLogin:missing,files:not-a-hash
  r3  revert a27ec8c: temporary file named <login>.yaml.tmp                        -> ..{login>246}/..missing | files:file-name
  m1  set-user stores the 'unchanged' marker as a new password                     -> setuser/..password
  m3  new accounts store the password as sent                                      -> newuser/..files:clear-text-password
  m4  delete removes the file but keeps the in-memory entry                        -> deluser/canLogin:extra,listed:extra
  m5  update-user modify: an absent password leaves the password alone             -> update[put]/..password
"""
import collections
import json
import os
import shutil
import subprocess
import sys
import tempfile

HERE = os.path.dirname(os.path.abspath(__file__))
VERIF = os.path.dirname(os.path.dirname(HERE))
sys.path.insert(0, os.path.join(VERIF, "lib"))
sys.path.insert(0, HERE)
import accounts  # noqa: E402
import vlib  # noqa: E402

AM = "/repo/internal/mobius/account_manager.go"
TH = "/repo/internal/mobius/transaction_handlers.go"
AC = "/repo/hotline/account.go"

MUTANTS = {
    "r1": (AM, "\t\tdelete(am.accounts, account.Login)\n\n\t\taccount.Login = newLogin\n\t\tam.accounts[newLogin] = account\n",
           "\t\taccount.Login = newLogin\n\t\tam.accounts[newLogin] = account\n\n\t\tdelete(am.accounts, account.Login)\n", "ren!"),
    "r2": (AC, "\tif len(pwd) > 72 {\n\t\tpwd = pwd[:72]\n\t}\n", "", "{pw>72}"),
    "r3": (AM, "\tf, err := os.CreateTemp(dir, \".tmp-account-*\")\n",
           "\tf, err := os.OpenFile(path+\".tmp\", os.O_CREATE|os.O_WRONLY|os.O_TRUNC, 0600)\n", "{login>246}"),
    "m1": (TH, "\tif !bytes.Equal([]byte{0}, t.GetField(hotline.FieldUserPassword).Data) {\n\t\taccount.Password = hotline.HashAndSalt(t.GetField(hotline.FieldUserPassword).Data)",
           "\tif t.GetField(hotline.FieldUserPassword).Data != nil {\n\t\taccount.Password = hotline.HashAndSalt(t.GetField(hotline.FieldUserPassword).Data)", "setuser/"),
    "m3": (AC, "\t\tPassword: HashAndSalt([]byte(password)),", "\t\tPassword: password,", "clear-text-password"),
    "m4": (AM, "\tdelete(am.accounts, login)\n\n\treturn nil", "\treturn nil", "deluser/canLogin:extra,listed:extra"),
    "m5": (TH, "\t\t\t} else {\n\t\t\t\tacc.Password = hotline.HashAndSalt([]byte(\"\"))\n\t\t\t}\n", "\t\t\t}\n", "password"),
}

TLC = ["java", "-XX:+UseParallelGC", "-Xss64m", "-cp", "/opt/veriftools/tla/tla2tools.jar:/opt/veriftools/tla/CommunityModules-deps.jar", "tlc2.TLC"]


def tlc(specdir, md, args, timeout=900):
    p = subprocess.run(TLC + ["-metadir", md, "-noGenerateSpecTE"] + args, cwd=specdir, timeout=timeout, stdout=subprocess.PIPE,
                       stderr=subprocess.STDOUT, text=True)
    return p.stdout


def main():
    n = int(sys.argv[1]) if len(sys.argv) > 1 else 70
    work = tempfile.mkdtemp(prefix="acc-mut.", dir=os.environ.get("VERIF_SCRATCH", "/var/tmp"))
    rc = 0
    try:
        spec = os.path.join(work, "spec")
        shutil.copytree(os.path.join(VERIF, "spec"), spec)
        scripts = os.path.join(work, "scripts.ndjson")
        with open(scripts, "w") as f:
            for cfg, seed in (("Gen_Accounts_all.cfg", 31), ("Gen_Accounts_noren.cfg", 32)):
                out = tlc(spec, os.path.join(work, "mdg"), ["-workers", "1", "-simulate", "num=%d" % n, "-depth", "15", "-seed", str(seed), "-config", cfg, "MC_Accounts.tla"])
                for line in out.splitlines():
                    if line.startswith('"B '):
                        f.write(json.loads(line)[2:] + "\n")
        for name in ["none"] + sorted(MUTANTS):
            binp = os.path.join(work, "vh-" + name)
            cmd = ["go", "build", "-tags", "verif", "-o", binp]
            expect = None
            if name != "none":
                src, old, new, expect = MUTANTS[name]
                text = open(src).read()
                if old not in text:
                    print("%-4s SKIPPED: the mutated code is no longer in %s" % (name, src))
                    rc = 2
                    continue
                mf = os.path.join(work, name + "_" + os.path.basename(src))
                open(mf, "w").write(text.replace(old, new))
                ov = os.path.join(work, name + ".json")
                json.dump({"Replace": {src: mf}}, open(ov, "w"))
                cmd += ["-overlay", ov]
            subprocess.run(cmd + ["./cmd/vh-accounts"], cwd=os.path.join(VERIF, "harness"), env=vlib.GOENV, check=True, timeout=900)
            env = dict(os.environ, VERIF_SCRATCH=work, VERIF_SEED="1")
            lp = os.path.join(spec, "log.ndjson")
            subprocess.run([binp, "-scripts", scripts, "-out", lp, "-big", "2"], check=True, timeout=900, env=env,
                           stdout=subprocess.DEVNULL, stderr=subprocess.DEVNULL)
            out = tlc(spec, os.path.join(work, "mdt"), ["-workers", "1", "-config", "Trace_Accounts.cfg", "Trace_Accounts.tla"])
            sigs = collections.Counter()
            drift = 0
            for line in out.splitlines():
                if line.startswith('"VIOL '):
                    sigs[accounts.sig_of(json.loads(json.loads(line)[5:]))] += 1
                elif line.startswith('"DRIFT '):
                    drift += 1
            consumed = "Model checking completed. No error" in out
            hit = sum(v for k, v in sigs.items() if expect and expect in k)
            good = consumed and ((name == "none" and not sigs and not drift) or (name != "none" and hit > 0))
            print("%-4s %s  consumed=%s VIOL=%d (expected class: %d) DRIFT=%d" % (name, "ok  " if good else "FAIL", consumed, sum(sigs.values()), hit, drift))
            for k, v in sigs.most_common(3):
                print("       %4d %s" % (v, k))
            if not good:
                rc = 1
    finally:
        shutil.rmtree(work, ignore_errors=True)
    return rc


if __name__ == "__main__":
    sys.exit(main())
