"""C02: segmentation-independent parsing of client byte streams (Stream.tla).

quick:    MC_Stream exhaustive (abstract lengths, every Deliver/Consume/AskMore schedule) + the `onecall` mechanism
          refuted (non-vacuity); the driver describes its session library (real frame lengths); Gen_Stream
          enumerates the unsegmented / one-cut / two-cut / one-byte segmentations and random walks; a seeded
          sample is executed by `vh-stream` on the real handlers; Trace_Stream validates the recorded log.
thorough: deeper MC bounds, two-cut enumeration for every session, all one-cuts, thousands of two-cuts per
          session, many more random walks.
"""
import json
import os
import random

import vlib
from vlib import Fatal, log

DRIVER = "vh-stream"
CHUNK = 60000  # log lines per trace-validation run


def sig_of(v):
    if v.get("kind") == "abandoned":
        return "C02/abandoned/%s" % v.get("class")
    return "C02/%s/%s/%s" % (v.get("kind"), v.get("class"), v.get("sess"))


def _binary(ctx):
    pre = os.environ.get("VERIF_STREAM_BIN")  # binding demonstrations: a driver built with `go build -overlay`
    if pre:
        ctx.bin = pre
        log("using prebuilt driver", pre)
        return pre
    return ctx.build(name=DRIVER)


def _design(ctx):
    quick = ctx.quick()
    ctx.model_check("MC_Stream", "MC_Stream.cfg" if quick else "MC_Stream_deep.cfg", timeout=600, coverage=False)
    # non-vacuity: the same invariant refutes the one-call record reader of the pinned tree's handshake code
    r = vlib.tlc(ctx, "MC_Stream", cfg="MC_Stream_onecall.cfg", workers=1, timeout=300)
    if r.violated != "SegmentationIndependent":
        raise Fatal("vacuous design check: Mode=onecall was not refuted by SegmentationIndependent:\n%s" % r.out[-2000:])
    ctx.notes["mutant_model_refuted"] = {"cfg": "MC_Stream_onecall.cfg", "violated": r.violated, "states": r.distinct}


def _describe(ctx):
    sp = os.path.join(ctx.specdir, "sessions.ndjson")
    ctx.harness(["-describe", sp], timeout=120)
    sessions = [json.loads(x) for x in open(sp) if x.strip()]
    if not sessions:
        raise Fatal("driver described no sessions")
    return sessions


def _pick(rng, items, cap):
    if len(items) <= cap:
        return list(items)
    return rng.sample(items, cap)


def _scripts(ctx, sessions):
    quick = ctx.quick()
    rng = random.Random(ctx.seed * 1000003 + 17)
    _, cuts = ctx.generate("Gen_Stream", "Gen_Stream_cuts.cfg" if quick else "Gen_Stream_cuts_all.cfg", "cuts.ndjson",
                           timeout=1200, workers=min(8, vlib.NCPU))
    sims = []
    for b in range(1 if quick else 4):
        _, it = ctx.generate("Gen_Stream", "Gen_Stream_sim.cfg", "sim%d.ndjson" % b, simulate=40 if quick else 250,
                             depth=900, extra_seed=b, timeout=900)
        sims += it
    by = {}
    for s in cuts + sims:
        src = s["src"].split("-")[0] if s["src"].startswith("sim") else s["src"]
        by.setdefault((s["sess"], src), {})[json.dumps(s["segs"])] = s   # de-duplicated
    caps = {"cut0": 1, "cut1": 30 if quick else 10 ** 9, "cut2": 70 if quick else 1500, "ones": 1, "ones-head": 1, "chunks": 6, "frames": 3,
            "sim": 25 if quick else 300}
    out = []
    nframes = {x["sess"]: len(x["frames"]) for x in sessions}
    gen_counts = {}
    for key in sorted(by, key=lambda k: (k[0], k[1] != "cut0", k[1])):   # the unsegmented run first
        pool = [by[key][k] for k in sorted(by[key])]
        gen_counts["%s/%s" % key] = len(pool)
        cap = caps.get(key[1], 50)
        if quick and nframes.get(key[0], 0) > 60:   # very many frames: every event is dear in trace validation
            cap = {"cut1": 6, "cut2": 0, "sim": 3}.get(key[1], cap)
            if key[1] == "chunks":
                pool = [x for x in pool if x["segs"][0] >= 64]
        if quick and key[1] in ("ones", "ones-head"):
            total = next(x["total"] for x in sessions if x["sess"] == key[0])
            if total > 450:
                continue
        out += _pick(rng, pool, cap)
    ctx.notes["generated_by_session_and_kind"] = gen_counts
    return out


def _run_and_validate(ctx, scripts, extra_args=()):
    sp = ctx.path("scripts.ndjson")
    with open(sp, "w") as f:
        for s in scripts:
            f.write(json.dumps(s) + "\n")
    lp = ctx.path("log.ndjson")
    ctx.harness(["-scripts", sp, "-out", lp, "-par", "64", "-xpar", "800"] + list(extra_args), timeout=2400)
    # validate in chunks of whole runs
    chunks, curr = [], []
    ops = {}
    for line in open(lp):
        if '"op":"world"' in line and len(curr) >= CHUNK:
            chunks.append(curr)
            curr = []
        curr.append(line)
    if curr:
        chunks.append(curr)
    viol, drift = [], []
    for i, ch in enumerate(chunks):
        cp = ctx.path("chunk%d.ndjson" % i)
        with open(cp, "w") as f:
            f.writelines(ch)
        v, d = ctx.validate("Trace_Stream", "Trace_Stream.cfg", cp, timeout=2400, heap="8g")
        viol += v
        drift += d
    for line in open(lp):
        o = json.loads(line).get("op")
        ops[o] = ops.get(o, 0) + 1
    ctx.notes["events_by_op"] = ops
    return viol, drift


def _report(ctx, scripts, viol, drift):
    for v in viol:
        run_id = v.get("run")
        script = scripts[run_id - 1] if run_id and 0 < run_id <= len(scripts) else None
        st = v.get("step", {})
        what = {"kind": v.get("kind"), "class": v.get("class"), "session": v.get("sess"), "segments": (v.get("segs") or [])[:12],
                "op": v.get("op"), "delivered": st.get("d", st.get("at")), "server_error": st.get("err"),
                "detail": v.get("detail")}
        ctx.add_violation(sig_of(v), what, replay={"driver": DRIVER, "trace_module": "Trace_Stream", "script": script})
    for d in drift:
        ctx.add_drift({"run": d.get("run"), "kind": d.get("kind"), "class": d.get("class"), "sess": d.get("sess"),
                       "segs": (d.get("segs") or [])[:12], "step": d.get("step"), "detail": d.get("detail")})


ASSUMPTIONS = [
    "sessions are the fixed library built by the driver's independent codec (two login styles, common requests, large and many small transactions, uploads with/without resource fork incl. empty and >32 KiB data, download, folder upload); segmentations quantify over that library",
    "a scripted segment larger than the buffer the server passes to Read is handed over in pieces, as a kernel socket buffer would",
    "transactions are written by an in-order pump (real sendTransaction); their order is not compared, only the canonical multiset; ids of server-initiated transactions and transfer reference numbers are random and ignored",
    "transfer sessions obtain their reference number over an unsegmented control connection in the same world",
    "intermediate fork bytes on disk are compared as model bookkeeping only (drift), the statement constrains replies and final state",
]


def run(ctx, prop):
    _binary(ctx)
    _design(ctx)
    sessions = _describe(ctx)
    scripts = _scripts(ctx, sessions)
    kinds = {}
    for s in scripts:
        k = s["src"].split("-")[0] if s["src"].startswith("sim") else s["src"]
        kinds[k] = kinds.get(k, 0) + 1
    ctx.notes["scripts"] = len(scripts)
    ctx.notes["scripts_by_kind"] = kinds
    ctx.notes["sessions"] = {s["sess"]: {"bytes": s["total"], "frames": len(s["frames"])} for s in sessions}
    log("scripts: %d %s" % (len(scripts), kinds))
    extra = []
    if os.environ.get("VERIF_STREAM_CORRUPT"):   # binding demonstration: falsify one logged field of run 1
        extra = ["-corrupt", os.environ["VERIF_STREAM_CORRUPT"]]
    viol, drift = _run_and_validate(ctx, scripts, extra)
    ctx.cov["traces_validated_against_impl"] += len(scripts)
    for s in scripts[:400:97]:
        ctx.sample({"session": s["sess"], "kind": s["src"], "segments": s["segs"][:16], "segment_count": len(s["segs"])})
    _report(ctx, scripts, viol, drift)
    ctx.assumptions += ASSUMPTIONS


def replay(ctx, prop, rp):
    script = (rp.get("replay") or {}).get("script")
    if not script:
        raise Fatal("replay file carries no script")
    _binary(ctx)
    ctx.model_check("MC_Stream", "MC_Stream.cfg", timeout=600, coverage=False)
    _describe(ctx)
    viol, drift = _run_and_validate(ctx, [script])
    ctx.cov["traces_validated_against_impl"] += 1
    ctx.sample({"replayed": script["sess"], "segments": script["segs"][:16]})
    _report(ctx, [script], viol, drift)
    ctx.assumptions += ASSUMPTIONS
