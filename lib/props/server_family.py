"""C04, C12, C13, C17: Server.tla (connections, login gate, presence, chat, bans).

quick:    MC_Server exhaustive to depth 6; TLC simulation writes action scripts (one TLA+ behaviour each); the Go
          driver `vharness srv` executes them on the real server; Trace_Server validates the recorded log.
thorough: deeper exhaustive bound, several simulation batches with different seeds and more scripts.
"""
import json
import os
from vlib import Fatal, log


def sig_of(rec):
    d = rec.get("detail") if isinstance(rec.get("detail"), dict) else {}
    st = rec.get("step", {})
    exp = d.get("expected", [])
    got = st.get("deliv", [])

    def key(m):
        return "%s%s>%s" % ("r" if m.get("rep") else "t", m.get("t") if not m.get("rep") else ("E" if m.get("err") else ""), "self" if m.get("to") == st.get("c") else "other")
    e = sorted(key(m) for m in exp)
    g = sorted(key(m) for m in got)
    extra = sorted(set(g) - set(e))
    missing = sorted(set(e) - set(g))
    parts = [rec.get("op", "?")]
    if d.get("dupId"):
        parts.append("duplicate-live-id")
    if extra:
        parts.append("extra=" + ",".join(extra))
    if missing:
        parts.append("missing=" + ",".join(missing))
    if not extra and not missing and not d.get("okDeliv", True):
        parts.append("content-differs")
    if not d.get("okClosed", True):
        parts.append("closed-set-differs")
    if not d.get("okBan", True):
        parts.append("ban-entry-differs")
    if not d.get("okState", True):
        parts.append("state-changed-before-login")
    if not d.get("okChurn", True):
        parts.append("id-of-connected-user-reused")
    if not d.get("okCred", True):
        parts.append("stored-credentials-differ-from-current-password")
    if not d.get("okStorm", True):
        parts.append("concurrent-storm")
    return "%s/%s" % (rec.get("prop"), "/".join(parts))


def directed(prop, world, quick):
    """Directed histories (still judged by Trace_Server like every other script): combinations the random walks
    reach too rarely."""
    A, B = [65], [66, 98]

    def connect(c, addr="10.1.1.1"):
        return {"op": "connect", "c": c, "addr": addr}

    def login(c, login="", pw=(), flow="old", name=A):
        return {"op": "login", "c": c, "login": login, "pw": list(pw), "flow": flow, "name": name, "icon": 1, "id": 0}
    out = []
    if prop == "C12":
        # a member that disconnects without leaving the chat; later a newcomer may be given its user ID
        for churn in (0, 65534, 65535):
            for extra in ([], [{"op": "subject", "c": 1, "chat": 1, "subject": [83]}]):
                steps = [connect(1), login(1, "adm", [1]), connect(2, "10.2.2.2"), login(2), {"op": "invitenew", "c": 1, "target": 2},
                         {"op": "join", "c": 2, "chat": 1}, {"op": "chat", "c": 2, "chat": 1, "msg": [104], "emote": False},
                         {"op": "close", "c": 2}]
                if churn:
                    steps.append({"op": "churn", "n": churn})
                steps += [connect(3, "10.2.2.2"), login(3, name=B), {"op": "chat", "c": 1, "chat": 1, "msg": [105], "emote": False}] + extra
                steps += [connect(4, "10.1.1.12"), login(4, "mod", [3]), {"op": "join", "c": 4, "chat": 1},
                          {"op": "chat", "c": 4, "chat": 1, "msg": [106], "emote": True}, {"op": "leave", "c": 4, "chat": 1},
                          {"op": "chat", "c": 1, "chat": 1, "msg": [107], "emote": False}]
                out.append({"world": world, "steps": steps})
    if prop == "C12":
        # the same user joins the same chat twice (two invitations accepted), talks, leaves once, and again
        steps = [connect(1), login(1, "adm", [1]), connect(2, "10.2.2.2"), login(2), connect(3, "10.1.1.12"), login(3, "mod", [3]),
                 {"op": "invitenew", "c": 1, "target": 2}, {"op": "join", "c": 2, "chat": 1}, {"op": "invite", "c": 1, "chat": 1, "target": 2},
                 {"op": "join", "c": 2, "chat": 1}, {"op": "chat", "c": 1, "chat": 1, "msg": [104], "emote": False},
                 {"op": "subject", "c": 1, "chat": 1, "subject": [83]}, {"op": "join", "c": 3, "chat": 1},
                 {"op": "leave", "c": 2, "chat": 1}, {"op": "chat", "c": 1, "chat": 1, "msg": [105], "emote": True},
                 {"op": "leave", "c": 2, "chat": 1}, {"op": "chat", "c": 3, "chat": 1, "msg": [106], "emote": False}]
        out.append({"world": world, "steps": steps})
    if prop == "C04":
        # handshakes that differ from TRTP/HOTL in letter case only, followed by valid credentials
        steps, c = [], 0
        for hs in ("lower", "mixed", "badproto", "badsub"):
            c += 1
            steps.append({"op": "rawfail", "c": c, "addr": "10.1.1.%d" % (c if c != 2 else 12), "hs": hs, "matches": True, "sentFirst": True,
                          "login": "adm", "pw": [1], "trailing": 2})
        steps += [connect(c + 1, "10.2.2.2"), login(c + 1, "adm", [1]), {"op": "userlist", "c": c + 1}]
        out.append({"world": world, "steps": steps})
        # the bitwise complement of the right password field (the clear password where the obfuscated one belongs)
        for who, pw in (("adm", [1]), ("mute", [2])):
            comp = [255 - b for b in pw]
            steps = [connect(1), login(1, who, comp), connect(2), login(2, who, comp, flow="new"), connect(3), login(3, who, pw)]
            out.append({"world": world, "steps": steps})
        # k failed attempts from one address, then a valid login from the same address and from another one
        for k in (1, 3, 5, 6, 9):
            steps, c = [], 0
            for i in range(k):
                c += 1
                if i % 2 == 0:
                    steps.append({"op": "rawfail", "c": c, "addr": "10.1.1.1", "hs": "ok", "matches": False, "sentFirst": True,
                                  "login": "adm", "pw": [9], "trailing": i % 3})
                else:
                    steps += [connect(c), login(c, "adm", [2])]
            steps += [connect(c + 1), login(c + 1, "adm", [1]), connect(c + 2, "10.2.2.2"), login(c + 2),
                      {"op": "userlist", "c": c + 1}]
            out.append({"world": world, "steps": steps})
        # a password change through the protocol, then the old and the new password (the old one used before)
        for who, old, newpw in (("mute", [2], [5]), ("adm", [1], [6])):
            steps = [connect(1), login(1, who, old), {"op": "close", "c": 1},
                     connect(2, "10.1.1.12"), login(2, "adm", [1]),
                     {"op": "setuser", "c": 2, "login": who, "name": [120], "acc": [9, 10, 17, 22], "pwset": True, "newpw": newpw},
                     connect(3, "10.2.2.2"), login(3, who, old), connect(4, "10.2.2.2"), login(4, who, newpw),
                     connect(5, "10.2.2.2"), login(5, who, old, flow="new")]
            out.append({"world": world, "steps": steps})
    if prop == "C13":
        # a user with an empty nickname (both login flows) is a user all the same: listed, announced, addressable
        for flow in ("old", "new"):
            steps = [connect(1), login(1, "adm", [1]), {"op": "userlist", "c": 1}, connect(2, "10.2.2.2"), login(2, "", [], flow=flow, name=[])]
            if flow == "new":
                steps.append({"op": "agreed", "c": 2, "name": [], "icon": 2, "opts": 0, "auto": [33]})
            steps += [{"op": "userlist", "c": 1}, {"op": "userlist", "c": 2}, {"op": "pm", "c": 1, "target": 2, "msg": [112]},
                      {"op": "getinfo", "c": 1, "target": 2}, {"op": "setinfo", "c": 2, "name": [], "icon": 3, "icon4": False, "opts": 0, "auto": [34]},
                      {"op": "userlist", "c": 1}, {"op": "close", "c": 2}, {"op": "userlist", "c": 1}]
            out.append({"world": world, "steps": steps})
        # private messages to recipients with every combination of refuse-messages and automatic reply
        for opts in (0, 1, 4, 5, 7):
            steps = [connect(1), login(1, "adm", [1]), connect(2, "10.2.2.2"), login(2, "", [], flow="new", name=A),
                     {"op": "agreed", "c": 2, "name": B, "icon": 2, "opts": opts, "auto": [33]},
                     {"op": "pm", "c": 1, "target": 2, "msg": [112]}, {"op": "pm", "c": 2, "target": 1, "msg": [112]},
                     {"op": "setinfo", "c": 2, "name": B, "icon": 3, "icon4": False, "opts": 5 if opts == 0 else 0, "auto": [34]},
                     {"op": "pm", "c": 1, "target": 2, "msg": [112]}, {"op": "userlist", "c": 1}]
            out.append({"world": world, "steps": steps})
        # a disconnect in two steps (peer gone / registry entry removed) with another user's request in between
        steps = [connect(1), login(1, "adm", [1]), connect(2, "10.2.2.2"), login(2), connect(3, "10.1.1.12"), login(3, "mod", [3]),
                 {"op": "userlist", "c": 1}, {"op": "closebegin", "c": 2}, {"op": "userlist", "c": 1}, {"op": "pm", "c": 3, "target": 2, "msg": [112]},
                 {"op": "closeend", "c": 2}, {"op": "userlist", "c": 1}, {"op": "userlist", "c": 3}]
        out.append({"world": world, "steps": steps})
        # a kick with a ban while another user is connected from the victim's address: only the addressed user goes
        for ban in (0, 1, 2):
            steps = [connect(1), login(1, "adm", [1]), connect(2, "10.2.2.2"), login(2), connect(3, "10.2.2.2"), login(3, name=B),
                     {"op": "userlist", "c": 1}, {"op": "kick", "c": 1, "target": 2, "ban": ban}, {"op": "userlist", "c": 1},
                     {"op": "pm", "c": 1, "target": 3, "msg": [112]}, {"op": "userlist", "c": 3}]
            out.append({"world": world, "steps": steps})
        # away and back: everybody, the user itself included, is told both times
        steps = [connect(1), login(1, "adm", [1]), connect(2, "10.2.2.2"), login(2), {"op": "userlist", "c": 1}, {"op": "userlist", "c": 2},
                 {"op": "goneidle", "c": 2}, {"op": "wake", "c": 2}, {"op": "userlist", "c": 1}, {"op": "userlist", "c": 2}]
        out.append({"world": world, "steps": steps})
    if prop == "C17":
        # the administrator and the victim connected from the same address (NAT): the ban is recorded all the same
        for ban in (1, 2):
            steps = [connect(1, "10.2.2.2"), login(1, "adm", [1]), connect(2, "10.2.2.2"), login(2), {"op": "kick", "c": 1, "target": 2, "ban": ban},
                     connect(3, "10.2.2.2"), {"op": "restart"}, connect(4, "10.2.2.2"), connect(5, "10.1.1.1"), login(5)]
            out.append({"world": world, "steps": steps})
        # a temporary ban over an entry that has run out, and over one that is still running (second user behind the
        # same address, logged in before the first ban)
        for first in ("past", "soon"):
            steps = [connect(1), login(1, "adm", [1])]
            if first == "past":
                steps += [{"op": "banadd", "addr": "10.2.2.2", "class": "past"}, connect(2, "10.2.2.2"), login(2)]
            else:
                steps += [connect(2, "10.2.2.2"), login(2), {"op": "banadd", "addr": "10.2.2.2", "class": "soon"}]
            steps += [{"op": "kick", "c": 1, "target": 2, "ban": 1}]
            if first == "soon":
                steps.append({"op": "wait"})
            steps += [connect(3, "10.2.2.2"), {"op": "restart"}, connect(4, "10.2.2.2"), connect(5, "10.1.1.12"), login(5)]
            out.append({"world": world, "steps": steps})
    return out


def run(ctx, prop):
    quick = ctx.quick()
    ctx.build()
    # 1. design level: exhaustive model check of the bounded instance
    ctx.model_check("MC_Server", "MC_Server.cfg", timeout=2400, coverage=False)
    if not quick:
        # deeper exhaustive search restricted to the step kinds of this property's family
        ctx.model_check("MC_Server", "MC_Server_deep_%s.cfg" % prop, timeout=3000, coverage=False)
    # 2. behaviours -> scripts
    batches = 1 if quick else 6
    nsim = {"C04": 60, "C12": 28, "C13": 26, "C17": 60}[prop] if quick else 150
    scripts = []
    for b in range(batches):
        _, items = ctx.generate("MC_Server", "Gen_Server_%s.cfg" % prop, "gen%d.ndjson" % b, simulate=nsim, depth=40,
                                extra_seed=b + {"C04": 100, "C12": 200, "C13": 300, "C17": 400}[prop], timeout=600)
        # TLC prints every candidate successor at the last depth: keep every 7th to avoid near-duplicates
        scripts += items[::7]
        if prop == "C04":
            # second profile: few argument variants, so that password changes, two-step logins and other users'
            # activity between the two steps are frequent
            _, items2 = ctx.generate("MC_Server", "Gen_Server_C04b.cfg", "genb%d.ndjson" % b, simulate=nsim, depth=40,
                                     extra_seed=b + 150, timeout=600)
            scripts += items2[::5]
            # third profile: only connects, logins and account edits (credential-change histories)
            _, items3 = ctx.generate("MC_Server", "Gen_Server_C04c.cfg", "genc%d.ndjson" % b, simulate=nsim, depth=40,
                                     extra_seed=b + 170, timeout=600)
            scripts += items3[::4]
    # free-running concurrency that is sound under every interleaving: a chat with permanent members, churning
    # members and outsiders (C12); simultaneous bans by several administrators followed by a restart (C17)
    world = scripts[0]["world"]
    # accounts listed as broken get an unusable stored hash (rotating over a few kinds)
    kinds = ["", "plaintext", "$2a$04$short", "$2a$99$6Yq/TIlgjSD.FbARwtYs9ODnkHawonu1TJ5W2jJKfhnHwBIQTk./y"]
    for i, sc in enumerate(scripts):
        for b in sc["world"].get("broken", []):
            if b in sc["world"]["accts"]:
                sc["world"]["accts"][b] = dict(sc["world"]["accts"][b], rawhash=kinds[i % len(kinds)])
    if prop == "C12":
        for k in range(2 if quick else 10):
            scripts.append({"world": world, "steps": [{"op": "chatstorm", "members": 4, "churners": 3, "outsiders": 2, "lines": 25}]})
    if prop == "C17":
        for k in range(8 if quick else 40):
            scripts.append({"world": world, "steps": [{"op": "banstorm", "n": 24}]})
    scripts += [dict(d, directed=True) for d in directed(prop, world, quick)]
    # an idle step waits for the server's real 10 s ticker: keep at most one (quick) / three (thorough) per script
    for idx, sc in enumerate(scripts):
        keep, seen, dropwake = [], 0, set()
        limit = (1 if (idx % 3 == 0 or sc.get("directed")) else 0) if quick else 3
        for st in sc["steps"]:
            if st.get("op") == "goneidle":
                seen += 1
                if seen > limit:
                    dropwake.add(st["c"])
                    continue
            if st.get("op") == "wake" and st["c"] in dropwake:
                dropwake.discard(st["c"])
                continue
            keep.append(st)
        sc["steps"] = keep
    sp = ctx.path("scripts.ndjson")
    with open(sp, "w") as f:
        for s in scripts:
            f.write(json.dumps(s) + "\n")
    ctx.sample({"script": scripts[0]["steps"][:12]})
    # 3. execute on the real server
    lp = ctx.path("log.ndjson")
    l1, l2 = ctx.path("log1.ndjson"), ctx.path("log2.ndjson")
    ctx.harness(["srv", "-scripts", sp, "-out", l1, "-par", "64"], timeout=1500)
    # the same behaviours again with seeded random names / messages of boundary sizes (8192-byte chat limit etc.)
    if prop != "C17":
        ctx.harness(["srv", "-scripts", sp, "-out", l2, "-par", "64", "-decorate", str(ctx.seed + 1)], timeout=1500)
    else:
        open(l2, "w").close()
    off = len(scripts)
    with open(lp, "w") as f:
        f.write(open(l1).read())
        for line in open(l2):
            e = json.loads(line)
            e["run"] = e["run"] + off
            f.write(json.dumps(e) + "\n")
    if prop != "C17":
        scripts = scripts + scripts
    # 4. validate the recorded log against the specification
    viol, drift = ctx.validate("Trace_Server", "Trace_Server.cfg", lp, timeout=1500)
    ctx.cov["traces_validated_against_impl"] += len(scripts)
    ctx.notes["scripts"] = len(scripts)
    ops = {}
    for line in open(lp):
        o = json.loads(line).get("op")
        ops[o] = ops.get(o, 0) + 1
    ctx.notes["steps_by_op"] = ops
    for v in viol:
        if v.get("prop") != prop:
            continue
        run_id = v.get("run")
        ctx.add_violation(sig_of(v), {"op": v.get("op"), "line": v.get("line"), "detail": v.get("detail"), "step": v.get("step")},
                          replay={"driver": "srv", "trace_module": "Trace_Server", "script": scripts[run_id - 1] if run_id and run_id <= len(scripts) else None})
    for d in drift:
        ctx.add_drift({"op": d.get("op"), "run": d.get("run"), "detail": d.get("detail")})
    ctx.assumptions += [
        "the harness drives one request at a time and settles it (keep-alive round trip) before the next: histories, not schedules",
        "transactions are taken from the outbox in order by the harness and written by the real sendTransaction",
        "names are ASCII in the padded chat format; user IDs and chat IDs are compared up to renaming",
    ]
