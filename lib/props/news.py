"""C18: News.tla (threaded news: bundles/categories, articles with thread links, the YAML mirror).

quick:    MC_News exhaustive over every step kind to 4 steps (names {x,y}, depth <= 2, <= 4 articles) + a mutant
          allocator that TLC must reject; TLC simulation (Gen_News.cfg, depth 15) writes one script per walk; the
          Go driver `vh-news` decorates 5 of 6 scripts with seeded random names / titles / user names (<= 255
          bytes) / bodies (<= 63 KiB), executes them on the real server and records what every read request and a
          second store loaded from ThreadedNews.yaml show after every step; Trace_News validates the log.
thorough: exhaustive to 5 steps (all variants), 12 steps (flat categories, one text) and 9 steps (depth 2, one
          text); eight simulation batches, three of them with walks of 30 steps and up to 6 articles per category.
"""
import concurrent.futures
import json
import os

import vlib
from vlib import Fatal, log

ALL_OPS = ["mkbundle", "mkcat", "post", "delart", "delitem", "get", "list", "cats", "reload", "setname"]


def rle_bytes(r):
    out = bytearray()
    for p in r or []:
        if p[0] < 0:
            return None
        out += bytes([p[0]]) * p[1]
    return bytes(out)


def show(r, limit=24):
    """A text in run-length form as a short readable string (for evidence samples only)."""
    b = rle_bytes(r)
    if b is None:
        return "<cut>"
    t = repr(b[:limit])[2:-1]
    return t if len(b) <= limit else "%s...(%d bytes)" % (t, len(b))


def pretty(step):
    o = dict(step)
    for k in ("name", "title", "body"):
        if k in o:
            o[k] = show(o[k])
    if "path" in o:
        o["path"] = [show(n, 12) for n in o["path"]]
    return o


def path_class(path):
    """Where the 4096-byte start buffer of the path decoder (bufio.Scanner) ends relative to the items of a news path
    given as run-length names: '' (path data fits), 'header-split-N' (N = 0..2 bytes of an item header before the
    buffer end: the decoder asks for more data), 'item-straddles-buffer' (an item with at least its 3 header bytes
    in the buffer continues beyond it)."""
    lens = [sum(p[1] for p in name) for name in (path or [])]
    total = sum(3 + n for n in lens)
    if total <= 4096:
        return ""
    s, e, cls = 0, 4096, ""
    for n in lens:
        while True:
            avail = e - s
            if avail < 3 and e < total:
                cls = cls or "header-split-%d" % avail
                e = min(total, s + 4096)
                continue
            break
        if 3 + n > e - s and e < total:
            return "item-straddles-buffer"
        s += 3 + n
    return cls or "beyond-buffer"


def deep_suffix(paths):
    cl = sorted({c for c in (path_class(p) for p in paths) if c})
    if not cl:
        return ""
    return "/news-path>4KiB:" + ("item-straddles-buffer" if cl == ["item-straddles-buffer"] else "+".join(cl))


LOST = {"get": "read-lost", "list": "read-lost", "cats": "read-lost", "post": "post-lost", "mkcat": "create-lost", "mkbundle": "create-lost", "delart": "delete-lost", "delitem": "delete-lost",
        "reload": "reload-lost"}


def sigs_of(rec, script=None):
    """One (signature, summary) per failing kind of a VIOL record printed by Trace_News."""
    det = rec.get("detail", {})
    out = []
    for f in sorted(det.get("fails", [])):
        if f == "lost":
            before = (script or {}).get("steps", [])[:max((rec.get("k") or 1) - 1, 0)]
            after_reload = any(x.get("op") == "reload" for x in before)
            how = "panic" if "panicked" in det.get("how", "") else "unanswered"
            sig = "C18/%s/%s%s%s" % (LOST.get(rec.get("op"), "step-lost"), how, "/after-reload" if after_reload else "",
                                      deep_suffix([(rec.get("step") or {}).get("path")]))
            out.append((sig, {"kind": f, "detail": det}))
            continue
        if f == "unread":
            d = sorted(det.get("unread", []), key=json.dumps)
            how = "panic" if all("closed" in x.get("how", "") for x in d) else "unanswered"
            out.append(("C18/read-lost/observation/%s%s" % (how, deep_suffix([x.get("path") for x in d])), {"kind": f, "detail": d}))
            continue
        if f == "list":
            d = det.get("list", {})
            unparseable = [x for x in d.get("obs", []) if not (x.get("ok") and x.get("exact"))]
            if d.get("allOver512") and len(unparseable) == len(d.get("obs", [])) and unparseable:
                sig = "C18/list-articles/entry-over-512-bytes"
            else:
                sig = "C18/list-articles/%s" % ("unparseable" if unparseable else "wrong-entries")
            out.append((sig, {"kind": f, "detail": d}))
        elif f == "children":
            d = det.get("children", {})
            if d.get("phantomOnly") and d.get("afterDelartInMissing"):
                sig = "C18/delete-article/missing-category-leaves-phantom-item"
            else:
                sig = "C18/children/%s%s" % (rec.get("op"), "/below-missing-path" if det.get("stale") else "")
            out.append((sig, {"kind": f, "detail": d}))
        elif f == "reload":
            d = det.get("reload", {})
            if d.get("unloadable"):
                err = d.get("err", "")
                if "found a tab character" in err:
                    sig = "C18/reload/unloadable/yaml-tab-in-block-scalar"
                else:
                    sig = "C18/reload/unloadable/" + err[:60]
            else:
                diffs = d.get("diffs", [])
                lead_lf = bool(diffs) and d.get("shapeOK") and not d.get("missing") and not d.get("extra")
                for x in diffs:
                    e, g = (rle_bytes(x.get("exp")), rle_bytes(x.get("got"))) if x.get("field") in ("title", "poster", "body") else (None, None)
                    if e is None or g is None or not e.startswith(b"\n") or g != e[1:]:
                        lead_lf = False
                if lead_lf:
                    sig = "C18/reload/leading-newline-lost"
                else:
                    sig = "C18/reload/differs/%s%s" % (",".join(sorted({x.get("field", "?") for x in diffs})),
                                                      "" if d.get("shapeOK") else "/shape")
            out.append((sig, {"kind": f, "detail": d}))
        else:
            out.append(("C18/%s/%s" % (f, rec.get("op")), {"kind": f, "detail": det.get("tree")}))
    return out


def one_per_walk(items, seed):
    """TLC prints every candidate successor at the last depth: keep one behaviour per walk."""
    groups, order = {}, []
    for it in items:
        k = json.dumps(it["steps"][:-1], sort_keys=True)
        if k not in groups:
            groups[k] = []
            order.append(k)
        groups[k].append(it)
    return [groups[k][(seed + i) % len(groups[k])] for i, k in enumerate(order)]


def run(ctx, prop):
    quick = ctx.quick()
    ctx.build(name="vh-news")
    # 1. design level: the bounded model satisfies the seven properties; a wrong allocator does not.  These TLC runs
    #    do not depend on the generation / replay below and run beside it.
    pool = concurrent.futures.ThreadPoolExecutor(max_workers=4)

    def mutant():
        r = vlib.tlc(ctx, "MC_News", cfg="MC_News_mut.cfg", timeout=600, workers=4)
        if r.violated not in ("FreshId", "OthersUntouched", "LinksOnPost"):
            raise Fatal("vacuity guard: the mutant allocator (IdPolicy = count) was not rejected by TLC (violated=%s):\n%s" % (r.violated, r.out[-3000:]))
        ctx.notes["mutant_rejected_by"] = r.violated
        log("MC MC_News/MC_News_mut.cfg: mutant rejected by %s, %.1fs" % (r.violated, r.wall))

    if quick:
        design = [pool.submit(ctx.model_check, "MC_News", "MC_News.cfg", 600, 8, False)]
    else:
        design = [pool.submit(ctx.model_check, "MC_News", "MC_News_deep.cfg", 1800, 8, False),
                  pool.submit(ctx.model_check, "MC_News", "MC_News_deep_thin.cfg", 1800, 6, False),
                  pool.submit(ctx.model_check, "MC_News", "MC_News_deep_tree.cfg", 1800, 4, False)]
    design.append(pool.submit(mutant))
    # 2. behaviours -> scripts -> real code -> log -> trace validation, batch by batch
    batches = [("Gen_News.cfg", 300, 15)] if quick else [("Gen_News.cfg", 700, 15)] * 5 + [("Gen_News_long.cfg", 350, 30)] * 3
    total_scripts, ops, nviol = 0, {}, 0
    for b, (cfg, nsim, depth) in enumerate(batches):
        _, items = ctx.generate("MC_News", cfg, "gen%d.ndjson" % b, simulate=nsim, depth=depth, extra_seed=1800 + b, timeout=900)
        scripts = one_per_walk(items, ctx.seed + b)
        sp = ctx.path("scripts%d.ndjson" % b)
        with open(sp, "w") as f:
            for s in scripts:
                f.write(json.dumps(s) + "\n")
        lp, up = ctx.path("log%d.ndjson" % b), ctx.path("used%d.ndjson" % b)
        ctx.harness(["-scripts", sp, "-out", lp, "-scripts-out", up, "-decorate", "-par", "32"], timeout=1500,
                    env={"VERIF_SEED": str(ctx.seed * 101 + b)})
        used = [json.loads(line) for line in open(up)]
        viol, drift = ctx.validate("Trace_News", "Trace_News.cfg", lp, timeout=1500)
        total_scripts += len(scripts)
        for line in open(lp):
            o = json.loads(line).get("op")
            ops[o] = ops.get(o, 0) + 1
        if b == 0:
            for i in (1, 2, 4):
                ctx.sample({"user": show(used[i % len(used)]["world"]["user"]), "script": [pretty(x) for x in used[i % len(used)]["steps"][:10]]})
        for v in viol:
            run_id = v.get("run")
            for sig, what in sigs_of(v, used[run_id - 1] if run_id and run_id <= len(used) else None):
                nviol += 1
                what.update({"op": v.get("op"), "line": v.get("line"), "step": v.get("step")})
                ctx.add_violation(sig, what, replay={"driver": "vh-news", "trace_module": "Trace_News", "batch": b,
                                                     "failing_step": v.get("k"),
                                                     "script": used[run_id - 1] if run_id and run_id <= len(used) else None})
        for d in drift:
            ctx.add_drift({"op": d.get("op"), "run": d.get("run"), "k": d.get("k"), "detail": d.get("detail"), "batch": b})
        os.remove(lp)
        os.remove(os.path.join(ctx.specdir, "log.ndjson"))
    for fut in design:
        fut.result()  # re-raises Fatal
    pool.shutdown()
    missing = [o for o in ALL_OPS if not ops.get(o)]
    if missing:
        raise Fatal("vacuous run: step kinds never executed: %s" % missing)
    ctx.cov["traces_validated_against_impl"] += total_scripts
    ctx.notes["scripts"] = total_scripts
    ctx.notes["steps_by_op"] = ops
    ctx.notes["violating_observations"] = nviol
    ctx.assumptions += [
        "one administrator client drives one request at a time; concurrent news requests are not explored",
        "a post request must fit the 65 536-byte transaction the connection scanner accepts: bodies are at most 63 KiB",
        "requests that make the store panic (post / create below a missing item, reply to a missing article) are not generated: containment is C03's business",
        "dates are the server's clock: the model takes the date shown right after the post and requires it unchanged afterwards",
        "item names never start with LF or TAB (texts do); names are affected by the YAML findings in the same way",
    ]


def replay(ctx, prop, rp):
    """Re-execute the recorded (already decorated) script of a violation on the current tree and judge it again."""
    sc = (rp.get("replay") or {}).get("script")
    if not sc:
        raise Fatal("replay file has no script")
    ctx.build(name="vh-news")
    sp, lp = ctx.path("replay.ndjson"), ctx.path("replay.log.ndjson")
    with open(sp, "w") as f:
        f.write(json.dumps(sc) + "\n")
    ctx.harness(["-scripts", sp, "-out", lp, "-par", "1"], timeout=600)
    viol, drift = ctx.validate("Trace_News", "Trace_News.cfg", lp, timeout=600)
    ctx.cov["traces_validated_against_impl"] += 1
    ctx.sample({"script": [pretty(x) for x in sc["steps"][:10]]})
    for v in viol:
        for sig, what in sigs_of(v, sc):
            what.update({"op": v.get("op"), "line": v.get("line"), "step": v.get("step")})
            ctx.add_violation(sig, what, replay={"driver": "vh-news", "trace_module": "Trace_News", "failing_step": v.get("k"), "script": sc})
    for d in drift:
        ctx.add_drift({"op": d.get("op"), "run": d.get("run"), "k": d.get("k"), "detail": d.get("detail")})
