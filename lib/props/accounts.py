"""C15: Accounts.tla (accounts: what can log in = what is listed = what is on disk).

quick:    MC_Accounts exhaustive (2 logins with batches of 2 sub-operations; 3 logins with single sub-operations),
          a non-vacuity witness, TLC simulation writes action scripts (one TLA+ behaviour each, depth 14; one family
          with and one without rename sub-operations), the Go driver `vh-accounts` executes them on the real server
          (every third script with its logins/names/passwords replaced by random byte strings that are legal file
          names) and records the four views after every step; Trace_Accounts validates the log.
thorough: 3 logins with batches of 2, 2 logins with batches of 3, ten generation batches with different seeds (4400 scripts).
"""
import json
import os
import time
from concurrent.futures import ThreadPoolExecutor
import vlib
from vlib import Fatal, log

VIEW_NAMES = [("can", "canLogin"), ("list", "listed"), ("files", "files"), ("files2", "filesAfterReload"),
              ("reload", "reloaded"), ("got", "shown"), ("round", "round")]
STEP_KEYS = ("op", "login", "name", "pw", "acc", "subs", "old", "k", "admins", "logins")


def _long_pw(rec):
    p = rec.get("pw")
    if isinstance(p, dict):
        return len(p.get("v") or []) > 72
    if isinstance(p, list):
        return len(p) > 72
    return False


def sig_of(rec):
    """C15/<step kind>/<view>:<classes>,...  The step kind names the sub-operation kinds of an update-user batch
    (a `!` marks a rename the specification carries out as a real rename), whether a password argument is longer
    than bcrypt's 72-byte input limit and whether a login is so long that login + ".yaml.tmp" exceeds NAME_MAX."""
    st = rec.get("step", {})
    d = rec.get("detail") if isinstance(rec.get("detail"), dict) else {}
    op = rec.get("op", "?")
    kind = op
    longpw = _long_pw(st)
    if op == "update":
        eff = set(d.get("effren", []))
        subs = st.get("subs", [])
        kind += "[" + ",".join(u.get("k", "?") + ("!" if i + 1 in eff else "") for i, u in enumerate(subs)) + "]"
        longpw = any(_long_pw(u) for u in subs)
    if longpw:
        kind += "{pw>72}"
    recs = st.get("subs", []) if op == "update" else [st]
    if any(len(u.get(k) or []) > 246 for u in recs for k in ("login", "old")):
        kind += "{login>246}"
    if any(len(u.get(k) or []) > 250 for u in recs for k in ("login", "old")):
        kind += "{login>250}"
    if any((u.get(k) or [0])[0] == 10 for u in recs for k in ("login", "old", "name")):
        kind += "{lead-nl}"
    diffs = d.get("diffs", {})
    views = ",".join("%s:%s" % (name, "+".join(sorted(diffs.get(k, [])))) for k, name in VIEW_NAMES if diffs.get(k))
    return "C15/%s/%s" % (kind, views or "?")


def _strip(ev):
    """The step arguments of a logged event (what was really sent), without the observations."""
    out = {k: ev[k] for k in STEP_KEYS if k in ev}
    if "subs" in out:
        out["subs"] = [{k: u[k] for k in STEP_KEYS if k in u} for u in out["subs"]]
    return out


def _steps_of_runs(logfile, runs):
    steps = {r: [] for r in runs}
    for line in open(logfile):
        ev = json.loads(line)
        r = ev.get("run")
        if r in steps and ev.get("op") != "world":
            steps[r].append(_strip(ev))
    return steps


def _short(b):
    return bytes(b).decode("latin1") if len(b) <= 24 else "<%d bytes>" % len(b)


def _what(v):
    d = v.get("detail", {})
    st = v.get("step", {})
    return {"op": v.get("op"), "run": v.get("run"), "line": v.get("line"), "step": _strip(st), "reply": st.get("reply"),
            "diffs": d.get("diffs"), "expected_accounts": d.get("expected"), "accounts_before": d.get("before"),
            "can_login_seen": [[_short(c["login"]), _short(c["pw"])] for c in st.get("can", []) if c.get("ok")],
            "listed_seen": [_short(r["login"]) for r in st.get("list", {}).get("recs", [])],
            "files_seen": [_short(r["file"]) for r in st.get("files", [])],
            "reloaded_seen": [_short(r["login"]) for r in st.get("reload", {}).get("recs", [])]}


def _execute(ctx, scripts, tag, big):
    sp = ctx.path("scripts_%s.ndjson" % tag)
    with open(sp, "w") as f:
        for s in scripts:
            f.write(json.dumps(s) + "\n")
    lp = ctx.path("log_%s.ndjson" % tag)
    t0 = time.time()
    ctx.harness(["-scripts", sp, "-out", lp, "-par", str(2 * vlib.NCPU), "-big", str(big)], timeout=1500)
    log("RUN vh-accounts: %d scripts on the real server, %.1fs" % (len(scripts), time.time() - t0))
    viol, drift = ctx.validate("Trace_Accounts", "Trace_Accounts.cfg", lp, timeout=1500)
    ctx.cov["traces_validated_against_impl"] += len(scripts)
    ops = ctx.notes.setdefault("steps_by_op", {})
    nbig = 0
    for line in open(lp):
        ev = json.loads(line)
        o = ev.get("op")
        if o == "storm":
            for q in ev.get("reqs", []):
                k = "storm:%s/%s" % (q.get("kind"), q.get("reply"))
                ops[k] = ops.get(k, 0) + 1
        if o == "update":
            o = "update[%s]" % ",".join(sorted(set(u["k"] for u in ev["subs"])))
        if o == "world" and ev.get("big"):
            nbig += 1
        ops[o] = ops.get(o, 0) + 1
    ctx.notes["scripts_with_random_byte_strings"] = ctx.notes.get("scripts_with_random_byte_strings", 0) + nbig
    steps = _steps_of_runs(lp, set(v.get("run") for v in viol))
    for v in viol:
        ctx.add_violation(sig_of(v), _what(v),
                          replay={"driver": "vh-accounts", "trace_module": "Trace_Accounts",
                                  "script": {"steps": steps.get(v.get("run"), [])}})
    for d in drift:
        st = d.get("step", {})
        ctx.add_drift({"op": d.get("op"), "run": d.get("run"), "detail": d.get("detail"), "step": _strip(st), "reply": st.get("reply")})
    if os.path.getsize(lp) > (64 << 20):
        os.remove(lp)
    return viol, drift


def run(ctx, prop):
    quick = ctx.quick()
    t0 = time.time()
    ctx.build(name="vh-accounts")
    log("BUILD vh-accounts %.1fs" % (time.time() - t0))
    batches = 1 if quick else 10
    n_all, n_noren = (80, 100) if quick else (220, 220)
    # The TLC runs are independent processes on a read-only copy of spec/: the design-level checks run beside
    # generation / execution / validation (results are collected - and failures raised - before the verdict).
    with ThreadPoolExecutor(max_workers=8) as ex:
        # 1. design level: exhaustive model check of bounded instances, step-level properties of the statement
        cfgs = ["MC_Accounts.cfg", "MC_Accounts_b.cfg"] if quick else ["MC_Accounts_deep.cfg", "MC_Accounts_deep3.cfg", "MC_Accounts_b.cfg"]
        mcs = [ex.submit(ctx.model_check, "MC_Accounts", c, timeout=2400, coverage=False, workers=4 if quick else 6) for c in cfgs]
        # non-vacuity: a batch with a rename that is carried out must be reachable (the witness invariant must fail)
        wit = ex.submit(vlib.tlc, ctx, "MC_Accounts", cfg="MC_Accounts_witness.cfg", timeout=600, workers=2)

        # 2. behaviours -> scripts
        def gen(b):
            fa = ex.submit(ctx.generate, "MC_Accounts", "Gen_Accounts_all.cfg", "gen_all%d.ndjson" % b, simulate=n_all, depth=15,
                           extra_seed=1500 + b, timeout=900)
            fn = ex.submit(ctx.generate, "MC_Accounts", "Gen_Accounts_noren.cfg", "gen_noren%d.ndjson" % b, simulate=n_noren, depth=15,
                           extra_seed=2500 + b, timeout=900)
            return fa, fn
        nxt = gen(0)
        first = None
        for b in range(batches):
            fa, fn = nxt
            scripts = fa.result()[1] + fn.result()[1]
            if b + 1 < batches:
                nxt = gen(b + 1)
            if first is None:
                first = scripts
            # 3./4. real server -> trace validation
            _execute(ctx, scripts, "b%d" % b, 3)
        # 5. concurrent rounds: K administrators fire set-user / update-user / new-user / delete-user at the same 3
        #    logins at the same moment; judged only on interleaving-independent facts (Accounts!RoundFacts)
        worlds, rounds = (32, 10) if quick else (160, 16)
        storm = [{"steps": [{"op": "storm", "admins": 6, "logins": 3}] * rounds} for _ in range(worlds)]
        _execute(ctx, storm, "storm", 0)
        ctx.notes["concurrent_rounds"] = worlds * rounds
        for f in mcs:
            f.result()
        r = wit.result()
    if r.violated != "NeverRenamed":
        raise Fatal("vacuous model: no behaviour carries out a rename (witness invariant not violated):\n%s" % r.out[-2000:])
    ctx.notes["non_vacuity_witness"] = "NeverRenamed violated as required (a rename inside a batch is reachable)"
    ctx.sample({"script": first[0]["steps"][:6]})
    ctx.sample({"script_without_rename": first[-1]["steps"][:6]})
    ctx.notes["scripts"] = ctx.cov["traces_validated_against_impl"]
    ctx.assumptions += [
        "requests are sent one at a time by one administrator holding every privilege and settled (keep-alive round trip) before the views are taken: histories, not schedules (authorisation is C05, crash atomicity C20)",
        "logins and names are byte strings that are legal file names (no '/', no NUL, not '.' or '..', login + '.yaml' <= 255 bytes); path escapes belong to C07",
        "passwords are compared as bcrypt compares them: the NUL-terminated wire form repeated cyclically to 72 bytes, so the empty password and the marker string (clear 0xFF = wire 0x00) are the same password",
        "the login matrix after every step covers the script's logins (<= 4) x passwords (<= 5) plus the administrator; the stored hashes are additionally verified against every password of the script with an independent bcrypt",
        "concurrent rounds (6 administrators, one request each, start barrier, views at quiescence) are judged only on what holds under every interleaving: the four views show one and the same map, every account is as before the round or as one request of the round wrote it, a login named only by deletes is gone, an unnamed login is untouched; whether the race window of a defect is hit is a matter of scheduling",
        "after the first step of a run at which a view differs, the rest of that run is not judged (model and server are in different states); a second script family without rename sub-operations keeps the other operations unmasked while F17 is open",
    ]


def replay(ctx, prop, rp):
    """Re-execute the recorded script (the byte strings that were really sent) and validate it again."""
    ctx.build(name="vh-accounts")
    script = (rp.get("replay") or {}).get("script")
    if not script or not script.get("steps"):
        raise Fatal("replay file holds no script")
    ctx.model_check("MC_Accounts", "MC_Accounts_b.cfg", timeout=600, coverage=False)
    _execute(ctx, [script], "replay", 0)
