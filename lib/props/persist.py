"""C20: a crash never leaves persistent state torn (spec/Persist.tla).

Pipeline
  1. TLC model-checks MC_Persist: the intended update protocols (write temp, close, rename) with Crash composed before
     every call and inside every write, Recover, Resume and further updates: CrashSafe, AckedNeverLost hold.
     Self-test: the negative controls (truncate-in-place ...) MUST fail, otherwise the model is vacuous (exit 2).
  2. TLC simulation of the same module emits update sequences (scripts); `vh-persist plan` adds seeded random
     sequences over larger universes and expands payloads.
  3. `vh-persist record`: every script is performed by `vh-persistd` (the real stores, one OS thread) under
     strace -f -y; `vh-persist materialise`: for every syscall boundary of every update, and for prefix lengths
     {0, 1, half, len-1} of every write, the logged prefix is re-executed by an independent re-executor and the
     directory is loaded with the REAL constructors; observations go to log.ndjson.
     `vh-persist kill`: a sample of boundaries is reproduced with a real SIGKILL (strace inject=<call>:when=k, k
     counted per thread over the recorded log); the killed run's own syscall log is re-executed by the same
     re-executor and compared with the directory the dead process left - a disagreement is exit 2.
     Continuation: from every crash point the recorded calls that follow are re-executed on the crashed directory
     up to and through the next update of the same store (second crash at each of its calls, or completion) and
     loaded with the real constructors again (leftover temp files, hard links, stale tails are met by real code paths).
  4. Trace_Persist (TLC) judges every recovery against old / new = Effect(update, old); a call sequence that is not
     the proven protocol shape but survives everything is reported as an informational SHAPE note.
Needs ptrace: without it the check is inconclusive (exit 2).
"""
import json
import os
import random

import vlib
from vlib import Fatal, log

NEG = {  # negative controls: cfg -> invariant that must be violated
    "MC_Persist_neg_inplace.cfg": "CrashSafe",
    "MC_Persist_neg_pinned.cfg": "CrashSafe",
    "MC_Persist_neg_ackearly.cfg": "AckedNeverLost",
    "MC_Persist_neg_linked.cfg": "CrashSafe",
    "MC_Persist_neg_excltemp.cfg": "AckedNeverLost",
    "MC_Persist_neg_hygiene.cfg": "Hygiene",  # documents a reachable aftermath outside C20 (see MC_Persist.tla)
}


def sig_of(v):
    d = v.get("detail", {})
    return "C20/%s/%s/%s" % (d.get("store", "?"), d.get("kind", "?"), d.get("class", "?"))


def _build(ctx):
    """vh-persist and vh-persistd from /repo's working tree; VERIF_PERSIST_OVERLAY=<overlay.json> builds scratch
    binaries with `go build -overlay` instead (used to demonstrate the binding on mutated store code)."""
    ov = os.environ.get("VERIF_PERSIST_OVERLAY")
    if not ov:
        pd = ctx.build(name="vh-persistd")
        pv = ctx.build(name="vh-persist")
        return pv, pd
    bdir = ctx.path("bin")
    os.makedirs(bdir, exist_ok=True)
    out = []
    for name in ("vh-persist", "vh-persistd"):
        o = os.path.join(bdir, name)
        rc, txt, _ = vlib.sh(["go", "build", "-tags", "verif", "-overlay", ov, "-o", o, "./cmd/" + name],
                             cwd=vlib.HARNESS, env=vlib.GOENV, timeout=900)
        if rc != 0:
            raise Fatal("overlay build failed:\n%s" % txt[-3000:])
        out.append(o)
    log("built with overlay", ov)
    return out[0], out[1]


def _negative_controls(ctx, cfgs):
    for cfg in cfgs:
        r = vlib.tlc(ctx, "MC_Persist", cfg=cfg, timeout=600)
        if r.violated != NEG[cfg]:
            raise Fatal("self-test: negative control %s did not violate %s (violated=%s): the model is vacuous\n%s"
                        % (cfg, NEG[cfg], r.violated, r.out[-2000:]))
        ctx.notes.setdefault("negative_controls", []).append(
            {"cfg": cfg, "violated": r.violated, "states_generated": r.generated, "wall_s": round(r.wall, 1)})
        log("NEG %s: %s violated as expected (%.1fs)" % (cfg, r.violated, r.wall))


def _one_per_walk(items, rnd, want):
    """TLC prints every candidate successor at the emission depth: group by the common prefix, keep one of each."""
    groups = {}
    order = []
    for it in items:
        k = json.dumps(it["steps"][:-1], sort_keys=True) + json.dumps(it["world"], sort_keys=True)
        if k not in groups:
            groups[k] = []
            order.append(k)
        groups[k].append(it)
    picked = [rnd.choice(groups[k]) for k in order]
    rnd.shuffle(picked)
    return picked[:want]


def _pipeline(ctx, pv, pd, sp, nkills, dense=False):
    rec = ctx.path("rec")
    ctx.harness(["record", "-scripts", sp, "-rec", rec, "-persistd", pd, "-par", "8"], binpath=pv, timeout=900)
    lp = ctx.path("log.ndjson")
    kp = ctx.path("kills.ndjson")
    out = ctx.harness(["materialise", "-scripts", sp, "-rec", rec, "-out", lp, "-kills", kp, "-nkills", str(nkills), "-par", "8"]
                      + (["-dense"] if dense else []), binpath=pv, timeout=1800)
    summ = {}
    for line in out.splitlines():
        if line.startswith("SUMMARY "):
            summ = json.loads(line[8:])
    if not summ.get("crash_points"):
        raise Fatal("materialise produced no crash points:\n%s" % out[-2000:])
    kills = []
    if nkills > 0:
        ko = ctx.path("kills.out.ndjson")
        ctx.harness(["kill", "-scripts", sp, "-plan", kp, "-out", ko, "-persistd", pd, "-par", "8"], binpath=pv, timeout=1800)
        kills = [json.loads(l) for l in open(ko) if l.strip()]
        bad = [k for k in kills if not k.get("match")]
        if bad:
            raise Fatal("the directory left by a real kill differs from the re-execution of the killed run's syscall log "
                        "(harness problem, not a verdict): %s" % json.dumps(bad[0])[:1500])
        if len(kills) == 0:
            raise Fatal("no real kill was performed")
        if 2 * sum(1 for k in kills if k.get("on_target")) < len(kills):
            raise Fatal("real kills do not land on the addressed system calls (%d of %d on target)"
                        % (sum(1 for k in kills if k.get("on_target")), len(kills)))
    viol, drift = _validate(ctx, lp)
    return summ, kills, viol, drift, lp


def _validate(ctx, lp):
    """ctx.validate, keeping the informational SHAPE lines as well."""
    import shutil
    dst = os.path.join(ctx.specdir, "log.ndjson")
    shutil.copyfile(lp, dst)
    nlines = sum(1 for _ in open(dst))
    if nlines == 0:
        raise Fatal("empty event log %s" % lp)
    r = vlib.tlc(ctx, "Trace_Persist", cfg="Trace_Persist.cfg", workers=1, timeout=1800)
    viol = vlib.printed_json(r, "VIOL")
    drift = vlib.printed_json(r, "DRIFT")
    if not r.ok:
        raise Fatal("trace validation did not complete for Trace_Persist (rc=%s, %d lines):\n%s" % (r.rc, nlines, r.out[-6000:]))
    shapes = {}
    for rec in vlib.printed_json(r, "SHAPE"):
        k = (rec.get("detail") or {}).get("kind", "?")
        shapes[k] = shapes.get(k, 0) + 1
    if shapes:
        ctx.notes["updates_with_a_protocol_shape_not_proven_in_MC_Persist"] = shapes
        log("SHAPE (informational): %s" % shapes)
    ctx.notes.setdefault("trace_validation", []).append(
        {"module": "Trace_Persist", "events": nlines, "states": r.distinct, "wall_s": round(r.wall, 1)})
    ctx.cov["states"] += r.distinct
    ctx.cov["transitions"] += r.generated
    log("TRACE Trace_Persist: %d events, %d VIOL, %d DRIFT, %.1fs" % (nlines, len(viol), len(drift), r.wall))
    return viol, drift


def _report(ctx, scripts, viol, drift):
    by_run = {s["run"]: s for s in scripts}
    classes = {}
    for v in viol:
        sig = sig_of(v)
        classes[sig] = classes.get(sig, 0) + 1
        d = v.get("detail", {})
        sc = by_run.get(v.get("run"))
        what = {"run": v.get("run"), "update": v.get("u")}
        what.update({k: d[k] for k in d if k not in ("upd", "state")})
        ctx.add_violation(sig, what,
                          replay={"driver": "vh-persist", "trace_module": "Trace_Persist", "script": sc, "update": v.get("u")})
    for d in drift:
        ctx.add_drift({"run": d.get("run"), "u": d.get("u"), "detail": d.get("detail")})
    ctx.notes["violating_crash_point_classes"] = classes


def run(ctx, prop):
    quick = ctx.quick()
    pv, pd = _build(ctx)
    # ptrace available?
    try:
        ctx.harness(["probe"], binpath=pv, timeout=60)
    except Fatal as e:
        raise Fatal("C20 needs ptrace (strace with signal injection); it is unavailable here: %s" % e)
    # 1. design level
    ctx.model_check("MC_Persist", "MC_Persist.cfg", timeout=600, coverage=True,
                    must_cover=["NextStart", "NextSys", "NextFinish", "NextCrash", "NextRecover", "NextResume"])
    if not quick:
        ctx.model_check("MC_Persist", "MC_Persist_deep.cfg", timeout=2400, coverage=False)
    _negative_controls(ctx, ["MC_Persist_neg_inplace.cfg"] if quick else sorted(NEG))
    # 2. scripts
    rnd = random.Random(ctx.seed * 104729 + 5)
    n_tlc, n_rand, rand_len, nkills = (5, 3, 12, 8) if quick else (60, 40, 20, 150)
    n_shrink = 1 if quick else 8
    _, items = ctx.generate("MC_Persist", "Gen_Persist.cfg", "gen.ndjson", simulate=max(2 * n_tlc, 12), depth=120, timeout=600)
    sym = _one_per_walk(items, rnd, n_tlc)
    if len(sym) < n_tlc:
        raise Fatal("TLC emitted only %d distinct walks" % len(sym))
    symp = ctx.path("sym.ndjson")
    with open(symp, "w") as f:
        for s in sym:
            f.write(json.dumps(s) + "\n")
    sp = ctx.path("scripts.ndjson")
    ctx.harness(["plan", "-tlc", symp, "-rand", str(n_rand), "-len", str(rand_len), "-shrink", str(n_shrink), "-out", sp], binpath=pv, timeout=120)
    scripts = [json.loads(l) for l in open(sp) if l.strip()]
    nupd = sum(len(s["updates"]) for s in scripts)
    ctx.sample({"script_from": scripts[0]["src"], "updates": [u["kind"] for u in scripts[0]["updates"]]})
    # 3 + 4
    summ, kills, viol, drift, lp = _pipeline(ctx, pv, pd, sp, nkills, dense=not quick)
    ctx.cov["traces_validated_against_impl"] += nupd
    ctx.notes["scripts"] = {"tlc": len(sym), "random": n_rand, "grow_then_shrink": n_shrink, "updates": nupd}
    ctx.notes["materialisation"] = summ
    ctx.notes["real_kills"] = {"performed": len(kills), "agree_with_reexecution": sum(1 for k in kills if k.get("match")),
                               "on_addressed_call": sum(1 for k in kills if k.get("on_target"))}
    kinds = {}
    for s in scripts:
        for u in s["updates"]:
            kinds[u["kind"]] = kinds.get(u["kind"], 0) + 1
    ctx.notes["updates_by_kind"] = kinds
    # one sample: the syscalls of one update with the verdict inputs
    for line in open(lp):
        e = json.loads(line)
        if e.get("op") == "sys" and e.get("call") == "write" and e.get("cuts"):
            ctx.sample({"run": e["run"], "update": e["u"], "call": "write", "file": e["file"]["raw"], "bytes": e["n"],
                        "recovered_if_killed_before": {k: v.get("ok") for k, v in e["crash"].items() if k != "key"},
                        "cuts": [{"k": c["k"], "loads": {k: v.get("ok") for k, v in c["crash"].items() if k != "key"}} for c in e["cuts"]]})
            break
    if kills:
        ctx.sample({"real_kill": {k: kills[0].get(k) for k in ("run", "u", "i", "kind", "name", "when", "killed_in", "on_target", "match")}})
    _report(ctx, scripts, viol, drift)
    ctx.assumptions += [
        "process kill (SIGKILL), not power failure: written bytes survive, fsync ordering is not examined",
        "one update at a time (each store serialises its updates with a mutex; the driver issues them sequentially)",
        "crash points: the entry of every system call on the config directory and prefixes {0,1,half,len-1} of every write",
        "continuation after a crash re-executes the RECORDED calls of the following updates on the crashed directory (the stores' protocols depend on the content only through the bytes written); a history in which a recorded call could not have had its recorded outcome is abandoned",
        "updates are those the request handlers can issue (no posting into a missing category, never deleting the last account)",
        "projections compared: board text; news categories (path, type) and articles (path, id, title, poster, date, parent, data); accounts login->(name, access, password hash); ban list ip->expiry (probed for every address of the script and its prefixes)",
        "a recovery that leaves an account file named differently from the login inside it (crash between the rename and the rewrite of an account rename) counts as the complete old value; its aftermath is outside the property",
    ]


def replay(ctx, prop, rp):
    """Re-run one recorded script (replays/C20/<hash>.json) through record / materialise / validate."""
    r = rp.get("replay") or {}
    sc = r.get("script")
    if not sc:
        raise Fatal("replay file carries no script")
    pv, pd = _build(ctx)
    ctx.harness(["probe"], binpath=pv, timeout=60)
    sp = ctx.path("scripts.ndjson")
    with open(sp, "w") as f:
        f.write(json.dumps(sc) + "\n")
    summ, kills, viol, drift, lp = _pipeline(ctx, pv, pd, sp, 0)
    ctx.cov["traces_validated_against_impl"] += len(sc["updates"])
    ctx.notes["materialisation"] = summ
    ctx.cov["states"] = max(ctx.cov["states"], 1)
    _report(ctx, [sc], viol, drift)
    for v in viol:
        print("REPLAY %s update %s: %s" % (sig_of(v), v.get("u"), json.dumps(v.get("detail"))[:400]), flush=True)
