"""C03: Contain.tla - hostile input is contained to the offending connection.

MC_Contain: the connection life cycle with a failure at every point returns registry and counters to the sentinels'
baseline (QuiescentBaseline), the limiter table is a critical section.  Gen_Contain emits the mutation plans
(session x frame x mutation x value class); vh-contain fires them, plus seeded random fuzz and an accept burst from
new source addresses, over real TCP at a real server in a child process next to two sentinel clients.
Trace_Contain validates the events recorded inside the server (registry / counters) and the parent's observations.
"""
import json
import random


def run(ctx, prop):
    quick = ctx.quick()
    ctx.build(name="vh-contain")
    ctx.model_check("MC_Contain", "MC_Contain.cfg", coverage=False, timeout=300)
    _, plans = ctx.generate("Gen_Contain", "Gen_Contain.cfg", "plans_all.ndjson", timeout=300)
    rng = random.Random(ctx.seed)
    rng.shuffle(plans)
    if quick:
        # the privileged sessions are sampled on top, so that the share of transfer-port plans stays what it was
        adm = [p for p in plans if p.get("sess") == "adm"]
        scan = [p for p in plans if p.get("sess") == "scan"]
        lurk = [p for p in plans if p.get("sess") in ("lurker", "kick")]
        plans = [p for p in plans if p.get("sess") not in ("adm", "scan", "lurker", "kick")][:450] + adm[:150] + scan[:3] + lurk
        rng.shuffle(plans)
    pp = ctx.path("plans.ndjson")
    with open(pp, "w") as f:
        for p in plans:
            f.write(json.dumps(p) + "\n")
    ctx.sample({"plan": plans[0]})
    lp = ctx.path("log.ndjson")
    ctx.harness(["run", "-plans", pp, "-out", lp, "-fuzz", "250" if quick else "6000", "-burst", "1500" if quick else "6000",
                 "-batch", "150" if quick else "250", "-seed", str(ctx.seed), "-self", ctx.bin], timeout=3000)
    viol, drift = ctx.validate("Trace_Contain", "Trace_Contain.cfg", lp, timeout=1200)
    n = 0
    for line in open(lp):
        e = json.loads(line)
        if e.get("op") == "exit":
            n = e.get("hostile", 0)
            ctx.notes["hostile_connections"] = n
            ctx.notes["hostile_dial_failed"] = e.get("dialFailed")
        if e.get("op") == "settled":
            ctx.notes["settle_ms"] = e.get("ms")
    if not any('"op":"Final"' in line.replace(" ", "") for line in open(lp)):
        ctx.add_drift({"op": "Final", "detail": "the server's final state was not recorded (ended by the harness?)"})
    ctx.cov["traces_validated_against_impl"] += 1
    ctx.notes["plans"] = len(plans)
    for v in viol:
        d = v.get("detail") if isinstance(v.get("detail"), dict) else {}
        ctx.add_violation("C03/%s/%s" % (v.get("op"), d.get("sig", "?")), d, {"driver": "vh-contain run", "seed": ctx.seed, "plans": len(plans)})
    for d in drift:
        ctx.add_drift(d)
    ctx.assumptions += [
        "byte streams come from a structured mutation grammar over valid sessions plus seeded random fuzz, not all byte streams",
        "declared upload sizes are capped at 1 MiB (the property's quantifier)",
        "the server runs in a child process on loopback; distinct source addresses are 127.x.y.z",
        "'back to baseline' is awaited after the last hostile connection is closed for as long as the registry keeps shrinking (no progress for 45 s = leak)",
    ]
