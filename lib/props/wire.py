"""C01: wire format fidelity (spec/Wire.tla, MC_Wire, Trace_Wire; driver harness/fam/wire -> bin/vh-wire).

quick:    MC_Wire exhaustive over the small object domains (two drains of every object through independent buffer
          sizes: EmittedIsPrefix, EofMeansAll, LenPrefixOK, BufferIndependence) + liveness (Terminates) on a small
          configuration; TLC emits one script per object and uniform buffer size (1,2,3,7,40000) exhaustively and
          random buffer mixes by simulation; the seeded Go generator adds large objects at the length-prefix
          boundaries; vh-wire drains the real encoders / runs the real decoders; Trace_Wire validates the log.
thorough: all buffer sizes for the second drain, names of 252..255 bytes in the exhaustive check, the larger
          liveness configuration, several simulation batches, six rounds of large objects.
"""
import json
import os
from vlib import Fatal, log


def _reads_upto(script, call):
    r = script.get("reads") or [1]
    out = []
    for i in range(call):
        out.append(r[i] if i < len(r) else r[-1])
    return out


def _seglens(obj):
    return [len(s) for s in obj.get("segs", [])]


def sig_of(v, script):
    """Signature of a violation = the failing behaviour class: kind / what went wrong / on which input class."""
    kind, cls = v.get("kind"), v.get("cls")
    d = v.get("detail") if isinstance(v.get("detail"), dict) else {}
    obj = (script or {}).get("obj", {})
    if cls == "emission-does-not-terminate":
        return "C01/%s/%s/%s" % (kind, cls, str(d.get("via", "drain")).split(" (")[0])
    if cls.startswith("decode"):
        cls = "%s:%s" % (cls, d.get("which", "dec"))
        if kind in ("filepath", "fileheader", "newspath"):
            if sum(3 + n for n in _seglens(obj)) > 4096:
                qual = "path>4096"      # the item list does not fit the path scanner's first buffer
            else:
                qual = "name253-255" if any(253 <= n <= 255 for n in _seglens(obj)) else "name<253"
        elif kind == "txn":
            m = max([len(f.get("data", [])) for f in obj.get("fields", [])] or [0])
            qual = "field>65532" if m > 65532 else "field<=65532"
        elif kind == "serverrecord":
            qual = "empty-name-and-description" if not obj.get("name") and not obj.get("desc") else "other"
        else:
            qual = "-"
        if cls.startswith("decode-panic"):
            m = str(d.get("msg", ""))
            qual += ":slice-bounds" if "slice bounds out of range" in m else ":index" if "index out of range" in m else ":other"
    elif kind == "nald":
        m = max([37 + len(a.get("title", [])) + len(a.get("poster", [])) for a in obj.get("arts", [])] or [0])
        qual = "entry>512" if m > 512 else "entry<=512"
    else:
        L = d.get("L", 0)
        ns = _reads_upto(script or {}, int(d.get("call", 1)))
        qual = "buf<len" if ns and min(ns) < L else "buf>=len"
    return "C01/%s/%s/%s" % (kind, cls, qual)


def _build(ctx):
    """Build vh-wire from /repo.  VERIF_WIRE_BIN (mutation experiments only, see BUILDING.md 'binding is
    demonstrated'): use a driver binary built elsewhere, e.g. with `go build -overlay` over a mutated file."""
    ctx.build(name="vh-wire")
    alt = os.environ.get("VERIF_WIRE_BIN")
    if alt:
        log("using driver binary", alt, "(mutation experiment)")
        ctx.bin = alt


def _trim(script):
    """Replay record: the script itself (huge byte strings abbreviated for the evidence sample only)."""
    return script


def run(ctx, prop):
    quick = ctx.quick()
    _build(ctx)
    # 1. design level
    ctx.model_check("MC_Wire", "MC_Wire.cfg" if quick else "MC_Wire_deep.cfg", timeout=1800, coverage=False)
    r = ctx.model_check("MC_Wire", "MC_Wire_live.cfg" if quick else "MC_Wire_live_deep.cfg", timeout=1800, coverage=False)
    if "BothTerminate" not in open(os.path.join(ctx.specdir, "MC_Wire_live.cfg")).read():
        raise Fatal("liveness configuration lost its property")
    # 2. scripts: exhaustive (uniform buffer sizes), simulation (mixed sizes), seeded large objects
    scripts, seen = [], set()

    def take(items):
        for it in items:
            k = json.dumps(it, sort_keys=True)
            if k not in seen:
                seen.add(k)
                scripts.append(it)

    _, items = ctx.generate("MC_Wire", "Gen_Wire.cfg", "gen_exh.ndjson", timeout=900)
    take(items)
    # scanner-buffer boundaries (field areas / paths ending at or straddling 4096 * 2^k)
    _, items = ctx.generate("MC_Wire", "Gen_Wire_boundary.cfg" if quick else "Gen_Wire_boundary_deep.cfg", "gen_bound.ndjson", timeout=900)
    take(items)
    n_exh = len(scripts)
    batches = 1 if quick else 6
    for b in range(batches):
        _, items = ctx.generate("MC_Wire", "Gen_Wire_sim.cfg", "gen_sim%d.ndjson" % b, simulate=1000 if quick else 4000,
                                depth=400, extra_seed=b, timeout=900)
        take(items)
        _, items = ctx.generate("MC_Wire", "Gen_Wire_sim_small.cfg", "gen_sims%d.ndjson" % b, simulate=300 if quick else 1500,
                                depth=400, extra_seed=50 + b, timeout=900)
        take(items)
    n_tlc = len(scripts)
    bigp = ctx.path("big.ndjson")
    ctx.harness(["gen", "-out", bigp, "-tier", ctx.tier], timeout=300)
    big = [json.loads(l) for l in open(bigp)]
    scripts += big
    sp = ctx.path("scripts.ndjson")
    with open(sp, "w") as f:
        for s in scripts:
            f.write(json.dumps(s) + "\n")
    # 3. real code
    lp = ctx.path("log.ndjson")
    ctx.harness(["run", "-scripts", sp, "-out", lp], timeout=1200)
    # 4. trace validation
    viol, drift = ctx.validate("Trace_Wire", "Trace_Wire.cfg", lp, timeout=2400, heap="12g")
    ctx.cov["traces_validated_against_impl"] += len(scripts)
    kinds, reads, huge = {}, 0, 0
    for s in scripts:
        kinds[s["kind"]] = kinds.get(s["kind"], 0) + 1
    for line in open(lp):
        if '"op":"read"' in line:
            reads += 1
    ctx.notes["scripts"] = {"tlc_exhaustive": n_exh, "tlc_simulation": n_tlc - n_exh, "seeded_large": len(big)}
    ctx.notes["scripts_by_kind"] = kinds
    ctx.notes["real_read_calls"] = reads
    ctx.sample({"script": scripts[min(700, len(scripts) - 1)]})
    ctx.sample({"script": scripts[n_exh + 3] if len(scripts) > n_exh + 3 else scripts[0]})
    for v in viol:
        run_id = v.get("run")
        script = scripts[run_id - 1] if run_id and 0 < run_id <= len(scripts) else None
        ctx.add_violation(sig_of(v, script), {"kind": v.get("kind"), "cls": v.get("cls"), "line": v.get("line"), "detail": v.get("detail")},
                          replay={"driver": "vh-wire run", "trace_module": "Trace_Wire", "script": script})
    for d in drift:
        ctx.add_drift({"kind": d.get("kind"), "cls": d.get("cls"), "run": d.get("run"), "detail": d.get("detail")})
    ctx.assumptions += [
        "the reference layouts in spec/Wire.tla are a transcription of the Hotline 1.9 protocol document (ref/HLProtocol-1.9.extracted.txt); layouts the document does not give (account list record, file/news path, info-fork comment tail, folder item type) are the de-facto ones and are marked so",
        "an encoder is judged by the byte stream it emits up to the first io.EOF; reporting io.EOF together with the last bytes and short reads are not violations",
        "objects are built the way the server builds them (constructors, SetComment, GetNewsArtListData); resume data, time stamps and the handshake reply have no incremental encoder and are observed in one piece",
        "32-bit opaque values are byte tuples in the model; sizes/counts stay below 2^31",
    ]


def replay(ctx, prop, rp):
    """Re-execute the one recorded script on the current tree and validate it."""
    script = (rp.get("replay") or {}).get("script")
    if not script:
        raise Fatal("replay file carries no script")
    _build(ctx)
    sp = ctx.path("scripts.ndjson")
    with open(sp, "w") as f:
        f.write(json.dumps(script) + "\n")
    lp = ctx.path("log.ndjson")
    ctx.harness(["run", "-scripts", sp, "-out", lp], timeout=300)
    viol, drift = ctx.validate("Trace_Wire", "Trace_Wire.cfg", lp, timeout=600)
    ctx.cov["traces_validated_against_impl"] += 1
    ctx.sample({"script_kind": script.get("kind"), "reads": script.get("reads", [])[:20]})
    for v in viol:
        ctx.add_violation(sig_of(v, script), {"kind": v.get("kind"), "cls": v.get("cls"), "detail": v.get("detail")},
                          replay={"driver": "vh-wire run", "trace_module": "Trace_Wire", "script": script})
    for d in drift:
        ctx.add_drift({"kind": d.get("kind"), "cls": d.get("cls"), "detail": d.get("detail")})
