"""C19: Board.tla - message board and agreement served whole, no post lost.

S binding: TLC enumerates the interleavings of the unsynchronised store calls (Gen_Board, Locked = FALSE); vh-board
enacts each on the real handlers through a gating wrapper around the real FlatNews / Agreement; Trace_Board checks
that every completed read returned a text current during the read.  T binding: sequential histories (kept, newest
first, format, on disk when acknowledged, announced to all) and a free-running concurrent phase.
"""
import json


def run(ctx, prop):
    quick = ctx.quick()
    ctx.build(name="vh-board")
    ctx.model_check("MC_Board", "MC_Board.cfg", coverage=False, timeout=300)
    _, items = ctx.generate("MC_Board", "Gen_Board.cfg", "sched_all.ndjson", timeout=300)
    uniq = {}
    for it in items:
        uniq[json.dumps(it, sort_keys=True)] = it
    base = list(uniq.values())
    step = 4 if quick else 1
    base = base[ctx.seed % step::step]
    scheds = []
    for b in base:
        for store in ("board", "agreement"):
            s = dict(b)
            s["store"] = store
            scheds.append(s)
    sp = ctx.path("sched.ndjson")
    with open(sp, "w") as f:
        for s in scheds:
            f.write(json.dumps(s) + "\n")
    ctx.sample({"schedule": scheds[len(scheds) // 3]})
    l1 = ctx.path("sched_log.ndjson")
    ctx.harness(["sched", "-scripts", sp, "-out", l1, "-par", "48"], timeout=900)
    l2 = ctx.path("hist_log.ndjson")
    nh = 8 if quick else 48
    ctx.harness(["hist", "-out", l2, "-runs", str(nh), "-steps", "25" if quick else "60", "-seed", str(ctx.seed),
                 "-conc", "6" if quick else "12"], timeout=1500)
    lp = ctx.path("log.ndjson")
    with open(lp, "w") as f:
        f.write(open(l1).read())
        f.write(open(l2).read())
    viol, drift = ctx.validate("Trace_Board", "Trace_Board.cfg", lp, timeout=1200)
    ctx.cov["traces_validated_against_impl"] += len(scheds) + nh
    ctx.notes["schedules_enacted"] = len(scheds)
    ctx.notes["schedules_infeasible_on_real_code"] = sum(1 for line in open(l1) if '"infeasible":true' in line)
    ctx.notes["histories"] = nh
    for v in viol:
        d = v.get("detail")
        sig = "C19/%s/%s" % (v.get("op"), d.get("sig") if isinstance(d, dict) else "?")
        replay = {"driver": "vh-board", "seed": ctx.seed}
        if v.get("run") and v["run"] <= len(scheds):
            replay = {"driver": "vh-board sched", "schedule": scheds[v["run"] - 1]}
        ctx.add_violation(sig, d, replay)
    for d in drift:
        ctx.add_drift(d)
    ctx.assumptions += [
        "schedules are enumerated at the granularity of store calls (Seek / Read / Write); one model Read step is "
        "mapped to the real Read calls that deliver the same fraction of the text",
        "store calls are attributed to requests by the goroutine that serves the connection",
        "board sizes up to ~62 KiB (the 64 KiB field limit)",
    ]
