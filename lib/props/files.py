"""C07 (all filesystem effects stay inside the file root / accounts directory) and C11 (file views agree, file
operations carry the whole file): spec/Files.tla, MC_Files.tla, Trace_Files.tla, driver harness/cmd/vh-files.

C07  quick:    TLC checks Contained07 / CleanStaysInside over every "core" request (each symbol of the adversarial
               alphabet in every position of every path-carrying request, length-prefix mismatches, folder-upload item
               headers, account logins) and emits each request; a second TLC run with the pinned tree's deviations
               must FAIL (non-vacuity); `vh-files c07` executes every request on the real handlers inside a sandbox with
               canary siblings; Trace_Files decides (VIOL iff the real disk changed outside the trees or a canary
               marker was sent).
     thorough: the "full" product (paths of <= 2 arbitrary components, all item headers of <= 3 segments, ...).
C11  quick:    TLC checks the view invariants and the operation properties on all one-step behaviours of nine worlds
               and emits them; a run with deviation F23 must FAIL; simulation emits longer sequences; `vh-files c11`
               executes them and records list / get-info / download replies and the real tree after every step.
     thorough: exhaustive depth 2, more and longer simulated sequences.
"""
import json
import threading

from vlib import Fatal, log, tlc, printed_json


def _name(b):
    if b == [-1] or b is None:
        return "-"
    s = bytes(x for x in b if 0 <= x < 256).decode("latin1")
    return s if len(s) <= 24 else s[:10] + "..(%d)" % len(s)


def _must_fail(ctx, module, cfg, what, results):
    """A model-check of the implementation-shaped deviation must violate the named invariant: the property is not
    vacuous in the model."""
    try:
        r = tlc(ctx, module, cfg=cfg, timeout=600)
        results.append((cfg, r.violated, r.distinct, r.generated, round(r.wall, 1)))
    except Exception as e:  # reported by the caller
        results.append((cfg, "error: %s" % e, 0, 0, 0))


def _write(path, items):
    with open(path, "w") as f:
        for it in items:
            f.write(json.dumps(it) + "\n")


# ---- C07 ----------------------------------------------------------------------------------------------------------

def sig_c07(v):
    st, d = v.get("step", {}), v.get("detail", {})
    kind = st.get("kind", "?")
    blame = sorted(d.get("blame", []))
    if blame and d.get("explained"):      # the observed effects are exactly those of the named deviation
        return "C07/%s/%s" % (kind, "+".join(blame))
    what = "disclosed" if d.get("disclosed") else "changed-outside"
    return "C07/%s/unexplained/%s" % (kind, what)


_TOKENS = [b"..", b".", b"a", b"x", b"/", b"", b"b.txt", b"\x8a", b"\x00", b"abs", b"../", b"/..", b"a/", b"./", b"p", b".incomplete", b" "]


def _is_mix_path(raw):
    """a path field of 2..3 items, each one of a, .., ../.., ."""
    if not isinstance(raw, list) or len(raw) < 2 or raw == [-1]:
        return False
    n, pos, items = raw[0] * 256 + raw[1], 2, []
    for _ in range(n):
        if pos + 3 > len(raw):
            return False
        ln = raw[pos + 2]
        items.append(bytes(raw[pos + 3:pos + 3 + ln]))
        pos += 3 + ln
    return len(items) >= 2 and all(i in (b"a", b"..", b"../..", b".") for i in items)


def _random_requests(seed, n):
    """Seeded random requests (thorough tier): components glued from 1..3 tokens of a hostile palette, in random
    positions of random request kinds.  They are judged like the TLC-generated ones (Trace_Files applies Files!Do)."""
    import random
    rnd = random.Random(seed * 7919 + 17)

    def comp():
        return list(b"".join(rnd.choice(_TOKENS) for _ in range(rnd.randint(1, 3))))

    def path():
        k = rnd.choice([0, 0, 1, 1, 2, 3])
        if k == 0:
            return [-1]
        cs = [comp() for _ in range(k)]
        b = [0, len(cs)]
        for c in cs:
            b += [0, 0, len(c)] + c
        return b
    out = []
    kinds = ["info", "newfolder", "delete", "download", "upload", "setcomment", "rename", "move", "alias", "list", "dlfolder"]
    for _ in range(n):
        k = rnd.choice(kinds)
        q = {"kind": k, "occ": rnd.randint(0, 1), "ur": 0, "sp": 0, "path": path(), "name": comp(), "newname": [-1], "newpath": [-1], "comment": [-1]}
        if k == "list":
            q["name"] = [-1]
            q["occ"] = 1
        if k in ("info", "download", "dlfolder"):
            q["occ"] = 1
        if k == "rename":
            q["newname"] = comp()
            if rnd.random() < 0.6:
                q["name"] = rnd.choice([[120], [98, 46, 116, 120, 116], [97]])
        if k == "setcomment":
            q["comment"] = [104, 105]
        if k in ("move", "alias"):
            q["newpath"] = path()
            if rnd.random() < 0.6:
                q["name"] = rnd.choice([[120], [98, 46, 116, 120, 116], [97]])
        if rnd.random() < 0.25:      # the requester is confined to its own file root
            q["ur"], q["occ"] = 1, 0
        if q["occ"] == 0 and rnd.random() < 0.3:   # the root is spelled non-canonically in the configuration
            q["sp"] = rnd.randint(1, 3)
        out.append(q)
    return out


def _judge_c07(ctx, world, reqs, neg_thread=None, neg=None):
    sp = ctx.path("c07-scripts.ndjson")
    _write(sp, world + reqs)
    lp = ctx.path("c07-log.ndjson")
    ctx.harness(["c07", "-scripts", sp, "-out", lp, "-par", "1024"], timeout=3000)
    if neg_thread is not None:
        neg_thread.join()
        if not neg or neg[0][1] != "Contained07":
            raise Fatal("the deviation model MC_Files_C07_pinned.cfg did not violate Contained07 (vacuous invariant?): %s" % (neg,))
        ctx.notes["negative_model_checks"] = [{"cfg": n[0], "violated": n[1], "wall_s": n[4]} for n in neg]
    viol, drift = ctx.validate("Trace_Files", "Trace_Files.cfg", lp, timeout=3000, heap="8g")
    ctx.cov["traces_validated_against_impl"] += len(reqs)
    kinds = {}
    for q in reqs:
        kinds[q["kind"]] = kinds.get(q["kind"], 0) + 1
    ctx.notes["requests_by_kind"] = kinds
    ctx.sample({"request": {k: (_name(v) if isinstance(v, list) else v) for k, v in reqs[len(reqs) // 2].items()
                            if k in ("kind", "occ", "ur", "sp", "path", "name", "newname", "newpath", "comment")}})
    for v in viol:
        if v.get("prop") != "C07":
            continue
        st = v.get("step", {})
        brief = {k: st.get(k) for k in ("kind", "occ", "ur", "sp", "path", "name", "newname", "newpath", "item", "ops", "steps", "tmp", "reps", "disclosed") if k in st}
        ctx.add_violation(sig_c07(v), {"request": brief, "detail": v.get("detail")},
                          replay={"driver": "vh-files c07", "trace_module": "Trace_Files", "world": world[0], "request": {k: st.get(k) for k in st if k not in ("diff", "names")}})
    for d in drift:
        st = d.get("step", {})
        ctx.add_drift({"cls": d.get("cls"), "kind": st.get("kind"), "name": _name(st.get("name")), "newname": _name(st.get("newname")),
                       "path": st.get("path") if len(str(st.get("path"))) < 120 else "long", "detail": json.dumps(d.get("detail"))[:400]})


def run_c07(ctx):
    quick = ctx.quick()
    ctx.build(name="vh-files")
    cfg = "MC_Files_C07.cfg" if quick else "MC_Files_C07_full.cfg"
    neg = []
    th = threading.Thread(target=_must_fail, args=(ctx, "MC_Files", "MC_Files_C07_pinned.cfg", "Contained07", neg))
    th.start()
    # (one worker: every transition leaves the single initial state, more workers only contend - measured 10 x slower)
    r = ctx.model_check("MC_Files", cfg, timeout=3000, coverage=False, heap="8g", workers=1)
    world = printed_json(r, "W")
    reqs = printed_json(r, "B")
    if len(world) != 1 or not reqs:
        raise Fatal("TLC emitted no C07 requests:\n%s" % r.out[-2000:])
    reqs.sort(key=lambda q: json.dumps(q, sort_keys=True))
    if quick:
        # every request of the core set that can leave the trees on the pinned tree is kept; of the rest a seeded 30 %
        keep = []
        for i, q in enumerate(reqs):
            h = (i * 7919 + ctx.seed * 104729) % 10
            if q["kind"] == "upfolder":      # transfers (3 s each, run in parallel): all one-segment items, 30 % of the rest
                top = q["item"]["count"] <= 1 or h < 3
            else:
                top = q["kind"] in ("rename", "seq") or (q["kind"] != "acct" and q.get("path") == [-1]) or h < 3
                if q["kind"] == "newfolder" and _is_mix_path(q.get("path")):
                    top = True                   # (multi-item paths mixing a sub-folder, "..", "../.." and ".": all kept)
                if q.get("sp", 0) != 0 and q["kind"] in ("newfolder", "upload", "list", "alias", "upfolder", "dlfolder"):
                    top = h < 3                  # (non-canonical root spelling: the kinds with side files are all kept)
                if q["kind"] == "acct":          # (account creation hashes a password at full cost: the slowest requests)
                    top = q["occ"] == 0 and (h < 6 or q.get("tmp") == 1)
            if top:
                keep.append(q)
        reqs = keep
    if not quick:
        reqs += _random_requests(ctx.seed, 4000)
    _judge_c07(ctx, world, reqs, th, neg)
    ctx.assumptions += [
        "one request per sandbox, from a logged-in client holding every privilege; the sandbox is outer/l1/l2/l3/W/{root,config/Users,canaries} and the whole of `outer` is snapshotted before and after (names, kinds, sizes, hashes, link targets)",
        "the adversarial alphabet is the 11 symbols of DESIGN C07 (+ length-prefix mismatches); paths of up to 3 components; each mutating request runs in two sandbox variants (landing places free / occupied)",
        "disclosure is judged by a marker string planted in every canary's content (and in some canary names) appearing in any byte the server sent",
    ]


# ---- C11 ----------------------------------------------------------------------------------------------------------

def sig_c11(v):
    d = v.get("detail", {}) if isinstance(v.get("detail"), dict) else {}
    cls = v.get("cls", "?")
    st = v.get("step", {})
    if cls == "listing":
        if d.get("cause") == "F23":
            return "C11/listing/incomplete-infix-stripped"
        if d.get("rep") not in (None, "ok") and d.get("cause") != "LOOP":
            return "C11/listing/no-reply"           # the folder's list request was not answered (or closed the connection)
        if d.get("cause") == "LOOP":
            return "C11/listing/no-reply/self-referencing-alias"
        return "C11/listing/missing=%s/extra=%s" % (",".join(sorted(_name(x) for x in d.get("missing", []))), ",".join(sorted(_name(x) for x in d.get("extra", []))))
    if cls in ("views", "addressable"):
        return "C11/%s/%s" % (cls, _name(d.get("n")))
    return "C11/%s/%s" % (cls, st.get("kind", "world"))


def _judge_c11(ctx, scripts, nscr1):
    sp = ctx.path("c11-scripts.ndjson")
    _write(sp, scripts)
    lp = ctx.path("c11-log.ndjson")
    ctx.harness(["c11", "-scripts", sp, "-out", lp, "-par", "16"], timeout=3000)
    viol, drift = ctx.validate("Trace_Files", "Trace_Files.cfg", lp, timeout=3000, heap="8g")
    ctx.cov["traces_validated_against_impl"] += len(scripts)
    ctx.notes["scripts"] = {"one_step_exhaustive": nscr1, "simulated_sequences": len(scripts) - nscr1}
    ops = {}
    for s in scripts:
        for st in s["steps"]:
            ops[st["kind"]] = ops.get(st["kind"], 0) + 1
    ctx.notes["steps_by_kind"] = ops
    ctx.sample({"ignore": scripts[-1]["world"]["ignore"], "steps": [{"kind": st["kind"], "name": _name(st["name"]), "newname": _name(st["newname"])} for st in scripts[-1]["steps"]]})
    for v in viol:
        if v.get("prop") != "C11":
            continue
        run_id = v.get("run")
        st = v.get("step", {})
        ctx.add_violation(sig_c11(v), {"cls": v.get("cls"), "step": {k: st.get(k) for k in ("i", "kind", "path", "name", "newname", "newpath", "rep") if k in st},
                                       "detail": json.loads(json.dumps(v.get("detail"))[:3000]) if len(json.dumps(v.get("detail"))) < 3000 else json.dumps(v.get("detail"))[:3000]},
                          replay={"driver": "vh-files c11", "trace_module": "Trace_Files",
                                  "script": scripts[run_id - 1] if run_id and run_id <= len(scripts) else None})
    for d in drift:
        st = d.get("step", {})
        ctx.add_drift({"cls": d.get("cls"), "run": d.get("run"), "i": st.get("i"), "kind": st.get("kind"), "name": _name(st.get("name")),
                       "newname": _name(st.get("newname")), "detail": json.dumps(d.get("detail"))[:500]})


def run_c11(ctx):
    quick = ctx.quick()
    ctx.build(name="vh-files")
    neg = []
    th = threading.Thread(target=_must_fail, args=(ctx, "MC_Files", "MC_Files_C11_pinned.cfg", "ListedIsAddressable", neg))
    th.start()
    gen = {}

    def _gen():
        try:
            out = []
            for b in range(1 if quick else 8):
                _, items = ctx.generate("MC_Files", "Gen_Files_C11.cfg" if quick else "Gen_Files_C11_long.cfg", "gen%d.ndjson" % b,
                                        simulate=24 if quick else 60, depth=5 if quick else 8, extra_seed=1100 + b, timeout=1200)
                out += items[::9] if quick else items[::23]
            gen["items"] = out
        except Exception as e:
            gen["err"] = e
    tg = threading.Thread(target=_gen)
    tg.start()
    r = ctx.model_check("MC_Files", "MC_Files_C11.cfg", timeout=1200, coverage=False)
    scripts = printed_json(r, "B")
    scripts.sort(key=lambda q: json.dumps(q, sort_keys=True))
    if quick:   # a seeded third of the one-step behaviours (all of them in the thorough tier)
        scripts = [q for i, q in enumerate(scripts) if (i + ctx.seed) % 3 == 0]
    if not quick:
        ctx.model_check("MC_Files", "MC_Files_C11_deep.cfg", timeout=3000, coverage=False, heap="8g")
    nscr1 = len(scripts)
    tg.join()
    if "err" in gen:
        raise gen["err"]
    scripts += gen["items"]
    th.join()
    if not neg or neg[0][1] not in ("ListedIsAddressable", "ListShowsExactly"):
        raise Fatal("the deviation model MC_Files_C11_pinned.cfg did not violate the listing invariants (vacuous?): %s" % (neg,))
    ctx.notes["negative_model_checks"] = [{"cfg": n[0], "violated": n[1], "wall_s": n[4]} for n in neg]
    _judge_c11(ctx, scripts, nscr1)
    ctx.assumptions += [
        "one client holding every file privilege drives the sequence; after every step every real folder is listed, every listed entry is asked for get-info and (non-folders) a download reply by exactly its listed bytes",
        "names come from {a, b.txt, c, .hid, @x, x.incomplete.y, a Mac Roman name}; ignore configurations: default (^\\. ^@), none, one custom pattern (\\.txt$)",
        "measured facts of the pinned tree that the statement does not constrain are modelled, not flagged: get-info on a missing name answers, a partial upload reports size 0 in get-info, a folder's comment file stays behind on folder rename, rename/move onto an existing target replaces it, dangling aliases are not listed",
    ]


def run(ctx, prop):
    if prop == "C07":
        return run_c07(ctx)
    return run_c11(ctx)


def replay(ctx, prop, rp):
    """vcheck replay <file>: re-execute the recorded request / script on the current tree and judge it again."""
    ctx.build(name="vh-files")
    r = rp.get("replay") or {}
    if prop == "C07":
        keep = ("kind", "occ", "ur", "sp", "path", "name", "newname", "newpath", "comment", "item", "ops", "steps", "tmp")
        _judge_c07(ctx, [r["world"]], [{k: v for k, v in r["request"].items() if k in keep}])
    else:
        _judge_c11(ctx, [r["script"]], 0)
    ctx.cov["states"] = max(ctx.cov["states"], 1)
    ctx.cov["transitions"] = max(ctx.cov["transitions"], 1)
