"""C08 (downloads deliver exactly the file's bytes) and C09 (uploads exact, atomic, resumable after any cut).

Transfer.tla: byte-level model of the flattened file object and of the download stream with a reference client that
follows the length fields (C08), state machine of final file / partial file / grant / connection with Deliver, Cut,
Publish, Resume (C09).

quick:    MC_Transfer exhaustive (all download classes n<=4 at byte level; all upload behaviours with <= 3 cuts at any
          abstract offset, byte-granular delivery, foreign file planted at any quiet moment); the deviation model
          (FreshAppends) must be rejected by TLC (non-vacuity); TLC emits every download class (C08) or every cut
          sequence (C09) as scripts; `vh-transfer` concretises them (seeded) to real sizes 0 .. 1 MiB+1 and enacts them
          on the real server; Trace_Transfer validates the recorded facts.  C09 quick takes a seeded sample of the
          emitted behaviours, thorough takes all of them, several concretisation passes and 5 MiB files, and checks a
          deeper design model (n <= 6, <= 5 cuts).
"""
import json
import os
import random

import vlib
from vlib import Fatal, log


def sig_of(rec):
    d = rec.get("detail") if isinstance(rec.get("detail"), dict) else {}
    clauses = "+".join(sorted(d.get("clauses", []))) or "?"
    st = rec.get("step", {})
    if rec.get("prop") == "C08":
        c = st.get("c", {})
        return "C08/%s/preview=%d,resume=%d,rsrc=%d,info=%d" % (
            clauses, int(bool(c.get("preview"))), int(bool(c.get("resume"))), int(c.get("rsrc", -1) >= 0), int(bool(c.get("info"))))
    x = d.get("ctx", {})
    if x.get("stale"):
        where = "fresh-over-partial"
    else:
        where = "op=%s,seg=%s,resumed=%d,cut=%s" % (rec.get("op"), x.get("seg"), int(bool(x.get("res"))), st.get("flavour", "-"))
    return "C09/%s/%s" % (clauses, where)


def _demo():
    """Binding demonstration only: VERIF_DEMO_CORRUPT=f207|hdrLen|tail (C08) / inc|off (C09) makes the driver corrupt that
    one logged fact in a fraction of the runs; the check must then report violations."""
    c = os.environ.get("VERIF_DEMO_CORRUPT")
    return ["-corrupt", c] if c else []


def _hdr_cut(script):
    """(abstract index of the first cut inside the header region, op that follows it) or None"""
    st = script.get("steps", [])
    for j, x in enumerate(st):
        if x.get("op") == "cut" and x.get("at", {}).get("seg") == "hdr" and j + 1 < len(st):
            return (x["at"]["i"], st[j + 1].get("op"))
    return None


def _header_matrix(main, extra, rnd, per):
    """Cuts inside every part of the header region (boundary after the preamble, FILP header, INFO fork header, info
    fork, DATA fork header, last header byte missing) x PreserveResourceForks on/off x followed by a resume and by a
    fresh upload of the same name: TLC-emitted behaviours selected by their shape, each enacted in every combination."""
    out = []
    for i in (0, 1, 2):
        for follow, pool in (("resume", main), ("request", extra)):
            cands = [s for s in pool if _hdr_cut(s) == (i, follow)]
            for s in rnd.sample(cands, min(per, len(cands))):
                for pf in (True, False):
                    for hseg in ((0, 1, 2, 3) if i == 1 else (-1,)):
                        d = dict(s)
                        d["pf"] = pf
                        if hseg >= 0:
                            d["hseg"] = hseg
                        out.append(d)
    return out


def _write(path, items):
    with open(path, "w") as f:
        for it in items:
            f.write(json.dumps(it) + "\n")


def _design(ctx, prop):
    ctx.model_check("MC_Transfer", "MC_Transfer.cfg" if ctx.quick() else "MC_Transfer_deep.cfg", timeout=900, coverage=False)
    if prop == "C09":
        # non-vacuity: the same invariants must reject the model of the deviation (a non-resume upload appending to a
        # left-over partial file)
        r = vlib.tlc(ctx, "MC_Transfer", cfg="MC_Transfer_dev.cfg", timeout=600)
        if r.violated not in ("PartialIsExactlyReceived", "PartialIsPrefix", "FinalIsExact", "ResumeCompletesIdentically", "RoundTrip"):
            raise Fatal("vacuous design check: the FreshAppends deviation is not rejected by the C09 invariants:\n%s" % r.out[-3000:])
        ctx.notes["deviation_model_rejected_by"] = r.violated
        ctx.cov["states"] += r.distinct
        ctx.cov["transitions"] += r.generated


def _validate(ctx, prop, lp, scripts_of_run, mode):
    viol, drift = ctx.validate("Trace_Transfer", "Trace_Transfer.cfg", lp, timeout=1800, heap="8g")
    for v in viol:
        if v.get("prop") != prop:
            continue
        run_id = v.get("run")
        ctx.add_violation(sig_of(v), {"op": v.get("op"), "line": v.get("line"), "detail": v.get("detail"), "step": v.get("step")},
                          replay={"driver": "vh-transfer", "mode": mode, "first": run_id, "pass_seed": scripts_of_run.get("seed"),
                                  "big": scripts_of_run.get("big", 0), "trace_module": "Trace_Transfer",
                                  "script": scripts_of_run["items"][run_id - 1] if run_id and run_id <= len(scripts_of_run["items"]) else None})
    for d in drift:
        ctx.add_drift({"prop": d.get("prop"), "op": d.get("op"), "run": d.get("run"), "detail": d.get("detail"), "step": d.get("step")})


def _count_ops(lp, acc):
    for line in open(lp):
        o = json.loads(line).get("op")
        acc[o] = acc.get(o, 0) + 1


def run(ctx, prop):
    quick = ctx.quick()
    ctx.build(name="vh-transfer")
    _design(ctx, prop)
    ops = {}
    if prop == "C08":
        _, items = ctx.generate("MC_Transfer", "Gen_Transfer_C08.cfg", "dl.ndjson", prefix="D", timeout=600)
        ctx.sample({"download_class": items[len(items) // 3]})
        passes = 4 if quick else 40
        big = 0 if quick else 5 * 1024 * 1024 + 1
        sp = ctx.path("dl.ndjson")
        allp = ctx.path("dl.all.log.ndjson")
        seeds = {}
        with open(allp, "w") as allf:
            for p in range(passes):
                lp = ctx.path("dl%d.log.ndjson" % p)
                pseed = ctx.seed * 100 + p
                seeds[p] = pseed
                args = ["dl", "-scripts", sp, "-out", lp, "-par", "24", "-first", str(p * len(items) + 1)]
                if big:
                    args += ["-big", str(big)]
                args += _demo()
                ctx.harness(args, timeout=900, env={"VERIF_SEED": str(pseed)})
                allf.write(open(lp).read())
                if p == 0:
                    first = json.loads(open(lp).readline())
                    ctx.sample({"real_download": {"case": first.get("c"), "facts": first.get("o")}})
        viol, drift = ctx.validate("Trace_Transfer", "Trace_Transfer.cfg", allp, timeout=1800, heap="8g")
        for v in viol:
            if v.get("prop") != prop:
                continue
            rid = v.get("run") or 1
            ctx.add_violation(sig_of(v), {"op": v.get("op"), "line": v.get("line"), "detail": v.get("detail"), "step": v.get("step")},
                              replay={"driver": "vh-transfer", "mode": "dl", "first": rid, "pass_seed": seeds.get((rid - 1) // len(items)),
                                      "big": big, "trace_module": "Trace_Transfer", "script": items[(rid - 1) % len(items)]})
        for d in drift:
            ctx.add_drift({"prop": d.get("prop"), "op": d.get("op"), "run": d.get("run"), "detail": d.get("detail"), "step": d.get("step")})
        ctx.cov["traces_validated_against_impl"] += passes * len(items)
        _count_ops(allp, ops)
        ctx.notes["download_classes"] = len(items)
        ctx.notes["concretisation_passes"] = passes
        ctx.assumptions += [
            "file contents are pseudo-random bytes without the letter D (so the DATA fork header is found by its tag) whose first byte is never F (data) / M (resource fork)",
            "the transfer is complete when handleFileTransfer reaches its deferred FileTransferMgr.Delete (observed through a forwarding wrapper of the manager interface); the 3 s sleep that follows is not waited for",
            "0 <= k <= size only (the quantifier of the property); names: 1 char, ASCII, 31 chars, a Mac-Roman-representable UTF-8 name",
            "108 is not judged for files that have a stored resource fork; a trailing resource fork header (even empty) is accepted, also after a preview",
        ]
    else:
        _, main = ctx.generate("MC_Transfer", "Gen_Transfer_C09.cfg", "up_main.ndjson", prefix="U", timeout=900)
        _, extra = ctx.generate("MC_Transfer", "Gen_Transfer_C09x.cfg", "up_extra.ndjson", prefix="U", timeout=900)
        ctx.notes["behaviours_emitted"] = {"cuts_and_resumes": len(main), "with_fresh_requests_and_foreign_files": len(extra)}
        rnd = random.Random(ctx.seed)
        passes = 1 if quick else 5
        big = 0 if quick else 5 * 1024 * 1024 + 1
        for p in range(passes):
            if quick:
                items = rnd.sample(main, min(2000, len(main))) + rnd.sample(extra, min(800, len(extra)))
                items += _header_matrix(main, extra, rnd, 10)
            else:
                items = list(main) + list(extra) + _header_matrix(main, extra, rnd, 80)
            sp = ctx.path("up%d.ndjson" % p)
            _write(sp, items)
            lp = ctx.path("up%d.log.ndjson" % p)
            pseed = ctx.seed * 100 + p
            args = ["up", "-scripts", sp, "-out", lp, "-par", "24"]
            if big:
                args += ["-big", str(big)]
            args += _demo()
            ctx.harness(args, timeout=1500, env={"VERIF_SEED": str(pseed)})
            _validate(ctx, prop, lp, {"items": items, "seed": pseed, "big": big}, "up")
            ctx.cov["traces_validated_against_impl"] += len(items)
            _count_ops(lp, ops)
            if p == 0:
                ctx.sample({"script": items[len(items) // 2]})
                evs = [json.loads(l) for l in open(lp).readlines()[:40]]
                r0 = evs[0].get("run")
                ctx.sample({"real_run": [e for e in evs if e.get("run") == r0][:10]})
        ctx.notes["concretisation_passes"] = passes
        ctx.assumptions += [
            "the client's stream is delivered by a scripted connection that ends at the cut offset, half of the cuts with a connection error and half with a clean end of stream (FIN); the 16-byte preamble arrives in one segment (segmentation of the preamble is C02's subject), the rest in one or in random segments",
            "a 203 request is followed by a keep-alive: when the keep-alive is answered and the request is not, the request got no reply (recorded as such; transactions of one connection are handled in order)",
            "every 203 request, fresh or resume, is sent with or without the optional transfer-size field (drawn per request, logged as size108)",
            "after a cut the reference client resumes when it sees a partial file and starts afresh when it sees none (an absent partial file with nothing received is accepted)",
            "a non-resume upload that meets a left-over partial file may replace it at any moment before its first data byte is stored (0 bytes and the old length are both accepted until then)",
            "resource/info side files are logged but not judged, except that the round-trip download compares the data fork",
            "one upload at a time per target name (histories, not schedules)",
        ]
    ctx.notes["steps_by_op"] = ops


def replay(ctx, prop, rp):
    r = rp.get("replay") or {}
    if not r.get("script"):
        raise Fatal("replay file carries no script")
    ctx.build(name="vh-transfer")
    sp = ctx.path("replay.ndjson")
    _write(sp, [r["script"]])
    lp = ctx.path("replay.log.ndjson")
    args = [r.get("mode", "up"), "-scripts", sp, "-out", lp, "-par", "1", "-first", str(r.get("first", 1))]
    if r.get("big"):
        args += ["-big", str(r["big"])]
    ctx.harness(args, timeout=600, env={"VERIF_SEED": str(r.get("pass_seed", ctx.seed))})
    viol, drift = ctx.validate("Trace_Transfer", "Trace_Transfer.cfg", lp, timeout=600)
    ctx.cov["traces_validated_against_impl"] += 1
    ctx.sample({"replayed_log": [json.loads(l) for l in open(lp)][:12]})
    for v in viol:
        if v.get("prop") == prop:
            ctx.add_violation(sig_of(v), {"op": v.get("op"), "detail": v.get("detail"), "step": v.get("step")}, replay=r)
    for d in drift:
        ctx.add_drift({"op": d.get("op"), "detail": d.get("detail")})
