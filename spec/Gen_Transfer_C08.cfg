CONSTANTS
  FreshAppends = FALSE
  MaxN = 4
  RsrcLens <- RsrcAll
  MaxCuts = 0
  Big = TRUE
  AllowFresh = FALSE
  AllowPlant = FALSE
  Ops = {"dl"}
INIT Init
NEXT Next
VIEW View
ACTION_CONSTRAINT EmitDl
CHECK_DEADLOCK FALSE
