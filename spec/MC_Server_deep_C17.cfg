CONSTANTS
  Conns = {1, 2, 3}
  IDMod = 4
  MaxChats = 1
  MaxSteps = 7
  GenDepth = 99
  Ops = {"connect","dial","handshake","login","close","kick","banadd","wait","restart","userlist"}
  Thin = FALSE
INIT Init
NEXT Next
VIEW View
CONSTRAINT Bound
INVARIANTS UniqueLiveIDs DeliveredOnlyToLive PrivateOnlyToMembers PublicOnlyToReaders NoDuplicateDelivery RosterConverges
PROPERTIES FreshIdOnLogin BanAtDoor NoPostLeaveDelivery
CHECK_DEADLOCK FALSE
