CONSTANTS
  IdPolicy = "max"
  MaxDepth = 2
  MaxArts = 4
  MaxSteps = 4
  NNames = 2
  NTexts = 2
  GenDepth = 99
  Ops = {"mkbundle","mkcat","post","delart","delitem","get","list","cats","reload","setname","stale"}
  Thin = FALSE
INIT Init
NEXT Next
VIEW View
CONSTRAINT Bound
INVARIANTS ReloadIsIdentity
PROPERTIES StaleChangesNothing FreshId LinksOnPost OthersUntouched DeleteExactlyThat ReloadKeeps ListStaysParseable ChildrenStay
CHECK_DEADLOCK FALSE
