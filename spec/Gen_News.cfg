CONSTANTS
  IdPolicy = "max"
  MaxDepth = 2
  MaxArts = 4
  MaxSteps = 99
  NNames = 3
  NTexts = 3
  GenDepth = 15
  Ops = {"mkbundle","mkcat","post","delart","delitem","get","list","cats","reload","setname","stale"}
  Thin = TRUE
INIT Init
NEXT Next
ACTION_CONSTRAINT Emit
CHECK_DEADLOCK FALSE
