------------------------------- MODULE MC_Wire -------------------------------
(* Bounded instance of Wire.
   MC_Wire.cfg / MC_Wire_deep.cfg : exhaustive check - for every object of the small domains below, two drains of
        the same encoder through independently chosen buffer sizes (the pair construction for BufferIndependence);
        invariants EmittedIsPrefix, EofMeansAll, LenPrefixOK, BufferIndependence, PrefixComparable.
   MC_Wire_live.cfg  : Terminates (both drains reach end of stream) under weak fairness, no state constraint.
   Gen_Wire.cfg      : exhaustive emission of one script per object and uniform buffer size (1, 2, 3, 7, Big).
   Gen_Wire_sim.cfg  : simulation, random object and a random mix of buffer sizes per read.
   A script is {kind, obj, reads[, fed]}: the harness builds the real object, drains the real encoder with
   exactly these buffer sizes and decodes the bytes with the real decoder; `fed` (decoder-only kinds) are the
   specification's bytes for the real decoder. *)
EXTENDS Wire, Json

CONSTANTS Kinds,     \* object kinds enabled in this configuration
          Bufs,      \* buffer sizes of the first drain
          Bufs2,     \* buffer sizes of the second drain ({} = no second drain)
          Modes,     \* 0 = any buffer size per read; n > 0 = every read uses n
          Long,      \* TRUE: add the objects with 252..255-byte names (script generation)
          Track,     \* TRUE: keep the history of reads (script generation)
          BSizes     \* {} = the ordinary object domains; otherwise ONLY the scanner-boundary objects below, for these
                     \* buffer sizes (Gen_Wire_boundary.cfg)

VARIABLES off2, eof2, emitted2,    \* the second drain of the same object
          mode, hist

mcvars == <<dvars, off2, eof2, emitted2, mode, hist>>

Z4 == Zeros(4)   F4 == Rep(255, 4)
DataS == {<<>>, <<0>>, <<255>>, <<1, 0>>, <<0, 1, 255>>}
NameS == {<<>>, <<65>>, <<0, 255>>}
LongNames == IF Long THEN {Rep(66, n) : n \in {252, 253, 254, 255}} ELSE {}

SeqsUpTo(S, lo, hi) == UNION {[1..n -> S] : n \in lo..hi}

FldS == {[id |-> 101, data |-> <<>>], [id |-> 102, data |-> <<7>>], [id |-> 65535, data |-> <<0, 255, 1>>]}
(* every combination of the boundary header values (the statement quantifies over ANY type / flags / id / error
   code): ID 0 on a request, on a reply, all-ones, ... *)
HeaderGrid == {[flags |-> f, isReply |-> r, type |-> t, id |-> i, err |-> e]
                 : f \in {0, 1}, r \in {0, 1}, t \in {0, 65535}, i \in {Zeros(4), <<0, 0, 0, 1>>, Rep(255, 4)},
                   e \in {Zeros(4), <<0, 0, 0, 1>>, Rep(255, 4)}}
GridFields == {<<>>, <<[id |-> 102, data |-> <<7>>]>>, <<[id |-> 101, data |-> <<>>], [id |-> 65535, data |-> <<0, 255, 1>>]>>}
Headers == {[flags |-> 0, isReply |-> 0, type |-> 107, id |-> <<0, 0, 0, 1>>, err |-> Z4],
            [flags |-> 0, isReply |-> 1, type |-> 0, id |-> F4, err |-> <<0, 0, 0, 1>>],
            [flags |-> 255, isReply |-> 1, type |-> 65535, id |-> <<1, 2, 3, 4>>, err |-> F4]}

InfoS == {[platform |-> p, type |-> <<1, 2, 3, 4>>, creator |-> <<5, 6, 7, 8>>, flags |-> <<9, 10, 11, 12>>,
           pflags |-> <<0, 0, 1, 0>>, rsvd |-> Zeros(32), cdate |-> <<7, 234, 0, 0, 0, 0, 0, 1>>,
           mdate |-> <<7, 235, 0, 0, 1, 2, 3, 4>>, script |-> 0, name |-> n, comment |-> c]
            : p \in {AMAC, MWIN}, n \in NameS, c \in {<<>>, <<99>>, <<0, 255>>}}
InfoThin == {i \in InfoS : i.platform = AMAC /\ (i.name = <<>> => i.comment # <<99>>)}

Art1 == [id |-> <<0, 0, 0, 1>>, date |-> <<7, 234, 0, 0, 0, 0, 0, 9>>, parent |-> Z4, title |-> <<84>>, poster |-> <<>>, size |-> 0]
Art2 == [id |-> <<0, 0, 1, 0>>, date |-> <<7, 234, 0, 0, 0, 1, 0, 0>>, parent |-> <<0, 0, 0, 1>>, title |-> <<>>, poster |-> <<80, 0>>, size |-> 65535]

PathS == {<<65>>, <<0, 255>>}

(* Scanner-boundary objects.  The library's decoders split field lists and paths with a bufio.Scanner whose buffer
   starts at 4096 bytes and doubles; a token (field / path item) whose header ends exactly at, or straddles, the end of
   the buffer is the input class on which an off-by-one in a split function shows.  The buffer end is at
   (start of the first token that did not fit) + buffer size, hence: a field area of B - 3 .. B + 3 bytes made of one large
   field and a trailing empty (or one-byte) field; the same behind a prefix field (the buffer is shifted); a path
   whose 17th item header starts 5 .. -1 bytes before byte 4096 of the item list. *)
Boundary == BSizes # {}
H1 == [flags |-> 0, isReply |-> 1, type |-> 354, id |-> <<0, 0, 1, 2>>, err |-> Zeros(4)]
BoundaryTxns ==
  {H1 @@ [fields |-> <<[id |-> 101, data |-> Rep(7, B - 11 + d)], [id |-> 102, data |-> tail]>>]
     : B \in BSizes, d \in 0..6, tail \in {<<>>, <<1>>}}
  \cup {H1 @@ [fields |-> <<[id |-> 103, data |-> Rep(5, a)], [id |-> 101, data |-> Rep(7, 4085 + d)],
                            [id |-> 102, data |-> <<>>], [id |-> 104, data |-> <<2, 3>>]>>]
          : a \in {0, 37, 1000}, d \in 0..6}
BoundaryAccounts == {[login |-> <<>>, name |-> Rep(65, 4085 + d), access |-> Zeros(8), haspw |-> FALSE] : d \in 0..6}
BoundarySegs == {[i \in 1..15 |-> Rep(66, 255)] \o <<Rep(67, 218 + d)>> \o <<<<65>>>> : d \in 0..6}

BObjects(k) ==
  CASE k = "txn" -> BoundaryTxns
    [] k = "account" -> BoundaryAccounts
    [] k \in {"filepath", "newspath"} -> {[segs |-> s] : s \in BoundarySegs}
    [] k = "fileheader" -> {[isdir |-> FALSE, segs |-> s] : s \in BoundarySegs}
    [] OTHER -> {}

Widths == {2, 4}    \* User.Icon / User.Flags are accepted as 2 bytes or as a 4-byte integer whose low half counts (de-facto)

NObjects(k) ==
  CASE k = "field" -> {[id |-> i, data |-> d] : i \in {0, 101, 65535}, d \in DataS}
    [] k = "txn" -> {h @@ [fields |-> fs] : h \in Headers, fs \in SeqsUpTo(FldS, 0, 3)}
                    \cup {h @@ [fields |-> fs] : h \in HeaderGrid, fs \in GridFields}
    [] k = "user" -> {[id |-> i, icon |-> c, flags |-> f, name |-> n, iconw |-> cw, flagsw |-> fw]
                        : i \in {0, 1, 65535}, c \in {0, 414}, f \in {0, 3}, n \in NameS, cw \in Widths, fw \in Widths}
    [] k = "account" -> {[login |-> l, name |-> n, access |-> a, haspw |-> p]
                           : l \in NameS, n \in NameS, a \in {Zeros(8), Rep(255, 8)}, p \in BOOLEAN}
    [] k = "fnwi" -> {[type |-> t, creator |-> <<5, 6, 7, 8>>, size |-> s, rsvd |-> Z4, script |-> sc, name |-> n]
                        : t \in {FLDR, Z4}, s \in {Z4, F4}, sc \in {0, 1}, n \in NameS}
    [] k = "infofork" -> InfoS
    [] k = "ffo" -> {[forks |-> f, info |-> i, datasize |-> d] : f \in {2, 3}, i \in InfoThin, d \in {Z4, F4, <<0, 0, 1, 0>>}}
    [] k = "resume" -> {[forks |-> fs] : fs \in SeqsUpTo({[fork |-> DATA, size |-> Z4], [fork |-> MACR, size |-> <<0, 0, 1, 2>>]}, 0, 3)}
    [] k = "fileheader" -> {[isdir |-> d, segs |-> s] : d \in BOOLEAN, s \in SeqsUpTo(PathS, 1, 3) \cup {<<n>> : n \in LongNames}}
    [] k = "nald" -> {[id |-> i, name |-> n, desc |-> d, arts |-> a]
                        : i \in {Z4, <<0, 0, 1, 2>>}, n \in {<<>>, <<78>>}, d \in {<<>>, <<68>>}, a \in {<<>>, <<Art1>>, <<Art2>>, <<Art1, Art2>>}}
    [] k = "newsartlist" -> {[id |-> <<0, 0, 0, 7>>, date |-> <<7, 234, 0, 0, 0, 0, 0, 9>>, parent |-> p, flags |-> f, title |-> t, poster |-> q, size |-> s]
                               : p \in {Z4, <<0, 0, 0, 6>>}, f \in {Z4}, t \in NameS, q \in NameS, s \in {0, 65535}}
    [] k = "newscat15" -> {[bundle |-> b, narts |-> a, nsubs |-> s, guid |-> Rep(7, 16), addsn |-> <<0, 0, 0, 1>>, delsn |-> <<0, 0, 0, 2>>, name |-> n]
                             : b \in BOOLEAN, a \in {0, 2}, s \in {0, 1}, n \in NameS}
    [] k = "trackerreg" -> {[port |-> p, users |-> u, passid |-> <<9, 8, 7, 6>>, name |-> n, desc |-> d, pass |-> w]
                              : p \in {5500, 65535}, u \in {0, 65535}, n \in NameS, d \in {<<>>, <<68>>}, w \in {<<>>, <<80, 87>>}}
    [] k = "time" -> {[year |-> y, secs |-> s] : y \in {1970, 2026, 2100}, s \in {0, 1, 86399, 31535999}}
    [] k = "handshake" -> {[proto |-> p, sub |-> s, ver |-> v, subver |-> w]
                             : p \in {TRTP, <<84, 82, 84, 81>>}, s \in {HOTL, Z4}, v \in {1, 2}, w \in {0, 2}}
    [] k = "preamble" -> {[proto |-> p, ref |-> r, size |-> s, rsvd |-> v]
                            : p \in {HTXF, <<72, 84, 88, 71>>}, r \in {<<0, 0, 0, 1>>, F4}, s \in {Z4, <<0, 1, 0, 0>>}, v \in {Z4, F4}}
    [] k = "int" -> {[data |-> d] : d \in {<<>>, <<1>>, <<0, 0>>, <<1, 2>>, <<255, 255>>, <<1, 2, 3>>, Z4, <<127, 255, 255, 255>>, F4, <<1, 2, 3, 4, 5>>}}
    [] k = "filepath" -> {[segs |-> s] : s \in SeqsUpTo(NameS, 0, 3) \cup {<<n>> : n \in LongNames} \cup {<<<<65>>, n>> : n \in LongNames}}
    [] k = "newspath" -> {[segs |-> s] : s \in SeqsUpTo(NameS, 0, 2) \cup {<<n>> : n \in LongNames}}
    [] k = "listing" -> {[servers |-> sv] : sv \in SeqsUpTo({[ip |-> <<10, 0, 0, 1>>, port |-> 5500, users |-> 0, name |-> <<>>, desc |-> <<>>],
                                                                  [ip |-> <<127, 0, 0, 1>>, port |-> 65535, users |-> 300, name |-> <<83>>, desc |-> <<68, 0>>],
                                                                  [ip |-> Rep(255, 4), port |-> 0, users |-> 65535, name |-> <<0, 255>>, desc |-> <<>>]}, 1, 2)}
    [] k = "flatfile" -> {[forks |-> f, info |-> i, data |-> d, rsrc |-> r]
                            : f \in {2, 3}, i \in {x \in InfoThin : x.name # <<>> /\ x.comment # <<99>>}, d \in {<<>>, <<1, 2, 3>>},
                              r \in {<<>>, <<9, 8, 7>>}}
    [] k = "obfstr" -> {[data |-> d] : d \in DataS}
    [] k = "serverrecord" -> {[ip |-> <<10, 0, 0, 1>>, port |-> p, users |-> u, name |-> n, desc |-> d]
                                : p \in {5500, 65535}, u \in {0, 300}, n \in NameS, d \in {<<>>, <<68>>}}

Objects(k) == IF Boundary THEN BObjects(k) ELSE NObjects(k)

Pair == Bufs2 # {}

Init == /\ \E k \in Kinds : \E o \in Objects(k) : DrainInit(k, o)
        /\ off2 = 0 /\ eof2 = ~Pair /\ emitted2 = <<>>
        /\ mode \in Modes
        /\ hist = <<>>

(* first drain: a step record [n |-> buffer size] *)
StepsNow == IF off >= Len(Enc)
              THEN {[n |-> IF hist = <<>> THEN 1 ELSE hist[Len(hist)]]}     \* the read that finds the end: one candidate
              ELSE IF mode = 0 THEN {[n |-> n] : n \in Bufs} ELSE {[n |-> mode]}

Read1 == \E s \in StepsNow :
           /\ Read(s)
           /\ hist' = IF Track THEN Append(hist, s.n) ELSE hist
           /\ UNCHANGED <<off2, eof2, emitted2, mode>>

(* second drain of the same object *)
Read2 == /\ Pair /\ ~eof2
         /\ \E n \in Bufs2 :
              IF off2 >= Len(Enc)
                THEN eof2' = TRUE /\ UNCHANGED <<off2, emitted2>>
                ELSE LET hi == Min(off2 + n, Len(Enc))
                     IN off2' = hi /\ emitted2' = emitted2 \o SubSeq(Enc, off2 + 1, hi) /\ eof2' = FALSE
         /\ UNCHANGED <<dvars, mode, hist>>

Next == Read1 \/ Read2

Spec == Init /\ [][Next]_mcvars
FairSpec == Spec /\ WF_mcvars(Read1) /\ WF_mcvars(Read2)

View == <<dvars, off2, eof2, emitted2, mode>>

(* ---- properties ---- *)
IsPrefixOf(a, b) == Len(a) <= Len(b) /\ a = SubSeq(b, 1, Len(a))

LenPrefixInv == (off = 0 /\ off2 = 0) => (LenPrefixOK(kind, obj) /\ EncIsReference)   \* a property of the object: checked once per object
Emitted2IsPrefix == emitted2 = SubSeq(Enc, 1, off2)
BufferIndependence == (eof /\ eof2 /\ Pair) => emitted = emitted2
PrefixComparable == IsPrefixOf(emitted, emitted2) \/ IsPrefixOf(emitted2, emitted)
BothTerminate == <>(eof /\ (Pair => eof2))

(* the reference codec is self-consistent: prefixes present in what the spec feeds to decoders, too *)
TypeOK == /\ kind \in AllKinds /\ off \in 0..Len(Enc) /\ off2 \in 0..Len(Enc)
          /\ (off = 0 /\ off2 = 0) => \A i \in DOMAIN Enc : Enc[i] \in 0..255

(* ---- script emission ---- *)
Script == [kind |-> kind, obj |-> obj, reads |-> hist']
          @@ (IF kind \in FedKinds THEN [fed |-> In(kind, obj)] ELSE <<>>)
Emit == (eof' /\ ~eof) => PrintT("B " \o ToJson(Script))
=============================================================================
