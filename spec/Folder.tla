------------------------------- MODULE Folder -------------------------------
(***************************************************************************)
(* Folder transfers of the Mobius Hotline server (property C10).           *)
(*                                                                         *)
(* One transfer folder on the server is modelled as `disk`, a set of nodes *)
(*    [path, kind, size, partial]                                          *)
(* path = sequence of names below the transfer folder, a name = sequence   *)
(* of bytes, kind = "file" | "dir", size = length of the data fork (0 for  *)
(* folders), partial = the file is stored under <name>.incomplete.  The    *)
(* content of a file is a function of its path (the harness generates the  *)
(* bytes from the path), so a file is described by its size alone: a       *)
(* complete file of size n holds content(path)[1..n], a partial one the    *)
(* first `size` bytes of it.                                               *)
(*                                                                         *)
(* Download (transaction 210, then the transfer connection: hotline/       *)
(* file_transfer.go DownloadFolderHandler, hotline/files.go CalcItemCount, *)
(* internal/mobius/transaction_handlers.go HandleDownloadFolder):          *)
(*   DlRequest  the reply announces count = Len(Walk(disk))                *)
(*   DlItem(s)  the server sends the header of the next item of the walk;  *)
(*              the client answers s.act = 1 send | 2 resume from s.k |    *)
(*              3 next; for a file with 1/2 the server sends a 4-byte size *)
(*              prefix and then the flattened file object header followed  *)
(*              by data[k+1..]                                             *)
(*   DlEnd      the walk is exhausted                                      *)
(* Upload (transaction 213: UploadFolderHandler, HandleUploadFolder):      *)
(*   UpRequest(s) the client announces s.count items                       *)
(*   UpItem(s)  the client streams one item header [path, kind, size]; the *)
(*              server creates the folder and answers 3, or answers 3 for  *)
(*              a file that is already complete, 2 + offset for a partial  *)
(*              one, 1 otherwise; the file then travels.  s.cut >= 0: the  *)
(*              client drops the connection after s.cut data bytes.        *)
(*   UpEnd      all announced items streamed (or the connection was cut)   *)
(*                                                                         *)
(* Every action takes a step record so that the same operators serve the   *)
(* exhaustive model (MC_Folder), script generation and trace validation    *)
(* (Trace_Folder).  `out` is what the server is predicted to do in the     *)
(* step.  Properties (C10): CountEqualsHeaders, EachOnceInOrder,           *)
(* ChoiceHonoured, UploadRecreates, SkipComplete, ResumePartial,           *)
(* FinalIsWhole, UpDownIdentity (the last one in MC_Folder, over the       *)
(* history).                                                               *)
(*                                                                         *)
(* Modelled where the statement is silent (named deviations):              *)
(*  - children are visited in byte order of their *names* on disk          *)
(*    (filepath.Walk), so `a`, `a/x`, `a.txt`;                             *)
(*  - an entry whose own name starts with "." is not announced, but the    *)
(*    visible children of a dot-named folder are, with the dot component   *)
(*    in their path (the walk callback returns nil, not SkipDir);          *)
(*  - a folder header answered with 1 or 2 sends nothing;                  *)
(*  - a partial file (the leftover of an interrupted upload) and an entry   *)
(*    a user named x.incomplete are ordinary visible entries for a         *)
(*    download: announced and sent under their on-disk name;               *)
(*  - when a complete file and a partial one exist for the same name the   *)
(*    code resumes; such states are outside the generated scripts.         *)
(***************************************************************************)
EXTENDS Integers, Sequences, FiniteSets, TLC

VARIABLES disk,      \* the tree below the transfer folder
          ph,        \* "idle" | "down" | "up" | "cut"
          todo,      \* download: the items still to be announced (sequence of nodes)
          left,      \* upload: items the server still expects
          count,     \* download: the announced item count
          sent,      \* download: what has been sent so far: [type, path, dlen]
          pre,       \* upload: the tree when the upload started
          streamed,  \* upload: the nodes the client has streamed (with their full sizes)
          out        \* prediction for the last step

vars == <<disk, ph, todo, left, count, sent, pre, streamed, out>>

Dot == 46
IncSfx == <<46, 105, 110, 99, 111, 109, 112, 108, 101, 116, 101>>   \* ".incomplete"

Last(sq) == sq[Len(sq)]
Front(sq) == SubSeq(sq, 1, Len(sq) - 1)

DirNode(p)     == [path |-> p, kind |-> "dir",  size |-> 0, partial |-> FALSE]
FileNode(p, n) == [path |-> p, kind |-> "file", size |-> n, partial |-> FALSE]
PartNode(p, j) == [path |-> p, kind |-> "file", size |-> j, partial |-> TRUE]

(* the name an entry has on disk, and its path with that name *)
DiskName(n) == IF n.partial THEN Last(n.path) \o IncSfx ELSE Last(n.path)
DiskPath(n) == Front(n.path) \o <<DiskName(n)>>
HiddenName(nm) == nm # <<>> /\ nm[1] = Dot
Hidden(n) == HiddenName(DiskName(n))

(* byte order of names: what sorting Go strings does *)
RECURSIVE LexLess(_, _)
LexLess(a, b) == IF a = <<>> THEN b # <<>>
                 ELSE IF b = <<>> THEN FALSE
                 ELSE IF a[1] < b[1] THEN TRUE
                 ELSE IF a[1] > b[1] THEN FALSE
                 ELSE LexLess(Tail(a), Tail(b))

(* depth-first order on paths: a folder before its content, siblings by name *)
RECURSIVE PathLess(_, _)
PathLess(p, q) == IF p = <<>> THEN q # <<>>
                  ELSE IF q = <<>> THEN FALSE
                  ELSE IF p[1] = q[1] THEN PathLess(Tail(p), Tail(q))
                  ELSE LexLess(p[1], q[1])

Children(t, p) == {n \in t : Len(n.path) = Len(p) + 1 /\ Front(n.path) = p}

(* the walk of DownloadFolderHandler / CalcItemCount *)
RECURSIVE WalkSet(_, _), WalkNode(_, _)
WalkSet(t, S) == IF S = {} THEN <<>>
                 ELSE LET m == CHOOSE x \in S : \A y \in S \ {x} : LexLess(DiskName(x), DiskName(y))
                      IN WalkNode(t, m) \o WalkSet(t, S \ {m})
WalkNode(t, n) == (IF Hidden(n) THEN <<>> ELSE <<n>>)
                  \o (IF n.kind = "dir" THEN WalkSet(t, Children(t, n.path)) ELSE <<>>)
Walk(t) == WalkSet(t, Children(t, <<>>))

(* the order in which a client streams a local tree: the same walk without hiding *)
RECURSIVE StreamSet(_, _), StreamNode(_, _)
StreamSet(t, S) == IF S = {} THEN <<>>
                   ELSE LET m == CHOOSE x \in S : \A y \in S \ {x} : LexLess(DiskName(x), DiskName(y))
                        IN StreamNode(t, m) \o StreamSet(t, S \ {m})
StreamNode(t, n) == <<n>> \o (IF n.kind = "dir" THEN StreamSet(t, Children(t, n.path)) ELSE <<>>)
StreamOrder(t) == StreamSet(t, Children(t, <<>>))

(* a tree is well formed: every node hangs below the root or below a folder of the tree, names are non-empty
   and unique on disk, and no complete entry bears the name of a partial one *)
WellFormed(t) ==
  /\ \A n \in t : /\ n.path # <<>> /\ Last(n.path) # <<>>
                  /\ (Len(n.path) > 1 => DirNode(Front(n.path)) \in t)
                  /\ (n.kind = "dir" => n.size = 0 /\ ~n.partial)
  /\ \A n, m \in t : DiskPath(n) = DiskPath(m) => n = m

(* trees on which the statement fixes the walk without any reading: nothing hangs below a dot-named folder *)
NoDotParents(t) == \A n \in t : \A i \in 1..(Len(n.path) - 1) : ~HiddenName(n.path[i])

(* length of the flattened file object header the server builds for a file without side files:
   FILP header 24 + INFO fork header 16 + information fork (72 + name + 2 comment size) + DATA fork header 16 *)
FfoLen(name) == 130 + Len(name)

Hdr(n) == [type |-> IF n.kind = "dir" THEN 1 ELSE 0, path |-> DiskPath(n)]

(* ---- initial state ----------------------------------------------------- *)
InitWith(t) == /\ disk = t /\ ph = "idle" /\ todo = <<>> /\ left = 0 /\ count = 0 /\ sent = <<>>
               /\ pre = t /\ streamed = {} /\ out = [op |-> "init"]

(* ---- download ---------------------------------------------------------- *)
DlRequest(s) ==
  /\ ph = "idle"
  /\ ph' = "down"
  /\ todo' = Walk(disk)
  /\ count' = Len(Walk(disk))
  /\ sent' = <<>>
  /\ out' = [op |-> "dlreq", count |-> Len(Walk(disk))]
  /\ UNCHANGED <<disk, left, pre, streamed>>

DlItemOK(s) == /\ ph = "down" /\ todo # <<>>
               /\ s.act \in {1, 2, 3}
               /\ (s.act = 2 => s.k \in 0..Head(todo).size)

DlItem(s) ==
  LET n == Head(todo)
      k == IF s.act = 2 THEN s.k ELSE 0
      snd == n.kind = "file" /\ s.act \in {1, 2}
  IN /\ DlItemOK(s)
     /\ todo' = Tail(todo)
     /\ sent' = Append(sent, [type |-> Hdr(n).type, path |-> Hdr(n).path, dlen |-> IF snd THEN n.size - k ELSE -1])
     /\ out' = [op |-> "dlitem", type |-> Hdr(n).type, path |-> Hdr(n).path, sends |-> snd, from |-> k,
                \* the size prefix as the transfer size is defined (object header + forks - offset) ...
                prefix |-> IF snd THEN FfoLen(DiskName(n)) + n.size - k ELSE -1,
                \* ... and the bytes that follow: the object header, then the data fork from the offset
                follow |-> IF snd THEN FfoLen(DiskName(n)) + Len(SubSeq([i \in 1..n.size |-> i], k + 1, n.size)) ELSE 0,
                dlen |-> IF snd THEN n.size - k ELSE -1]
     /\ UNCHANGED <<disk, ph, left, count, pre, streamed>>

DlEnd(s) ==
  /\ ph = "down"
  /\ ph' = "idle"
  /\ out' = [op |-> "dlend", headers |-> Len(sent), count |-> count, missing |-> Len(todo)]
  /\ UNCHANGED <<disk, todo, left, count, sent, pre, streamed>>

(* ---- upload ------------------------------------------------------------ *)
UpRequest(s) ==
  /\ ph = "idle" /\ s.count >= 0
  /\ ph' = "up"
  /\ left' = s.count
  /\ pre' = disk
  /\ streamed' = {}
  /\ out' = [op |-> "upreq", start |-> 3]
  /\ UNCHANGED <<disk, todo, count, sent>>

At(p) == {n \in disk : n.path = p}

UpItemOK(s) ==
  LET p == s.path
      part == {n \in At(p) : n.partial}
  IN /\ ph = "up" /\ left > 0 /\ p # <<>>
     /\ (Len(p) > 1 => DirNode(Front(p)) \in disk)
     /\ s.kind \in {"dir", "file"}
     \* the server keeps the partial data of x under the name x.incomplete: an item whose own name is taken by
     \* another entry's partial data, or (file) whose partial-data name is another entry, is outside the model
     /\ \A n \in disk : n.path # p => /\ DiskPath(n) # p
                                     /\ (s.kind = "file" => DiskPath(n) # Front(p) \o <<Last(p) \o IncSfx>>)
     /\ IF s.kind = "dir"
          THEN (\A n \in At(p) : n.kind = "dir") /\ s.cut = -1
          ELSE /\ \A n \in At(p) : n.kind = "file"
               /\ Cardinality(At(p)) <= 1
               /\ IF part # {} THEN LET j == (CHOOSE n \in part : TRUE).size
                                    IN j <= s.size /\ s.cut \in -1..(s.size - j - 1)
                  ELSE IF At(p) # {} THEN s.cut = -1
                  ELSE s.cut \in -1..(s.size - 1)

UpItem(s) ==
  LET p == s.path
      part == {n \in At(p) : n.partial}
      comp == {n \in At(p) : ~n.partial}
  IN /\ UpItemOK(s)
     /\ IF s.kind = "dir"
          THEN /\ disk' = disk \cup {DirNode(p)}
               /\ out' = [op |-> "upitem", act |-> 3, off |-> -1, xfer |-> FALSE]
          ELSE IF part # {}
          THEN LET j == (CHOOSE n \in part : TRUE).size IN
               /\ disk' = (disk \ part) \cup {IF s.cut < 0 THEN FileNode(p, s.size) ELSE PartNode(p, j + s.cut)}
               /\ out' = [op |-> "upitem", act |-> 2, off |-> j, xfer |-> TRUE]
          ELSE IF comp # {}
          THEN /\ disk' = disk
               /\ out' = [op |-> "upitem", act |-> 3, off |-> -1, xfer |-> FALSE]
          ELSE /\ disk' = disk \cup {IF s.cut < 0 THEN FileNode(p, s.size) ELSE PartNode(p, s.cut)}
               /\ out' = [op |-> "upitem", act |-> 1, off |-> -1, xfer |-> TRUE]
     /\ ph' = IF s.cut >= 0 THEN "cut" ELSE "up"
     /\ left' = left - 1
     /\ streamed' = streamed \cup {IF s.kind = "dir" THEN DirNode(p) ELSE FileNode(p, s.size)}
     /\ UNCHANGED <<todo, count, sent, pre>>

UpEndOK(s) == ph = "cut" \/ (ph = "up" /\ left = 0)

UpEnd(s) ==
  /\ UpEndOK(s)
  /\ ph' = "idle"
  /\ out' = [op |-> "upend", cut |-> ph = "cut"]
  /\ UNCHANGED <<disk, todo, left, count, sent, pre, streamed>>

(* ---- dispatch ---------------------------------------------------------- *)
Guard(s) ==
  CASE s.op = "dlreq"  -> ph = "idle"
    [] s.op = "dlitem" -> DlItemOK(s)
    [] s.op = "dlend"  -> ph = "down"
    [] s.op = "upreq"  -> ph = "idle" /\ s.count >= 0
    [] s.op = "upitem" -> UpItemOK(s)
    [] s.op = "upend"  -> UpEndOK(s)
    [] OTHER -> FALSE

Apply(s) ==
  CASE s.op = "dlreq"  -> DlRequest(s)
    [] s.op = "dlitem" -> DlItem(s)
    [] s.op = "dlend"  -> DlEnd(s)
    [] s.op = "upreq"  -> UpRequest(s)
    [] s.op = "upitem" -> UpItem(s)
    [] s.op = "upend"  -> UpEnd(s)

(* ---- properties (C10) -------------------------------------------------- *)
Range(sq) == {sq[i] : i \in DOMAIN sq}
Visible(t) == {n \in t : ~Hidden(n)}

(* the announced count is the number of headers sent *)
CountEqualsHeaders == out.op = "dlend" => out.missing = 0 /\ count = Len(sent)

(* every visible entry exactly once, a folder before its content, siblings in name order, paths relative to the
   transfer folder, type = kind.  Stated without reference to Walk. *)
EachOnceInOrder ==
  out.op = "dlend" =>
    /\ Len(sent) = Cardinality(Visible(disk))
    /\ {[type |-> sent[i].type, path |-> sent[i].path] : i \in DOMAIN sent} = {Hdr(n) : n \in Visible(disk)}
    /\ \A i, j \in DOMAIN sent : i < j => PathLess(sent[i].path, sent[j].path)

(* while the download runs, what has been sent plus what is still to come is the walk *)
WalkInvariant == ph = "down" => [i \in DOMAIN sent |-> [type |-> sent[i].type, path |-> sent[i].path]]
                                  \o [i \in DOMAIN todo |-> Hdr(todo[i])] = [i \in DOMAIN Walk(disk) |-> Hdr(Walk(disk)[i])]

(* send / resume / skip: the size prefix is the number of bytes that follow, the data is the file from the offset,
   a skipped file or a folder sends nothing *)
ChoiceHonoured ==
  out.op = "dlitem" =>
    IF out.sends THEN out.prefix = out.follow /\ out.dlen >= 0 /\ out.type = 0
                 ELSE out.follow = 0 /\ out.prefix = -1

(* after a complete upload the folder holds what was there before plus exactly what was streamed *)
UploadRecreates ==
  (out.op = "upend" /\ ~out.cut) =>
    /\ \A s \in streamed :
         IF s.kind = "dir" THEN s \in disk
         ELSE \E n \in disk : /\ n.path = s.path /\ n.kind = "file" /\ ~n.partial
                              /\ (n.size = s.size \/ n \in pre)
    /\ \A n \in disk : n \in pre \/ \E s \in streamed : s.path = n.path /\ ~n.partial
    /\ \A n \in pre : n \in disk \/ (n.partial /\ \E s \in streamed : s.path = n.path)

(* a complete file is never replaced, shortened or re-sent *)
SkipComplete ==
  [][\A n \in disk : (n.kind = "file" /\ ~n.partial) => n \in disk']_vars

(* a partial file is resumed from its length and ends up whole (unless the connection is cut) *)
ResumePartial ==
  [][\A n \in disk : (n.partial /\ n \notin disk') =>
        /\ out'.op = "upitem" /\ out'.act = 2 /\ out'.off = n.size
        /\ \E m \in disk' : m.path = n.path /\ ((~m.partial /\ ph' = "up") \/ (m.partial /\ m.size >= n.size /\ ph' = "cut"))]_vars

(* nothing that is not the whole streamed file ever appears under a final name *)
FinalIsWhole ==
  \A n \in disk : (n.kind = "file" /\ ~n.partial) => (n \in pre \/ \E s \in streamed : s.path = n.path /\ s.size = n.size)
=============================================================================
