---- MODULE MC_OutboxLock ----
EXTENDS OutboxLock, Apalache
\* bounded instance for Apalache: 4 senders, sizes up to 6, chunk 2; in the inductive step the wire is an arbitrary
\* sequence of up to 6 write records (Gen) constrained by IndInv
ConstInit == Chunk = 2 /\ MaxTx = 4 /\ MaxLen = 6
IndInit == /\ txs \in [Ids -> 1..MaxLen]
           /\ off \in [Ids -> 0..MaxLen]
           /\ lock \in 0..MaxTx
           /\ wire = Gen(6)
           /\ IndInv
====
