CONSTANTS
  Hostile = {1, 2, 3}
  Sentinels = {101, 102}
INIT Init
NEXT Next
INVARIANTS QuiescentBaseline LimiterMutualExclusion SentinelsUnaffected ProcessAlive CountersSane
CHECK_DEADLOCK FALSE
