---------------------------- MODULE Trace_Folder ----------------------------
(* Trace validation for C10: consumes log.ndjson recorded by `vh-folder` from the real server.  Every line is one
   protocol step of one run with its arguments (what the reference client chose) and what the real server did:
     world   the tree the harness put below the transfer folder (the model is reset)
     dlreq   count = field 220 of the reply to Download Folder
     dlitem  one item header the server sent (type, path, extra = bytes beyond the header), the action the client
             answered (act, k) and - for a file answered with send/resume - the 4-byte size prefix, the number of
             bytes that followed until the server waited for input again (follow), whether they parse as a
             flattened file object (obj), the length of its data section (dlen) and whether those bytes are the
             last dlen bytes of the source file (sfx; sfxp = of the content of the name without ".incomplete")
     dlend   how the transfer ended (status), the number of headers received, count again
     upreq   the action the server opened the upload with
     upitem  one streamed item (path, kind, size, cut) and the server's answer (act, resume offset off, ack); the
             client reads the server's bytes as a stream: an action that arrived early answers the next item
     upend   the snapshot of the target folder afterwards: [path, kind, size, partial, pfx]; pfx = the bytes are
             the first `size` bytes of the content belonging to the path
   Each step is applied to the model with the operators of Folder (the same ones MC_Folder checks) and the
   prediction is compared with the observation.
   VIOL  = the observation contradicts what the C10 statement constrains (clause = the sub-property, kind = the
           failing class; the python side builds the signature from them);
   DRIFT = model and code disagree on something the statement does not constrain, the step is not enabled in
           the model, or the harness could not complete the dialogue.
   After a VIOL/DRIFT that desynchronises model and code the rest of that run is consumed without judging it.
   Acceptance: every line consumed. *)
EXTENDS Folder, Json

VARIABLES l,      \* next line of the log
          skip,   \* run whose remaining lines are consumed without judging (0 = none)
          seen    \* <<clause, kind>> pairs already reported for the current run

Log == ndJsonDeserialize("log.ndjson")

tvars == <<vars, l, skip, seen>>

ToSet(sq) == {sq[i] : i \in DOMAIN sq}
NodeOf(r) == [path |-> r.path, kind |-> r.kind, size |-> r.size, partial |-> r.partial]

(* an entry of the snapshot named x.incomplete is the partial data of x - unless the model holds an entry the client
   named that way: then it is that entry, and its bytes are judged against the content of the literal name *)
Literal(r) == r.partial /\ \E n \in disk : ~n.partial /\ n.path = r.raw
ObsOf(r) == IF Literal(r) THEN [path |-> r.raw, kind |-> r.kind, size |-> r.size, partial |-> FALSE] ELSE NodeOf(r)
ObsOK(r) == IF Literal(r) THEN r.pfxraw ELSE r.pfx

Rep(tag, e, clause, kind, detail) ==
  PrintT(tag \o " " \o ToJson([prop |-> "C10", run |-> e.run, line |-> l, op |-> e.op, clause |-> clause,
                               kind |-> kind, step |-> e, detail |-> detail]))

(* report once per run and class, keep going *)
Note(tag, e, clause, kind, detail) ==
  /\ (<<clause, kind>> \notin seen => Rep(tag, e, clause, kind, detail))
  /\ seen' = seen \cup {<<clause, kind>>}

(* report and give up on the rest of the run *)
Stop(tag, e, clause, kind, detail) ==
  /\ Rep(tag, e, clause, kind, detail)
  /\ skip' = e.run /\ seen' = seen
  /\ UNCHANGED vars

(* the statement fixes the walk on these trees; on the others (something below a dot-named folder) a difference
   is a matter of reading *)
Tag == IF NoDotParents(disk) THEN "VIOL" ELSE "DRIFT"

Init == /\ l = 1 /\ skip = 0 /\ seen = {}
        /\ InitWith({})

World ==
  LET e == Log[l] IN
  /\ e.op = "world"
  /\ disk' = {NodeOf(r) : r \in ToSet(e.pre)}
  /\ pre' = {NodeOf(r) : r \in ToSet(e.pre)}
  /\ ph' = "idle" /\ todo' = <<>> /\ left' = 0 /\ count' = 0 /\ sent' = <<>> /\ streamed' = {}
  /\ out' = [op |-> "init"]
  /\ seen' = {}
  /\ skip' = IF WellFormed({NodeOf(r) : r \in ToSet(e.pre)}) THEN 0 ELSE e.run
  /\ (~WellFormed({NodeOf(r) : r \in ToSet(e.pre)}) => Rep("DRIFT", e, "script", "tree not well formed", <<>>))

TrDlReq(e) ==
  IF e.err # 0 \/ ~Guard(e) THEN Stop("DRIFT", e, "script", "download request refused or not enabled", [ph |-> ph])
  ELSE Apply(e) /\ UNCHANGED <<skip, seen>>

ChoiceKind(e, okP, okL, okB, okO) ==
  (IF e.act = 2 THEN "resume" ELSE "send") \o (IF e.k > 0 THEN "/k>0" ELSE "/k=0")
  \o (IF okO THEN "" ELSE "/not-a-file-object")
  \o (IF okP THEN "" ELSE "/prefix!=follow")
  \o (IF okL THEN "" ELSE "/dlen!=size-k")
  \o (IF okB THEN "" ELSE "/bytes")

TrDlItem(e) ==
  IF ph # "down" THEN Stop("DRIFT", e, "script", "no download in progress", [ph |-> ph])
  ELSE IF ~e.hdrok /\ sent # <<>> /\ sent[Len(sent)].dlen = -1 /\ sent[Len(sent)].type = 0
       THEN Stop("VIOL", e, "ChoiceHonoured", "bytes-after-skipped-file", [after |-> sent[Len(sent)], bytes |-> e.extra])
  ELSE IF ~e.hdrok THEN Stop(Tag, e, "EachOnceInOrder", "unparsable-header", [expected |-> IF todo = <<>> THEN <<>> ELSE <<Hdr(Head(todo))>>])
  ELSE IF todo = <<>> THEN Stop(Tag, e, "EachOnceInOrder", "extra-header", [sent |-> sent])
  ELSE IF [type |-> e.type, path |-> e.path] # Hdr(Head(todo))
       THEN Stop(Tag, e, "EachOnceInOrder", "wrong-item", [expected |-> Hdr(Head(todo)), walk |-> [i \in DOMAIN Walk(disk) |-> Hdr(Walk(disk)[i])]])
  ELSE IF e.extra # 0 THEN Stop("VIOL", e, "ChoiceHonoured", "bytes-beyond-header", [extra |-> e.extra])
  ELSE IF ~DlItemOK(e) THEN Stop("DRIFT", e, "script", "action not enabled for this item", [item |-> Head(todo)])
  ELSE /\ Apply(e)
       /\ skip' = skip
       /\ IF out'.sends
            THEN LET okO == e.sends /\ e.obj
                     okP == e.prefix = e.follow
                     okL == e.dlen = out'.dlen
                     okB == IF Head(todo).partial THEN e.sfxp ELSE e.sfx   \* partial data holds the content of the final name
                 IN IF okO /\ okP /\ okL /\ okB THEN seen' = seen
                    ELSE Note("VIOL", e, "ChoiceHonoured", ChoiceKind(e, okP, okL, okB, okO),
                              [expected |-> out', okObject |-> okO, okPrefix |-> okP, okLen |-> okL, okBytes |-> okB])
            ELSE IF e.sends THEN Note("DRIFT", e, "script", "client expected a file where the model sends none", [expected |-> out'])
                 ELSE seen' = seen

TrDlEnd(e) ==
  IF ph # "down" THEN Stop("DRIFT", e, "script", "no download in progress", [ph |-> ph])
  ELSE IF e.status # "done" THEN Stop("DRIFT", e, "harness", "download dialogue did not complete: " \o e.status, [left |-> Len(todo)])
  ELSE /\ Apply(e)
       /\ skip' = skip
       /\ IF e.count # e.headers
            THEN Note("VIOL", e, "CountEqualsHeaders", IF e.count > e.headers THEN "count>headers" ELSE "count<headers",
                      [count |-> e.count, headers |-> e.headers, model |-> count])
          ELSE IF todo # <<>>
            THEN Note(Tag, e, "EachOnceInOrder", "missing-items", [missing |-> [i \in DOMAIN todo |-> Hdr(todo[i])]])
          ELSE seen' = seen

TrUpReq(e) ==
  IF e.err # 0 \/ e.start # 3 \/ ~Guard(e) THEN Stop("DRIFT", e, "script", "upload request refused, not opened with next-action, or not enabled", [ph |-> ph])
  ELSE Apply(e) /\ UNCHANGED <<skip, seen>>

Pending == <<"pending", "folder-action">>     \* marker in `seen`: a soft mismatch whose verdict waits for the outcome

TrUpItem(e) ==
  LET u == [e EXCEPT !.cut = IF e.unsent THEN -1 ELSE e.cut] IN
  IF ~UpItemOK(u) THEN Stop("DRIFT", e, "script", "item not enabled in the model", [ph |-> ph, left |-> left, at |-> At(e.path)])
  ELSE /\ Apply(u)
       /\ IF e.unsent
            \* the server had stopped answering before the client could stream this item: the model still takes it
            \* (it belongs to the tree the client streams); the outcome is judged at the end
            THEN skip' = skip /\ seen' = seen \cup {Pending}
          ELSE IF e.act # out'.act /\ e.kind = "dir"
            \* the answer to a folder item is not what the statement speaks about - the resulting tree is: go on
            THEN skip' = skip /\ seen' = seen \cup {Pending}
          ELSE IF e.act # out'.act
            THEN /\ Rep("VIOL", e,
                        IF out'.act = 3 THEN "SkipComplete" ELSE IF out'.act = 2 THEN "ResumePartial" ELSE "UploadRecreates",
                        "server-action", [expected |-> out'])
                 /\ skip' = e.run /\ seen' = seen
          ELSE IF out'.act = 2 /\ e.off # out'.off
            THEN /\ Rep("VIOL", e, "ResumePartial", "resume-offset", [expected |-> out'])
                 /\ skip' = e.run /\ seen' = seen
          ELSE IF out'.xfer /\ e.cut < 0 /\ e.ack # 3
            THEN /\ Rep("DRIFT", e, "harness", "no next-action after the file", [expected |-> out'])
                 /\ skip' = e.run /\ seen' = seen
          ELSE UNCHANGED <<skip, seen>>

Early(e) == e.status \in {"broken:finished", "broken:waiting"}   \* the server stopped answering before the client was done

TrUpEnd(e) ==
  IF e.status \notin {"done", "expects-more", "broken:finished", "broken:waiting"}
    THEN Stop("DRIFT", e, "harness", "upload dialogue did not complete: " \o e.status, [ph |-> ph, left |-> left])
  ELSE IF ph \notin {"up", "cut"} \/ (~Early(e) /\ ~UpEndOK(e)) THEN Stop("DRIFT", e, "script", "upload end not enabled", [ph |-> ph, left |-> left])
  ELSE LET resumed == out.op = "upitem" /\ out.act = 2      \* the last item was a resumed file
           obs == {ObsOf(r) : r \in ToSet(e.snap)}
           badBytes == {ObsOf(r) : r \in {x \in ToSet(e.snap) : ~ObsOK(x)}}
           finO == {n \in obs : ~n.partial}
           parO == obs \ finO
           wasCut == ph = "cut"
           pref == (IF wasCut THEN "cut/" ELSE "") \o (IF Early(e) THEN "ended-early/" ELSE "")
       IN /\ ph' = "idle"
          /\ out' = [op |-> "upend", cut |-> wasCut]
          /\ UNCHANGED <<disk, todo, left, count, sent, pre, streamed>>
          /\ skip' = skip
          /\ LET finM == {n \in disk : ~n.partial}
                 parM == disk \ finM
                 published == {n \in finO \ finM : \E m \in parM : m.path = n.path}
             IN IF ~e.exists
                  THEN Note("VIOL", e, "UploadRecreates", pref \o "target-folder-missing", [expected |-> disk])
                ELSE IF finO # finM \/ (badBytes \cap finO) # {}
                  THEN Note("VIOL", e, IF wasCut /\ resumed THEN "ResumePartial" ELSE "UploadRecreates",
                            pref
                            \o (IF published # {} THEN "partial-published"
                                ELSE IF (badBytes \cap finO) # {} THEN "wrong-bytes"
                                ELSE IF finO \ finM # {} /\ finM \ finO # {} THEN "differs"
                                ELSE IF finM \ finO # {} THEN "missing-entries" ELSE "extra-entries"),
                            [expected |-> disk, extra |-> finO \ finM, missing |-> finM \ finO, wrongBytes |-> badBytes])
                ELSE IF parO # parM \/ (badBytes \cap parO) # {}
                  THEN Note(IF wasCut THEN "DRIFT" ELSE "VIOL", e, "UploadRecreates", pref \o "incomplete-files-differ",
                            [expected |-> parM, got |-> parO, wrongBytes |-> badBytes])
                \* the tree is right, but the dialogue was not: a folder item answered differently, the server ended
                \* early or still waits for items after the announced count, or sent more than its answers (the
                \* statement speaks about the tree only)
                ELSE IF Pending \in seen \/ e.status # "done" \/ (~wasCut /\ e.tail # 0)
                  THEN Note("DRIFT", e, "protocol", "tree right, dialogue differs (folder action / early end / surplus bytes)", [status |-> e.status, tail |-> e.tail])
                ELSE seen' = seen

StepEv ==
  LET e == Log[l] IN
  /\ e.op # "world"
  /\ IF e.run = skip THEN UNCHANGED <<vars, skip, seen>>
     ELSE CASE e.op = "dlreq"  -> TrDlReq(e)
            [] e.op = "dlitem" -> TrDlItem(e)
            [] e.op = "dlend"  -> TrDlEnd(e)
            [] e.op = "upreq"  -> TrUpReq(e)
            [] e.op = "upitem" -> TrUpItem(e)
            [] e.op = "upend"  -> TrUpEnd(e)
            [] OTHER -> Stop("DRIFT", e, "script", "unknown event", <<>>)

Next == /\ l <= Len(Log)
        /\ (World \/ StepEv)
        /\ l' = l + 1
        /\ TLCSet(1, l')

Consumed == TLCGet(1) = Len(Log) + 1
=============================================================================
