---------------------------- MODULE Trace_Files ----------------------------
(* Trace validation of C07 / C11: consumes log.ndjson recorded by `vh-files` from the real handlers on a real
   directory.  Events:
     world  a fresh sandbox; `snap` is the real directory tree (the model state is set from it)
     req    (C07) ONE request against the world's initial tree, with what the real code did:
              diff       every path below the sandbox that was added / removed / changed
              disclosed  1 iff a byte sent by the server (replies, transfer) contains the canary marker
              names      the names a file-list reply showed
            VIOL C07  iff a path of `diff` lies outside the root and the accounts directory, or disclosed = 1
                      (the real disk is the verdict; the model only explains: `blame` names the deviation)
            DRIFT     iff the observed effects are not the ones Files!Do predicts for any deviation set
     step   (C11) one file-management request of a sequence + the views after it: snap, lists, infos, dls.
            VIOL C11  what the statement constrains: the list shows exactly the non-ignored entries (partial
                      upload under its final name); every listed complete file / folder answers get-info under its
                      listed name; list / get-info / download reply / disk agree on size and type for complete
                      fork-less files; forks travel or vanish, and stay with a file that stays (forks-lost), entries the request does
                      not name keep theirs (forks-of-bystander-changed);
                      new-folder never replaces; well-formed requests
                      change the tree exactly as Files!Do (D = {}) says
            DRIFT     any other disagreement between model and code (counts, fork totals, odd requests)
            (a folder whose list request gets no reply at all is a "listing" finding; cause LOOP = the folder holds
            a self-referencing alias, cause F23 = the names differ exactly by the infix stripping)
   After every step the model state is set to the observed tree, so one disagreement is reported once.
   An observation is "explained" if Files!Do reproduces it for one of DevSets (the statement's semantics first, then
   the pinned tree's named deviations, then the alternative repairs): the check keeps passing without drift while the
   repository is repaired one defect at a time.  *)
EXTENDS Files, Json

VARIABLES l, seen

Log == ndJsonDeserialize("log.ndjson")
tvars == <<fvars, l, seen>>

SeqToSet(sq) == {sq[i] : i \in DOMAIN sq}

TreeOf(snap, rp) ==
  LET S == SeqToSet(snap)
  IN [p \in {n.p : n \in S} |->
        LET n == CHOOSE x \in S : x.p = p
        IN [k |-> n.k, s |-> IF Inside(p, rp) THEN n.s ELSE -1, c |-> n.c, t |-> n.t, ty |-> n.ty]]

Pinned == {"F4", "F10", "F11", "F12", "F23", "F24", "F26"}
Suspects == {"F10", "F11", "F12", "F24"}
(* the deviation sets tried, in this order, to explain an observation *)
Repairs == {"F10b", "F11b", "F24b", "F25b"}
RECURSIVE SetToSeq(_)
SetToSeq(S) == IF S = {} THEN <<>> ELSE LET x == CHOOSE y \in S : TRUE IN <<x>> \o SetToSeq(S \ {x})
DevSets == <<{}, Pinned, Pinned \ {"F4"}, Pinned \ {"F4", "F26"}>> \o
           <<{"F4"}, {"F10"}, {"F11"}, {"F12"}, {"F23"}, {"F24"}, {"F26"}>> \o
           SetToSeq((SUBSET Repairs) \ {{}}) \o SetToSeq({r \cup {"F4"} : r \in SUBSET Repairs})

Report(kind, prop, e, cls, extra) ==
  PrintT(kind \o " " \o ToJson([prop |-> prop, run |-> e.run, line |-> l, op |-> e.op, cls |-> cls, step |-> e, detail |-> extra]))

Init == /\ l = 1 /\ seen = {}
        /\ tree = <<>> /\ rootp = <<>> /\ usersp = <<>> /\ ignore = "default" /\ mem = {}

Brief(e) == [x \in DOMAIN e \ {"snap", "lists", "infos", "dls"} |-> e[x]]

(* ---- C11 views ------------------------------------------------------------------------------------------------- *)
Counts(S, f(_)) == {[n |-> f(x), k |-> Cardinality({y \in S : f(y) = f(x)})] : x \in S}

ViewFindings(e, T, ign, rp) ==
  LET lists == SeqToSet(e.lists)
      infos == SeqToSet(e.infos)
      dls == SeqToSet(e.dls)
      PerList(L) ==
        LET d == rp \o DecPath(L.d)
            idx == DOMAIN L.es
            exp == Listing(T, d, ign, {})
            expF23 == Listing(T, d, ign, {"F23"})
            obsC == Counts(idx, LAMBDA i : L.es[i].n)
            expC == Counts(DOMAIN exp, LAMBDA q : exp[q].n)
            expC23 == Counts(DOMAIN expF23, LAMBDA q : expF23[q].n)
            namesBad == L.rep # "ok" \/ obsC # expC
            entryFind(q) ==
              LET x == exp[q]
                  os == {i \in idx : L.es[i].n = x.n}
                  o == L.es[CHOOSE i \in os : TRUE]
                  is == {y \in infos : y.d = L.d /\ y.n = x.n}
                  inf == CHOOSE y \in is : TRUE
                  ds == {y \in dls : y.d = L.d /\ y.n = x.n}
                  dl == CHOOSE y \in ds : TRUE
              IN IF Cardinality(os) # 1 \/ Cardinality({z \in DOMAIN exp : exp[z].n = x.n}) # 1 THEN {}
                 ELSE IF is = {} THEN {[cls |-> "drift-noinfo", dir |-> L.d, n |-> x.n]}
                 ELSE IF x.cls = "plain"
                   THEN (IF inf.rep = "ok" /\ inf.name = x.n /\ ds # {} /\ dl.rep = "ok"
                            /\ o.s = T[q].s /\ inf.s = T[q].s /\ dl.s = T[q].s /\ inf.t = o.t
                         THEN (IF o.t = x.ty THEN {} ELSE {[cls |-> "drift-type", dir |-> L.d, n |-> x.n, listed |-> o, model |-> x]})
                         ELSE {[cls |-> "views", dir |-> L.d, n |-> x.n, disk |-> T[q].s, listed |-> o, info |-> inf,
                                dl |-> IF ds = {} THEN [rep |-> "none"] ELSE dl]})
                 ELSE IF x.cls = "dir"
                   THEN (IF inf.rep # "ok" \/ inf.name # x.n THEN {[cls |-> "addressable", dir |-> L.d, n |-> x.n, info |-> inf]}
                         ELSE IF o.s # x.sz \/ o.t # x.ty THEN {[cls |-> "drift-entry", dir |-> L.d, n |-> x.n, listed |-> o, model |-> x]}
                         ELSE {})
                 ELSE IF o.s # x.sz \/ o.t # x.ty THEN {[cls |-> "drift-entry", dir |-> L.d, n |-> x.n, listed |-> o, model |-> x]}
                 ELSE {}
        IN (IF namesBad
              THEN {[cls |-> "listing", dir |-> L.d, rep |-> L.rep,
                     cause |-> IF L.rep = "ok" /\ obsC = expC23 THEN "F23"
                               ELSE IF L.rep # "ok" /\ \E q \in Kids(T, d) : LinkLoop(T, q) THEN "LOOP" ELSE "?",
                     missing |-> {x.n : x \in expC} \ {x.n : x \in obsC},
                     extra |-> {x.n : x \in obsC} \ {x.n : x \in expC}]}
              ELSE {})
           \cup UNION {entryFind(q) : q \in DOMAIN exp}
  IN UNION {PerList(L) : L \in lists}

(* ---- events ------------------------------------------------------------------------------------------------------------ *)
Once(run, cls) == <<run, cls>> \notin seen

DriftCls == {"drift-noinfo", "drift-type", "drift-entry", "drift-op"}
ReportFindings(e, F) ==   \* F: set of finding records with a cls field; one report per run and class
  \A f \in F : Once(e.run, f.cls) =>
     (IF f.cls \in DriftCls THEN Report("DRIFT", "C11", Brief(e), f.cls, f)
      ELSE Report("VIOL", "C11", Brief(e), f.cls, f))

World ==
  LET e == Log[l]
      T == TreeOf(e.snap, e.rootp)
      F == IF e.mode = "c11" THEN ViewFindings(e, T, e.ignore, e.rootp) ELSE {}
  IN /\ e.op = "world"
     /\ rootp' = e.rootp /\ usersp' = e.usersp /\ ignore' = e.ignore
     /\ tree' = T
     /\ mem' = {TrimSuffix(Base(p), Yaml) : p \in {q \in DOMAIN T : Len(q) = Len(e.usersp) + 1 /\ IsPrefix(e.usersp, q)}}
     /\ ReportFindings(e, F)
     /\ seen' = seen \cup {<<e.run, f.cls>> : f \in F}

Strict(S) == {x \in S : x.d # "~" \/ Inside(x.p, rootp)}

ReqEv ==
  LET e == Log[l]
      obs == {Mask([d |-> x.d, p |-> x.p, k |-> x.k, s |-> x.s], rootp) : x \in SeqToSet(e.diff)}
      outObs == {x \in obs : ~InTrees(x.p, rootp, usersp)}
      obsNames == Counts(DOMAIN e.names, LAMBDA i : e.names[i])
      (* did the account manager start again on the directory the requests left behind (last operation "restart") *)
      obsRs == IF e.kind = "acct" /\ Len(e.ops) > 0 /\ e.ops[Len(e.ops)].op = "restart" /\ Len(e.reps) = Len(e.ops)
                 THEN e.reps[Len(e.reps)] ELSE "none"
      R(D) == Do(tree, mem, e, rootp, usersp, ignore, D)
      Match(D) == LET r == R(D) IN
                  /\ Strict(Diff(tree, r.t, rootp)) = Strict(obs)
                  /\ \A x \in obs : (x.d = "~" /\ ~Inside(x.p, rootp)) => x.p \in r.eff
                  /\ (e.kind = "list" => (r.listed = (e.listed = 1)) /\ (r.listed => r.names = obsNames))
                  /\ (e.kind = "acct" => r.rs = obsRs)
      explained == \E i \in DOMAIN DevSets : Match(DevSets[i])
      viol == outObs # {} \/ e.disclosed = 1
      (* the deviation set that reproduces the observation (the pinned tree's if none does), and the members of it
         without which the model would have stayed inside *)
      Expl(i) == Match(DevSets[i]) /\ ~ContainedRes(tree, R(DevSets[i]), rootp, usersp)
      dm == IF \E i \in DOMAIN DevSets : Expl(i)
              THEN DevSets[CHOOSE i \in DOMAIN DevSets : Expl(i) /\ \A j \in 1..(i - 1) : ~Expl(j)] ELSE Pinned
      blame == {d \in Suspects \cap dm : ~ContainedRes(tree, R(dm), rootp, usersp) /\ ContainedRes(tree, R(dm \ {d}), rootp, usersp)}
  IN /\ e.op = "req"
     /\ IF viol
          THEN Once(e.run, "c07") => Report("VIOL", "C07", e, "escape",
                                            [outside |-> outObs, disclosed |-> e.disclosed, explained |-> explained, blame |-> blame])
          ELSE (~explained /\ Once(e.run, "drift")) =>
                  Report("DRIFT", "C07", e, "drift-effects", [observed |-> obs, restart |-> <<obsRs, R({}).rs>>, model |-> Diff(tree, R({}).t, rootp),
                                                               pinned |-> Diff(tree, R(Pinned).t, rootp), names |-> R({}).names])
     /\ seen' = seen \cup (IF viol THEN {<<e.run, "c07">>} ELSE IF ~explained THEN {<<e.run, "drift">>} ELSE {})
     /\ UNCHANGED fvars

StepEv ==
  LET e == Log[l]
      T0 == tree
      T1 == TreeOf(e.snap, rootp)
      spec == Do(T0, mem, e, rootp, usersp, ignore, {}).t
      okSpec == Core(T1, T0) = Core(spec, T0)
      okAny == okSpec \/ \E i \in DOMAIN DevSets : Norm(Do(T0, mem, e, rootp, usersp, ignore, DevSets[i]).t) = Norm(T1)
      wf == WellFormed(e, T0, rootp)
      nf == NewFolderNeverReplacesObs(e, T0, T1)
      ft == ForksTravelObs(e, T0, T1, rootp)
      fs == ForksStayObs(e, T0, T1, rootp)
      by == BystanderForksObs(e, T0, T1, rootp)
      opF == (IF ~nf THEN {[cls |-> "newfolder-replaced"]} ELSE {})
             \cup (IF ~by THEN {[cls |-> "forks-of-bystander-changed", changed |-> Diff(T0, T1, rootp)]} ELSE {})
             \cup (IF ~fs THEN {[cls |-> "forks-lost", lost |-> Diff(T0, T1, rootp)]} ELSE {})
             \cup (IF ~ft THEN {[cls |-> "forks-left-behind", before |-> Diff(T1, T0, rootp)]} ELSE {})
             \cup (IF nf /\ ft /\ fs /\ by /\ wf /\ ~okSpec THEN {[cls |-> "op-not-as-requested", observed |-> Diff(T0, T1, rootp), requested |-> Diff(T0, spec, rootp)]} ELSE {})
             \cup (IF nf /\ ft /\ fs /\ by /\ ~wf /\ ~okAny THEN {[cls |-> "drift-op", observed |-> Diff(T0, T1, rootp), model |-> Diff(T0, spec, rootp)]} ELSE {})
      F == opF \cup ViewFindings(e, T1, ignore, rootp)
  IN /\ e.op = "step"
     /\ ReportFindings(e, F)
     /\ seen' = seen \cup {<<e.run, f.cls>> : f \in F}
     /\ tree' = T1
     /\ UNCHANGED <<rootp, usersp, ignore, mem>>

Next == /\ l <= Len(Log)
        /\ (World \/ ReqEv \/ StepEv)
        /\ l' = l + 1
        /\ TLCSet(1, l')

Consumed == TLCGet(1) = Len(Log) + 1
=============================================================================
