CONSTANTS
  NL = 3
  NN = 1
  MaxSubs = 1
  MaxSteps = 5
  GenDepth = 99
  Ops = {"newuser","setuser","deluser","getuser","list","restart","login","update1"}
  SubKinds = {"put","ren","del"}
  Thin = TRUE
  XPw = TRUE
  Long = TRUE
  Rand = FALSE
INIT Init
NEXT Next
VIEW View
CONSTRAINT Bound
INVARIANTS TypeOK ViewsAgree HashOnly RestartIsIdentity NoOverlongAccount
PROPERTIES NewCanLogin DeletedCannotLogin PasswordSemantics RenamedAwayCannotLogin ReadOnlySteps RoundOfOne OverlongLeavesNoTrace
CHECK_DEADLOCK FALSE
