CONSTANTS
  Deviations = {"F23"}
  Level = "core"
  MaxSteps = 1
  GenDepth = 99
  Thin = TRUE
INIT Init11
NEXT Next11
INVARIANTS ListedIsAddressable ListShowsExactly ViewsAgreeOnSizeType StaysInRoot
PROPERTIES ForksTravel ForksStay BystandersKeepForks NewFolderNeverReplaces OpsChangeExactly
CHECK_DEADLOCK FALSE
