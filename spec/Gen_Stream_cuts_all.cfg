CONSTANTS
  Mode = "readfull"
  MaxCuts = 2
  TwoCut = {"c123", "c15", "cbig", "cmany", "chuge", "up", "uprsrc", "up0", "upbig", "down", "fup"}
  Sim = FALSE
INIT Init
NEXT GenNext
ACTION_CONSTRAINT Emit
INVARIANTS GenInv
CHECK_DEADLOCK FALSE
