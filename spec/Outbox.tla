------------------------------- MODULE Outbox -------------------------------
(***************************************************************************)
(* Delivery of transactions to one client connection (hotline/server.go    *)
(* processOutbox / sendTransaction): every outgoing transaction is sent by *)
(* its own goroutine, which serialises it and writes it to the client's    *)
(* connection.  A write call is atomic on the connection (TCP semantics),  *)
(* different calls may interleave.                                          *)
(*                                                                         *)
(* Senders are identified by the transaction they send.  A transaction of  *)
(* `len` bytes is written in pieces; `Atomic = TRUE` is the intended design *)
(* (the whole transaction reaches the connection in one piece, or pieces   *)
(* of one transaction are protected by a per-connection lock);             *)
(* `Atomic = FALSE` is the implementation-shaped writer that copies through *)
(* a `Chunk`-byte buffer without mutual exclusion (io.Copy: 32 KiB) and is  *)
(* used to generate adversarial schedules for the real code.               *)
(*                                                                         *)
(* C14: the byte stream a client receives is a concatenation of complete   *)
(* transactions (WholeFrames); every reply answers a request of that same  *)
(* connection, at most once (ReplyLedger, checked on recorded ledgers).    *)
(***************************************************************************)
EXTENDS Integers, Sequences, FiniteSets, TLC

CONSTANTS Chunk,     \* size of the copy buffer
          Atomic     \* TRUE: per-connection mutual exclusion over a whole transaction

VARIABLES txs,    \* tx id -> length in bytes                      (what has been handed to senders)
          off,    \* tx id -> bytes of it written so far
          lock,   \* 0 or the tx whose sender holds the connection's write lock
          wire    \* sequence of [tx, off, n]: the write calls in the order the connection saw them

ovars == <<txs, off, lock, wire>>

Ids == DOMAIN txs
Min(a, b) == IF a < b THEN a ELSE b

InitWith(t) == /\ txs = t
               /\ off = [i \in DOMAIN t |-> 0]
               /\ lock = 0
               /\ wire = <<>>

(* one write call of sender i: the next piece of its transaction *)
Piece(i) == IF Atomic THEN txs[i] - off[i] ELSE Min(Chunk, txs[i] - off[i])

WriteOK(i) == /\ i \in Ids /\ off[i] < txs[i]
              /\ (Atomic => lock \in {0, i})

Write(i) ==
  /\ WriteOK(i)
  /\ wire' = Append(wire, [tx |-> i, off |-> off[i], n |-> Piece(i)])
  /\ off' = [off EXCEPT ![i] = @ + Piece(i)]
  /\ lock' = IF Atomic /\ off'[i] < txs[i] THEN i ELSE 0
  /\ UNCHANGED txs

(* a write call as recorded from the real connection: sender i wrote n bytes of its transaction starting at o *)
Observed(i, o, n) ==
  /\ i \in Ids
  /\ wire' = Append(wire, [tx |-> i, off |-> o, n |-> n])
  /\ off' = [off EXCEPT ![i] = o + n]
  /\ UNCHANGED <<txs, lock>>

(* C14 WholeFrames: the pieces of a transaction are contiguous on the wire and in order, so that the stream is a
   concatenation of whole transactions (the last one possibly still in progress) *)
Contiguous(w) ==
  \A k \in DOMAIN w :
     /\ w[k].off > 0 => (k > 1 /\ w[k-1].tx = w[k].tx /\ w[k-1].off + w[k-1].n = w[k].off)
     /\ (k > 1 /\ w[k-1].off + w[k-1].n < txs[w[k-1].tx]) => w[k].tx = w[k-1].tx
WholeFrames == Contiguous(wire)

AllSent == \A i \in Ids : off[i] = txs[i]
=============================================================================
