---------------------------- MODULE Trace_Contain ----------------------------
(* Trace validation for C03 (log recorded by vh-contain run): the parent's observations (probe, settled,
   userlist, exit) and the events recorded inside the real server process by the wrappers around its client
   registry and counters (Add / Delete / Inc / Dec, ordered by the wrapper's own sequence number), then the
   server's final state.  The registry / counter variables of Contain are driven by the recorded events. *)
EXTENDS Contain, Json

VARIABLES l, sent, upl,
          tot    \* cumulative counters of the model: logins, downloads, uploads started, largest registry seen (beyond C03: reported as NOTE only)

Log == ndJsonDeserialize("log.ndjson")
tvars == <<cvars, l, sent, upl, tot>>

SeqToSet(sq) == {sq[i] : i \in DOMAIN sq}
Report(what, e, extra) == PrintT(what \o " " \o ToJson([prop |-> "C03", run |-> e.run, line |-> l, op |-> e.op, detail |-> extra]))

Tot0 == [conns |-> 0, dls |-> 0, uls |-> 0, peak |-> 0]
Init0 == /\ l = 1 /\ sent = {} /\ upl = 0 /\ tot = Tot0
         /\ pc = <<>> /\ kind = <<>> /\ registry = {} /\ connected = 0 /\ inflight = 0 /\ inLimiter = {} /\ alive = TRUE

Keep == UNCHANGED <<pc, kind, inLimiter>>

Ev ==
  LET e == Log[l] IN
  CASE e.op = "world" ->
         /\ registry' = {} /\ connected' = 0 /\ inflight' = 0 /\ upl' = 0 /\ sent' = {} /\ alive' = TRUE /\ tot' = Tot0 /\ Keep
    [] e.op = "probe" ->
         /\ (~e.ok => Report("VIOL", e, [sig |-> "sentinel-not-answered", tag |-> e.tag, sentinel |-> e.sentinel, ms |-> e.ms]))
         /\ UNCHANGED <<cvars, sent, upl, tot>>
    [] e.op = "Add" ->
         /\ registry' = registry \cup {e.id}
         /\ sent' = IF e.sentinel THEN sent \cup {e.id} ELSE sent
         /\ tot' = [tot EXCEPT !.peak = IF Cardinality(registry \cup {e.id}) > @ THEN Cardinality(registry \cup {e.id}) ELSE @]
         /\ UNCHANGED <<connected, inflight, alive, upl>> /\ Keep
    [] e.op = "Delete" ->
         /\ registry' = registry \ {e.id}
         /\ UNCHANGED <<connected, inflight, alive, sent, upl, tot>> /\ Keep
    [] e.op = "Inc" ->
         /\ connected' = connected + (IF 0 \in SeqToSet(e.keys) THEN 1 ELSE 0)
         /\ inflight' = inflight + (IF 1 \in SeqToSet(e.keys) THEN 1 ELSE 0)
         /\ upl' = upl + (IF 2 \in SeqToSet(e.keys) THEN 1 ELSE 0)
         /\ tot' = [tot EXCEPT !.conns = @ + (IF 5 \in SeqToSet(e.keys) THEN 1 ELSE 0), !.dls = @ + (IF 6 \in SeqToSet(e.keys) THEN 1 ELSE 0),
                               !.uls = @ + (IF 7 \in SeqToSet(e.keys) THEN 1 ELSE 0)]
         /\ UNCHANGED <<registry, alive, sent>> /\ Keep
    [] e.op = "Dec" ->
         /\ connected' = connected - (IF e.key = 0 THEN 1 ELSE 0)
         /\ inflight' = inflight - (IF e.key = 1 THEN 1 ELSE 0)
         /\ upl' = upl - (IF e.key = 2 THEN 1 ELSE 0)
         /\ UNCHANGED <<registry, alive, sent, tot>> /\ Keep
    [] e.op = "Final" ->
         LET good == /\ SeqToSet(e.registry) = sent /\ e.connected = Cardinality(sent)
                     /\ e.downloads = 0 /\ e.uploads = 0
             agree == registry = SeqToSet(e.registry) /\ connected = e.connected /\ inflight = e.downloads /\ upl = e.uploads
             busy == "busy" \in DOMAIN e /\ e.busy   \* the harness gave up waiting while the server was still working: no verdict
         IN /\ (~good /\ busy => Report("DRIFT", e, [sig |-> "still-working-at-the-patience-cap"]))
            /\ (~good /\ ~busy => Report("VIOL", e, [sig |-> "not-back-to-baseline", registry |-> e.registry, sentinels |-> sent,
                                           connected |-> e.connected, downloads |-> e.downloads, uploads |-> e.uploads]))
            /\ (~agree /\ ~busy => Report("DRIFT", e, [modelRegistry |-> registry, modelConnected |-> connected, modelDl |-> inflight, modelUl |-> upl]))
            (* beyond C03: the cumulative counters are the numbers of logins / transfers begun; every login also counts
               as a connection; the recorded peak is never above the largest registry (it is set without a lock, so it
               may lag behind) *)
            /\ ("conns" \in DOMAIN e /\ ~busy /\ (e.conns # tot.conns \/ e.dls # tot.dls \/ e.uls # tot.uls \/ e.peak > tot.peak \/ e.peak < 2)
                  => Report("NOTE", e, [sig |-> "cumulative-counters-differ", model |-> tot, conns |-> e.conns, dls |-> e.dls, uls |-> e.uls, peak |-> e.peak]))
            /\ UNCHANGED <<cvars, sent, upl, tot>>
    [] e.op = "userlist" ->
         /\ (~(e.ok /\ Len(e.names) = 2) /\ ~("busy" \in DOMAIN e /\ e.busy) => Report("VIOL", e, [sig |-> "user-list-not-back-to-sentinels", ok |-> e.ok, n |-> Len(e.names)]))
         /\ UNCHANGED <<cvars, sent, upl, tot>>
    [] e.op = "exit" ->
         /\ alive' = (e.code = 0 /\ e.fatal = "")
         /\ (~(e.code = 0 /\ e.fatal = "") => Report("VIOL", e, [sig |-> "server-process-terminated", code |-> e.code, fatal |-> e.fatal]))
         /\ UNCHANGED <<registry, connected, inflight, sent, upl, tot>> /\ Keep
    [] OTHER -> UNCHANGED <<cvars, sent, upl, tot>>

TNext == /\ l <= Len(Log) /\ Ev /\ l' = l + 1 /\ TLCSet(1, l')
Consumed == TLCGet(1) = Len(Log) + 1
=============================================================================
