CONSTANTS
  FreshAppends = FALSE
INIT Init
NEXT Next
POSTCONDITION Consumed
CHECK_DEADLOCK FALSE
