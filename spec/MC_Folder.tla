---------------------------- MODULE MC_Folder ----------------------------
(* Bounded instance of Folder: exhaustive check of the C10 invariants and exhaustive emission of scripts.
   Download mode: every tree with at most MaxDown nodes below the transfer folder (depth <= MaxDepth, names
   a, a.txt, b, .h - so that name order differs from path order and dot-named files / empty dot-named folders
   occur; nothing hangs below a dot-named folder), every file of a size in Sizes, and every per-item choice of the
   client (send, next, resume from every offset 0..size).
   Upload mode: every such tree with at most MaxUp nodes as the client's local tree, streamed in depth-first
   order, onto every consistent pre-existing state of the target (each folder absent/present, each file absent /
   complete / partial of every length in 0..size), with the connection cut after every possible number of data
   bytes of every transferred file, or not at all - and then downloaded again with "send" for every file.
   A complete behaviour is one script: PrintT("B {...}") when EmitOn. *)
EXTENDS Folder, Json

CONSTANTS MaxDown, MaxUp, MaxDownX, MaxUpX, MaxDepth, Sizes, UpSizes, Modes, EmitOn

VARIABLES mode,   \* "down" | "up"
          start,  \* the tree on the server at the beginning
          plan,   \* upload: the items still to be streamed
          hist,   \* the steps taken (the script)
          fin     \* the behaviour is complete

mcvars == <<vars, mode, start, plan, hist, fin>>

NA == <<97>>                       \* a
NT == <<97, 46, 116, 120, 116>>    \* a.txt
NB == <<98>>                       \* b
NH == <<46, 104>>                  \* .h
Names == {NA, NT, NB, NH}
NI == NA \o IncSfx                 \* a.incomplete : a name a user may give, and the on-disk name of a partial `a`
NM == <<109>> \o IncSfx \o <<46, 121>>   \* m.incomplete.y : the suffix in the middle of a name
XNames == {NA, NI, NM}

(* trees: nodes are added one at a time below the root or below a (visible) folder of the tree; on-disk paths stay
   unique (a partial `a` and a file named a.incomplete cannot both exist).  parts = lengths of partial files that
   may occur (download trees only: the leftovers of interrupted uploads, possibly next to their final name) *)
Parents(t) == {<<>>} \cup {n.path : n \in {x \in t : x.kind = "dir" /\ Len(x.path) < MaxDepth /\ ~Hidden(x)}}
OnDisk(t) == {DiskPath(n) : n \in t}
NewNodes(t, szs, nms, parts) ==
  UNION {{DirNode(p \o <<nm>>)} \cup {FileNode(p \o <<nm>>, z) : z \in szs} \cup {PartNode(p \o <<nm>>, j) : j \in parts}
           : p \in Parents(t), nm \in nms}
Ext(t, szs, nms, parts) == {t \cup {nd} : nd \in {x \in NewNodes(t, szs, nms, parts) : DiskPath(x) \notin OnDisk(t)}}
RECURSIVE TreesUpTo(_, _, _, _)
TreesUpTo(k, szs, nms, parts) ==
  IF k = 0 THEN {{}}
  ELSE LET prev == TreesUpTo(k - 1, szs, nms, parts)
       IN prev \cup UNION {Ext(t, szs, nms, parts) : t \in {x \in prev : Cardinality(x) = k - 1}}

(* a local tree the server cannot store faithfully: a file x next to an entry named x.incomplete (the server keeps
   the partial data of x under that very name) - outside the scripts *)
Clash(t) == \E n, m \in t : n.kind = "file" /\ n # m /\ m.path = Front(n.path) \o <<Last(n.path) \o IncSfx>>

DownTrees == TreesUpTo(MaxDown, Sizes, Names, {}) \cup TreesUpTo(MaxDownX, {2}, XNames, {1})
UpTrees == (TreesUpTo(MaxUp, UpSizes, Names, {}) \cup {t \in TreesUpTo(MaxUpX, {2}, XNames, {}) : ~Clash(t)}) \ {{}}

(* pre-existing states of the target for a local tree T *)
MaxSize == CHOOSE m \in UpSizes \cup {2} : \A z \in UpSizes \cup {2} : z <= m
Statuses == {[st |-> "absent", j |-> 0], [st |-> "there", j |-> 0]} \cup {[st |-> "part", j |-> j] : j \in 0..MaxSize}
StatusOK(n, x) == IF n.kind = "dir" THEN x.st \in {"absent", "there"}
                  ELSE x.st \in {"absent", "there"} \/ (x.st = "part" /\ x.j <= n.size)
PreOf(T, f) == {IF f[n].st = "part" THEN PartNode(n.path, f[n].j) ELSE n : n \in {m \in T : f[m].st # "absent"}}
PreStates(T) == {P \in {PreOf(T, f) : f \in {g \in [T -> Statuses] : \A n \in T : StatusOK(n, g[n])}} : WellFormed(P)}

Starts(m) == IF m = "down" THEN {[tree |-> t, pre |-> t] : t \in DownTrees}
             ELSE UNION {{[tree |-> T, pre |-> P] : P \in PreStates(T)} : T \in UpTrees}

Init == /\ mode \in Modes
        /\ \E st \in Starts(mode) : /\ InitWith(st.pre)
                                    /\ start = st.pre
                                    /\ plan = IF mode = "up" THEN StreamOrder(st.tree) ELSE <<>>
        /\ hist = <<>>
        /\ fin = FALSE

WasCut == \E i \in DOMAIN hist : hist[i].op = "upitem" /\ hist[i].cut >= 0
Downloading == mode = "down" \/ (hist # <<>> /\ \E i \in DOMAIN hist : hist[i].op = "upend")

DlChoices(n) ==
  IF n.kind = "dir" THEN {[op |-> "dlitem", act |-> 3, k |-> 0, path |-> DiskPath(n)]}
  ELSE IF mode = "up" THEN {[op |-> "dlitem", act |-> 1, k |-> 0, path |-> DiskPath(n)]}
  ELSE {[op |-> "dlitem", act |-> a, k |-> 0, path |-> DiskPath(n)] : a \in {1, 3}}
       \cup {[op |-> "dlitem", act |-> 2, k |-> k, path |-> DiskPath(n)] : k \in 0..n.size}

UpChoices(n) == {s \in {[op |-> "upitem", path |-> n.path, kind |-> n.kind, size |-> n.size, cut |-> c] : c \in -1..(n.size - 1)} : UpItemOK(s)}

Step(s) == /\ ~fin
           /\ Apply(s)
           /\ hist' = Append(hist, s)
           /\ plan' = IF s.op = "upitem" THEN Tail(plan) ELSE plan
           /\ fin' = (s.op = "dlend")
           /\ UNCHANGED <<mode, start>>

DoDlReq  == Downloading /\ ph = "idle" /\ (mode = "down" => hist = <<>>) /\ Step([op |-> "dlreq"])
DoDlItem == ph = "down" /\ todo # <<>> /\ \E s \in DlChoices(Head(todo)) : Step(s)
DoDlEnd  == ph = "down" /\ todo = <<>> /\ Step([op |-> "dlend"])
DoUpReq  == mode = "up" /\ hist = <<>> /\ Step([op |-> "upreq", count |-> Len(plan)])
DoUpItem == ph = "up" /\ plan # <<>> /\ \E s \in UpChoices(Head(plan)) : Step(s)
DoUpEnd  == (ph = "cut" \/ (ph = "up" /\ plan = <<>>)) /\ Step([op |-> "upend"])

Next == DoDlReq \/ DoDlItem \/ DoDlEnd \/ DoUpReq \/ DoUpItem \/ DoUpEnd

Spec == Init /\ [][Next]_mcvars

(* uploading a tree and downloading it again returns the same tree: the visible part of what the client streamed,
   in walk order, every file with all its bytes *)
UpDownIdentity ==
  (mode = "up" /\ out.op = "dlend" /\ ~WasCut) =>
     LET W == Walk(streamed)
     IN sent = [i \in DOMAIN W |-> [type |-> Hdr(W[i]).type, path |-> Hdr(W[i]).path,
                                    dlen |-> IF W[i].kind = "file" THEN W[i].size ELSE -1]]

(* the generated trees are the ones the statement speaks about *)
TreesOK == WellFormed(disk) /\ NoDotParents(disk)

(* script emission: one line per complete behaviour *)
Emit == (EmitOn /\ fin') => PrintT("B " \o ToJson([mode |-> mode, pre |-> start, steps |-> hist']))
=============================================================================
