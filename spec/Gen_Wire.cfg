CONSTANTS
  Kinds = {"field","txn","user","account","fnwi","infofork","ffo","resume","fileheader","nald","newsartlist","newscat15","trackerreg","time","handshake","preamble","int","filepath","newspath","serverrecord","listing","flatfile","obfstr"}
  Bufs = {1,2,3,7,40000}
  Bufs2 = {}
  Modes = {1,2,3,7,40000}
  Long = TRUE
  BSizes = {}
  Track = TRUE
INIT Init
NEXT Next
ACTION_CONSTRAINT Emit
INVARIANTS EmittedIsPrefix EofMeansAll
CHECK_DEADLOCK FALSE
