CONSTANTS
  Mode = "c16"
  Tier = "quick"
  Seed = 1
INIT MCInit
NEXT Next
ACTION_CONSTRAINT Emit
INVARIANTS NoEffectWithoutPrivilege NeverRefusedWithPrivilege NoAmplification RoundTrip LegacyAgrees WireMeansSame
CHECK_DEADLOCK FALSE
