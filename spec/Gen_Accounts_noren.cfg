CONSTANTS
  NL = 3
  NN = 2
  MaxSubs = 3
  MaxSteps = 99
  GenDepth = 14
  Ops = {"newuser","setuser","deluser","getuser","restart","login","update1","update2","update3"}
  SubKinds = {"put","del"}
  Thin = FALSE
  XPw = TRUE
  Long = TRUE
  Rand = TRUE
INIT Init
NEXT Next
ACTION_CONSTRAINT Emit
INVARIANTS TypeOK ViewsAgree HashOnly RestartIsIdentity NoOverlongAccount
CHECK_DEADLOCK FALSE
