---------------------------- MODULE Trace_Authz ----------------------------
(* Trace validation of the privilege family (C05, C06, C16): consumes log.ndjson recorded by `vh-authz` from the
   real server.  Every line is one self-contained case executed in its own fresh world (so the model is reset
   before every line: phase "reset", then phase "apply"): the case's arguments + what the real code did.

     handle (C05)  reply   "ok" | "err" | "none" | "closed"       nrep    number of replies to the request
                   etext   bytes of the error text                rf      field numbers of the reply
                   fs accts amem news board bans cfgx chats xfers   the effect digest: lists of differences between
                           the snapshots before/after (file root, account files, account manager, news file,
                           board file, ban file, other config files, chat membership, pending transfers)
                   xfer    how the opened transfer went ("none": not opened)   newdirs / outdirs  folders that appeared /
                           those of them outside the folder a folder upload names
                   other   transaction types the second client received       selfx  ... the requester, besides its reply
                   closed  the second client's connection was closed           name   whose name the user list shows
     create (C06)  reply, etext, mem / disk = bitmap bytes of the created account in the running manager / in a
                   freshly loaded one (<<>> = no such account)
     kick (C06)    reply, closed, banned (address listed in the re-loaded ban file)
                   pclosed (a protected bystander's connection was closed)
     rt (C16)      aload, bkeys, ball, cmem, cform, ckeys, creload, dauth, dwire (see harness/fam/authz/rt.go)
                   oauth, owire, onwire: the same as dauth, dwire, nwire for a second session logged in the 1.2.3 way
     multi (C06)   editreply, reply, sclosed, banned, mem, disk (see MultiProblems)
     upd (C16)     reply, lwire, n354, uwire, dauth, disk: a live session whose account an administrator changes

   The line is applied to the model with the same action (Authz!Apply) the model check uses and the model's
   prediction is compared with the observation.  "VIOL {...}": the real observation contradicts what the
   property statement constrains.  "DRIFT {...}": model and code differ on something the property does not fix
   (or the case did not run as intended).  Acceptance: every line consumed.

   Readings.  Where the statement / the protocol document can be read in more than one way (Authz!Table: alts)
   a VIOL needs the observation to contradict every reading: "refused although privileged" needs the requester
   to hold every reading's privilege set, "not refused / effect although unprivileged" needs it to satisfy none.
   A refused sequence request (207 comment+rename, 349 batch) may have performed the sub-requests before the
   first forbidden one ("partial" reading) or nothing ("atomic"). *)
EXTENDS Authz, Json

VARIABLES l,    \* next line of the log
          ph    \* "reset" | "apply"

Log == ndJsonDeserialize("log.ndjson")

tvars == <<vars, l, ph>>

SeqToSet(sq) == {sq[i] : i \in DOMAIN sq}

Chans == {"fs", "accts", "news", "board", "bans", "cfgx", "chats", "xfers", "other", "closed", "reveal", "selfx"}

Changed(e, c) ==
  CASE c = "fs" -> e.fs # <<>>
    [] c = "accts" -> e.accts # <<>> \/ e.amem # <<>>
    [] c = "news" -> e.news # <<>>
    [] c = "board" -> e.board # <<>>
    [] c = "bans" -> e.bans # <<>>
    [] c = "cfgx" -> e.cfgx # <<>>
    [] c = "chats" -> e.chats # <<>>
    [] c = "xfers" -> e.xfers # <<>>
    [] c = "other" -> e.other # <<>>
    [] c = "closed" -> e.closed
    [] c = "reveal" -> \E i \in DOMAIN e.rf : e.rf[i] # 100
    [] c = "selfx" -> e.selfx # <<>> \/ e.nrep > 1

ChangedSet(e) == {c \in Chans : Changed(e, c)}

(* the case as a step of the model; for a sequence request the observed reading is taken *)
Fix(e) ==
  CASE e.op = "handle" -> [op |-> "handle", t |-> e.t, k |-> e.k, acc |-> SeqToSet(e.acc),
                           rd |-> IF ChangedSet(e) = {} THEN "atomic" ELSE "partial"]
    [] e.op = "create" -> [op |-> "create", via |-> e.via, by |-> e.by, acc |-> SeqToSet(e.acc), login |-> e.login,
                           want |-> SeqToSet(e.want), shape |-> e.shape]
    [] e.op = "kick"   -> [op |-> "kick", acc |-> SeqToSet(e.acc), tacc |-> SeqToSet(e.tacc), ban |-> e.ban,
                           third |-> e.third, pacc |-> SeqToSet(e.pacc), shared |-> e.shared]
    [] e.op = "rt"     -> [op |-> "rt", S |-> SeqToSet(e.S)]
    [] e.op = "upd"    -> [op |-> "upd", via |-> e.via, S |-> SeqToSet(e.S), old |-> SeqToSet(e.old), near |-> e.near, B |-> SeqToSet(e.B)]
    [] e.op = "batch"  -> [op |-> "batch", acc |-> SeqToSet(e.acc),
                           entries |-> [i \in DOMAIN e.entries |-> [kind |-> e.entries[i].kind, login |-> e.entries[i].login,
                                                                    set |-> SeqToSet(e.entries[i].set)]]]
    [] e.op = "open"   -> [op |-> "open", S |-> SeqToSet(e.S), racc |-> SeqToSet(e.racc)]
    [] e.op = "multi"  -> [op |-> "multi", kind |-> e.kind, edit |-> e.edit, n |-> e.n, k |-> e.k, a0 |-> SeqToSet(e.a0),
                           a1 |-> SeqToSet(e.a1), ban |-> e.ban, via |-> e.via, want |-> SeqToSet(e.want), near |-> e.near]
    [] OTHER -> [op |-> "unknown"]

P(kind, prop, what, detail) == [kind |-> kind, prop |-> prop, what |-> what, detail |-> detail]

(* ---- C05 -------------------------------------------------------------------- *)
(* e: the logged line, s: Fix(e); mrep / mfx: the model's reply and effects for s *)
HandleProblems(e, s, mrep, mfx, mnm) ==
  LET r == Row(s.t, s.k)
      readings == {r.req} \cup r.alts
      all == \A A \in readings : A \subseteq s.acc
      none == \A A \in readings : ~(A \subseteq s.acc)
      isErr == e.reply = "err"
      refused == isErr /\ IsRefusalText(e.etext)
      changed == ChangedSet(e)
      allowed == {Chan(x) : x \in mfx}            \* what a refused request may have changed (partial reading)
      expect == {Chan(x) : x \in EffOf(r)} \ {"none"}
      d == [acc |-> s.acc, req |-> r.req, alts |-> r.alts, reply |-> e.reply, changed |-> changed]
  IN
  IF r.sp = "anyname" THEN
       (IF 26 \in s.acc /\ e.name \in {"acct", "login", "empty", "other"}
          THEN <<P("VIOL", "C05", "name-not-adopted-with-privilege", d)>> ELSE <<>>)
       \o (IF 26 \notin s.acc /\ e.name = "req" THEN <<P("VIOL", "C05", "name-adopted-without-privilege", d)>> ELSE <<>>)
       \o (IF 26 \in s.acc /\ refused THEN <<P("VIOL", "C05", "refused-with-privilege", d)>> ELSE <<>>)
       \o (IF e.name \notin {"req", "acct", "login", "empty", "other"}
             THEN <<P("DRIFT", "C05", "display name could not be observed: " \o e.name, d)>> ELSE <<>>)
       \o (IF 26 \notin s.acc /\ e.name # mnm /\ e.name \in {"login", "empty", "other"}
             THEN <<P("DRIFT", "C05", "display name differs from the model: " \o e.name, d)>> ELSE <<>>)
  ELSE
       (IF all /\ refused THEN <<P("VIOL", "C05", "refused-with-privilege", d)>> ELSE <<>>)
       \o (IF none /\ ~isErr /\ ~(r.sp = "ghost" /\ e.reply = "none")   \* (an unresolvable target may go unanswered)
              THEN <<P("VIOL", "C05", "no-error-reply-without-privilege", d)>> ELSE <<>>)
       \o (IF none /\ ~(changed \subseteq allowed)
               THEN <<P("VIOL", "C05", "effect-without-privilege", [d EXCEPT !.changed = changed \ allowed])>> ELSE <<>>)
       \o (IF r.sp = "xfer" /\ e.outdirs # <<>> /\ 5 \notin s.acc     \* a folder appeared and the requester may not create folders
              THEN <<P("VIOL", "C05", "effect-without-privilege", [d EXCEPT !.changed = {"folder-created"}])>> ELSE <<>>)
       \o (IF none /\ e.nrep > 1 THEN <<P("VIOL", "C05", "several-replies-to-refused-request", d)>> ELSE <<>>)
       \o (IF all /\ isErr /\ ~refused /\ EffOf(r) # {} /\ r.sp \notin {"occupied", "ghost", "xfer"} THEN <<P("DRIFT", "C05", "request failed for another reason", d)>> ELSE <<>>)
       (* the requester holds the privilege of every reading and the request is well-formed: "with it the request is
          never refused" - a closed connection, no reply, or a reply without the effect is a refusal in all but name.
          (The delayed disconnect is awaited with a bound: its absence alone is timing, hence drift.) *)
       \o (IF all /\ e.reply = "closed" /\ EffOf(r) # {} /\ r.sp \notin {"occupied", "ghost", "xfer"}
               THEN <<P("VIOL", "C05", "permitted-request-not-executed", d)>> ELSE <<>>)
       \o (IF all /\ e.reply = "closed" /\ ~(EffOf(r) # {} /\ r.sp \notin {"occupied", "ghost", "xfer"})
               THEN <<P("DRIFT", "C05", "connection closed instead of a reply", d)>> ELSE <<>>)
       \o (IF all /\ ~isErr /\ e.reply # "closed" /\ r.sp \notin {"occupied", "ghost", "xfer"} /\ ~((expect \ {"closed"}) \subseteq changed)
               THEN <<P("VIOL", "C05", "permitted-request-not-executed", [d EXCEPT !.changed = expect \ changed])>> ELSE <<>>)
       \o (IF all /\ ~isErr /\ e.reply # "closed" /\ r.sp \notin {"occupied", "ghost", "xfer"} /\ (expect \ {"closed"}) \subseteq changed /\ ~(expect \subseteq changed)
               THEN <<P("DRIFT", "C05", "expected disconnect not observed within the bound", [d EXCEPT !.changed = expect \ changed])>> ELSE <<>>)
       \o (IF (all /\ mrep # "ok") \/ (none /\ mrep # "refused")
               THEN <<P("DRIFT", "C05", "model and readings disagree", d)>> ELSE <<>>)

(* ---- C06 -------------------------------------------------------------------- *)
CreateProblems(e, s, mrep, maccts) ==
  LET inMem == Len(e.mem) = 8
      onDisk == Len(e.disk) = 8
      memS == IF inMem THEN FromBytes(e.mem) ELSE {}
      diskS == IF onDisk THEN FromBytes(e.disk) ELSE {}
      created == s.login \in DOMAIN maccts
      d == [creator |-> s.acc, want |-> s.want, via |-> s.via, shape |-> s.shape, reply |-> e.reply,
            mem |-> IF inMem THEN memS ELSE {-1}, disk |-> IF onDisk THEN diskS ELSE {-1}]
  IN
  (IF inMem /\ ~(memS \subseteq s.acc)
     THEN <<P("VIOL", "C06", "amplified-in-memory", [d EXCEPT !.mem = memS \ s.acc])>> ELSE <<>>)
  \o (IF onDisk /\ ~(diskS \subseteq s.acc)
     THEN <<P("VIOL", "C06", "amplified-on-disk", [d EXCEPT !.disk = diskS \ s.acc])>> ELSE <<>>)
  \o (IF (inMem \/ onDisk) /\ 14 \notin s.acc
     THEN <<P("VIOL", "C05", "account-created-without-privilege", d)>> ELSE <<>>)
  \o (IF created /\ (~inMem \/ ~onDisk) /\ s.shape = "full" /\ ~(e.reply = "err" /\ ~IsRefusalText(e.etext))
        THEN <<P("VIOL", "C05", "permitted-request-not-executed", d)>> ELSE <<>>)   \* (C05: never refused with the privilege)
  \o (IF created /\ (~inMem \/ ~onDisk) /\ ((s.shape = "full" /\ e.reply = "err" /\ ~IsRefusalText(e.etext)) \/ (s.shape # "full" /\ e.reply = "ok"))
        THEN <<P("DRIFT", "C06", "permitted creation did not happen", d)>> ELSE <<>>)   \* (an odd field shape may be rejected)
  \o (IF ~created /\ (inMem \/ onDisk) /\ 14 \in s.acc /\ memS \subseteq s.acc /\ diskS \subseteq s.acc
     THEN <<P("DRIFT", "C06", "account exists although the model refuses", d)>> ELSE <<>>)
  \o (IF created /\ inMem /\ onDisk /\ (memS # EffWant(s) \/ diskS # EffWant(s) \cap Defined)
     THEN <<P("DRIFT", "C06", "created account differs from the request", d)>> ELSE <<>>)

KickProblems(e, s, mlive, mbanned) ==
  LET prot == 23 \in (IF s.shared THEN s.acc ELSE s.tacc)
      d == [acc |-> s.acc, tacc |-> IF s.shared THEN s.acc ELSE s.tacc, shared |-> s.shared, ban |-> s.ban, third |-> s.third, reply |-> e.reply, closed |-> e.closed,
            banned |-> e.banned, pclosed |-> e.pclosed]
  IN
  (IF prot /\ e.closed THEN <<P("VIOL", "C06", "protected-user-disconnected", d)>> ELSE <<>>)
  \o (IF prot /\ e.banned THEN <<P("VIOL", "C06", "protected-user-banned", d)>> ELSE <<>>)
  \o (IF ~prot /\ 22 \notin s.acc /\ (e.closed \/ e.banned)
          THEN <<P("VIOL", "C05", "disconnect-without-privilege", d)>> ELSE <<>>)
  \o (IF ~prot /\ 22 \in s.acc /\ (e.reply \in {"closed", "none"} \/ (e.reply = "err" /\ IsRefusalText(e.etext))
                                     \/ (e.reply = "ok" /\ s.ban > 0 /\ ~e.banned))
          THEN <<P("VIOL", "C05", "permitted-request-not-executed", d)>> ELSE <<>>)
  \o (IF ~prot /\ 22 \in s.acc /\ e.reply = "ok" /\ (~e.closed \/ (s.ban = 0 /\ e.banned))
          THEN <<P("DRIFT", "C06", "disconnect outcome differs from the model", d)>> ELSE <<>>)
  \o (IF ~prot /\ 22 \in s.acc /\ e.reply = "err" /\ ~IsRefusalText(e.etext)
          THEN <<P("DRIFT", "C06", "disconnect request failed for another reason", d)>> ELSE <<>>)
  \o (IF s.third # "none" /\ 23 \in s.pacc /\ e.pclosed
          THEN <<P("VIOL", "C06", "protected-bystander-disconnected", [d EXCEPT !.tacc = s.pacc])>> ELSE <<>>)
  \o (IF s.third # "none" /\ 23 \notin s.pacc /\ e.pclosed # ("prot" \notin mlive)
          THEN <<P("DRIFT", "C06", "bystander outcome differs from the model", d)>> ELSE <<>>)

(* ---- C16 -------------------------------------------------------------------- *)
Diff(got, want) == [missing |-> want \ got, extra |-> got \ want]
RtProblems(e, s) ==
  LET S == s.S
      SD == S \cap Defined
      names == Save(S)
      aS == FromBytes(e.aload)
      bK == SeqToSet(e.bkeys)
      cM == FromBytes(e.cmem)
      cK == SeqToSet(e.ckeys)
      cR == FromBytes(e.creload)
      dA == SeqToSet(e.dauth)
      dW == IF Len(e.dwire) = 8 THEN FromBytes(e.dwire) ELSE {-1}
      oA == SeqToSet(e.oauth)
      oW == IF Len(e.owire) = 8 THEN FromBytes(e.owire) ELSE {-1}
      V(what, got, want) == IF got # want THEN <<P("VIOL", "C16", what, Diff(got, want))>> ELSE <<>>
      D(what, got, want) == IF got # want THEN <<P("DRIFT", "C16", what, Diff(got, want))>> ELSE <<>>
  IN
  (IF e.dworld # "ok" THEN <<P("DRIFT", "C16", "no world for the login part: " \o e.dworld, [n |-> 0])>> ELSE <<>>) \o
  V("load-named", aS, SD)                                \* named file with Save(S) true -> exactly S /\ Defined
  \o V("save-named", bK, names)                        \* account with ToBytes(S) saved -> exactly the keys Save(S)
  \o V("legacy-load", cM \cap Defined, SD)             \* legacy array -> same defined privileges
  \o V("legacy-migrated-file", cK, names)
  \o V("legacy-reload", cR, SD)
  \o D("file keys", SeqToSet(e.ball), AllNames)
  \o D("undefined bits after legacy load", cM \ Defined, S \ Defined)
  \o (IF e.cform # "map" \/ e.bform # "map" THEN <<P("DRIFT", "C16", "account file not in named form", [b |-> e.bform, c |-> e.cform])>> ELSE <<>>)
  \o (IF e.dworld = "ok" THEN
        <<>>
      \o V("authorize", dA \cap Defined, SD)               \* decision i <=> i in S
      \o V("wire", dW \cap Defined, SD)                    \* bit i of the user-access field <=> i in S
      \o V("wire-vs-authorize", dW, dA)                    \* all 64 numbers: the wire and the decisions agree
      \o D("undefined bits in authorization", dA \ Defined, S \ Defined)
      \o V("authorize (1.2.3-style login)", oA \cap Defined, SD)       \* the same for a session logged in the old way
      \o V("wire (1.2.3-style login)", oW \cap Defined, SD)
      \o V("wire-vs-authorize (1.2.3-style login)", oW, oA)
      \o D("undefined bits in authorization (1.2.3-style login)", oA \ Defined, S \ Defined)
      \o (IF e.onwire # 1 THEN <<P("DRIFT", "C16", "user-access transactions at a 1.2.3-style login", [n |-> e.onwire])>> ELSE <<>>)
      \o (IF e.nwire # 1 THEN <<P("DRIFT", "C16", "user-access transactions at login", [n |-> e.nwire])>> ELSE <<>>)
      ELSE <<>>)
  \o (IF ToBytes(S) # e.bytes THEN <<P("DRIFT", "C16", "script bytes are not ToBytes(S)", [b |-> e.bytes])>> ELSE <<>>)

(* a multi-entry Update User batch.  made: one record per "create" entry, in order: [i (entry number), login, mem, disk]
   (bitmap bytes of that account afterwards in the running / a freshly loaded account manager, <<>> = absent). *)
BatchProblems(e, s, maccts) ==
  LET kinds == [i \in DOMAIN s.entries |-> s.entries[i].kind]
      one(m) ==
        LET cur == CurAt(s.entries, m.i, s.acc)        \* the creator at the time of that entry
            inMem == Len(m.mem) = 8
            onDisk == Len(m.disk) = 8
            memS == IF inMem THEN FromBytes(m.mem) ELSE {}
            diskS == IF onDisk THEN FromBytes(m.disk) ELSE {}
            d == [creator |-> s.acc, kinds |-> kinds, entry |-> m.i, creator_then |-> cur, login |-> m.login, reply |-> e.reply,
                  mem |-> IF inMem THEN memS ELSE {-1}, disk |-> IF onDisk THEN diskS ELSE {-1}]
        IN (IF inMem /\ ~(memS \subseteq cur) THEN <<P("VIOL", "C06", "amplified-in-batch-memory", [d EXCEPT !.mem = memS \ cur])>> ELSE <<>>)
           \o (IF onDisk /\ ~(diskS \subseteq cur) THEN <<P("VIOL", "C06", "amplified-in-batch-file", [d EXCEPT !.disk = diskS \ cur])>> ELSE <<>>)
           \o (IF (m.login \in DOMAIN maccts) /\ e.reply = "ok" /\ (~inMem \/ ~onDisk)
                 THEN <<P("DRIFT", "C06", "permitted creation in a batch did not happen", d)>> ELSE <<>>)
      RECURSIVE all(_)
      all(k) == IF k > Len(e.made) THEN <<>> ELSE one(e.made[k]) \o all(k + 1)
  IN all(1)

(* an account editor opens, lists and re-saves an account: gwire / lwire = the access field of the Get User reply /
   of the account's entry in the List Users reply; saved = the editor (holding 17) sent Set User with the bytes it
   received; mem / disk = the account afterwards in the running / a freshly loaded account manager *)
OpenProblems(e, s) ==
  LET S == s.S
      SD == S \cap Defined
      gW == IF Len(e.gwire) = 8 THEN FromBytes(e.gwire) ELSE {-1}
      lW == IF Len(e.lwire) = 8 THEN FromBytes(e.lwire) ELSE {-1}
      mS == IF Len(e.mem) = 8 THEN FromBytes(e.mem) ELSE {-1}
      dS == IF Len(e.disk) = 8 THEN FromBytes(e.disk) ELSE {-1}
      V(what, got, want) == IF got # want THEN <<P("VIOL", "C16", what, Diff(got, want))>> ELSE <<>>
      D(what, got, want) == IF got # want THEN <<P("DRIFT", "C16", what, Diff(got, want))>> ELSE <<>>
  IN
  IF e.greply # "ok" \/ e.lreply # "ok" \/ (e.saved /\ e.sreply # "ok")
    THEN <<P("DRIFT", "C16", "the account editor's requests did not run as intended", [g |-> e.greply, l |-> e.lreply, s |-> e.sreply])>>
    ELSE V("getuser-wire", gW \cap Defined, SD)            \* the bytes sent to an editing client = the stored privileges
         \o V("listusers-wire", lW \cap Defined, SD)
         \o V(IF e.saved THEN "open-save-roundtrip-memory" ELSE "account-after-open-memory", mS \cap Defined, SD)
         \o V(IF e.saved THEN "open-save-roundtrip-file" ELSE "account-after-open-file", dS, SD)
         \o D("undefined bits in the Get User reply", gW \ Defined, S \ Defined)
         \o D("undefined bits in the List Users reply", lW \ Defined, S \ Defined)
         \o (IF e.saved # (17 \in s.racc) THEN <<P("DRIFT", "C16", "save step", [saved |-> e.saved])>> ELSE <<>>)
         \o (IF ToBytes(S) # e.bytes THEN <<P("DRIFT", "C16", "script bytes are not ToBytes(S)", [b |-> e.bytes])>> ELSE <<>>)

(* several sessions of one account, the account is edited, then session k is kicked / creates an account.
   sclosed: per session, whether its connection was closed; banned: the target session's address is in the re-loaded
   ban file; mem / disk as for create; editreply: the administrator's reply to the edit. *)
MultiProblems(e, s, mrep, maccts) ==
  LET which == IF s.k = 1 THEN "first-session" ELSE "later-session"
      d == [kind |-> s.kind, edit |-> s.edit, n |-> s.n, k |-> s.k, near |-> s.near, session |-> IF s.near = "none" THEN which ELSE "namesake-" \o s.near, a0 |-> s.a0, a1 |-> s.a1, ban |-> s.ban,
            via |-> s.via, want |-> s.want, reply |-> e.reply, sclosed |-> e.sclosed, banned |-> e.banned,
            mem |-> IF Len(e.mem) = 8 THEN FromBytes(e.mem) ELSE {-1}, disk |-> IF Len(e.disk) = 8 THEN FromBytes(e.disk) ELSE {-1}]
      anyClosed == \E i \in DOMAIN e.sclosed : e.sclosed[i]
      inMem == Len(e.mem) = 8
      onDisk == Len(e.disk) = 8
      memS == IF inMem THEN FromBytes(e.mem) ELSE {}
      diskS == IF onDisk THEN FromBytes(e.disk) ELSE {}
  IN
  IF e.editreply # "ok"
    THEN <<P("DRIFT", "C06", "the account edit did not run as intended", d)>>
  ELSE IF s.kind = "kick" /\ s.near # "none" THEN    \* the target is the protected near-namesake's session
       (IF e.bclosed THEN <<P("VIOL", "C06", "protected-namesake-disconnected-after-edit", d)>> ELSE <<>>)
       \o (IF e.banned THEN <<P("VIOL", "C06", "protected-namesake-banned-after-edit", d)>> ELSE <<>>)
  ELSE IF s.kind = "kick" THEN
       (IF 23 \in s.a1 /\ anyClosed THEN <<P("VIOL", "C06", "protected-session-disconnected-after-edit", d)>> ELSE <<>>)
       \o (IF 23 \in s.a1 /\ e.banned THEN <<P("VIOL", "C06", "protected-session-banned-after-edit", d)>> ELSE <<>>)
       \o (IF 23 \notin s.a1 /\ e.reply # "ok" THEN <<P("VIOL", "C05", "permitted-request-not-executed", d)>> ELSE <<>>)
       \o (IF 23 \notin s.a1 /\ e.reply = "ok" /\ ~e.sclosed[s.k] THEN <<P("DRIFT", "C06", "unprotected session not disconnected within the bound", d)>> ELSE <<>>)
  ELSE
       (IF inMem /\ ~(memS \subseteq s.a1) THEN <<P("VIOL", "C06", "amplified-in-memory-after-edit", [d EXCEPT !.mem = memS \ s.a1])>> ELSE <<>>)
       \o (IF onDisk /\ ~(diskS \subseteq s.a1) THEN <<P("VIOL", "C06", "amplified-on-disk-after-edit", [d EXCEPT !.disk = diskS \ s.a1])>> ELSE <<>>)
       \o (IF ("newacct" \in DOMAIN maccts) /\ (~inMem \/ ~onDisk) THEN <<P("VIOL", "C05", "permitted-request-not-executed", d)>> ELSE <<>>)

(* a live session's account is changed by an administrator *)
UpdProblems(e, s) ==
  LET S == s.S
      SD == S \cap Defined
      told == e.n354 > 0 /\ Len(e.uwire) = 8
      uW == IF told THEN FromBytes(e.uwire) ELSE {-1}
      lW == IF Len(e.lwire) = 8 THEN FromBytes(e.lwire) ELSE {-1}
      dA == SeqToSet(e.dauth)
      dK == IF Len(e.disk) = 8 THEN FromBytes(e.disk) ELSE {-1}
      V(what, got, want) == IF got # want THEN <<P("VIOL", "C16", what, Diff(got, want))>> ELSE <<>>
      D(what, got, want) == IF got # want THEN <<P("DRIFT", "C16", what, Diff(got, want))>> ELSE <<>>
  IN
  IF e.reply # "ok" \/ ~e.live
    THEN <<P("DRIFT", "C16", "the account change did not run as intended", [reply |-> e.reply, live |-> e.live])>>
    ELSE
      (IF told THEN V("update-wire", uW \cap Defined, SD)           \* what the session is told = the new set
                    \o V("update-wire-vs-authorize", uW, dA)         \* ... = what is decided for it from now on
                    \o D("undefined bits in the update notice", uW \ Defined, S \ Defined)
               ELSE V("stale-wire-vs-authorize", lW, dA))            \* not told anything: still what it was told at login
      \o V("update-file", dK, SD)                                     \* the file says the new set
      \o V("login-wire", lW \cap Defined, s.old \cap Defined)
      \o (IF s.via = 353 /\ ~told THEN <<P("DRIFT", "C16", "no user-access notice after Set User", [n |-> e.n354])>> ELSE <<>>)
      \o (IF s.near = "none" THEN <<>> ELSE      \* the bystander account and its session are not the edited account
            LET bA == SeqToSet(e.bauth)
                bK == IF Len(e.bdisk) = 8 THEN FromBytes(e.bdisk) ELSE {-1}
            IN (IF e.bn354 > 0 THEN <<P("VIOL", "C16", "bystander-told-new-privileges", [missing |-> {}, extra |-> IF Len(e.bwire) = 8 THEN FromBytes(e.bwire) ELSE {-1}])>> ELSE <<>>)
               \o V("bystander-authorize", bA \cap Defined, s.B \cap Defined)
               \o V("bystander-file", bK, s.B \cap Defined)
               \o D("undefined bits in the bystander's authorization", bA \ Defined, s.B \ Defined))
      \o (IF ToBytes(S) # e.bytes THEN <<P("DRIFT", "C16", "script bytes are not ToBytes(S)", [b |-> e.bytes])>> ELSE <<>>)

(* ---- the trace machine ------------------------------------------------------- *)
Report(p, e) ==
  PrintT(p.kind \o " " \o ToJson([prop |-> p.prop, what |-> p.what, run |-> e.run, line |-> l, op |-> e.op,
                                  detail |-> p.detail, step |-> e]))

TInit == /\ l = 1 /\ ph = "reset" /\ Init

Reset == /\ ph = "reset"
         /\ accts' = Fresh /\ cap' = <<>> /\ live' = {"req", "other"} /\ banned' = {}
         /\ fx' = {} /\ rep' = "none" /\ nm' = "acct" /\ last' = [op |-> "init"]
         /\ ph' = "apply" /\ l' = l

ApplyEv ==
  LET e == Log[l]
      s == Fix(Log[l])
  IN
  /\ ph = "apply"
  /\ IF s.op = "unknown" \/ ~Guard(s)
       THEN /\ PrintT("DRIFT " \o ToJson([prop |-> "C05", what |-> "line is not a case of the model", run |-> e.run,
                                          line |-> l, op |-> e.op, detail |-> <<>>, step |-> e]))
            /\ UNCHANGED vars
       ELSE /\ Apply(s)
            /\ LET probs == CASE s.op = "handle" -> HandleProblems(e, s, rep', fx', nm')
                              [] s.op = "create" -> CreateProblems(e, s, rep', accts')
                              [] s.op = "kick"   -> KickProblems(e, s, live', banned')
                              [] s.op = "rt"     -> RtProblems(e, s)
                              [] s.op = "upd"    -> UpdProblems(e, s)
                              [] s.op = "multi"  -> MultiProblems(e, s, rep', accts')
                              [] s.op = "open"   -> OpenProblems(e, s)
                              [] s.op = "batch"  -> BatchProblems(e, s, accts')
               IN \A i \in DOMAIN probs : Report(probs[i], e)
  /\ ph' = "reset" /\ l' = l + 1
  /\ TLCSet(1, l')

TNext == /\ l <= Len(Log)
         /\ (Reset \/ ApplyEv)

Consumed == TLCGet(1) = Len(Log) + 1
=============================================================================
