------------------------------ MODULE Accounts ------------------------------
(***************************************************************************)
(* C15 - accounts: what can log in = what is listed = what is on disk.     *)
(*                                                                         *)
(* The specification holds ONE account map `mem` (login -> name, password, *)
(* privileges): the intended meaning of the account administration         *)
(* requests of the Hotline protocol as Mobius implements them              *)
(* (internal/mobius/transaction_handlers.go HandleNewUser 350,             *)
(* HandleSetUser 353, HandleUpdateUser 349, HandleDeleteUser 351,          *)
(* HandleGetUser 352, HandleListUsers 348; account_manager.go              *)
(* Create/Update/Delete/Get/List; hotline/server.go login).  The four      *)
(* views the property speaks about are DERIVED from that one map:          *)
(*   CanLogin(l, p)   who can authenticate with which password             *)
(*   Listed(mem)      the records an administrator is shown                *)
(*   FilesOf(mem)     the account directory (one file per account)         *)
(*   Load(FilesOf(m)) what a freshly started server holds                  *)
(* so that the trace specification can compare each of them with what the  *)
(* real server shows after every step.  Every action takes a step record   *)
(* `s` (exhaustive model: a small finite set; generation: the script;      *)
(* trace validation: the next log line).                                   *)
(*                                                                         *)
(* Byte strings (logins, names, passwords) are sequences of 0..255; a      *)
(* password argument is [has, v]: has = FALSE - the password field is      *)
(* absent; v = Marker - the password whose wire form is the single byte 0  *)
(* (the protocol's "unchanged" marker; the clear text <<255>>).            *)
(*                                                                         *)
(* Where the statement is silent the model follows the code (named):       *)
(*  - new-user / create with the marker as password: the password IS the   *)
(*    marker string;                                                       *)
(*  - update-user is executed sub-operation by sub-operation and stops at  *)
(*    the first one that fails, keeping the effects of the earlier ones;   *)
(*    a create sub-operation without a password field kills the            *)
(*    requester's connection (reply class "closed"); deleting a missing    *)
(*    account answers nothing (reply class "none");                        *)
(*  - a sub-operation naming an old login that does not exist is a create  *)
(*    of the new login; renaming onto an existing login replaces it.       *)
(* Privileges are modelled minimally: the requester is an administrator    *)
(* holding every privilege (authorisation is C05).                         *)
(***************************************************************************)
EXTENDS Integers, Sequences, FiniteSets, TLC

VARIABLES mem,   \* login -> [name, pw, acc]   (pw: the clear password that authenticates; acc: set of privilege numbers)
          out    \* what the last step must answer: [reply, got]

vars == <<mem, out>>

Marker == <<255>>
Ext == <<46, 121, 97, 109, 108>>     \* ".yaml"

(* an account lives in the file <login>.yaml; a file name has at most 255 bytes, so a login of more than 250 bytes
   cannot become an account: creating it is refused with an error and leaves no trace in any view, renaming to it
   fails (no reply - the code's answer to a failed update) and leaves the old account intact *)
TooLong(lg) == Len(lg) + Len(Ext) > 255

NoGot == [login |-> <<>>, name |-> <<>>, acc |-> {}]
Out(r) == [reply |-> r, got |-> NoGot]

Drop(m, l) == [x \in DOMAIN m \ {l} |-> m[x]]
Put(m, l, r) == [x \in DOMAIN m \cup {l} |-> IF x = l THEN r ELSE m[x]]

(* password of an account after an edit that carries password argument p *)
NewPw(old, p) == IF ~p.has THEN <<>> ELSE IF p.v = Marker THEN old ELSE p.v
(* password of an account created with password argument p *)
CreatePw(p) == IF p.has THEN p.v ELSE <<>>

(* Passwords are compared the way the salted hash (bcrypt) compares them: the key is the wire form (every byte
   complemented) followed by a 0 byte, repeated cyclically, and only its first 72 bytes count.  Two different
   passwords are therefore the same password exactly when
     - both are at least 72 bytes long and agree on their first 72 bytes (bcrypt's input limit), or
     - the longer one continues the shorter one's cycle: it has the byte 255 (wire 0) right after the shorter
       one's length and both cycle to the same 72-byte key; e.g. the empty password and the marker string <<255>>.
   (Named assumption: this is a property of the hash the statement prescribes, not of Mobius.) *)
KeyStream(p) == LET k == [i \in DOMAIN p |-> 255 - p[i]] \o <<0>> IN [i \in 1..72 |-> k[((i - 1) % Len(k)) + 1]]
Continues(p, q) == Len(p) < 72 /\ Len(q) > Len(p) /\ q[Len(p) + 1] = 255 /\ KeyStream(p) = KeyStream(q)
SamePw(p, q) == \/ p = q
                \/ (Len(p) >= 72 /\ Len(q) >= 72 /\ SubSeq(p, 1, 72) = SubSeq(q, 1, 72))
                \/ Continues(p, q) \/ Continues(q, p)

(* ---- the four views ------------------------------------------------------ *)
CanLoginIn(m, l, p) == l \in DOMAIN m /\ SamePw(m[l].pw, p)
CanLogin(l, p) == CanLoginIn(mem, l, p)

Listed(m) == {[login |-> l, name |-> m[l].name, acc |-> m[l].acc, haspw |-> ~SamePw(m[l].pw, <<>>)] : l \in DOMAIN m}

(* the password field of a file is a salted hash: an opaque token that verifies exactly one password *)
Hash(p) == [verifies |-> p]
FilesOf(m) == {[file |-> l \o Ext, login |-> l, name |-> m[l].name, acc |-> m[l].acc, hash |-> Hash(m[l].pw)] : l \in DOMAIN m}
Load(F) == [l \in {f.login : f \in F} |->
              LET f == CHOOSE g \in F : g.login = l
              IN [name |-> f.name, pw |-> f.hash.verifies, acc |-> f.acc]]

(* ---- actions --------------------------------------------------------------- *)
InitWith(m) == mem = m /\ out = Out("ok")

NewUser(s) ==
  IF s.login \in DOMAIN mem \/ TooLong(s.login)
    THEN out' = Out("err") /\ UNCHANGED mem
    ELSE /\ mem' = Put(mem, s.login, [name |-> s.name, pw |-> CreatePw(s.pw), acc |-> s.acc])
         /\ out' = Out("ok")

SetUser(s) ==
  IF s.login \notin DOMAIN mem
    THEN out' = Out("err") /\ UNCHANGED mem
    ELSE /\ mem' = Put(mem, s.login, [name |-> s.name, pw |-> NewPw(mem[s.login].pw, s.pw), acc |-> s.acc])
         /\ out' = Out("ok")

DeleteUser(s) ==
  IF s.login \notin DOMAIN mem
    THEN out' = Out("none") /\ UNCHANGED mem
    ELSE mem' = Drop(mem, s.login) /\ out' = Out("ok")

(* one sub-operation of update-user on map m: [m, stop]; stop = "" - carried out, the batch continues *)
SubEff(m, u) ==
  IF u.k = "del"
    THEN IF u.login \in DOMAIN m THEN [m |-> Drop(m, u.login), stop |-> ""] ELSE [m |-> m, stop |-> "none"]
    ELSE LET target == IF u.k = "ren" /\ u.old # <<>> THEN u.old ELSE u.login IN
         IF target \in DOMAIN m /\ TooLong(u.login)
           THEN [m |-> m, stop |-> "none"]
         ELSE IF target \in DOMAIN m
           THEN [m |-> Put(Drop(m, target), u.login,
                           [name |-> u.name, pw |-> NewPw(m[target].pw, u.pw), acc |-> u.acc]),
                 stop |-> ""]
           ELSE IF ~u.pw.has THEN [m |-> m, stop |-> "closed"]
           ELSE IF u.login \in DOMAIN m \/ TooLong(u.login) THEN [m |-> m, stop |-> "err"]
           ELSE [m |-> Put(m, u.login, [name |-> u.name, pw |-> u.pw.v, acc |-> u.acc]), stop |-> ""]

RECURSIVE RunSubs(_, _)
RunSubs(m, subs) ==
  IF subs = <<>> THEN [m |-> m, stop |-> ""]
  ELSE LET r == SubEff(m, Head(subs))
       IN IF r.stop # "" THEN r ELSE RunSubs(r.m, Tail(subs))

UpdateUser(s) ==
  LET r == RunSubs(mem, s.subs) IN
  /\ mem' = r.m
  /\ out' = Out(IF r.stop = "" THEN "ok" ELSE r.stop)

GetUser(s) ==
  /\ out' = IF s.login \in DOMAIN mem
              THEN [reply |-> "ok", got |-> [login |-> s.login, name |-> mem[s.login].name, acc |-> mem[s.login].acc]]
              ELSE Out("err")
  /\ UNCHANGED mem

ListUsers(s) == out' = Out("ok") /\ UNCHANGED mem

LoginAttempt(s) ==
  /\ out' = Out(IF CanLogin(s.login, s.pw) THEN "ok" ELSE "err")
  /\ UNCHANGED mem

(* a fresh manager is loaded from the directory *)
Restart(s) == mem' = Load(FilesOf(mem)) /\ out' = Out("ok")

(* ---- binding to step records ------------------------------------------------ *)
IsBytes(b) == b \in Seq(0..255)
IsPwArg(p) == DOMAIN p = {"has", "v"} /\ p.has \in BOOLEAN /\ IsBytes(p.v)
IsAcct(s) == {"login", "name", "pw", "acc"} \subseteq DOMAIN s /\ IsBytes(s.login) /\ s.login # <<>> /\ IsBytes(s.name)
             /\ IsPwArg(s.pw) /\ s.acc \subseteq 0..63
IsSub(u) == /\ {"k", "old", "login"} \subseteq DOMAIN u
            /\ CASE u.k = "del" -> IsBytes(u.login) /\ u.login # <<>>
                 [] u.k = "put" -> IsAcct(u)
                 [] u.k = "ren" -> IsAcct(u) /\ IsBytes(u.old) /\ u.old # <<>>
                 [] OTHER -> FALSE

Guard(s) ==
  CASE s.op \in {"newuser", "setuser"} -> IsAcct(s)
    [] s.op \in {"deluser", "getuser"} -> "login" \in DOMAIN s /\ IsBytes(s.login) /\ s.login # <<>>
    [] s.op = "update" -> "subs" \in DOMAIN s /\ \A i \in DOMAIN s.subs : IsSub(s.subs[i])
    [] s.op = "login" -> {"login", "pw"} \subseteq DOMAIN s /\ IsBytes(s.login) /\ s.login # <<>> /\ IsBytes(s.pw)
    [] s.op \in {"list", "restart"} -> TRUE
    [] OTHER -> FALSE

Apply(s) ==
  CASE s.op = "newuser" -> NewUser(s)
    [] s.op = "setuser" -> SetUser(s)
    [] s.op = "deluser" -> DeleteUser(s)
    [] s.op = "update"  -> UpdateUser(s)
    [] s.op = "getuser" -> GetUser(s)
    [] s.op = "list"    -> ListUsers(s)
    [] s.op = "login"   -> LoginAttempt(s)
    [] s.op = "restart" -> Restart(s)

(* ---- concurrent rounds ------------------------------------------------------- *)
(* Several administrators send one request each at the same moment; the round ends when every request has been
   answered (quiescence).  A request is [kind, login, name, pw, acc], kind: newuser | setuser | deluser | put | del
   (put / del: an update-user with that single sub-operation); passwords are explicit or absent, never the marker,
   so every writing request writes a record that is a function of the request alone.  The handlers are not atomic
   (look-up, then write), so the outcome need not be that of any sequential order; RoundFacts(pre, reqs, post) is
   what holds after the round under EVERY interleaving (the four views must, as always, all show `post`):
     untouched  - a login no request names is as before;
     appeared   - a login that exists afterwards existed before or was named by a creating request;
     unwritten  - an account that exists afterwards is as before or carries the record one request of the round wrote;
     undeleted  - a login named only by delete requests is gone.
   The value is the set of the facts that FAIL. *)
IsReq(q) == /\ {"kind", "login", "name", "pw", "acc"} \subseteq DOMAIN q
            /\ q.kind \in {"newuser", "setuser", "deluser", "put", "del"}
            /\ IsBytes(q.login) /\ q.login # <<>> /\ IsBytes(q.name) /\ IsPwArg(q.pw) /\ q.pw.v # Marker /\ q.acc \subseteq 0..63
            /\ (q.kind = "put" => q.pw.has)
ValOf(q) == [name |-> q.name, pw |-> CreatePw(q.pw), acc |-> q.acc]
SameRec(a, b) == a.name = b.name /\ a.acc = b.acc /\ SamePw(a.pw, b.pw)
RoundFacts(pre, reqs, post) ==
  LET ReqsOn(lg) == {reqs[i] : i \in {j \in DOMAIN reqs : reqs[j].login = lg}}
      All == DOMAIN pre \cup DOMAIN post \cup {reqs[i].login : i \in DOMAIN reqs}
      Kept(lg) == lg \in DOMAIN pre /\ lg \in DOMAIN post /\ SameRec(pre[lg], post[lg])
  IN (IF \E lg \in All : ReqsOn(lg) = {} /\ ~(Kept(lg) \/ (lg \notin DOMAIN pre /\ lg \notin DOMAIN post))
        THEN {"untouched"} ELSE {})
     \cup (IF \E lg \in DOMAIN post \ DOMAIN pre : ~\E q \in ReqsOn(lg) : q.kind \in {"newuser", "put"} /\ ~TooLong(lg)
        THEN {"appeared"} ELSE {})
     \cup (IF \E lg \in DOMAIN post : ~Kept(lg) /\ ~\E q \in ReqsOn(lg) : q.kind \in {"newuser", "setuser", "put"} /\ SameRec(ValOf(q), post[lg])
        THEN {"unwritten"} ELSE {})
     \cup (IF \E lg \in DOMAIN post : ReqsOn(lg) # {} /\ \A q \in ReqsOn(lg) : q.kind \in {"deluser", "del"}
        THEN {"undeleted"} ELSE {})

(* ---- properties (state level; the step-level ones are in MC_Accounts) -------- *)
TypeOK == \A l \in DOMAIN mem : IsBytes(l) /\ l # <<>> /\ IsBytes(mem[l].name) /\ IsBytes(mem[l].pw) /\ mem[l].acc \subseteq 0..63

(* the set that can log in = the set listed = the set of files, with the same name, privileges and password *)
ViewsAgree ==
  /\ {r.login : r \in Listed(mem)} = DOMAIN mem
  /\ {f.login : f \in FilesOf(mem)} = DOMAIN mem
  /\ Cardinality(FilesOf(mem)) = Cardinality(DOMAIN mem)
  /\ \A f \in FilesOf(mem) : /\ f.file = f.login \o Ext
                             /\ CanLogin(f.login, f.hash.verifies)
                             /\ [login |-> f.login, name |-> f.name, acc |-> f.acc, haspw |-> ~SamePw(f.hash.verifies, <<>>)] \in Listed(mem)

(* files hold hashes that verify the account's password, never the password *)
HashOnly == \A f \in FilesOf(mem) : DOMAIN f.hash = {"verifies"} /\ f.hash.verifies = mem[f.login].pw

RestartIsIdentity == Load(FilesOf(mem)) = mem

(* no account whose file name would not be a file name *)
NoOverlongAccount == \A lg \in DOMAIN mem : ~TooLong(lg)
=============================================================================
