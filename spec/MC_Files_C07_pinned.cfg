CONSTANTS
  Deviations = {"F4", "F10", "F11", "F12", "F24"}
  Level = "core"
  MaxSteps = 0
  GenDepth = 0
  Thin = TRUE
INIT Init07
NEXT Next07
INVARIANTS Contained07
CHECK_DEADLOCK FALSE
