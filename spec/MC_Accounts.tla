---------------------------- MODULE MC_Accounts ----------------------------
(* Bounded instance of Accounts for exhaustive checking (MC_Accounts*.cfg) and for generating action scripts
   (Gen_Accounts*.cfg, simulation): NL logins a, b, c..., NN names, the four password arguments {absent, marker,
   p, q}, two privilege sets; update-user batches of up to MaxSubs sub-operations mixing create/modify (put),
   rename (ren) and delete (del).  The administrator's own account is part of the map but never an argument. *)
EXTENDS Accounts, Json

CONSTANTS NL, NN,      \* number of logins / names
          MaxSubs,     \* longest update-user batch
          MaxSteps, GenDepth,
          Ops,         \* step kinds enabled (a kind may be listed as "update1", "update2", "update3": batch length)
          SubKinds,    \* sub-operation kinds enabled in batches
          Thin,        \* TRUE: in batches longer than one, name and privileges are a function of position
          XPw,         \* TRUE: two more passwords: one that STARTS with the marker byte but is longer, one that contains it
          Long,        \* TRUE: one more login, of 251 bytes (its account file name would exceed 255 bytes)
          Rand         \* TRUE (simulation only): one random step kind and one random step of that kind per state

VARIABLES hist    \* the steps taken so far (the script)

mcvars == <<vars, hist>>

LongLogin == [i \in 1..251 |-> 120]
Logins == {<<96 + i>> : i \in 1..NL} \cup (IF Long THEN {LongLogin} ELSE {})
Names == {<<78, 48 + i>> : i \in 1..NN}
P == <<112>>  Q == <<113>>
Absent == [has |-> FALSE, v |-> <<>>]
MP == <<255, 113>>        \* wire form 0, 142: begins like the marker; only the exact one-byte marker means "unchanged"
PM == <<112, 255, 113>>   \* wire form 143, 0, 142: contains the marker byte
ExtraPws == IF XPw THEN {MP, PM} ELSE {}
PwArgs == {Absent, [has |-> TRUE, v |-> Marker], [has |-> TRUE, v |-> P], [has |-> TRUE, v |-> Q]}
          \cup {[has |-> TRUE, v |-> x] : x \in ExtraPws}
ClearPws == {<<>>, P, Q, Marker} \cup ExtraPws
Accs == {{}, {2, 9}}

AdminLogin == <<97, 100, 109, 105, 110>>
AllDefined == (0..40) \ {19}
AdminMap == [l \in {AdminLogin} |-> [name |-> <<97, 100, 109>>, pw |-> AdminLogin, acc |-> AllDefined]]

Init == InitWith(AdminMap) /\ hist = <<>>

AcctArgs == [login : Logins, name : Names, pw : PwArgs, acc : Accs]

N1 == <<78, 49>>
PutSub(x) == [k |-> "put", old |-> <<>>, login |-> x.login, name |-> x.name, pw |-> x.pw, acc |-> x.acc]
RenSub(o, x) == [k |-> "ren", old |-> o, login |-> x.login, name |-> x.name, pw |-> x.pw, acc |-> x.acc]
DelSub(l) == [k |-> "del", old |-> <<>>, login |-> l, name |-> <<>>, pw |-> Absent, acc |-> {}]

SubArgs(thin) == IF thin THEN [login : Logins, name : {N1}, pw : PwArgs, acc : {{2, 9}}] ELSE AcctArgs
SubOps(thin) ==
  (IF "put" \in SubKinds THEN {PutSub(x) : x \in SubArgs(thin)} ELSE {})
  \cup (IF "ren" \in SubKinds THEN {RenSub(o, x) : o \in Logins, x \in SubArgs(thin)} ELSE {})
  \cup (IF "del" \in SubKinds THEN {DelSub(l) : l \in Logins} ELSE {})

Batches(n) == IF n = 1 THEN {<<u>> : u \in SubOps(FALSE)}
              ELSE IF n = 2 THEN {<<u, v>> : u \in SubOps(Thin), v \in SubOps(Thin)}
              ELSE {<<u, v, w>> : u \in SubOps(Thin), v \in SubOps(Thin), w \in SubOps(Thin)}

StepsOfKind(k) ==
  CASE k = "newuser" -> {[op |-> "newuser", login |-> x.login, name |-> x.name, pw |-> x.pw, acc |-> x.acc] : x \in AcctArgs}
    [] k = "setuser" -> {[op |-> "setuser", login |-> x.login, name |-> x.name, pw |-> x.pw, acc |-> x.acc] : x \in AcctArgs}
    [] k = "deluser" -> {[op |-> "deluser", login |-> l] : l \in Logins}
    [] k = "getuser" -> {[op |-> "getuser", login |-> l] : l \in Logins}
    [] k = "list"    -> {[op |-> "list"]}
    [] k = "restart" -> {[op |-> "restart"]}
    [] k = "login"   -> {[op |-> "login", login |-> l, pw |-> p] : l \in Logins, p \in ClearPws}
    [] k = "update1" -> {[op |-> "update", subs |-> b] : b \in Batches(1)}
    [] k = "update2" -> IF MaxSubs >= 2 THEN {[op |-> "update", subs |-> b] : b \in Batches(2)} ELSE {}
    [] k = "update3" -> IF MaxSubs >= 3 THEN {[op |-> "update", subs |-> b] : b \in Batches(3)} ELSE {}

AllSteps(h) == UNION {StepsOfKind(k) : k \in Ops}   \* (parameter: keeps TLC from enumerating this as a constant at start-up)

Step(s) == Apply(s) /\ hist' = Append(hist, s)

(* random walk for script generation: the kind first (so that the big batch families do not drown the rest), then
   the arguments, biased (3 in 4) towards logins for which the step does something: an existing account for
   set/delete/get/login/rename-from, a missing one for new-user; a login attempt uses the account's real password
   half of the time.  Any draw is a legal script - the bias only makes the walks more eventful. *)
Existing == DOMAIN mem \ {AdminLogin}
Bias(pref) == IF pref # {} /\ RandomElement(1..4) > 1 THEN RandomElement(pref) ELSE RandomElement(Logins)
RandAcct(lg) == [login |-> lg, name |-> RandomElement(Names), pw |-> RandomElement(PwArgs), acc |-> RandomElement(Accs)]
RandSub(i) ==      \* (the parameter keeps the draws of different positions apart)
  LET k == RandomElement(SubKinds) IN
  CASE k = "put" -> PutSub(RandAcct(RandomElement(Logins)))
    [] k = "ren" -> RenSub(Bias(Existing), RandAcct(RandomElement(Logins)))
    [] k = "del" -> DelSub(Bias(Existing))
RandBatch(n) == [i \in 1..n |-> RandSub(i)]
RandLogin(lg) == [op |-> "login", login |-> lg,
                  pw |-> IF lg \in DOMAIN mem /\ RandomElement(1..2) = 1 THEN mem[lg].pw ELSE RandomElement(ClearPws)]
WithOp(o, x) == [op |-> o, login |-> x.login, name |-> x.name, pw |-> x.pw, acc |-> x.acc]
RandStep(h) ==     \* (the parameter keeps TLC from evaluating this once as a constant)
  LET k == RandomElement(Ops) IN
  CASE k = "update1" -> [op |-> "update", subs |-> RandBatch(1)]
    [] k = "update2" -> [op |-> "update", subs |-> RandBatch(2)]
    [] k = "update3" -> [op |-> "update", subs |-> RandBatch(3)]
    [] k = "newuser" -> WithOp("newuser", RandAcct(Bias(Logins \ DOMAIN mem)))
    [] k = "setuser" -> WithOp("setuser", RandAcct(Bias(Existing)))
    [] k \in {"deluser", "getuser"} -> [op |-> k, login |-> Bias(Existing)]
    [] k = "login" -> RandLogin(Bias(Existing))
    [] OTHER -> RandomElement(StepsOfKind(k))

Next == IF Rand THEN \E s \in {RandStep(hist)} : Step(s) ELSE \E s \in AllSteps(hist) : Step(s)

Spec == Init /\ [][Next]_mcvars

Bound == Len(hist) < MaxSteps
View == mem        \* hides the history (and the last answer, which is a function of the previous state and the step)

LastStep == hist'[Len(hist')]

(* ---- what the statement says about single steps --------------------------------------------------------------- *)
Others(l) == \A x \in (DOMAIN mem \cup DOMAIN mem') \ {l} : x \in DOMAIN mem /\ x \in DOMAIN mem' /\ mem'[x] = mem[x]
NoPw(m, l) == \A p \in ClearPws \cup {AdminLogin} : ~CanLoginIn(m, l, p)

(* a new login can log in (with the password it was created with), nobody else changes *)
NewCanLogin ==
  [][LET s == LastStep IN
     (s.op = "newuser" /\ s.login \notin DOMAIN mem /\ ~TooLong(s.login))
        => /\ CanLoginIn(mem', s.login, CreatePw(s.pw)) /\ mem'[s.login].name = s.name /\ mem'[s.login].acc = s.acc
           /\ Others(s.login)]_mcvars

(* a login whose account file name would exceed the file-name limit cannot be created (answer: error) or renamed
   to; the attempt leaves no trace / leaves the old account as it was *)
OverlongLeavesNoTrace ==
  [][LET s == LastStep IN
     /\ (s.op = "newuser" /\ TooLong(s.login)) => (mem' = mem /\ out'.reply = "err")
     /\ (s.op = "update" /\ Len(s.subs) = 1 /\ s.subs[1].k # "del" /\ TooLong(s.subs[1].login))
           => (mem' = mem /\ out'.reply # "ok")]_mcvars

(* a deleted login can no longer log in *)
DeletedCannotLogin ==
  [][LET s == LastStep IN
     /\ (s.op = "deluser" => NoPw(mem', s.login) /\ Others(s.login))
     /\ (s.op = "update" /\ Len(s.subs) = 1 /\ s.subs[1].k = "del" => NoPw(mem', s.subs[1].login) /\ Others(s.subs[1].login))]_mcvars

(* a password change takes effect, the marker leaves it alone, an absent password clears it - set-user and the
   modify sub-operation alike *)
PwAfter(old, p) == CASE ~p.has -> <<>> [] p.has /\ p.v = Marker -> old [] OTHER -> p.v
PasswordSemantics ==
  [][LET s == LastStep IN
     /\ (s.op = "setuser" /\ s.login \in DOMAIN mem)
          => /\ \A p \in ClearPws \cup {AdminLogin} : CanLoginIn(mem', s.login, p) <=> SamePw(p, PwAfter(mem[s.login].pw, s.pw))
             /\ Others(s.login)
     /\ (s.op = "update" /\ Len(s.subs) = 1 /\ s.subs[1].k = "put" /\ s.subs[1].login \in DOMAIN mem)
          => /\ \A p \in ClearPws \cup {AdminLogin} :
                    CanLoginIn(mem', s.subs[1].login, p) <=> SamePw(p, PwAfter(mem[s.subs[1].login].pw, s.subs[1].pw))
             /\ Others(s.subs[1].login)
     /\ (s.op = "login") => (mem' = mem /\ (out'.reply = "ok" <=> CanLogin(s.login, s.pw)))]_mcvars

(* rename inside a batch: when sub-operation i is carried out as a rename old -> new and no later sub-operation of
   the batch mentions either login, then afterwards old cannot log in with any password and new can, with the
   password the edit semantics give; this holds wherever in the batch the rename stands *)
Mentions(u, l) == u.login = l \/ (u.k = "ren" /\ u.old = l)
RenamedAwayCannotLogin ==
  [][LET s == LastStep IN
     s.op = "update" =>
       \A i \in DOMAIN s.subs :
          LET u == s.subs[i]
              before == RunSubs(mem, SubSeq(s.subs, 1, i - 1))
              whole == RunSubs(mem, s.subs)
          IN (/\ u.k = "ren" /\ before.stop = "" /\ whole.stop = ""
              /\ u.old \in DOMAIN before.m /\ u.old # u.login
              /\ \A j \in (i + 1)..Len(s.subs) : ~Mentions(s.subs[j], u.old) /\ ~Mentions(s.subs[j], u.login))
             => /\ NoPw(mem', u.old)
                /\ CanLoginIn(mem', u.login, PwAfter(before.m[u.old].pw, u.pw))
                /\ mem'[u.login].name = u.name /\ mem'[u.login].acc = u.acc]_mcvars

(* a failed request changes nothing beyond the sub-operations carried out before the failure; read-only requests
   change nothing *)
ReadOnlySteps == [][LastStep.op \in {"getuser", "list", "login", "restart"} => mem' = mem]_mcvars

(* every sequential step that is a request of the concurrent-round kind satisfies the round facts (a round of one) *)
ReqOf(s) == [kind |-> s.op, login |-> s.login, name |-> IF "name" \in DOMAIN s THEN s.name ELSE <<>>,
             pw |-> IF "pw" \in DOMAIN s THEN s.pw ELSE Absent, acc |-> IF "acc" \in DOMAIN s THEN s.acc ELSE {}]
RoundOfOne ==
  [][LET s == LastStep IN
     (s.op \in {"newuser", "setuser", "deluser"} /\ IsReq(ReqOf(s))) => RoundFacts(mem, <<ReqOf(s)>>, mem') = {}]_mcvars

(* non-vacuity witnesses: these must be VIOLATED when checked as invariants (see the python module) *)
NeverThreeAccounts == Cardinality(DOMAIN mem) < NL + 1
NeverRenamed == ~(Len(hist) > 0 /\ hist[Len(hist)].op = "update" /\ \E i \in DOMAIN hist[Len(hist)].subs :
                    hist[Len(hist)].subs[i].k = "ren" /\ hist[Len(hist)].subs[i].login \in DOMAIN mem /\ out.reply = "ok")

(* script emission: simulation prints the walk when it reaches GenDepth *)
Emit == (Len(hist') = GenDepth) => PrintT("B " \o ToJson([steps |-> hist']))
=============================================================================
