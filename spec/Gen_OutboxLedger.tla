-------------------------- MODULE Gen_OutboxLedger --------------------------
(* Emits MC_Outbox!LedgerCases once (ASSUME), as "B {...}" lines: the request sweep of vh-outbox. *)
EXTENDS MC_Outbox
EmitLedger == \A c \in LedgerCases : PrintT("B " \o ToJson(c))
ASSUME EmitLedger
GInit == InitWith(<<1>>) /\ hist = <<>>
GNext == UNCHANGED <<ovars, hist>>
=============================================================================
