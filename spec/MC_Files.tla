----------------------------- MODULE MC_Files -----------------------------
(* Bounded instances of Files.

   C07 (INIT Init07 / NEXT Next07): one step = ONE request built from the adversarial component alphabet Sigma in
   every position of every path-carrying request (plus length-prefix mismatches), applied to a fixed sandbox
   (root tree, accounts directory, canary siblings).  Invariant Contained07: whatever the components, every path
   the handler uses lies inside the root / the accounts directory and everything outside is unchanged.  With
   Deviations = {F10, F11, F12, F24} (what the pinned tree does) TLC finds the escapes (MC_Files_C07_pinned.cfg
   must FAIL: the invariant is not vacuous).  Every request is emitted as a script line ("B {...}").

   C11 (INIT Init11 / NEXT Next11): sequences of file-management requests over small trees, the requests
   address entries by the names the model's Listing shows.  Invariants ListedIsAddressable, ViewsAgreeOnSizeType;
   action properties ForksTravel, NewFolderNeverReplaces, OpsChangeExactly.  With Deviations = {F23} TLC finds the
   listed name that addresses nothing (MC_Files_C11_pinned.cfg must FAIL).  Simulation emits the walks as scripts. *)
EXTENDS Files, Json

CONSTANTS Level,      \* C07: "core" | "full" - how much of the product of positions is enumerated
          MaxSteps,   \* C11: bound of the exhaustive search
          GenDepth,   \* C11: length of emitted scripts
          Thin        \* C11: fewer argument variants per step

VARIABLES req,    \* C07: the request of this state (NoReq initially)
          res,    \* C07: its result record
          hist,   \* C11: steps so far
          w0      \* C11: the initial world (for the script)

mcvars == <<fvars, req, res, hist, w0>>

A == <<97>>  X == <<120>>  Btxt == <<98,46,116,120,116>>  Up == <<117,112>>  New == <<110,101,119>>
SymLong == [i \in 1..255 |-> 120]
RootN == <<114,111,111,116>>
(* the alphabet of DESIGN C07 ... *)
Sigma0 == {A, DotDot, OneDot, <<>>, <<47>>, <<46,46,47,120>>, <<47,97,98,115>>, <<97,47,46,46,47,46,46>>,
           <<120,0,121>>, SymLong, <<138,138>>}
(* ... components that become dangerous only after a transformation a maintainer might add (NUL stripping, backslash
   as separator, trailing blank / dot trimming) ... *)
SigmaT == {<<46,0,46>>, <<46,46,0>>, <<0,46,46>>, <<46,46,92,120>>, <<46,46,32>>, <<46,46,46>>}
(* ... and components aiming at SIBLINGS that share a name prefix with the root ("root-evil", "root.bak") *)
RootBak == RootN \o <<46,98,97,107>>
Up3 == <<46,46,47,46,46,47,46,46,47>>      \* "../../../": deeper than a prefix glued to the first ".." can absorb
SigmaS == {<<46,46,47>> \o RootN \o <<45,101,118,105,108,47,120>>, <<46,46,47>> \o RootBak \o <<47,110>>, Up3 \o <<110>>}
Sigma == Sigma0 \cup SigmaT \cup SigmaS

(* ---- C07 sandbox --------------------------------------------------------------------------------------------- *)
L1 == <<108,49>>  L2 == <<108,50>>  L3 == <<108,51>>  WW == <<87>>
Config == <<99,111,110,102,105,103>>  Users == <<85,115,101,114,115>>
UsersBak == Users \o <<46,98,97,107>>   UsersX == Users \o <<45,120>>
SbxP == <<L1, L2, L3, WW>>
Root07 == SbxP \o <<RootN>>
Users07 == SbxP \o <<Config, Users>>
Ae == <<195,164>>   \* "a-umlaut" on disk

(* the root tree: [p (below the root), n (node)] *)
RootTree07 == {
  [p |-> <<A>>, n |-> DirN], [p |-> <<A, A>>, n |-> DirN], [p |-> <<A, X>>, n |-> FileN(11)], [p |-> <<A, A, X>>, n |-> FileN(12)],
  [p |-> <<X>>, n |-> FileN(13)], [p |-> <<<<97,98,115>>>>, n |-> FileN(14)],
  [p |-> <<Btxt>>, n |-> FileN(5)], [p |-> <<InfoPfx \o Btxt>>, n |-> InfoN(82, 3, TEXT)], [p |-> <<RsrcPfx \o Btxt>>, n |-> FileN(7)],
  [p |-> <<<<112>> \o Incomplete>>, n |-> FileN(9)], [p |-> <<Ae>>, n |-> FileN(8)],
  (* the folder a carries a comment and a resource fork too, the file b.txt partial data as well *)
  [p |-> <<InfoPfx \o A>>, n |-> InfoN(78, 3, Fldr)], [p |-> <<RsrcPfx \o A>>, n |-> FileN(15)], [p |-> <<Btxt \o Incomplete>>, n |-> FileN(16)] }
Canaries07 == {SbxP \o <<<<111,117,116>>>>, SbxP \o <<<<111,117,116>>, <<115>>>>, SbxP \o <<RootN \o <<45,101>>>>,
               SbxP \o <<InfoPfx \o RootN>>, SbxP \o <<RsrcPfx \o RootN>>, SbxP \o <<RootN \o Incomplete>>,
               SbxP \o <<Config, <<115,46,121>>>>, <<L1, L2, L3, <<117,112>>>>,
               SbxP \o <<RootBak>>, SbxP \o <<RootBak, <<107>>>>, SbxP \o <<RootN \o <<45,101,118,105,108>>>>, SbxP \o <<RootN \o <<45,101,118,105,108>>, X>>,
               SbxP \o <<Config, UsersX>>, SbxP \o <<Config, UsersX, <<107>>>>, SbxP \o <<Config, UsersBak>>,
               SbxP \o <<Config, UsersBak, <<97,100,109,105,110>> \o Yaml>>}
Tree07 ==
  LET dirs == {<<L1>>, <<L1, L2>>, <<L1, L2, L3>>, SbxP, Root07, SbxP \o <<Config>>, Users07, SbxP \o <<<<111,117,116>>>>,
               SbxP \o <<RootBak>>, SbxP \o <<RootN \o <<45,101,118,105,108>>>>, SbxP \o <<Config, UsersX>>, SbxP \o <<Config, UsersBak>>}
      files == (Canaries07 \ dirs) \cup {Users07 \o <<<<103,117,101,115,116>> \o Yaml>>, Users07 \o <<<<97,100,109,105,110>> \o Yaml>>}
      inroot == {Root07 \o e.p : e \in RootTree07}
  IN [q \in dirs \cup files \cup inroot |->
        IF q \in dirs THEN DirN
        ELSE IF q \in inroot THEN (CHOOSE e \in RootTree07 : Root07 \o e.p = q).n
        ELSE IF q = SbxP \o <<InfoPfx \o RootN>> THEN InfoN(-1, 5, TEXT) ELSE FileN(-1)]
Mem07 == {<<103,117,101,115,116>>, <<97,100,109,105,110>>}

(* ---- C07 requests ---------------------------------------------------------------------------------------------- *)
NoReq == [kind |-> "none", ur |-> 0, occ |-> 0, sp |-> 0]
P0 == {<<>>, <<A>>}
P1 == {<<s>> : s \in Sigma} \cup {<<A, s>> : s \in Sigma} \cup {<<s, A>> : s \in Sigma} \cup {<<A, A, s>> : s \in Sigma}
P2 == {<<s, u>> : s \in Sigma0, u \in Sigma0}
(* paths of up to three items over a small alphabet that mixes a real sub-folder name with "..", "../.." and "." in
   every position (items that cancel each other followed by a climbing last item, ...) *)
Mix == {A, DotDot, <<46,46,47,46,46>>, OneDot}
PMix == {<<s>> : s \in Mix} \cup {<<s, u>> : s \in Mix, u \in Mix} \cup {<<s, u, v>> : s \in Mix, u \in Mix, v \in Mix}
PMix2 == {<<s, u>> : s \in Mix, u \in Mix}
PathsCore == P0 \cup P1
PathsFull == PathsCore \cup P2 \cup {<<DotDot, s, A>> : s \in Sigma} \cup {<<s, DotDot, DotDot>> : s \in Sigma}
PathsMv == IF Level = "core" THEN PathsCore \cup PMix2 ELSE PathsFull \cup PMix        \* destination paths of move / alias
Paths == (IF Level = "core" THEN PathsCore ELSE PathsFull) \cup PMix
(* length-prefix mismatches of the encodings of <<A>> and <<A, X>> *)
Mismatch == { <<0,2,0,0,1,97>>, <<0,3,0,0,1,97,0,0,1,120>>, <<0,1,0,0,1,97,0,0,1,120>>, <<0,1,0,0,2,97>>, <<0,2,0,0,1,97,0,0,2,120>>,
              <<0,2,0,0,1,97,0,0,0,120>>, <<0>>, <<0,1,0,0>>, <<0,1,0,0,9,46,46,47,120>> }
RawPaths(S) == {IF p = <<>> THEN Absent ELSE EncPath(p) : p \in S} \cup Mismatch
NamesCtx == {X, A, Btxt}
Names == Sigma \cup NamesCtx \cup {Absent}

Rq(kind, occ, path, name, newname, newpath, comment) ==
  [kind |-> kind, occ |-> occ, ur |-> 0, sp |-> 0, path |-> path, name |-> name, newname |-> newname, newpath |-> newpath, comment |-> comment]

K2Read == {"info", "download", "dlfolder"}
K2Write == {"newfolder", "delete", "upload"}
PN == IF Level = "core"
        THEN {<<p, X>> : p \in RawPaths(Paths)} \cup {<<IF p = <<>> THEN Absent ELSE EncPath(p), n>> : p \in P0, n \in Names}
        ELSE {<<p, n>> : p \in RawPaths(Paths), n \in Sigma0 \cup NamesCtx \cup {Absent}}
             \cup {<<p, n>> : p \in RawPaths(PathsCore), n \in SigmaT \cup SigmaS}
ReqsK2 == {Rq(k, 1, pn[1], pn[2], Absent, Absent, Absent) : k \in K2Read, pn \in PN}
          \cup {Rq(k, o, pn[1], pn[2], Absent, Absent, Absent) : k \in K2Write, o \in {0, 1}, pn \in PN}
          \cup {Rq("setcomment", o, pn[1], pn[2], Absent, Absent, <<104,105>>) : o \in {0, 1}, pn \in PN}
ReqsList == {Rq("list", 1, p, Absent, Absent, Absent, Absent) : p \in RawPaths(Paths)}
RenPaths == IF Level = "core" THEN P0 ELSE P0 \cup {<<s>> : s \in Sigma}
ReqsRename == {Rq("rename", o, IF p = <<>> THEN Absent ELSE EncPath(p), n, nn, Absent, Absent)
                 : o \in {0, 1}, p \in RenPaths, n \in NamesCtx, nn \in Sigma \cup {New}}
              \cup {Rq("rename", 0, EncPath(p), X, New, Absent, Absent) : p \in P1}
MvNames == IF Level = "core" THEN {X, A} ELSE {X, A, Btxt, DotDot, <<>>}
ReqsMove == {Rq(k, o, IF p = <<>> THEN Absent ELSE EncPath(p), n, Absent, np, Absent)
               : k \in {"move", "alias"}, o \in {0, 1}, p \in P0, n \in MvNames, np \in RawPaths(PathsMv)}
            \cup {Rq(k, 0, Absent, n, Absent, EncPath(<<A>>), Absent) : k \in {"move", "alias"}, n \in Sigma}
(* folder upload: one item header with up to three segments *)
SegSeqs == IF Level = "core" THEN (PathsCore \ {<<>>}) \cup {<<DotDot, s>> : s \in Sigma} \cup {<<DotDot, DotDot, s>> : s \in Sigma}
           ELSE (PathsCore \ {<<>>}) \cup P2 \cup {<<s, u, v>> : s \in Sigma0, u \in Sigma0, v \in Sigma0}
SegRaw(sg) == SubSeq(EncPath(sg), 3, Len(EncPath(sg)))
UpBases == {<<Absent, A>>, <<Absent, DotDot>>} \cup (IF Level = "core" THEN {} ELSE {<<EncPath(<<A>>), Up>>})
SegSeqsFor(b) == IF b[2] = Up THEN PathsCore \ {<<>>} ELSE SegSeqs
ReqsUpFolder ==
  UNION {{Rq("upfolder", o, b[1], b[2], Absent, Absent, Absent) @@ [item |-> [folder |-> f, count |-> Len(sg), raw |-> SegRaw(sg)]]
            : o \in {0, 1}, f \in {0, 1}, sg \in SegSeqsFor(b)} : b \in UpBases}
  \cup {Rq("upfolder", 0, Absent, A, Absent, Absent, Absent) @@ [item |-> [folder |-> f, count |-> c, raw |-> r]]
     : f \in {0, 1}, c \in {1, 2}, r \in {<<0,0,1,102>>, <<0,0,5,102>>, <<0,0>>}}
AcctLogins == Sigma0 \cup SigmaT \cup {A, <<46,46,47>> \o UsersBak \o <<47,97,100,109,105,110>>, <<46,46,47>> \o UsersX \o <<47,97>>}
Rst == [op |-> "restart", login |-> <<>>, new |-> <<>>]     \* the account manager is started again on the same directory
AcctSeqs(L) == { << [op |-> "create350", login |-> L, new |-> <<>>], Rst >>,
                 << [op |-> "create349", login |-> L, new |-> <<>>], Rst >>,
                 << [op |-> "create350", login |-> L, new |-> <<>>], [op |-> "update", login |-> L, new |-> <<>>], Rst >>,
                 << [op |-> "create350", login |-> A, new |-> <<>>], [op |-> "rename", login |-> A, new |-> L], Rst >>,
                 << [op |-> "create350", login |-> L, new |-> <<>>], [op |-> "delete351", login |-> L, new |-> <<>>], Rst >>,
                 << [op |-> "create349", login |-> L, new |-> <<>>], [op |-> "delete349", login |-> L, new |-> <<>>], Rst >>,
                 << [op |-> "delete351", login |-> L, new |-> <<>>], Rst >> }
(* tmp: where $TMPDIR points while the account request runs (0 an existing directory outside the trees, 1 nowhere) *)
ReqsAcct == {Rq("acct", o, Absent, Absent, Absent, Absent, Absent) @@ [ops |-> sq, tmp |-> 0] : o \in {0, 1}, sq \in UNION {AcctSeqs(L) : L \in AcctLogins}}
            \cup {Rq("acct", 0, Absent, Absent, Absent, Absent, Absent) @@ [ops |-> sq, tmp |-> 1] : sq \in UNION {AcctSeqs(L) : L \in {A, <<46,46,47,120>>, <<>>}}}

(* short histories for what creates links or relocates entries: make an alias in a nested folder, then move / rename
   the alias, its target or the folder that holds it, then read through it (list, get-info, download, folder download) *)
Abs3 == <<97,98,115>>
SeqOf(steps) == Rq("seq", 1, Absent, Absent, Absent, Absent, Absent) @@ [steps |-> steps]
ReadsAt(dir, n) ==
  LET P == IF dir = <<>> THEN Absent ELSE EncPath(dir)
      up == IF dir = <<>> THEN Rq("dlfolder", 1, Absent, Absent, Absent, Absent, Absent)
            ELSE Rq("dlfolder", 1, IF Len(dir) = 1 THEN Absent ELSE EncPath(SubSeq(dir, 1, Len(dir) - 1)), dir[Len(dir)], Absent, Absent, Absent)
  IN {Rq("list", 1, P, Absent, Absent, Absent, Absent), Rq("info", 1, P, n, Absent, Absent, Absent),
      Rq("download", 1, P, n, Absent, Absent, Absent), up}
AA == <<A, A>>
ReqsSeq ==
  UNION {
    LET mk == Rq("alias", 1, Absent, n, Absent, EncPath(AA), Absent)       \* root/n  ->  alias a/a/n
        relocs == { <<Rq("move", 1, EncPath(AA), n, Absent, EncPath(<<A>>), Absent), <<A>>, n>>,
                    <<Rq("move", 1, EncPath(AA), n, Absent, Absent, Absent), <<>>, n>>,
                    <<Rq("rename", 1, EncPath(AA), n, New, Absent, Absent), AA, New>>,
                    <<Rq("move", 1, Absent, n, Absent, EncPath(<<A>>), Absent), AA, n>>,
                    <<Rq("rename", 1, Absent, n, New, Absent, Absent), AA, n>>,
                    <<Rq("rename", 1, EncPath(<<A>>), A, New, Absent, Absent), <<A, New>>, n>> }
    IN UNION {{SeqOf(<<mk, rl[1], rd>>) : rd \in ReadsAt(rl[2], rl[3])} : rl \in relocs}
    : n \in {Abs3, Btxt, A} }
ReqsShared == ReqsList \cup ReqsK2 \cup ReqsRename \cup ReqsMove \cup ReqsUpFolder
(* the same requests from a client that is confined to its OWN file root (Account.FileRoot = W/userroot): the
   server-wide root is then outside for this client.  Contexts: top level and one folder down. *)
NearPaths == {Absent, EncPath(<<A>>), EncPath(<<DotDot>>)}
ReqsUr == {[r EXCEPT !.ur = 1] : r \in {x \in ReqsShared : x.occ = 0 /\ x.path \in NearPaths /\ x.newpath \in NearPaths \cup {Absent}}}
          \cup {[r EXCEPT !.ur = 1, !.occ = 0] : r \in {x \in ReqsShared : x.occ = 1 /\ x.kind \in K2Read \cup {"list"} /\ x.path \in NearPaths}}
(* the same directory, spelled non-canonically in the configuration (sp: 1 trailing slash, 2 double slash, 3 dot
   segment) - as the server-wide FileRoot (ur = 0) or as the account's FileRoot (ur = 1).  Top-level requests, every
   name of the alphabet (the ones that resolve to the root itself matter most). *)
SpBase == {x \in ReqsShared \cup ReqsUr : x.occ = 0 /\ x.path = Absent /\ x.newpath \in {Absent, EncPath(<<A>>)}
                                         /\ (x.kind = "upfolder" => x.item.count <= 1)}
          \cup {[x EXCEPT !.occ = 0] : x \in {y \in ReqsShared : y.occ = 1 /\ y.ur = 0 /\ y.path = Absent /\ y.kind \in K2Read \cup {"list"}}}
Spellings == IF Level = "core" THEN {<<0, 1>>, <<1, 2>>} ELSE {0, 1} \X {1, 2, 3}      \* <<ur, sp>>
ReqsSp == UNION {{[x EXCEPT !.sp = us[2]] : x \in {y \in SpBase : y.ur = us[1]}} : us \in Spellings}
Reqs07 == ReqsShared \cup ReqsAcct \cup ReqsUr \cup ReqsSeq \cup ReqsSp

(* the places a leaving path would land on, occupied in sandbox variant occ = 1 *)
Landing == {SbxP \o <<X>>, SbxP \o <<<<97,98,115>>>>, SbxP \o <<Config, X \o Yaml>>, <<L1, L2, L3, X>>, <<L1, L2, X>>, <<L1, L2, L3, Abs3>>,
            SbxP \o <<RootBak, <<110>>>>, SbxP \o <<Config, UsersX, A \o Yaml>>}
TreeOcc(o) == IF o = 0 THEN Tree07 ELSE [q \in DOMAIN Tree07 \cup Landing |-> IF q \in Landing THEN FileN(-1) ELSE Tree07[q]]
(* the sandbox of a confined client: the tree lives under W/userroot, the server-wide root holds canaries *)
UserRoot07 == SbxP \o <<<<117,115,101,114>> \o RootN>>
TreeUr ==
  LET inroot == {q \in DOMAIN Tree07 : Inside(q, Root07) /\ q # Root07}
      img(q) == UserRoot07 \o SubSeq(q, Len(Root07) + 1, Len(q))
      srv == {Root07 \o <<X>>, Root07 \o <<A>>, Root07 \o <<A, X>>, Root07 \o <<Btxt>>}
      keep == DOMAIN Tree07 \ inroot
  IN [q \in keep \cup {UserRoot07} \cup {img(x) : x \in inroot} \cup srv |->
        IF q = UserRoot07 THEN DirN
        ELSE IF q \in srv THEN (IF q = Root07 \o <<A>> THEN DirN ELSE FileN(-1))
        ELSE IF q \in keep THEN Tree07[q]
        ELSE Tree07[Root07 \o SubSeq(q, Len(UserRoot07) + 1, Len(q))]]
TreeFor(r) == IF r.ur = 1 THEN TreeUr ELSE TreeOcc(r.occ)
RootFor(r) == IF r.ur = 1 THEN UserRoot07 ELSE Root07

RECURSIVE SetToSeq(_)
SetToSeq(S) == IF S = {} THEN <<>> ELSE LET x == CHOOSE y \in S : TRUE IN <<x>> \o SetToSeq(S \ {x})

WorldJson(T, rp, ign) ==
  [tree |-> SetToSeq({[p |-> SubSeq(q, Len(rp) + 1, Len(q)),
                       k |-> IF T[q].k \in {"dir", "link"} THEN T[q].k ELSE IF HasPrefix(Base(q), InfoPfx) THEN "info" ELSE "file",
                       s |-> T[q].s, c |-> T[q].c, ty |-> T[q].ty,
                       t |-> IF T[q].k = "link" THEN SubSeq(T[q].t, Len(rp) + 1, Len(T[q].t)) ELSE <<>>] : q \in {x \in DOMAIN T : Inside(x, rp) /\ x # rp}}),
   ignore |-> ign]

Init07 == /\ tree = Tree07 /\ rootp = Root07 /\ usersp = Users07 /\ ignore = "default" /\ mem = Mem07
          /\ req = NoReq /\ res = Res(Tree07, Mem07, "none", {}) /\ hist = <<>> /\ w0 = <<>>
          /\ PrintT("W " \o ToJson([world |-> WorldJson(Tree07, Root07, "default")]))

Next07 == /\ req = NoReq
          /\ \E r \in Reqs07 :
               /\ req' = r
               /\ res' = Do(TreeFor(r), mem, r, RootFor(r), usersp, ignore, Deviations)
          /\ UNCHANGED <<fvars, hist, w0>>

Contained07 == req # NoReq => ContainedRes(TreeFor(req), res, RootFor(req), usersp)
(* the law itself: a cleaned path never leaves its base, whatever the components *)
CleanStaysInside == req # NoReq /\ req.kind \notin {"acct", "upfolder", "seq"} =>
                      LET pr == ParsePath(req.path, {}) IN Inside(Resolve(RootFor(req), pr.items, Val(req.name)), RootFor(req))
Emit07 == PrintT("B " \o ToJson(req'))

(* ---- C11 ------------------------------------------------------------------------------------------------------- *)
Root11 == <<RootN>>
NPdf == <<114>> \o PdfExt
NC == <<99>>  NHid == <<46,104,105,100>>  NAt == <<64,120>>  NInc == <<120>> \o Incomplete \o <<46,121>>  NHi == <<138>>
PInc == <<112>> \o Incomplete
D1 == <<100>>
InitTrees == <<
  {[p |-> <<A>>, n |-> DirN], [p |-> <<A, NC>>, n |-> FileN(4)], [p |-> <<InfoPfx \o A>>, n |-> InfoN(77, 2, Fldr)],
   [p |-> <<Btxt>>, n |-> FileN(5)], [p |-> <<InfoPfx \o Btxt>>, n |-> InfoN(82, 3, TEXT)], [p |-> <<RsrcPfx \o Btxt>>, n |-> FileN(7)],
   [p |-> <<NC>>, n |-> FileN(1)], [p |-> <<NHid>>, n |-> FileN(2)], [p |-> <<NAt>>, n |-> FileN(6)],
   [p |-> <<NInc>>, n |-> FileN(10)], [p |-> <<PInc>>, n |-> FileN(9)], [p |-> <<Ae>>, n |-> FileN(8)],
   [p |-> <<A, Btxt>>, n |-> LinkN(<<RootN, Btxt>>)]},     \* an alias (in a/) of a file that has forks and a comment
  {[p |-> <<D1>>, n |-> DirN], [p |-> <<D1, Btxt>>, n |-> FileN(5)], [p |-> <<A>>, n |-> FileN(3)], [p |-> <<InfoPfx \o A>>, n |-> InfoN(78, 3, TEXT)],
   [p |-> <<Ae>>, n |-> DirN], [p |-> <<Ae, NInc>>, n |-> FileN(10)],
   [p |-> <<NC>>, n |-> FileN(1)], [p |-> <<InfoPfx \o NC>>, n |-> InfoN(77, 2, PDF)]},   \* a stored type that is not the extension's default
  {[p |-> <<A>>, n |-> DirN], [p |-> <<A, A>>, n |-> DirN], [p |-> <<A, A, NC>>, n |-> FileN(4)], [p |-> <<NC>>, n |-> FileN(1)],
   [p |-> <<RsrcPfx \o NC>>, n |-> FileN(7)], [p |-> <<NHid>>, n |-> DirN], [p |-> <<NHid, Btxt>>, n |-> FileN(5)], [p |-> <<PInc>>, n |-> FileN(9)]} >>
TreeFrom(S) == [q \in {Root11} \cup {Root11 \o e.p : e \in S} |-> IF q = Root11 THEN DirN ELSE (CHOOSE e \in S : Root11 \o e.p = q).n]

Init11 == \E i \in DOMAIN InitTrees, ign \in {"default", "none", "custom"} :
            /\ tree = TreeFrom(InitTrees[i]) /\ rootp = Root11 /\ usersp = <<Config, Users>> /\ ignore = ign /\ mem = {}
            /\ req = NoReq /\ res = Res(<<>>, {}, "none", {}) /\ hist = <<>>
            /\ w0 = WorldJson(TreeFrom(InitTrees[i]), Root11, ign)

Dirs(t) == {q \in DOMAIN t : t[q].k = "dir" /\ ~ThroughLink(t, q) /\ \A i \in DOMAIN q : Encodable(q[i])}
WirePath(d) == IF d = Root11 THEN Absent ELSE EncPath([i \in 1..(Len(d) - 1) |-> Enc(d[i + 1])])
(* comment lengths up to the field limit (the stored information fork then exceeds 32 KiB and 64 KiB boundaries) *)
Comments == IF Thin THEN {<<104,105>>, Run(40000)}
            ELSE {<<>>, <<104>>, <<104,105>>, Run(255), Run(4096), Run(32600), Run(32700), Run(40000), Run(65000)}
NewNames == IF Thin THEN {NC, NHi, NInc, NPdf} ELSE {A, Btxt, NC, NHid, NAt, NInc, NHi, NPdf}
Steps11(t) ==
  UNION {
    LET L == Listing(t, d, ignore, {})
        P == WirePath(d)
        listed == {L[q].n : q \in DOMAIN L}
    IN UNION {
         {Rq("rename", 0, P, n, nn, Absent, Absent) : nn \in NewNames}
         \cup {Rq("setcomment", 0, P, n, Absent, Absent, cm) : cm \in Comments} \cup {Rq("delete", 0, P, n, Absent, Absent, Absent)}
         \cup {Rq(k, 0, P, n, Absent, WirePath(d2), Absent) : k \in {"move", "alias"}, d2 \in Dirs(t)}
         : n \in listed }
       \cup {Rq("newfolder", 0, P, n, Absent, Absent, Absent) : n \in NewNames \cup (IF Thin THEN {} ELSE listed)}
    : d \in Dirs(t) }

Next11 == /\ Len(hist) < MaxSteps        \* (a CONSTRAINT would discard the last layer before it is checked)
          /\ \E s \in Steps11(tree) :
               /\ Apply(s)
               /\ hist' = Append(hist, s)
               /\ UNCHANGED <<req, res, w0>>

View11 == <<tree, ignore>>

(* every listed complete file or folder is reached by its listed name *)
ListedIsAddressable ==
  \A d \in Dirs(tree) : LET L == Listing(tree, d, ignore, Deviations) IN
     \A q \in DOMAIN L : L[q].cls \in {"plain", "forked", "dir"} => d \o <<Dec(L[q].n)>> = q
(* the list shows exactly the non-ignored entries, a partial upload under its final name *)
ListShowsExactly ==
  \A d \in Dirs(tree) : LET L == Listing(tree, d, ignore, Deviations) IN
     /\ DOMAIN L = {q \in Kids(tree, d) : ~Ignored(Base(q), ignore) /\ (tree[q].k = "link" => StatErr(tree, q) = "ok")}
     /\ \A q \in DOMAIN L : Dec(L[q].n) = TrimSuffix(Base(q), Incomplete)
(* list, get-info and the download reply agree with the bytes on disk for complete fork-less files *)
InfoSize(t, q) == t[q].s + RsrcSize(t, q)      \* HandleGetFileInfo: TotalSize
DlSize(t, q) == t[q].s                         \* HandleDownloadFile: data fork size (field 207)
InfoType(t, q) == TypeOfFile(t, q)             \* HandleGetFileInfo: the type stored in the information fork, else by extension
ViewsAgreeOnSizeType ==
  \A d \in Dirs(tree) : LET L == Listing(tree, d, ignore, Deviations) IN
     \A q \in DOMAIN L : L[q].cls = "plain" =>
        /\ L[q].sz = tree[q].s /\ InfoSize(tree, q) = tree[q].s /\ DlSize(tree, q) = tree[q].s
        /\ L[q].ty = InfoType(tree, q)

LastStep == hist'[Len(hist')]
ForksTravel == [][ForksTravelObs(LastStep, tree, tree', rootp)]_mcvars
ForksStay == [][ForksStayObs(LastStep, tree, tree', rootp)]_mcvars
BystandersKeepForks == [][BystanderForksObs(LastStep, tree, tree', rootp)]_mcvars
NewFolderNeverReplaces == [][NewFolderNeverReplacesObs(LastStep, tree, tree')]_mcvars
OpsChangeExactly == [][WellFormed(LastStep, tree, rootp) => Core(tree', tree) = Core(Requested(LastStep, tree, rootp), tree)]_mcvars
StaysInRoot == \A q \in DOMAIN tree : Inside(q, rootp)

EmitStep11 == PrintT("B " \o ToJson([world |-> w0, steps |-> hist']))
Emit11 == (Len(hist') = GenDepth) => PrintT("B " \o ToJson([world |-> w0, steps |-> hist']))
=============================================================================
