CONSTANTS
  Chunk = 2
  Atomic = TRUE
  Sizes = {1}
INIT GInit
NEXT GNext
CHECK_DEADLOCK FALSE
