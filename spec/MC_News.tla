------------------------------ MODULE MC_News ------------------------------
(* Bounded instance of News for exhaustive checking (MC_News.cfg, MC_News_deep.cfg, the mutant MC_News_mut.cfg)
   and for generating action scripts (Gen_News.cfg, simulation): names {x, y}, paths of depth <= MaxDepth,
   at most MaxArts articles per node.  The history variable `hist` is hidden from the VIEW. *)
EXTENDS News, Json

CONSTANTS MaxDepth, MaxArts, MaxSteps, GenDepth,
          NNames, \* 2 or 3 item names
          NTexts, \* how many different titles (1..3) and bodies (1..2) a post can carry
          Ops,    \* the step kinds enabled in this configuration
          Thin    \* TRUE: few argument variants per step kind (keeps random walks productive)

VARIABLES hist    \* the steps taken so far (the script)

mcvars == <<vars, hist>>

(* Item names are opaque to the model, but not to an implementation: the names of the generated scripts are related -
   two that differ only in letter case and one that is a proper prefix of both up to case - and occur as siblings
   and at different depths (the seeded generator of vh-news draws further such families: case variants, prefixes,
   Mac-Roman high bytes, Unicode case folding). *)
X == << <<67, 1>>, <<97, 1>>, <<116, 1>> >>     \* "Cat"
Y == << <<99, 1>>, <<97, 1>>, <<116, 1>> >>     \* "cat"
Z == << <<67, 1>>, <<97, 1>> >>                 \* "Ca"
Names == IF NNames >= 3 THEN {X, Y, Z} ELSE {X, Y}
U1 == << <<97, 1>> >>     \* "a"
U2 == << <<98, 2>> >>     \* "bb"
T1 == << <<116, 1>> >>    \* "t"
T2 == << <<84, 2>>, <<10, 1>> >>
B1 == << <<98, 3>> >>
B2 == <<>>
D0 == <<7, 234, 0, 0, 0, 0, 0, 1>>

Init == /\ InitWith(U1) /\ hist = <<>>

T3 == << <<32, 1>>, <<58, 1>> >>
Titles == IF NTexts >= 3 THEN {T1, T2, T3} ELSE IF NTexts = 2 THEN {T1, T2} ELSE {T1}
Bodies == IF NTexts >= 2 THEN {B1, B2} ELSE {B1}

CreateParents == {<<>>} \cup {p \in DOMAIN nodes : Len(p) < MaxDepth}
(* a path that does not exist but whose parent does (for requests about missing items) *)
Ghosts == {Append(p, n) : p \in CreateParents, n \in Names} \ DOMAIN nodes
MissingId(a) == IF DOMAIN a = {} THEN 1 ELSE Max(DOMAIN a) + 1

(* Requests addressed below paths that do not exist, at depth 1..3: one path whose parent exists but that never
   existed or was deleted, one that was created earlier in this history and is gone now, and both extended by one more
   name (the parent is missing too).  Which requests are offered alternates with the length of the history, so that
   these steps do not crowd out the others in a random walk. *)
Range(sq) == {sq[i] : i \in DOMAIN sq}
Created == {Append(h.path, h.name) : h \in {g \in Range(hist) : g.op \in {"mkbundle", "mkcat"}}}
Missing1 == {Append(p, n) : p \in {<<>>} \cup {q \in DOMAIN nodes : Len(q) < 3}, n \in Names} \ DOMAIN nodes
One(S) == IF S = {} THEN {} ELSE {CHOOSE x \in S : TRUE}
StaleBase == One(Missing1) \cup One(Created \ DOMAIN nodes)
StaleTargets == StaleBase \cup {Append(t, X) : t \in {u \in StaleBase : Len(u) < 3}}
StaleSteps ==
  IF Len(hist) % 2 = 0
    THEN {[op |-> "mkcat", path |-> t, name |-> Y] : t \in StaleTargets}
         \cup {[op |-> "post", path |-> t, parent |-> 0, title |-> T1, body |-> B1, date |-> D0] : t \in StaleTargets}
         \cup {[op |-> "list", path |-> t] : t \in StaleBase}
    ELSE {[op |-> "mkbundle", path |-> t, name |-> X] : t \in StaleTargets}
         \cup {[op |-> "delitem", path |-> t] : t \in StaleTargets}
         \cup {[op |-> "cats", path |-> t] : t \in StaleBase}
         \cup {[op |-> "delart", path |-> Append(t, Y), id |-> 1, rec |-> 1] : t \in StaleBase}

ArtIds(p) == DOMAIN nodes[p].arts
On(o, S) == IF o \in Ops THEN S ELSE {}

AllSteps ==
  LET N == DOMAIN nodes IN
       On("mkbundle", {s \in {[op |-> "mkbundle", path |-> p, name |-> n] : p \in CreateParents, n \in Names}
                        : ~Thin \/ Append(s.path, s.name) \notin N})
  \cup On("mkcat", {[op |-> "mkcat", path |-> p, name |-> n] : p \in CreateParents, n \in Names})
  \cup On("post", UNION {{[op |-> "post", path |-> p, parent |-> par, title |-> t, body |-> b, date |-> D0]
                            : par \in {0} \cup ArtIds(p), t \in Titles, b \in Bodies}
                          : p \in {q \in N : Cardinality(ArtIds(q)) < MaxArts}})
  \cup On("delart", UNION {{[op |-> "delart", path |-> p, id |-> i, rec |-> rc]
                              : i \in ArtIds(p) \cup (IF Thin THEN {} ELSE {MissingId(nodes[p].arts)}), rc \in {-1, 0, 1}} : p \in N}
                     \cup (IF Thin THEN {} ELSE {[op |-> "delart", path |-> p, id |-> 1, rec |-> -1] : p \in Ghosts}))
  \cup On("delitem", {[op |-> "delitem", path |-> p] : p \in N \cup (IF Thin THEN {} ELSE Ghosts)})
  \cup On("get", UNION {{[op |-> "get", path |-> p, id |-> i]
                           : i \in (IF Thin THEN {} ELSE {MissingId(nodes[p].arts)}) \cup {j \in ArtIds(p) : j = Max(ArtIds(p))}} : p \in N})
  \cup On("list", {[op |-> "list", path |-> p] : p \in IF Thin THEN {q \in N : ArtIds(q) # {}} ELSE {q \in N \cup {<<>>} : Len(q) <= 1}})
  \cup On("cats", {[op |-> "cats", path |-> <<>>]})
  \cup On("reload", {[op |-> "reload"]})
  \cup On("setname", {[op |-> "setname", name |-> IF uname = U1 THEN U2 ELSE U1]})
  \cup On("stale", StaleSteps)

Step(s) == /\ Guard(s) /\ Apply(s) /\ hist' = Append(hist, s)

Next == \E s \in AllSteps : Step(s)

Spec == Init /\ [][Next]_mcvars

Bound == Len(hist) <= MaxSteps     \* states reached by more than MaxSteps steps are discarded
(* The number of steps is part of the view: with the history hidden completely, a state first reached over a long
   path by one of several workers would not be expanded to the full depth and the search would silently be
   incomplete (measured: 1 694 instead of 5 074 states with 16 workers). *)
View == <<nodes, disk, uname, Len(hist)>>

(* inductive forms of the two state properties that are expensive to evaluate on every generated state: they hold
   initially (empty tree) and are re-checked for whatever a step changed *)
ListStaysParseable ==
  [][\A p \in DOMAIN nodes' : (p \notin DOMAIN nodes \/ nodes'[p].arts # nodes[p].arts) => ListOK(nodes'[p].arts)]_mcvars
ChildrenStay == [][nodes' # nodes => ChildrenOfPath']_mcvars

(* script emission: simulation prints the walk when it reaches GenDepth.  The action constraint is evaluated for
   every candidate successor of the walk's last state; exactly one of them is the reload step, so every walk is
   printed once (and every script ends with a reload). *)
Emit == (Len(hist') = GenDepth /\ hist'[GenDepth].op = "reload") => PrintT("B " \o ToJson([world |-> [user |-> U1], steps |-> hist']))
=============================================================================
