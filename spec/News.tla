-------------------------------- MODULE News --------------------------------
(***************************************************************************)
(* Threaded news of the Mobius Hotline server (property C18).              *)
(*                                                                         *)
(* State: the tree of bundles and categories (a node is addressed by its   *)
(* path = sequence of names), per node the articles (id -> article with    *)
(* title, poster, date, body and the four thread links), and the mirror of *)
(* the tree in ThreadedNews.yaml.  One action per request handler          *)
(* (internal/mobius/transaction_handlers.go HandleNewNewsFldr 381,         *)
(* HandleNewNewsCat 382, HandlePostNewsArt 410, HandleDelNewsArt 411,      *)
(* HandleDelNewsItem 380, HandleGetNewsArtData 400,                        *)
(* HandleGetNewsArtNameList 371, HandleGetNewsCatNameList 370) over the    *)
(* store internal/mobius/threaded_news.go, each taking a step record `s`,  *)
(* so that the exhaustive model (MC_News), script generation and trace     *)
(* validation (Trace_News) use the same operators.                         *)
(*                                                                         *)
(* Texts (names, titles, posters, bodies) are byte strings in run-length   *)
(* form: a sequence of <<byte, count>> with count >= 1 and adjacent runs   *)
(* of different bytes (canonical), so that a 64 KiB body is a short value. *)
(* The model needs a text's identity and its length only.                  *)
(*                                                                         *)
(* Where the property statement speaks the model says what it says; where  *)
(* it is silent the model does what the code does, as named deviations:    *)
(*   CreateGroupingOverwrites  creating an item whose name exists replaces *)
(*                             it by an empty one (articles and children   *)
(*                             are dropped)                                *)
(*   BundleHoldsArticles       articles can be posted to a bundle          *)
(*   CategoryHoldsChildren     items can be created below a category       *)
(*   RecursiveIgnored          the "delete child articles" flag of a delete  *)
(*                             article request is ignored                  *)
(*   DeleteLeavesLinks         deleting an article does not repair the     *)
(*                             prev/next/parent/first-child of the others  *)
(*   FirstChildSticks          the parent's first-child field is set only  *)
(*                             while it is 0 (also if that child is gone)  *)
(*   NewestPlusOne             the new ID is (largest present ID) + 1,     *)
(*                             1 in an empty category (IDs of deleted      *)
(*                             newest articles are reused)                 *)
(***************************************************************************)
EXTENDS Integers, Sequences, FiniteSets, TLC

CONSTANTS IdPolicy   \* "max": the implementation (NewestPlusOne); "count": a mutant (number of articles + 1)
                     \* used by MC_News_mut.cfg to show that the properties below reject a wrong allocator

VARIABLES nodes,  \* path -> [kind |-> 2 (bundle) | 3 (category), arts |-> (id -> article)]
          disk,   \* the same shape: what ThreadedNews.yaml holds
          uname,  \* the user name of the posting client (a text): becomes the poster
          out     \* the result of the last step (what the step observably did; shape depends on the step)

vars == <<nodes, disk, uname, out>>

(* ---- texts ---------------------------------------------------------------- *)
RECURSIVE TLen(_)
TLen(t) == IF t = <<>> THEN 0 ELSE Head(t)[2] + TLen(Tail(t))

RECURSIVE Expand(_)
Expand(t) == IF t = <<>> THEN <<>> ELSE [i \in 1..Head(t)[2] |-> Head(t)[1]] \o Expand(Tail(t))

TextPlain == << <<116,1>>, <<101,1>>, <<120,1>>, <<116,1>>, <<47,1>>, <<112,1>>, <<108,1>>, <<97,1>>, <<105,1>>, <<110,1>> >>  \* "text/plain"

(* ---- tree ------------------------------------------------------------------ *)
IsPrefix(p, q) == Len(p) <= Len(q) /\ SubSeq(q, 1, Len(p)) = p
ParentOf(q) == SubSeq(q, 1, Len(q) - 1)
Last(q) == q[Len(q)]
ChildrenIn(t, p) == {q \in DOMAIN t : Len(q) = Len(p) + 1 /\ IsPrefix(p, q)}
Children(p) == ChildrenIn(nodes, p)
ArtsAt(p) == IF p \in DOMAIN nodes THEN nodes[p].arts ELSE <<>>
Exists(p) == p = <<>> \/ p \in DOMAIN nodes

Max(S) == CHOOSE x \in S : \A y \in S : y <= x
Min(S) == CHOOSE x \in S : \A y \in S : x <= y
RECURSIVE SortedIds(_)
SortedIds(S) == IF S = {} THEN <<>> ELSE <<Min(S)>> \o SortedIds(S \ {Min(S)})

Content(r) == <<r.title, r.poster, r.date, r.body>>
Links(r) == <<r.parent, r.prev, r.next, r.first>>

NewId(a) == IF DOMAIN a = {} THEN 1
            ELSE IF IdPolicy = "max" THEN Max(DOMAIN a) + 1
            ELSE Cardinality(DOMAIN a) + 1

(* ---- views: what the read requests return ---------------------------------- *)
(* the article list of a node (371): one entry per article in ID order *)
Entry(i, r) == [id |-> i, date |-> r.date, parent |-> r.parent, flags |-> 0, flavors |-> 1, title |-> r.title,
                poster |-> r.poster, flavor |-> TextPlain, size |-> TLen(r.body) % 65536]
ListView(a) == LET ids == SortedIds(DOMAIN a) IN [k \in DOMAIN ids |-> Entry(ids[k], a[ids[k]])]

(* the category listing of a path (370): the children, each with its name and kind *)
CatViewIn(t, p) == {[name |-> Last(q), kind |-> t[q].kind] : q \in ChildrenIn(t, p)}
CatView(p) == CatViewIn(nodes, p)

(* longest article-list entry of a node, in bytes *)
EntryLen(r) == 37 + TLen(r.title) + TLen(r.poster)
MaxEntryLen(a) == IF DOMAIN a = {} THEN 0 ELSE Max({EntryLen(a[i]) : i \in DOMAIN a})

(* ---- the protocol's encoding of the article list (field 321) ---------------- *)
U16(n) == <<(n \div 256) % 256, n % 256>>
U32(n) == <<(n \div 16777216) % 256, (n \div 65536) % 256, (n \div 256) % 256, n % 256>>
BE(b) == IF Len(b) = 2 THEN b[1] * 256 + b[2]
         ELSE ((b[1] * 256 + b[2]) * 256 + b[3]) * 256 + b[4]

EntryEnc(e) == U32(e.id) \o e.date \o U32(e.parent) \o U32(e.flags) \o U16(e.flavors)
               \o <<TLen(e.title)>> \o Expand(e.title) \o <<TLen(e.poster)>> \o Expand(e.poster)
               \o <<TLen(e.flavor)>> \o Expand(e.flavor) \o U16(e.size)
RECURSIVE CatEnc(_)
CatEnc(es) == IF es = <<>> THEN <<>> ELSE EntryEnc(Head(es)) \o CatEnc(Tail(es))
(* id(4) count(4) nameLen(1) name descLen(1) desc entries *)
ListEnc(a) == U32(0) \o U32(Cardinality(DOMAIN a)) \o <<0>> \o <<0>> \o CatEnc(ListView(a))

(* a reader of that encoding: returns the entries with their texts as plain byte sequences *)
Sub(b, from, n) == SubSeq(b, from, from + n - 1)
RECURSIVE DecEntries(_, _, _)
DecEntries(b, k, acc) ==
  IF k = 0 THEN [ok |-> TRUE, rest |-> b, entries |-> acc]
  ELSE IF Len(b) < 23 THEN [ok |-> FALSE, rest |-> b, entries |-> acc]
  ELSE LET tl == b[23] IN
       IF Len(b) < 24 + tl THEN [ok |-> FALSE, rest |-> b, entries |-> acc]
       ELSE LET pl == b[24 + tl] IN
            IF Len(b) < 25 + tl + pl THEN [ok |-> FALSE, rest |-> b, entries |-> acc]
            ELSE LET fl == b[25 + tl + pl]
                     total == 25 + tl + pl + fl + 2
                 IN IF BE(Sub(b, 21, 2)) # 1 \/ Len(b) < total THEN [ok |-> FALSE, rest |-> b, entries |-> acc]
                    ELSE DecEntries(SubSeq(b, total + 1, Len(b)), k - 1,
                           Append(acc, [id |-> BE(Sub(b, 1, 4)), date |-> Sub(b, 5, 8), parent |-> BE(Sub(b, 13, 4)),
                                        flags |-> BE(Sub(b, 17, 4)), title |-> Sub(b, 24, tl),
                                        poster |-> Sub(b, 25 + tl, pl), flavor |-> Sub(b, 26 + tl + pl, fl),
                                        size |-> BE(Sub(b, 26 + tl + pl + fl, 2))]))
ListDec(b) ==
  IF Len(b) < 9 THEN [ok |-> FALSE, rest |-> b, entries |-> <<>>, count |-> -1]
  ELSE LET nl == b[9] IN
       IF Len(b) < 10 + nl THEN [ok |-> FALSE, rest |-> b, entries |-> <<>>, count |-> -1]
       ELSE LET dl == b[10 + nl]
                d == DecEntries(SubSeq(b, 11 + nl + dl, Len(b)), BE(Sub(b, 5, 4)), <<>>)
            IN [ok |-> d.ok, rest |-> d.rest, entries |-> d.entries, count |-> BE(Sub(b, 5, 4))]

(* ---- initial state ----------------------------------------------------------- *)
NoOut == [op |-> "none"]
InitWith(name) == /\ nodes = <<>>     \* a function path -> node with empty domain
                  /\ disk = <<>>
                  /\ uname = name
                  /\ out = NoOut

Without(t, p) == [q \in {q \in DOMAIN t : ~IsPrefix(p, q)} |-> t[q]]

(* ---- actions ------------------------------------------------------------------- *)
(* The effect of a step on the tree is written as a function of the current tree (XTree(s)) so that the trace
   specification can also ask "what would the tree be had this step taken effect" for a request that was never
   answered. *)

(* CreateBundle (381) / CreateCategory (382): s.path is the parent, s.name the new item.
   CreateGroupingOverwrites: an existing item of that name is replaced by an empty one. *)
CreateTree(s) ==
  LET p == Append(s.path, s.name)
      kind == IF s.op = "mkbundle" THEN 2 ELSE 3
      keep == {q \in DOMAIN nodes : ~IsPrefix(p, q)}
  IN [q \in keep \cup {p} |-> IF q = p THEN [kind |-> kind, arts |-> <<>>] ELSE nodes[q]]
Create(s) ==
  /\ Exists(s.path)
  /\ nodes' = CreateTree(s)
  /\ disk' = nodes'
  /\ out' = [op |-> s.op, path |-> Append(s.path, s.name), overwrote |-> Append(s.path, s.name) \in DOMAIN nodes]
  /\ UNCHANGED uname

(* Post (410): s.parent = 0 starts a thread, otherwise it is a reply to that article.  s.date is the time stamp
   the server gives the article (the environment's clock). *)
PostTree(s) ==
  LET p == s.path
      a == nodes[p].arts
      id == NewId(a)
      hasPrev == DOMAIN a # {}
      m == Max(DOMAIN a)
      art == [title |-> s.title, poster |-> uname, date |-> s.date, body |-> s.body, parent |-> s.parent,
              prev |-> IF hasPrev THEN m ELSE 0, next |-> 0, first |-> 0]
      a1 == IF hasPrev THEN [a EXCEPT ![m].next = id] ELSE a
      a2 == IF s.parent # 0 /\ a1[s.parent].first = 0 THEN [a1 EXCEPT ![s.parent].first = id] ELSE a1   \* FirstChildSticks
      a3 == (id :> art) @@ a2
  IN [nodes EXCEPT ![p].arts = a3]
Post(s) ==
  /\ s.path \in DOMAIN nodes
  /\ s.parent = 0 \/ s.parent \in DOMAIN nodes[s.path].arts
  /\ nodes' = PostTree(s)
  /\ disk' = nodes'
  /\ out' = [op |-> "post", path |-> s.path, id |-> NewId(nodes[s.path].arts), parent |-> s.parent]
  /\ UNCHANGED uname

(* DeleteArticle (411): removes that article and nothing else (DeleteLeavesLinks); no such article: nothing.
   s.rec is the request's "delete child articles" field 337: -1 absent, 0, 1.  RecursiveIgnored: the implementation
   ignores it (only the named article goes).  The statement ("removes exactly that item") and the protocol (the
   article with its replies) give two readings for rec = 1; DelArtTreeRec is the second one - the article and its
   reply subtree, i.e. the articles reachable from it over the recorded parent - which the trace specification accepts
   as well. *)
RECURSIVE Thread(_, _)
Thread(a, S) == LET kids == {i \in DOMAIN a \ S : a[i].parent \in S} IN IF kids = {} THEN S ELSE Thread(a, S \cup kids)
DelArtHit(s) == s.path \in DOMAIN nodes /\ s.id \in DOMAIN ArtsAt(s.path)
DelArtTree(s) ==
  LET a == ArtsAt(s.path) IN
  IF DelArtHit(s) THEN [nodes EXCEPT ![s.path].arts = [i \in DOMAIN a \ {s.id} |-> a[i]]] ELSE nodes
DelArtTreeRec(s) ==
  LET a == ArtsAt(s.path) IN
  IF DelArtHit(s) THEN [nodes EXCEPT ![s.path].arts = [i \in DOMAIN a \ Thread(a, {s.id}) |-> a[i]]] ELSE nodes
DeleteArticle(s) ==
  /\ nodes' = DelArtTree(s)
  /\ disk' = nodes'
  /\ out' = [op |-> "delart", path |-> s.path, id |-> s.id, hit |-> DelArtHit(s)]
  /\ UNCHANGED uname

(* DeleteItem (380): removes the bundle/category at s.path with everything below it; no such item: nothing. *)
DeleteItem(s) ==
  /\ s.path # <<>>
  /\ nodes' = Without(nodes, s.path)
  /\ disk' = nodes'
  /\ out' = [op |-> "delitem", path |-> s.path, hit |-> s.path \in DOMAIN nodes]
  /\ UNCHANGED uname

(* GetArticle (400) *)
GetArticle(s) ==
  LET a == ArtsAt(s.path) IN
  /\ out' = IF s.id \in DOMAIN a THEN [op |-> "get", path |-> s.path, id |-> s.id, present |-> TRUE, art |-> a[s.id]]
            ELSE [op |-> "get", path |-> s.path, id |-> s.id, present |-> FALSE]
  /\ UNCHANGED <<nodes, disk, uname>>

(* ListArticles (371) *)
ListArticles(s) ==
  /\ out' = [op |-> "list", path |-> s.path, entries |-> ListView(ArtsAt(s.path))]
  /\ UNCHANGED <<nodes, disk, uname>>

(* ListCategories (370) *)
ListCategories(s) ==
  /\ out' = [op |-> "cats", path |-> s.path, items |-> CatView(s.path)]
  /\ UNCHANGED <<nodes, disk, uname>>

(* Reload: a fresh store is loaded from the YAML file and takes the place of the running one. *)
Reload(s) ==
  /\ nodes' = disk
  /\ out' = [op |-> "reload"]
  /\ UNCHANGED <<disk, uname>>

(* SetClientUserInfo (304): the posting client changes its user name. *)
SetName(s) ==
  /\ uname' = s.name
  /\ out' = [op |-> "setname"]
  /\ UNCHANGED <<nodes, disk>>

(* A request addressed below a path that does not exist (never existed, was deleted, or exists only as a prefix):
   StaleIsNoop - nothing changes, whatever the server answers (the implementation drops the requester's connection
   for create and post: a nil-map panic recovered per connection; C03's business).  In particular no component of the
   missing path may appear. *)
Stale(s) ==
  CASE s.op \in {"mkbundle", "mkcat"} -> ~Exists(s.path)
    [] s.op = "post"    -> s.path \notin DOMAIN nodes
    [] s.op = "delart"  -> ~Exists(ParentOf(s.path))
    [] OTHER -> FALSE
StaleNoop(s) == /\ out' = [op |-> "stale", req |-> s.op]
                /\ UNCHANGED <<nodes, disk, uname>>

Guard(s) ==
  Stale(s) \/
  CASE s.op \in {"mkbundle", "mkcat"} -> Exists(s.path)
    [] s.op = "post"    -> s.path \in DOMAIN nodes /\ (s.parent = 0 \/ s.parent \in DOMAIN nodes[s.path].arts)
    [] s.op = "delart"  -> Exists(ParentOf(s.path))    \* (a missing parent item makes the store panic: C03's business)
    [] s.op = "delitem" -> s.path # <<>>
    [] s.op \in {"get", "list", "cats", "reload", "setname"} -> TRUE
    [] OTHER -> FALSE

(* the tree after the step, given that Guard(s) holds *)
TreeAfter(s) ==
  IF Stale(s) THEN nodes ELSE
  CASE s.op \in {"mkbundle", "mkcat"} -> CreateTree(s)
    [] s.op = "post"    -> PostTree(s)
    [] s.op = "delart"  -> DelArtTree(s)
    [] s.op = "delitem" -> Without(nodes, s.path)
    [] s.op = "reload"  -> disk
    [] OTHER -> nodes

Apply(s) ==
  IF Stale(s) THEN StaleNoop(s) ELSE
  CASE s.op \in {"mkbundle", "mkcat"} -> Create(s)
    [] s.op = "post"    -> Post(s)
    [] s.op = "delart"  -> DeleteArticle(s)
    [] s.op = "delitem" -> DeleteItem(s)
    [] s.op = "get"     -> GetArticle(s)
    [] s.op = "list"    -> ListArticles(s)
    [] s.op = "cats"    -> ListCategories(s)
    [] s.op = "reload"  -> Reload(s)
    [] s.op = "setname" -> SetName(s)

(* ---- properties (C18) ------------------------------------------------------------ *)
Posted == out'.op = "post"

(* the new ID is not used by any article present in the category *)
FreshId == [][Posted => out'.id \notin DOMAIN ArtsAt(out'.path)]_vars

(* the requested parent is recorded; the article is linked after the previously newest one; a parent without a
   first child gets this one *)
LinksOnPost ==
  [][Posted =>
       LET p == out'.path
           a == nodes[p].arts
           b == nodes'[p].arts
           id == out'.id
       IN /\ id \in DOMAIN b
          /\ b[id].parent = out'.parent
          /\ IF DOMAIN a = {} THEN b[id].prev = 0
             ELSE b[id].prev = Max(DOMAIN a) /\ (Max(DOMAIN a) # id => b[Max(DOMAIN a)].next = id)
          /\ (out'.parent # 0 /\ out'.parent # id /\ a[out'.parent].first = 0) => b[out'.parent].first = id]_vars

(* every other article keeps title, poster, date and body (and stays) *)
OthersUntouched ==
  [][Posted =>
       /\ DOMAIN nodes' = DOMAIN nodes
       /\ \A q \in DOMAIN nodes : /\ nodes'[q].kind = nodes[q].kind
                                  /\ \A i \in DOMAIN nodes[q].arts :
                                        /\ i \in DOMAIN nodes'[q].arts
                                        /\ Content(nodes'[q].arts[i]) = Content(nodes[q].arts[i])
                                  /\ (q # out'.path => nodes'[q] = nodes[q])
                                  /\ (q = out'.path => DOMAIN nodes'[q].arts = DOMAIN nodes[q].arts \cup {out'.id})]_vars

(* deleting an article or an item removes exactly that *)
DeleteExactlyThat ==
  [][/\ out'.op = "delart" =>
          /\ DOMAIN nodes' = DOMAIN nodes
          /\ \A q \in DOMAIN nodes :
                IF q = out'.path
                  THEN /\ DOMAIN nodes'[q].arts = DOMAIN nodes[q].arts \ {out'.id}
                       /\ \A i \in DOMAIN nodes'[q].arts : nodes'[q].arts[i] = nodes[q].arts[i]
                       /\ nodes'[q].kind = nodes[q].kind
                  ELSE nodes'[q] = nodes[q]
     /\ out'.op = "delitem" =>
          /\ DOMAIN nodes' = {q \in DOMAIN nodes : ~IsPrefix(out'.path, q)}
          /\ \A q \in DOMAIN nodes' : nodes'[q] = nodes[q]]_vars

(* the article list returns every present article once, in ID order, in an encoding a reader can parse back *)
ListOK(a) ==
  LET d == ListDec(ListEnc(a))
      ids == SortedIds(DOMAIN a)
  IN /\ d.ok /\ d.rest = <<>> /\ d.count = Cardinality(DOMAIN a)
     /\ Len(d.entries) = Len(ids)
     /\ \A k \in DOMAIN ids :
          LET e == d.entries[k]  r == a[ids[k]] IN
          /\ e.id = ids[k] /\ e.date = r.date /\ e.parent = r.parent
          /\ e.title = Expand(r.title) /\ e.poster = Expand(r.poster)
          /\ e.size = TLen(r.body) % 65536
     /\ \A j, k \in DOMAIN ids : j < k => ids[j] < ids[k]
ListSortedCompleteParseable == \A p \in DOMAIN nodes : ListOK(nodes[p].arts)

(* a category listing shows exactly the children of the path; the tree stays closed under parents *)
ChildrenOfPath ==
  /\ \A q \in DOMAIN nodes : Len(q) >= 1 /\ Exists(ParentOf(q))
  /\ \A p \in DOMAIN nodes \cup {<<>>} :
        /\ {Append(p, it.name) : it \in CatView(p)} = Children(p)
        /\ Cardinality(CatView(p)) = Cardinality(Children(p))
        /\ \A it \in CatView(p) : it.kind = nodes[Append(p, it.name)].kind

(* a request addressed below a missing path changes nothing *)
StaleChangesNothing == [][out'.op = "stale" => nodes' = nodes /\ disk' = disk]_vars

(* reloading the news file reproduces the same tree *)
ReloadIsIdentity == disk = nodes
ReloadKeeps == [][out'.op = "reload" => nodes' = nodes]_vars
=============================================================================
