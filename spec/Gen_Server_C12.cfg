CONSTANTS
  Conns = {1, 2, 3, 4, 5, 6}
  IDMod = 65536
  MaxChats = 2
  MaxSteps = 99
  GenDepth = 34
  Ops = {"churn","connect","login","agreed","close","chat","invitenew","invite","reject","join","leave","subject","setuser"}
  Thin = TRUE
INIT Init
NEXT Next
ACTION_CONSTRAINT Emit
INVARIANTS UniqueLiveIDs DeliveredOnlyToLive PrivateOnlyToMembers PublicOnlyToReaders NoDuplicateDelivery RosterConverges
CHECK_DEADLOCK FALSE
