---------------------------- MODULE Trace_Server ----------------------------
(* Trace validation of the connection / presence / chat / ban families: consumes log.ndjson recorded by
   `vharness srv` from the real server.  Every line is either a "world" event (a fresh server with the listed
   accounts: the model is reset) or one step with its arguments and what the real server did:
     deliv  - every transaction any client received because of the step (canonical records, see Server!Msg)
     closed - the connection slots the server closed during the step
     id     - (login) the user ID the server assigned
     bancls - (kick) the class of the ban-list entry for the victim's address afterwards
   The step is applied to the model and the model's `out` is compared with `deliv` as a bag.  A difference is
   printed as one "VIOL {...}" line naming the property whose statement the step's deliveries fall under; a step
   that is not enabled in the model is printed as "DRIFT {...}".  Acceptance: every line consumed. *)
EXTENDS Server, Json

VARIABLES l,       \* next line of the log
          seen     \* set of <<run, prop>> already reported (one report per run and property)

Log == ndJsonDeserialize("log.ndjson")

tvars == <<vars, l, seen>>

RECURSIVE SeqToSet(_)
SeqToSet(sq) == {sq[i] : i \in DOMAIN sq}

AcctsOf(e) == [g \in DOMAIN e.accts |-> [pw |-> e.accts[g].pw, name |-> e.accts[g].name, acc |-> SeqToSet(e.accts[g].acc)]]

Fix(e) == IF e.op = "setuser" THEN [e EXCEPT !.acc = SeqToSet(e.acc)] ELSE e

Count(sq, x) == Cardinality({i \in DOMAIN sq : sq[i] = x})
SameBag(a, b) == Len(a) = Len(b) /\ \A i \in DOMAIN a : Count(a, a[i]) = Count(b, a[i])
SameSet(a, b) == SeqToSet(a) = SeqToSet(b)

(* which property a step's deliveries are judged under *)
PropOf(e) ==
  CASE e.op \in {"chat", "invitenew", "invite", "reject", "join", "leave", "subject"} -> "C12"
    [] e.op \in {"connect", "dial", "handshake", "kick", "banadd", "wait", "expire", "restart"} -> "C17"
    [] e.op = "login" /\ ~PwMatches(e) -> "C04"
    [] e.op \in {"loginbegin", "loginend"} -> "C04"
    [] e.op = "chatstorm" -> "C12"
    [] e.op = "banstorm" -> "C17"
    [] e.op = "rawfail" -> "C04"
    [] OTHER -> "C13"

Report(kind, prop, e, extra) ==
  PrintT(kind \o " " \o ToJson([prop |-> prop, run |-> e.run, line |-> l, op |-> e.op, step |-> e, detail |-> extra]))

Init == /\ l = 1 /\ seen = {}
        /\ InitWith(<<>>, <<>>)

World ==
  LET e == Log[l] IN
  /\ e.op = "world"
  /\ accts' = AcctsOf(e)
  /\ agreement' = e.agreement
  /\ conn' = [c \in Conns |-> FreeConn]
  /\ chats' = <<>> /\ bans' = <<>> /\ out' = <<>>
  /\ seen' = seen

OnceOK(prop, e) == <<e.run, prop>> \notin seen

StepEv ==
  LET e == Fix(Log[l])
      p == PropOf(e)
  IN
  /\ e.op # "world"
  /\ IF ~Guard(e)
       THEN /\ (OnceOK("drift", e) => Report("DRIFT", p, e, "step not enabled in the model"))
            /\ seen' = seen \cup {<<e.run, "drift">>}
            /\ UNCHANGED vars
       ELSE /\ Apply(e)
            /\ LET dupId == e.op \in {"login", "loginend"} /\ conn'[e.c].ph = "in" /\ \E d \in Live : conn[d].id = e.id
                   vis == Observable(out')
                   okDeliv == IF e.op = "kick" THEN SameSet(vis, e.deliv) ELSE SameBag(vis, e.deliv)
                   okStorm == /\ (e.op = "chatstorm" => \A k \in DOMAIN e.counts : e.counts[k][3] = (IF e.counts[k][2] = "perm" THEN 1 ELSE 0))
                              /\ (e.op = "banstorm" => e.loadOK /\ SeqToSet(e.refused) = SeqToSet(e.banned))
                   okBan == (e.op = "kick" /\ bans' # bans) => ((IF conn[e.target].addr \in DOMAIN bans' THEN bans'[conn[e.target].addr] ELSE "none") = e.bancls)
                   okClosed == SeqToSet(e.closed) = {c \in Conns : conn[c].ph # "closed" /\ conn'[c].ph = "closed"}
                   okState == e.op = "rawfail" => ~e.stateChanged
                   okChurn == e.op = "churn" => Len(e.dup) = 0
                   (* C04 "that account's current password": what the stored credentials accept (e.matches, computed
                      by the harness from the account file) is what the history made the account's password (the
                      model's accts[..].pw: the initial one or the last one set through the protocol).  Not judged
                      for the account whose stored hash is deliberately unusable. *)
                   okCred == (e.op \in {"login", "loginbegin"} /\ "matches" \in DOMAIN e /\ "pw" \in DOMAIN e /\ "login" \in DOMAIN e /\ LoginName(e) \in DOMAIN accts /\ LoginName(e) # "brk")
                               => (e.matches = (accts[LoginName(e)].pw = e.pw))
                   unsettled == "unsettled" \in DOMAIN e
                   pp == IF dupId THEN "C13" ELSE IF ~okCred THEN "C04" ELSE p
                   bad == ~okDeliv \/ dupId \/ ~okClosed \/ ~okBan \/ ~okState \/ ~okChurn \/ ~okStorm \/ ~okCred
               IN /\ (unsettled /\ ~dupId => Report("DRIFT", p, e, "a connection did not answer its keep-alive"))
                  /\ (bad /\ OnceOK(pp, e) =>
                        Report("VIOL", pp, e,
                               [expected |-> out', dupId |-> dupId, okDeliv |-> okDeliv, okClosed |-> okClosed,
                                okBan |-> okBan, okState |-> okState, okChurn |-> okChurn, okStorm |-> okStorm, okCred |-> okCred,
                                expClosed |-> {c \in Conns : conn[c].ph # "closed" /\ conn'[c].ph = "closed"}]))
                  /\ seen' = IF bad THEN seen \cup {<<e.run, pp>>} ELSE seen

Next == /\ l <= Len(Log)
        /\ (World \/ StepEv)
        /\ l' = l + 1
        /\ TLCSet(1, l')

Consumed == TLCGet(1) = Len(Log) + 1
=============================================================================
