CONSTANTS
  Deviations = {}
  Level = "full"
  MaxSteps = 0
  GenDepth = 0
  Thin = TRUE
INIT Init07
NEXT Next07
ACTION_CONSTRAINT Emit07
INVARIANTS Contained07 CleanStaysInside
CHECK_DEADLOCK FALSE
