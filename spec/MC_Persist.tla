----------------------------- MODULE MC_Persist -----------------------------
(* Bounded instance of Persist.
   MC_Persist.cfg       Variant = "intended": every update kind runs its protocol, TLC composes Crash before every call
                        and inside every write (prefix classes empty / part), Recover, Resume and further updates and
                        crashes: CrashSafe and AckedNeverLost hold.
   MC_Persist_neg*.cfg  negative controls (expected to FAIL, used by the self-test of the check only):
                        "inplace"  truncate-in-place / O_EXCL-create-then-write,
                        "pinned"   the protocols of the tree before the fixes eaf8dfc 39daf4c ac31556 8a33603
                                   (DESIGN appendix A.3),
                        "ackearly" the reply is sent before the rename,
                        "linked"   account creation by temp + link(2) + unlink temp: with two crashes a leftover
                                   hard link lets the next update's O_TRUNC open of the temp name empty the account file,
                        "excltemp" the fixed temp name is created with O_EXCL: a temp file left by a kill makes every later
                                   save fail, while handlers such as HandleDisconnectUser acknowledge anyway,
                        hygiene    (Variant intended, invariant Hygiene) a crash inside an account rename leaves the
                                   complete old account under the new file name.
   Gen_Persist.cfg      simulation without crashes: the sequence of updates of a walk is emitted as a script that
                        vh-persistd performs on the real stores. *)
EXTENDS Persist, Json

CONSTANTS Logins, IPs, Names,   \* universes of account logins, banned addresses, news item names
          MaxUpdates, MaxCrashes,
          Kinds,                \* update kinds enabled
          GenDepth              \* script length for generation (99 = off)

VARIABLES started,   \* updates started so far (also the source of fresh payload numbers)
          crashes,
          world,     \* which initial world
          hist       \* the updates started, in order (the script)

mcvars == <<vars, started, crashes, world, hist>>

(* two initial worlds: a minimal one (no ban file yet) and a populated one (empty board file, bans, a category) *)
Worlds == {
  [board |-> <<0>>, bansfile |-> FALSE, bans |-> {}, accts |-> {<<"a", 0>>}, cats |-> {}, arts |-> {}],
  [board |-> << >>, bansfile |-> TRUE, bans |-> {<<"1.1.1.1", 0>>}, accts |-> {<<"a", 0>>, <<"b", 0>>},
   cats |-> {<< <<"n1">>, 3 >>}, arts |-> {<< <<"n1">>, 1, 0 >>}] }

ValOf(w) == [board |-> w.board, news |-> [cats |-> w.cats, arts |-> w.arts], accts |-> w.accts, bans |-> w.bans]

(* the files of a world: inode numbers are assigned in a fixed order *)
FilesOf(w) ==
  LET single == {<<F("board", "-"), w.board>>, <<F("news", "-"), [cats |-> w.cats, arts |-> w.arts]>>}
                \cup (IF w.bansfile THEN {<<F("bans", "-"), w.bans>>} ELSE {})
      accs == {<<F("accts", a[1]), a>> : a \in w.accts}
  IN single \cup accs

RECURSIVE Number(_, _)
Number(S, n) == IF S = {} THEN << >>
                ELSE LET x == CHOOSE y \in S : TRUE IN (x[1] :> n) @@ Number(S \ {x}, n + 1)

Init ==
  \E w \in Worlds :
    LET fs == FilesOf(w)
        num == Number(fs, 1)
    IN /\ world = w
       /\ dir = num
       /\ ino = [i \in {num[p] : p \in DOMAIN num} |->
                   LET x == CHOOSE y \in fs : num[y[1]] = i IN
                   IF x[1].st = "board" /\ x[2] = << >> THEN << >> ELSE Whole(x[2])]
       /\ fds = << >>
       /\ val = ValOf(w)
       /\ acked = ValOf(w)
       /\ inflight = None
       /\ phase = "run"
       /\ loaded = [st \in Stores |-> Res("ok", Zero(st))]
       /\ started = 0 /\ crashes = 0 /\ hist = << >>

Fresh == started + 1

Bundles(v) == {c[1] : c \in {x \in v.cats : x[2] = 2}}
Categories(v) == {c[1] : c \in {x \in v.cats : x[2] = 3}}

Updates ==
  LET n == Fresh IN
  {[kind |-> "board_post", p |-> n]}
  \cup {[kind |-> "ban_add", ip |-> ip, t |-> t] : ip \in IPs, t \in {0, n}}
  \cup {[kind |-> k, login |-> l, r |-> n] : k \in {"acct_create", "acct_update"}, l \in Logins}
  \cup {[kind |-> "acct_rename", login |-> l, to |-> m, r |-> n] : l \in Logins, m \in Logins}
  \cup {[kind |-> "acct_delete", login |-> l] : l \in Logins}
  \cup {[kind |-> "news_cat", path |-> p, name |-> nm, type |-> t] : p \in {<< >>} \cup Bundles(val.news), nm \in Names, t \in {2, 3}}
  \cup {[kind |-> "news_post", path |-> p, parent |-> q, r |-> n] : p \in Categories(val.news), q \in {0, 1}}
  \cup {[kind |-> "news_delart", path |-> p, id |-> i] : p \in Categories(val.news), i \in {1, 2}}
  \cup {[kind |-> "news_delitem", path |-> p] : p \in Keys(val.news.cats)}

Enabled(u) == u.kind \in Kinds /\ Pre(u, val[StoreOf(u)])
              /\ (u.kind = "news_cat" => Len(u.path) < 2)

NextStart == /\ started < MaxUpdates
             /\ \E u \in {x \in Updates : Enabled(x)} :
                  /\ Start(u)
                  /\ started' = started + 1
                  /\ hist' = Append(hist, u)
                  /\ UNCHANGED <<crashes, world>>

NextSys == \E k \in (IF crashes < MaxCrashes THEN {"whole", "part", "empty"} ELSE {"whole"}) :
             StepSys(k) /\ UNCHANGED <<started, crashes, world, hist>>

NextFinish == Finish /\ UNCHANGED <<started, crashes, world, hist>>
NextFail == Fail /\ UNCHANGED <<started, crashes, world, hist>>      \* unreachable with the intended protocols

NextCrash == /\ crashes < MaxCrashes \/ phase = "cut"
             /\ Crash
             /\ crashes' = crashes + 1
             /\ UNCHANGED <<started, world, hist>>

NextRecover == Recover /\ UNCHANGED <<started, crashes, world, hist>>
(* Account files are keyed by the Login inside them.  A crash between the rename and the rewrite of an account rename
   recovers to the complete old value held under the new file name; C20 is satisfied, but the next update of that
   login would create a second file for it.  That aftermath is outside C20's statement: the model does not continue
   from such a recovery (MC_Persist_neg_hygiene.cfg shows that it is reachable). *)
NamesMatch == \A p \in DOMAIN dir : (p.st = "accts" /\ p.role = "final" /\ FState(p) = "whole") => FVal(p)[1] = p.key
Hygiene == phase = "up" => NamesMatch
NextResume == NamesMatch /\ Resume /\ UNCHANGED <<started, crashes, world, hist>>

Next == NextStart \/ NextSys \/ NextFinish \/ NextFail \/ NextCrash \/ NextRecover \/ NextResume

Spec == Init /\ [][Next]_mcvars

View == <<dir, ino, fds, val, acked, inflight, phase, loaded, started, crashes>>

(* sanity of the model itself: while the server runs, every store's files hold what the server believes, except the
   store of the update in flight *)
DiskMatchesMemory ==
  (phase = "run" /\ inflight.kind = "none") => \A st \in Stores : Load(st) = Res("ok", val[st])

(* script emission (simulation): print the walk when it has started GenDepth updates *)
Sym(w) == [board |-> w.board, bansfile |-> w.bansfile, bans |-> w.bans, accts |-> w.accts, cats |-> w.cats, arts |-> w.arts]
Emit == (Len(hist') = GenDepth /\ Len(hist) < GenDepth) => PrintT("B " \o ToJson([world |-> Sym(world), steps |-> hist']))
=============================================================================
