------------------------------ MODULE MC_Outbox ------------------------------
(* Bounded instances of Outbox.  MC_Outbox.cfg (Atomic = TRUE): WholeFrames is an invariant of the intended
   design for every interleaving of the senders.  Gen_Outbox.cfg (Atomic = FALSE): no invariant; TLC enumerates
   every interleaving of the chunked, lock-free writer and emits each complete one as a schedule for the harness
   (sizes are abstract: Chunk = 2 stands for the 32 KiB copy buffer). *)
EXTENDS Outbox, Json

CONSTANTS Sizes   \* the set of abstract transaction sizes used

VARIABLES hist

T == [i \in 1..3 |-> 1]   \* overwritten per initial state below

Init == /\ \E a, b, c \in Sizes : InitWith(<<a, b, c>>)
        /\ hist = <<>>

Next == \E i \in Ids : Write(i) /\ hist' = Append(hist, i)

Spec == Init /\ [][Next]_<<ovars, hist>>

View == <<txs, off, lock, wire>>
Emit == AllSent' => PrintT("B " \o ToJson([sizes |-> txs, order |-> hist']))
=============================================================================
