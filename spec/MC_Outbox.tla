------------------------------ MODULE MC_Outbox ------------------------------
(* Bounded instances of Outbox.  MC_Outbox.cfg (Atomic = TRUE): WholeFrames is an invariant of the intended
   design for every interleaving of the senders.  Gen_Outbox.cfg (Atomic = FALSE): no invariant; TLC enumerates
   every interleaving of the chunked, lock-free writer and emits each complete one as a schedule for the harness
   (sizes are abstract: Chunk = 2 stands for the 32 KiB copy buffer). *)
EXTENDS Outbox, Json

CONSTANTS Sizes   \* the set of abstract transaction sizes used

VARIABLES hist

T == [i \in 1..3 |-> 1]   \* overwritten per initial state below

Init == /\ \E a, b, c \in Sizes : InitWith(<<a, b, c>>)
        /\ hist = <<>>

Next == \E i \in Ids : Write(i) /\ hist' = Append(hist, i)

Spec == Init /\ [][Next]_<<ovars, hist>>

View == <<txs, off, lock, wire>>

(* ---- the reply ledger over every request type (C14: "at most one reply per request, to that connection") ------ *)
(* every transaction type a logged-in client may send, in five argument classes: typical well-formed arguments,
   no fields at all, targets that do not exist, names that exist already (or are aliases of existing ones after
   path normalisation), every field cut to one byte.  vh-outbox sweep issues them one after the other on one
   privileged connection next to two bystanders and records each connection's ledger. *)
LedgerTypes == {101, 103, 105, 108, 110, 112, 113, 114, 115, 116, 120, 121,
                200, 202, 203, 204, 205, 206, 207, 208, 209, 210, 212, 213,
                300, 303, 304, 348, 349, 350, 351, 352, 353, 355,
                370, 371, 380, 381, 382, 400, 410, 411, 500}
LedgerVariants == {"ok", "empty", "absent", "exists", "short", "long"}   \* long: every text-like field carries 300 or 9000 bytes with CR LF inside
LedgerCases == {[type |-> t, variant |-> v] : t \in LedgerTypes, v \in LedgerVariants}
(* (emitted by Gen_OutboxLedger: TLC evaluates constant definitions eagerly, so the printing operator lives there) *)
Emit == AllSent' => PrintT("B " \o ToJson([sizes |-> txs, order |-> hist']))
=============================================================================
