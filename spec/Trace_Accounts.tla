--------------------------- MODULE Trace_Accounts ---------------------------
(* Trace validation of C15: consumes log.ndjson recorded by `vh-accounts` from the real server.  A "world" line
   starts a run (a fresh server whose account directory holds the listed accounts: the model map is reset); every
   other line is one step (the arguments that were really sent) followed by what the real server showed AFTER it:
     reply  - ok | err | none | closed : how the administrator's request was answered
     can    - [login, pw, ok]: result of a real login attempt on a fresh connection, for the script's logins x passwords
     list   - [cls, recs]: the list-users reply, recs = [login, name, acc, haspw, wf]
     files  - the account directory parsed independently: [file, login, name, acc, accfmt, pwkind, ver, bad]
              (ver: which of the passwords `pws` - the script's and the administrator's - the stored bcrypt hash verifies); files2: the same after a
              second manager has been constructed from the directory
     reload - [ok, recs]: the account map of that second manager: [login, name, acc, pwkind, ver]
     got    - (getuser) the account shown
   The step is applied to the model by the operators of Accounts; all four views must then equal the views derived
   from the model's single map.  A difference is what the property statement forbids: one "VIOL {...}" line per
   run (the first step at which a view differs; later steps of that run are consumed without judging because
   model and server are no longer in the same state).  The answer class of a request is not constrained by the
   statement: a difference there is "DRIFT".  Acceptance: every line consumed. *)
EXTENDS Accounts, Json

VARIABLES l,       \* next line of the log
          bad,     \* runs already reported with VIOL
          drifted  \* runs already reported with DRIFT

Log == ndJsonDeserialize("log.ndjson")

tvars == <<vars, l, bad, drifted>>

ToSet(sq) == {sq[i] : i \in DOMAIN sq}

MapOf(sq) == [lg \in {sq[i].login : i \in DOMAIN sq} |->
                LET i == CHOOSE j \in DOMAIN sq : sq[j].login = lg
                IN [name |-> sq[i].name, pw |-> sq[i].pw, acc |-> ToSet(sq[i].acc)]]

FixSub(u) == IF "acc" \in DOMAIN u THEN [u EXCEPT !.acc = ToSet(u.acc)] ELSE u
Fix(e) == IF e.op \in {"newuser", "setuser"} /\ "acc" \in DOMAIN e THEN [e EXCEPT !.acc = ToSet(e.acc)]
          ELSE IF e.op = "update" /\ "subs" \in DOMAIN e THEN [e EXCEPT !.subs = [i \in DOMAIN e.subs |-> FixSub(e.subs[i])]]
          ELSE e

(* ---- differences between an observed view and the model map m: sets of class names ------------------------- *)
CanDiff(m, can) ==
  {IF c.ok THEN (IF c.login \in DOMAIN m THEN "wrong-password-accepted" ELSE "extra") ELSE "missing" :
     c \in {c \in ToSet(can) : c.ok # CanLoginIn(m, c.login, c.pw)}}

RecOK(m, r) == /\ r.login \in DOMAIN m /\ r.name = m[r.login].name /\ ToSet(r.acc) = m[r.login].acc

ListDiff(m, lst) ==
  IF lst.cls # "ok" THEN {"no-reply"}
  ELSE LET recs == lst.recs
           logins == {recs[i].login : i \in DOMAIN recs}
       IN (IF \E i \in DOMAIN recs : ~recs[i].wf THEN {"malformed"} ELSE {})
          \cup (IF Cardinality(logins) # Len(recs) THEN {"duplicate"} ELSE {})
          \cup (IF logins \ DOMAIN m # {} THEN {"extra"} ELSE {})
          \cup (IF DOMAIN m \ logins # {} THEN {"missing"} ELSE {})
          \cup (IF \E i \in DOMAIN recs : recs[i].login \in DOMAIN m
                      /\ ~(RecOK(m, recs[i]) /\ recs[i].haspw = ~SamePw(m[recs[i].login].pw, <<>>)) THEN {"differs"} ELSE {})

Verifies(m, lg, pws) == {p \in ToSet(pws) : SamePw(p, m[lg].pw)}

FilesDiff(m, recs, pws) ==
  LET logins == {recs[i].login : i \in DOMAIN recs} IN
  (IF \E i \in DOMAIN recs : recs[i].bad THEN {"unparsable"} ELSE {})
  \cup (IF \E i \in DOMAIN recs : ~recs[i].bad /\ recs[i].file # recs[i].login \o Ext THEN {"file-name"} ELSE {})
  \cup (IF Cardinality(logins) # Len(recs) THEN {"duplicate"} ELSE {})
  \cup (IF \E i \in DOMAIN recs : ~recs[i].bad /\ recs[i].login \notin DOMAIN m THEN {"extra"} ELSE {})
  \cup (IF DOMAIN m \ logins # {} THEN {"missing"} ELSE {})
  \cup (IF \E i \in DOMAIN recs : ~recs[i].bad /\ recs[i].login \in DOMAIN m /\ ~RecOK(m, recs[i]) THEN {"differs"} ELSE {})
  \cup (IF \E i \in DOMAIN recs : ~recs[i].bad /\ recs[i].pwkind = "clear" THEN {"clear-text-password"} ELSE {})
  \cup (IF \E i \in DOMAIN recs : ~recs[i].bad /\ recs[i].pwkind \notin {"clear", "bcrypt"} THEN {"not-a-hash"} ELSE {})
  \cup (IF \E i \in DOMAIN recs : ~recs[i].bad /\ recs[i].login \in DOMAIN m /\ recs[i].pwkind = "bcrypt"
              /\ ToSet(recs[i].ver) # Verifies(m, recs[i].login, pws) THEN {"password"} ELSE {})

ReloadDiff(m, rl, pws) ==
  IF ~rl.ok THEN {"load-fails"}
  ELSE LET recs == rl.recs
           logins == {recs[i].login : i \in DOMAIN recs}
       IN (IF Cardinality(logins) # Len(recs) THEN {"duplicate"} ELSE {})
          \cup (IF logins \ DOMAIN m # {} THEN {"extra"} ELSE {})
          \cup (IF DOMAIN m \ logins # {} THEN {"missing"} ELSE {})
          \cup (IF \E i \in DOMAIN recs : recs[i].login \in DOMAIN m /\ ~RecOK(m, recs[i]) THEN {"differs"} ELSE {})
          \cup (IF \E i \in DOMAIN recs : recs[i].login \in DOMAIN m
                      /\ (recs[i].pwkind # "bcrypt" \/ ToSet(recs[i].ver) # Verifies(m, recs[i].login, pws)) THEN {"password"} ELSE {})

(* get-user: the account shown is the model's (found or not, name, privileges); the password is never shown in clear *)
GotDiff(e, o) ==
  IF e.op # "getuser" THEN {}
  ELSE (IF (e.reply = "ok") # (o.reply = "ok") THEN {IF e.reply = "ok" THEN "extra" ELSE "missing"} ELSE {})
       \cup (IF e.reply = "ok" /\ o.reply = "ok"
                 /\ ~(e.got.login = o.got.login /\ e.got.name = o.got.name /\ ToSet(e.got.acc) = o.got.acc) THEN {"differs"} ELSE {})
       \cup (IF e.reply = "ok" /\ e.got.pwkind = "clear" THEN {"clear-text-password"} ELSE {})

(* the login step itself is a login attempt: judged like the matrix *)
LoginDiff(e, o) == IF e.op = "login" /\ e.reply # o.reply
                     THEN {IF e.reply = "ok" THEN "accepted" ELSE "refused"} ELSE {}

Diffs(m, e, o) == [can |-> CanDiff(m, e.can) \cup LoginDiff(e, o), list |-> ListDiff(m, e.list), files |-> FilesDiff(m, e.files, e.pws),
                   files2 |-> FilesDiff(m, e.files2, e.pws), reload |-> ReloadDiff(m, e.reload, e.pws), got |-> GotDiff(e, o),
                   round |-> {}]
Clean(d) == d.can = {} /\ d.list = {} /\ d.files = {} /\ d.files2 = {} /\ d.reload = {} /\ d.got = {} /\ d.round = {}

(* ---- concurrent rounds ("storm" lines): reqs = the requests K administrators fired at the same moment, then the
   four views at quiescence.  The outcome depends on the interleaving, so the model does not predict it: the account
   map is READ from the reloaded-manager view (an account's password = the one password of the round's pool its
   hash verifies), all four views must show that same map (they agree with each other) and the map must satisfy
   Accounts!RoundFacts relative to the map before the round; the model then continues from it. *)
ObsPw(r) == IF r.pwkind = "bcrypt" /\ Len(r.ver) = 1 THEN r.ver[1] ELSE <<0, 0, 0, 0>>   \* (no password of any script)
ObsMap(rl) == [lg \in {rl.recs[i].login : i \in DOMAIN rl.recs} |->
                 LET i == CHOOSE j \in DOMAIN rl.recs : rl.recs[j].login = lg
                 IN [name |-> rl.recs[i].name, pw |-> ObsPw(rl.recs[i]), acc |-> ToSet(rl.recs[i].acc)]]
FixReq(q) == IF "acc" \in DOMAIN q THEN [q EXCEPT !.acc = ToSet(q.acc)] ELSE q

ModelRecs(m) == {[login |-> lg, name |-> m[lg].name, pw |-> m[lg].pw, acc |-> m[lg].acc] : lg \in DOMAIN m}

(* which rename sub-operations the model carries out as real renames (old exists at that point, old # new) *)
EffRen(m, subs) == {i \in DOMAIN subs :
                      LET before == RunSubs(m, SubSeq(subs, 1, i - 1)) IN
                      subs[i].k = "ren" /\ before.stop = "" /\ subs[i].old \in DOMAIN before.m /\ subs[i].old # subs[i].login}

Report(kind, e, extra) ==
  PrintT(kind \o " " \o ToJson([prop |-> "C15", run |-> e.run, line |-> l, op |-> e.op, step |-> e, detail |-> extra]))

Init == /\ l = 1 /\ bad = {} /\ drifted = {}
        /\ InitWith(<<>>)

World ==
  LET e == Log[l]
      m == MapOf(e.accts)
      d == Diffs(m, e, Out("ok"))
  IN
  /\ e.op = "world"
  /\ mem' = m /\ out' = Out("ok")
  /\ UNCHANGED bad
  (* the initial views are the harness's own set-up: a difference is not a verdict about the server *)
  /\ IF Clean(d) THEN UNCHANGED drifted
     ELSE /\ Report("DRIFT", e, [what |-> "initial views differ from the planted accounts", diffs |-> d])
          /\ drifted' = drifted \cup {e.run}

StepEv ==
  LET e == Fix(Log[l]) IN
  /\ e.op \notin {"world", "storm"}
  /\ IF ~Guard(e)
       THEN /\ (e.run \notin drifted => Report("DRIFT", e, [what |-> "step not well-formed for the model"]))
            /\ drifted' = drifted \cup {e.run}
            /\ UNCHANGED <<vars, bad>>
       ELSE /\ Apply(e)
            /\ IF e.run \in bad THEN UNCHANGED <<bad, drifted>>
               ELSE LET d == Diffs(mem', e, out')
                        effren == IF e.op = "update" THEN EffRen(mem, e.subs) ELSE {}
                    IN IF ~Clean(d)
                         THEN /\ Report("VIOL", e, [diffs |-> d, expected |-> ModelRecs(mem'), before |-> ModelRecs(mem),
                                                    effren |-> effren, expReply |-> out'.reply])
                              /\ bad' = bad \cup {e.run}
                              /\ UNCHANGED drifted
                         ELSE /\ UNCHANGED bad
                              /\ IF e.reply # out'.reply /\ e.run \notin drifted
                                   THEN /\ Report("DRIFT", e, [what |-> "answer class differs", expReply |-> out'.reply])
                                        /\ drifted' = drifted \cup {e.run}
                                   ELSE UNCHANGED drifted

StormEv ==
  LET e == Log[l]
      reqs == [i \in DOMAIN e.reqs |-> FixReq(e.reqs[i])]
      obs == ObsMap(e.reload)
  IN
  /\ e.op = "storm"
  /\ out' = Out("ok")
  /\ IF \E i \in DOMAIN reqs : ~IsReq(reqs[i])
       THEN /\ (e.run \notin drifted => Report("DRIFT", e, [what |-> "round request not well-formed for the model"]))
            /\ drifted' = drifted \cup {e.run}
            /\ UNCHANGED <<mem, bad>>
       ELSE /\ mem' = obs
            /\ UNCHANGED drifted
            /\ IF e.run \in bad THEN UNCHANGED bad
               ELSE LET d == [Diffs(obs, e, Out("ok")) EXCEPT !.round = RoundFacts(mem, reqs, obs)] IN
                    IF Clean(d) THEN UNCHANGED bad
                    ELSE /\ Report("VIOL", e, [diffs |-> d, expected |-> ModelRecs(obs), before |-> ModelRecs(mem),
                                               effren |-> {}, expReply |-> "any"])
                         /\ bad' = bad \cup {e.run}

Next == /\ l <= Len(Log)
        /\ (World \/ StepEv \/ StormEv)
        /\ l' = l + 1
        /\ TLCSet(1, l')

Consumed == TLCGet(1) = Len(Log) + 1
=============================================================================
