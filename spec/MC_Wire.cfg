CONSTANTS
  Kinds = {"field","txn","user","account","fnwi","infofork","ffo","resume","fileheader","nald","newsartlist","newscat15","trackerreg","time","handshake","preamble","int","filepath","newspath","serverrecord","listing","flatfile","obfstr"}
  Bufs = {1,2,3,7,40000}
  Bufs2 = {40000}
  Modes = {0}
  Long = FALSE
  BSizes = {}
  Track = FALSE
INIT Init
NEXT Next
INVARIANTS TypeOK EmittedIsPrefix Emitted2IsPrefix EofMeansAll LenPrefixInv BufferIndependence PrefixComparable
CHECK_DEADLOCK FALSE
