CONSTANTS
  Kinds = {"field","user","newscat15","fileheader"}
  Bufs = {1,3,40000}
  Bufs2 = {2,40000}
  Modes = {0}
  Long = FALSE
  BSizes = {}
  Track = FALSE
SPECIFICATION FairSpec
PROPERTIES BothTerminate Terminates
CHECK_DEADLOCK FALSE
