------------------------------- MODULE Stream -------------------------------
(***************************************************************************)
(* C02 - segmentation-independent parsing of client byte streams.          *)
(*                                                                         *)
(* A well-formed client byte stream is a sequence of FRAMES (protocol      *)
(* document): on the control connection the 12-byte handshake H, the login *)
(* transaction L and further transactions T (20-byte header + body); on a  *)
(* transfer connection the 16-byte preamble P and, for uploads, the        *)
(* flattened file object: FILP header (24), INFO fork header (16), info    *)
(* fork, DATA fork header (16), data bytes, optionally MACR fork header    *)
(* (16) + resource bytes; folder uploads add item headers ITEMD / ITEMF    *)
(* and a 4-byte size FSIZE before every file.                              *)
(*                                                                         *)
(* TCP hands the server the stream in SEGMENTS of arbitrary size >= 1      *)
(* (Deliver(k)); the server takes whole frames out of what has arrived     *)
(* (Consume, one UNIT at a time: a frame, or - for the byte-granular fork  *)
(* contents, g = TRUE - one byte) and, when nothing complete is left,      *)
(* calls Read again (AskMore - the only thing about its progress that is   *)
(* observable from outside besides its effects).                           *)
(*                                                                         *)
(* SegmentationIndependent: whenever the server asks for more, what it has *)
(* processed is exactly what is complete within the bytes delivered so far *)
(* (never early, never withheld), so the sequence of events is a function  *)
(* of the delivered byte COUNT only (EventsOf) and not of where the        *)
(* segments ended; the server never abandons a well-formed stream; at the  *)
(* end of the stream everything has been processed.                        *)
(*                                                                         *)
(* Mode = "readfull" is the specification.  Mode = "onecall" describes the *)
(* mechanism of hotline.performHandshake / handleFileTransfer in the       *)
(* pinned tree (io.CopyN into a Write method that insists on getting the   *)
(* whole record in one call): a segment that ends strictly inside an       *)
(* `atomic` frame makes the server give up.  MC_Stream_onecall.cfg shows   *)
(* that TLC refutes SegmentationIndependent for that mechanism.            *)
(***************************************************************************)
EXTENDS Integers, Sequences, FiniteSets, TLC

CONSTANT Mode       \* "readfull" | "onecall"

VARIABLES frames,     \* sequence of [k, n, g, s, ...]: kind, length, byte-granular, start offset
          delivered,  \* bytes handed to the server so far
          consumed,   \* units processed so far
          events,     \* what the server has done: sequence of [f, k, got] (frame index, kind, units of it)
          asked,      \* the server is waiting in Read
          dead        \* the server has given up on the connection

vars == <<frames, delivered, consumed, events, asked, dead>>

(* ---- arithmetic over the frame sequence ---------------------------------- *)
(* Frames carry their start offset s (added once by InitWith / WithStarts) so that all of this is O(1) per frame. *)
RECURSIVE AddStarts(_, _, _)
AddStarts(fs, i, s) == IF i > Len(fs) THEN <<>>
                       ELSE <<fs[i] @@ [s |-> s]>> \o AddStarts(fs, i + 1, s + fs[i].n)
WithStarts(fs) == AddStarts(fs, 1, 0)

StartOf(fs, i) == fs[i].s
EndOf(fs, i) == IF i = 0 THEN 0 ELSE fs[i].s + fs[i].n
TotalOf(fs) == EndOf(fs, Len(fs))
Total == TotalOf(frames)
Start(i) == StartOf(frames, i)
End(i) == EndOf(frames, i)

Clamp(x, lo, hi) == IF x < lo THEN lo ELSE IF x > hi THEN hi ELSE x

(* units of frame i that are complete within the first d bytes of the stream *)
ProgOf(fs, i, d) == IF fs[i].g THEN Clamp(d - fs[i].s, 0, fs[i].n)
                    ELSE IF d >= fs[i].s + fs[i].n THEN 1 ELSE 0
Prog(i, d) == ProgOf(frames, i, d)

UnitsOf(fs, i) == IF fs[i].g THEN fs[i].n ELSE 1

RECURSIVE UnitsFrom(_, _, _)
UnitsFrom(fs, i, d) == IF i > Len(fs) \/ fs[i].s > d THEN 0 ELSE ProgOf(fs, i, d) + UnitsFrom(fs, i + 1, d)

UnitsWithinOf(fs, d) == UnitsFrom(fs, 1, d)
UnitsWithin(d) == UnitsWithinOf(frames, d)

(* the event sequence as a function of the delivered byte count: the frames touched, in order, with progress *)
EventsOfIn(fs, d) == SelectSeq([i \in DOMAIN fs |-> [f |-> i, k |-> fs[i].k, got |-> ProgOf(fs, i, d)]],
                               LAMBDA x : x.got > 0)
EventsOf(d) == EventsOfIn(frames, d)

(* the frame that owns unit number u (1-based) *)
RECURSIVE FrameOfUnit(_, _, _)
FrameOfUnit(fs, i, u) == IF u <= UnitsOf(fs, i) THEN i ELSE FrameOfUnit(fs, i + 1, u - UnitsOf(fs, i))

(* fixed-size records read through a one-call Write in the pinned tree *)
Atomic(fr) == fr.k \in {"H", "P"}

(* a segment boundary at byte d falls strictly inside an atomic frame *)
SplitsAtomic(fs, d) == \E i \in DOMAIN fs : Atomic(fs[i]) /\ StartOf(fs, i) < d /\ d < EndOf(fs, i)

(* ---- actions -------------------------------------------------------------- *)
InitWith(fs) ==
  /\ frames = WithStarts(fs)
  /\ delivered = 0 /\ consumed = 0 /\ events = <<>>
  /\ asked = TRUE        \* the handler starts by reading
  /\ dead = FALSE

(* a TCP segment of k >= 1 bytes arrives and is returned by the pending Read *)
Deliver(k) ==
  /\ asked /\ ~dead
  /\ k >= 1 /\ delivered + k <= Total
  /\ delivered' = delivered + k
  /\ asked' = FALSE
  /\ dead' = (Mode = "onecall" /\ SplitsAtomic(frames, delivered + k))
  /\ UNCHANGED <<frames, consumed, events>>

(* the server takes the next complete unit out of what has arrived *)
Consume ==
  /\ ~asked /\ ~dead
  /\ consumed < UnitsWithin(delivered)
  /\ LET i == FrameOfUnit(frames, 1, consumed + 1)
         n == Len(events)
     IN events' = IF n > 0 /\ events[n].f = i
                    THEN [events EXCEPT ![n].got = @ + 1]
                    ELSE Append(events, [f |-> i, k |-> frames[i].k, got |-> 1])
  /\ consumed' = consumed + 1
  /\ UNCHANGED <<frames, delivered, asked, dead>>

(* nothing complete is left: the server calls Read again *)
AskMore ==
  /\ ~asked /\ ~dead
  /\ consumed = UnitsWithin(delivered)
  /\ asked' = TRUE
  /\ UNCHANGED <<frames, delivered, consumed, events, dead>>

Next == (\E k \in 1..(Total - delivered) : Deliver(k)) \/ Consume \/ AskMore

(* The three actions folded into one step, as a trace observes them: between two Read calls the server got the
   bytes up to d and did everything they allow.  MC_Stream checks that every `asked` state of the fine-grained
   model is exactly such a state (EagerAtAsk, EventsAreFunctionOfCount), which justifies the fold. *)
RECURSIVE SumGotAll(_, _)
SumGotAll(ev, j) == IF j = 0 THEN 0 ELSE ev[j].got + SumGotAll(ev, j - 1)

DeliverEagerEv(d, ev) ==      \* ev must be EventsOf(d): passed in so that a caller can share the evaluation
  /\ delivered <= d /\ d <= Total
  /\ delivered' = d
  /\ consumed' = SumGotAll(ev, Len(ev))
  /\ events' = ev
  /\ asked' = TRUE
  /\ UNCHANGED <<frames, dead>>

DeliverEager(d) == DeliverEagerEv(d, EventsOf(d))

(* The segment alone, the server's side elided: all a script generator needs of Deliver(k). *)
SegmentIn(k, tot) ==        \* tot must be Total (a generator knows it without re-adding the frame lengths)
  /\ k >= 1 /\ delivered + k <= tot
  /\ delivered' = delivered + k
  /\ UNCHANGED <<frames, consumed, events, asked, dead>>
Segment(k) == SegmentIn(k, Total)

(* ---- properties ----------------------------------------------------------- *)
NeverEarly == consumed <= UnitsWithin(delivered)
EagerAtAsk == asked => consumed = UnitsWithin(delivered)
EventsAreFunctionOfCount == /\ asked => events = EventsOf(delivered)
                            /\ \E d \in 0..delivered : events = EventsOf(d)    \* always a prefix image
NeverAbandons == ~dead
CompleteAtEnd == (asked /\ delivered = Total) => (consumed = UnitsWithin(Total) /\ events = EventsOf(Total))

SegmentationIndependent ==
  NeverEarly /\ EagerAtAsk /\ EventsAreFunctionOfCount /\ NeverAbandons /\ CompleteAtEnd

(* events only ever change by Consume: appended to, in frame order; a segment by itself does nothing *)
EventsGrowInOrder ==
  [][\/ events' = events
     \/ /\ delivered' = delivered
        /\ consumed' = consumed + 1
        /\ Len(events') >= Len(events)
        /\ \A j \in 1..(Len(events') - 1) : events'[j].f < events'[j + 1].f]_vars
=============================================================================
