CONSTANTS
  Mode = "readfull"
INIT Init
NEXT TraceNext
POSTCONDITION Consumed
CHECK_DEADLOCK FALSE
