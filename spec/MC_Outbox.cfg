CONSTANTS
  Chunk = 2
  Atomic = TRUE
  Sizes = {1, 2, 3, 5}
INIT Init
NEXT Next
INVARIANT WholeFrames
CHECK_DEADLOCK FALSE
