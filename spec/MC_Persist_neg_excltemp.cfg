CONSTANTS
  Variant = "excltemp"
  Logins = {"a", "b"}
  IPs = {"1.1.1.1"}
  Names = {"n1"}
  MaxUpdates = 2
  MaxCrashes = 2
  Kinds = {"board_post","ban_add","acct_create","acct_update","acct_rename","acct_delete","news_cat","news_post","news_delart","news_delitem"}
  GenDepth = 99
INIT Init
NEXT Next
VIEW View
INVARIANTS AckedNeverLost
CHECK_DEADLOCK FALSE
