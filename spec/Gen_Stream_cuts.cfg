CONSTANTS
  Mode = "readfull"
  MaxCuts = 2
  TwoCut = {"c123", "up", "down"}
  Sim = FALSE
INIT Init
NEXT GenNext
ACTION_CONSTRAINT Emit
INVARIANTS GenInv
CHECK_DEADLOCK FALSE
