----------------------------- MODULE Trace_Board -----------------------------
(* Trace validation for C19 (log recorded by vh-board).
   Schedule runs (store = "board" | "agreement"): world ; call{a,kind,n,eof}* in the order the real store saw the
   calls (released by the gate following a TLC schedule) ; reply{a,ok,posts,exact} per reader ; acked{a,ok,disk}
   per poster ; end.  A completed read must return exactly a text that was current between its Seek and its end.
   History runs (store = "hist"): sequential post / read steps (kept, newest first, format, on disk when
   acknowledged, announced to every connected user), then a free-running concurrent phase
   (concstart{text,final} ; cread / cpost in completion order). *)
EXTENDS Board, Json

VARIABLES l, final, nclients

Log == ndJsonDeserialize("log.ndjson")
tvars == <<bvars, l, final, nclients>>

SeqToSet(sq) == {sq[i] : i \in DOMAIN sq}
IsSuffix(s, t) == Len(s) <= Len(t) /\ SubSeq(t, Len(t) - Len(s) + 1, Len(t)) = s
Report(kind, e, extra) == PrintT(kind \o " " \o ToJson([prop |-> "C19", run |-> e.run, line |-> l, op |-> e.op, detail |-> extra]))

Init == /\ l = 1 /\ final = <<>> /\ nclients = 0
        /\ InitWith(<<>>)

World ==
  LET e == Log[l] IN
  /\ e.op = "world"
  /\ text' = e.init /\ versions' = <<e.init>> /\ disk' = e.init /\ cursor' = 0
  /\ st' = [a \in Actors |-> "idle"] /\ got' = [r \in Readers |-> <<>>] /\ from' = [r \in Readers |-> 1]
  /\ lockedBy' = 0 /\ final' = <<>>
  /\ nclients' = IF "clients" \in DOMAIN e THEN e.clients ELSE 0

Call ==
  LET e == Log[l] IN
  /\ e.op = "call"
  /\ CASE e.kind = "seek" /\ e.a \in Readers ->
            /\ from' = [from EXCEPT ![e.a] = Len(versions)]
            /\ UNCHANGED <<text, versions, disk>>
       [] e.kind = "write" ->
            /\ text' = <<e.a>> \o text /\ versions' = Append(versions, <<e.a>> \o text) /\ disk' = <<e.a>> \o text
            /\ UNCHANGED from
       [] OTHER -> UNCHANGED <<text, versions, disk, from>>
  /\ UNCHANGED <<cursor, st, got, lockedBy, final, nclients>>

ReplyEv ==
  LET e == Log[l]
      lo == IF e.a \in Readers THEN from[e.a] ELSE 1
      current == \E k \in lo..Len(versions) : versions[k] = e.posts
  IN
  /\ e.op = "reply"
  /\ (~(e.ok /\ e.exact /\ current) =>
        Report("VIOL", e, [sig |-> "read-not-a-current-text", actor |-> e.a, ok |-> e.ok, exact |-> e.exact, posts |-> e.posts,
                           versions |-> SubSeq(versions, lo, Len(versions))]))
  /\ UNCHANGED <<bvars, final, nclients>>

AckedEv ==
  LET e == Log[l] IN
  /\ e.op = "acked"
  /\ (~(e.ok /\ e.disk = text) => Report("VIOL", e, [sig |-> "acknowledged-post-not-on-disk", actor |-> e.a, ok |-> e.ok, disk |-> e.disk, text |-> text]))
  /\ UNCHANGED <<bvars, final, nclients>>

EndEv == Log[l].op = "end" /\ UNCHANGED <<bvars, final, nclients>>

(* "From <name> (<11-byte date>):\r\r<body>\r\r" followed by 58 underscores and "\r" (hotline.NewsTemplate) *)
FormatOK(r, name, body) ==
  LET pre == <<70, 114, 111, 109, 32>> \o name \o <<32, 40>>
      post == <<41, 58, 13, 13>> \o body \o <<13, 13>> \o [i \in 1..58 |-> 95] \o <<13>>
  IN /\ Len(r) = Len(pre) + 11 + Len(post)
     /\ SubSeq(r, 1, Len(pre)) = pre
     /\ SubSeq(r, Len(pre) + 12, Len(r)) = post

PostEv ==
  LET e == Log[l]
      t2 == <<e.a>> \o text
      okAnn == SeqToSet(e.announced) = 1..nclients
      okFmt == Len(e.rendered) = 0 \/ FormatOK(e.rendered, e.name, e.body)
      good == e.ok /\ e.disk = t2 /\ e.diskExact /\ okAnn /\ okFmt
  IN
  /\ e.op = "post"
  /\ text' = t2 /\ versions' = Append(versions, t2) /\ disk' = t2
  /\ (~good => Report("VIOL", e, [sig |-> "post-not-kept-newest-first-on-disk-announced", ok |-> e.ok, diskOK |-> (e.disk = t2),
                                 diskExact |-> e.diskExact, announced |-> okAnn, format |-> okFmt]))
  /\ UNCHANGED <<cursor, st, got, from, lockedBy, final, nclients>>

ReadEv ==
  LET e == Log[l] IN
  /\ e.op = "read"
  /\ (~(e.ok /\ e.exact /\ e.posts = text) => Report("VIOL", e, [sig |-> "read-not-the-current-text", posts |-> e.posts, text |-> text, exact |-> e.exact]))
  /\ UNCHANGED <<bvars, final, nclients>>

ConcStart ==
  LET e == Log[l] IN
  /\ e.op = "concstart"
  /\ final' = e.final
  /\ (~(e.text = text /\ IsSuffix(text, e.final) /\ e.finalExact) =>
        Report("VIOL", e, [sig |-> "concurrent-posts-not-all-kept", start |-> e.text, model |-> text, final |-> e.final, exact |-> e.finalExact]))
  /\ UNCHANGED <<bvars, nclients>>

CRead ==
  LET e == Log[l] IN
  /\ e.op = "cread"
  /\ (~(e.ok /\ e.exact /\ IsSuffix(text, e.posts) /\ IsSuffix(e.posts, final)) =>
        Report("VIOL", e, [sig |-> "concurrent-read-not-a-current-text", posts |-> e.posts, exact |-> e.exact, final |-> final]))
  /\ UNCHANGED <<bvars, final, nclients>>

CPost ==
  LET e == Log[l] IN
  /\ e.op = "cpost"
  /\ (e.ok /\ e.a \notin SeqToSet(final) => Report("VIOL", e, [sig |-> "concurrent-post-lost", a |-> e.a, final |-> final]))
  /\ UNCHANGED <<bvars, final, nclients>>

(* a post while the board file cannot be saved (the temporary file's name is occupied), then a read by another client:
   the property is silent about what becomes of that post (the code keeps it in memory), but the reader is still a
   client asking for the board - it receives a complete current text, with or without that post; a post that WAS
   acknowledged is on disk. *)
FaultPostEv ==
  LET e == Log[l]
      withA == <<e.a>> \o text
      seen == IF e.readOk /\ e.after = withA THEN withA ELSE text
  IN
  /\ e.op = "faultpost"
  /\ (~e.readOk => Report("VIOL", e, [sig |-> "board-request-unanswered-after-failed-save", post |-> e.a]))
  /\ (e.readOk /\ ~(e.exact /\ e.after \in {text, withA}) =>
        Report("VIOL", e, [sig |-> "read-not-a-current-text-after-failed-save", posts |-> e.after, text |-> text, exact |-> e.exact]))
  /\ (e.ok /\ e.diskAfter # withA => Report("VIOL", e, [sig |-> "acknowledged-post-not-on-disk", disk |-> e.diskAfter, text |-> withA]))
  /\ text' = seen /\ versions' = Append(versions, seen)
  /\ disk' = IF e.diskAfter = withA THEN withA ELSE disk
  /\ UNCHANGED <<cursor, st, got, from, lockedBy, final, nclients>>

(* the agreement shown at login before and after the operator replaced it (file + Reload): the complete current text *)
AgreementEv ==
  LET e == Log[l] IN
  /\ e.op = "agreement"
  /\ (~(e.shownBefore /\ e.beforeExact) => Report("VIOL", e, [sig |-> "agreement-not-the-current-text", phase |-> "before-reload"]))
  /\ (e.reloaded /\ ~(e.shownAfter /\ e.afterExact) => Report("VIOL", e, [sig |-> "agreement-not-the-current-text", phase |-> "after-reload"]))
  /\ (~e.reloaded => Report("DRIFT", e, "the agreement could not be reloaded"))
  /\ UNCHANGED <<bvars, final, nclients>>

Next == /\ l <= Len(Log)
        /\ (AgreementEv \/ World \/ Call \/ ReplyEv \/ AckedEv \/ EndEv \/ PostEv \/ ReadEv \/ ConcStart \/ CRead \/ CPost \/ FaultPostEv)
        /\ l' = l + 1
        /\ TLCSet(1, l')

Consumed == TLCGet(1) = Len(Log) + 1
=============================================================================
