------------------------------ MODULE Transfer ------------------------------
(***************************************************************************)
(* File transfers of the Mobius Hotline server: single-file download       *)
(* (C08) and single-file upload with connection cuts and resumption (C09). *)
(* Folder transfers (C10) are a separate module.                           *)
(*                                                                         *)
(* Download part (stateless): a stored file f, a request q, the reply the  *)
(* server must give (fields 107/108/207) and the byte stream it must put   *)
(* on the transfer connection, written out byte by byte from the layout of *)
(* the protocol document (flattened file object):                          *)
(*   FILP(4) version(2) rsvd(16) forkCount(2)                              *)
(*   INFO(4) compression(4) rsvd(4) size(4) | info fork: 70 fixed bytes,   *)
(*   nameLen(2), name, commentLen(2), comment                              *)
(*   DATA(4) compression(4) rsvd(4) size(4) | data bytes                   *)
(*   [MACR(4) compression(4) rsvd(4) size(4) | resource bytes]             *)
(* plus a reference client (ClientParse) that follows the length fields,   *)
(* and the judge DlJudge(c, o) over the structural facts `o` the harness   *)
(* logs for a real download of case `c` (lengths only: it works for 5 MiB  *)
(* files as for 4-byte ones).                                              *)
(*                                                                         *)
(* Upload part (state machine over `up`): the final file, the partial file *)
(* <name>.incomplete, the pending grant and the current transfer           *)
(* connection; actions Request / Resume (transaction 203 without / with    *)
(* transfer options), Deliver(j) (j more bytes of the client's stream      *)
(* arrive), Cut (the connection dies), Publish (whole stream received:     *)
(* rename to the final name), Plant (somebody else creates the final       *)
(* name), DownloadBack.  Stored contents are lists of intervals of indices *)
(* into the client's data fork, so a 1 MiB prefix is << <<1,1048576>> >>.  *)
(* One action per code site: HandleUploadFile (Request/Resume),            *)
(* handleFileTransfer + UploadHandler + receiveFile (Deliver/Cut/Publish). *)
(*                                                                         *)
(* The same operators are used by MC_Transfer (bounded exhaustive check    *)
(* and script generation) and Trace_Transfer (validation of logs recorded  *)
(* from the real server).                                                  *)
(***************************************************************************)
EXTENDS Integers, Sequences, FiniteSets, TLC

CONSTANT FreshAppends  \* named deviation: a NON-resume upload appends to a left-over partial file instead of
                       \* replacing it (what the pinned tree does).  FALSE = what the property statement requires.

VARIABLES up,    \* the upload world (record, see UpInit)
          out    \* what the last step must let an observer see (record with field `op`)

vars == <<up, out>>

Max(a, b) == IF a > b THEN a ELSE b
Min(a, b) == IF a < b THEN a ELSE b

(* ---- bytes -------------------------------------------------------------- *)
Zeros(n) == [i \in 1..n |-> 0]
U16(v) == <<(v \div 256) % 256, v % 256>>
U32(v) == <<(v \div 16777216) % 256, (v \div 65536) % 256, (v \div 256) % 256, v % 256>>
RECURSIVE BE(_)
BE(sq) == IF sq = <<>> THEN 0 ELSE BE(SubSeq(sq, 1, Len(sq) - 1)) * 256 + sq[Len(sq)]

FILP == <<70, 73, 76, 80>>   INFO == <<73, 78, 70, 79>>   DATA == <<68, 65, 84, 65>>   MACR == <<77, 65, 67, 82>>
HTXF == <<72, 84, 88, 70>>   RFLT == <<82, 70, 76, 84>>

FilpLen == 24      \* FILP header
ForkHdrLen == 16   \* every fork header
InfoFixed == 72    \* fixed part of the information fork, up to and including the name length
PreambleLen == 16  \* HTXF, reference number, size, reserved

ForkHdr(tag, size) == tag \o Zeros(8) \o U32(size)
InfoForkLen(nl, cl) == InfoFixed + nl + 2 + cl
InfoFork(name, comment) == Zeros(70) \o U16(Len(name)) \o name \o U16(Len(comment)) \o comment
HdrLenOf(nl, cl) == FilpLen + ForkHdrLen + InfoForkLen(nl, cl) + ForkHdrLen
FlatHeader(name, comment, forks, dsize) ==
  FILP \o <<0, 1>> \o Zeros(16) \o U16(forks)
  \o ForkHdr(INFO, InfoForkLen(Len(name), Len(comment))) \o InfoFork(name, comment)
  \o ForkHdr(DATA, dsize)

(* ---- download: byte level -------------------------------------------------- *)
(* f = [name, comment, info (an info fork is stored), data, rs = [on, bytes]]
   q = [resume (field 203 present), k (its DATA offset; 0 when ~resume), preview (field 204 present)] *)
RsBytes(f) == IF f.rs.on THEN f.rs.bytes ELSE <<>>
Remaining(f, q) == SubSeq(f.data, q.k + 1, Len(f.data))

DlReply(f, q) ==
  [has107 |-> TRUE,
   f207 |-> Len(f.data) - q.k,
   f108 |-> IF q.preview THEN Len(f.data) - q.k
            ELSE HdrLenOf(Len(f.name), Len(f.comment)) + (Len(f.data) - q.k) + Len(RsBytes(f))]
            \* (the statement fixes 108 only for files without a stored resource fork; with one, Mobius adds its size)

(* What Mobius puts on the wire; where the statement leaves a choice the code's choice is modelled: fork count 3
   when an info fork is stored, the DATA size field is the full size even when resuming, the resource fork header
   is sent (even empty) unless the request resumes. *)
DlStream(f, q) ==
  (IF q.preview THEN <<>> ELSE FlatHeader(f.name, f.comment, IF f.info THEN 3 ELSE 2, Len(f.data)))
  \o Remaining(f, q)
  \o (IF q.resume THEN <<>> ELSE ForkHdr(MACR, Len(RsBytes(f))))
  \o RsBytes(f)

(* a client that trusts the header's own length fields and the reply's file size *)
ClientParse(st, rep, q) ==
  LET isz == BE(SubSeq(st, 37, 40))
      nlen == BE(SubSeq(st, 40 + 71, 40 + 72))
      h == IF q.preview THEN 0 ELSE 40 + isz + ForkHdrLen
      rest == SubSeq(st, h + rep.f207 + 1, Len(st))
      macr == Len(rest) >= ForkHdrLen /\ SubSeq(rest, 1, 4) = MACR
  IN [wellFormed |-> q.preview \/ (/\ SubSeq(st, 1, 4) = FILP /\ SubSeq(st, 25, 28) = INFO
                                  /\ SubSeq(st, 40 + isz + 1, 40 + isz + 4) = DATA),
      hdr |-> h,
      name |-> IF q.preview THEN <<>> ELSE SubSeq(st, 40 + InfoFixed + 1, 40 + InfoFixed + nlen),
      data |-> SubSeq(st, h + 1, h + rep.f207),
      rsrc |-> IF macr THEN SubSeq(rest, ForkHdrLen + 1, Len(rest)) ELSE rest,
      rsrcDeclared |-> IF macr THEN BE(SubSeq(rest, 13, 16)) ELSE Len(rest)]

(* C08 at byte level: the client recovers exactly the remaining data, the name and the stored resource fork *)
DlExact(f, q) ==
  LET rep == DlReply(f, q)  st == DlStream(f, q)  p == ClientParse(st, rep, q)
  IN /\ rep.has107
     /\ p.wellFormed
     /\ p.data = Remaining(f, q)
     /\ (~q.preview => p.name = f.name)
     /\ p.rsrc = RsBytes(f) /\ p.rsrcDeclared = Len(RsBytes(f))
     /\ (q.preview => rep.f108 = rep.f207)
     /\ (~q.preview /\ ~f.rs.on => rep.f108 = p.hdr + rep.f207)

(* ---- download: the judge over logged structural facts ------------------------ *)
(* case  c = [n, k, resume, preview, rsrc (-1: none stored, else its length), info, nameLen, commentLen]
   facts o = [has107, f108, f207, streamLen, hdrLen (offset at which the data fork starts; -1 if not found),
              filp, infoSizeField, infoForkLen (bytes between the INFO fork header and the DATA fork header),
              nameLenField, nameOK (the expected name follows the name length field), commentLenField,
              dataMatches (stream[hdrLen .. hdrLen+n-k) = file[k..n)),
              tail = [kind ("none" | "macr" | "raw"), size (MACR size field), bodyLen, match (body = stored fork)]] *)
TailOK(c, t) ==
  LET R == IF c.rsrc < 0 THEN 0 ELSE c.rsrc IN
  \/ t.kind = "macr" /\ t.size = R /\ t.bodyLen = R /\ t.match    \* header + exactly the stored bytes (R may be 0)
  \/ t.kind = "raw" /\ t.bodyLen = R /\ t.match                    \* the stored bytes alone
  \/ t.kind = "none" /\ R = 0                                       \* nothing, when there is nothing to send

(* clauses of the C08 statement that the observation contradicts *)
DlJudge(c, o) ==
  {x \in {"ref107", "size207", "size108", "previewBare", "header", "infoSize", "nameLen", "data", "tail"} :
     CASE x = "ref107"      -> ~o.has107
       [] x = "size207"     -> o.f207 # c.n - c.k
       [] x = "size108"     -> \/ c.preview /\ o.f108 # c.n - c.k
                               \/ ~c.preview /\ c.rsrc < 0 /\ o.hdrLen >= 0 /\ o.f108 # o.hdrLen + (c.n - c.k)
       [] x = "previewBare" -> c.preview /\ o.hdrLen # 0
       [] x = "header"      -> ~c.preview /\ (o.hdrLen <= 0 \/ ~o.filp)
       [] x = "infoSize"    -> ~c.preview /\ o.hdrLen > 0 /\ o.infoSizeField # o.infoForkLen
       [] x = "nameLen"     -> ~c.preview /\ o.hdrLen > 0 /\ o.nameLenField # c.nameLen
       [] x = "data"        -> ~o.dataMatches
       [] x = "tail"        -> o.dataMatches /\ ~TailOK(c, o.tail)}

(* layout facts the statement does not speak about (model drift when they differ) *)
DlDrift(c, o) ==
  {x \in {"hdrLayout", "nameBytes", "commentLen"} :
     CASE x = "hdrLayout"   -> ~c.preview /\ o.hdrLen > 0 /\ o.hdrLen # HdrLenOf(c.nameLen, c.commentLen)
       [] x = "nameBytes"   -> ~c.preview /\ o.hdrLen > 0 /\ o.nameLenField = c.nameLen /\ ~o.nameOK
       [] x = "commentLen"  -> ~c.preview /\ o.hdrLen > 0 /\ o.commentLenField # c.commentLen}

(* the facts of the model's own stream (used by MC_Transfer to tie the judge to the byte-level model) *)
DlModelFacts(f, q) ==
  LET st == DlStream(f, q)  rep == DlReply(f, q)
      h == IF q.preview THEN 0 ELSE HdrLenOf(Len(f.name), Len(f.comment))
      rest == SubSeq(st, h + rep.f207 + 1, Len(st))
      macr == Len(rest) >= ForkHdrLen /\ SubSeq(rest, 1, 4) = MACR
      body == IF macr THEN SubSeq(rest, ForkHdrLen + 1, Len(rest)) ELSE rest
  IN [has107 |-> rep.has107, f108 |-> rep.f108, f207 |-> rep.f207, streamLen |-> Len(st), hdrLen |-> h,
      filp |-> ~q.preview /\ SubSeq(st, 1, 4) = FILP,
      infoSizeField |-> IF q.preview THEN 0 ELSE BE(SubSeq(st, 37, 40)),
      infoForkLen |-> IF q.preview THEN 0 ELSE h - ForkHdrLen - 40,
      nameLenField |-> IF q.preview THEN 0 ELSE BE(SubSeq(st, 40 + 71, 40 + 72)),
      nameOK |-> q.preview \/ SubSeq(st, 40 + InfoFixed + 1, 40 + InfoFixed + Len(f.name)) = f.name,
      commentLenField |-> IF q.preview THEN 0
                          ELSE BE(SubSeq(st, 40 + InfoFixed + Len(f.name) + 1, 40 + InfoFixed + Len(f.name) + 2)),
      dataMatches |-> SubSeq(st, h + 1, h + rep.f207) = Remaining(f, q),
      tail |-> [kind |-> IF rest = <<>> THEN "none" ELSE IF macr THEN "macr" ELSE "raw",
                size |-> IF macr THEN BE(SubSeq(rest, 13, 16)) ELSE 0,
                bodyLen |-> Len(body), match |-> body = RsBytes(f)]]

CaseOf(f, q) == [n |-> Len(f.data), k |-> q.k, resume |-> q.resume, preview |-> q.preview,
                 rsrc |-> IF f.rs.on THEN Len(f.rs.bytes) ELSE -1, info |-> f.info,
                 nameLen |-> Len(f.name), commentLen |-> Len(f.comment)]

(* Download(s): s.f, s.q.  Stateless; `out` carries the prediction. *)
Download(s) ==
  /\ out' = [op |-> "dl", reply |-> DlReply(s.f, s.q), stream |-> DlStream(s.f, s.q)]
  /\ UNCHANGED up

(* ---- upload: stored contents as interval lists --------------------------------- *)
AppendRun(rs, a, b) ==
  IF b < a THEN rs
  ELSE IF rs # <<>> /\ rs[Len(rs)][2] + 1 = a THEN [rs EXCEPT ![Len(rs)] = <<rs[Len(rs)][1], b>>]
  ELSE Append(rs, <<a, b>>)
RECURSIVE RunsLen(_)
RunsLen(rs) == IF rs = <<>> THEN 0 ELSE (rs[1][2] - rs[1][1] + 1) + RunsLen(Tail(rs))
IsPrefix(rs) == rs = <<>> \/ (Len(rs) = 1 /\ rs[1][1] = 1)        \* bytes 1..m of the client's data fork
IsWhole(rs, n) == IF n = 0 THEN rs = <<>> ELSE rs = << <<1, n>> >>

NoFile == [on |-> FALSE, kind |-> "none", runs |-> <<>>]

(* n: length of the data fork the client uploads; r: length of its resource fork (-1: none, fork count 2);
   L = [pre, hdr, macr]: lengths of the preamble, of FILP header + INFO fork header + info fork + DATA fork header,
   and of the resource fork header on the client's stream (16, HdrLenOf(..), 16 for real; small in MC_Transfer). *)
UpInit(n, r, L) ==
  [n |-> n, r |-> r, L |-> L,
   final |-> NoFile,                         \* the file under its final name: kind "upload" | "foreign"
   inc |-> [on |-> FALSE, runs |-> <<>>],    \* <name>.incomplete
   ph |-> "idle",                            \* idle | granted | xfer | refused | dead | done
   res |-> FALSE,                            \* the pending grant is a resume
   off |-> 0,                                \* the offset the server reported: the client sends data[off+1..n]
   pos |-> 0,                                \* bytes of the current connection's stream delivered so far
   stale |-> FALSE,                          \* a non-resume transfer met a non-empty left-over partial file
   alt |-> -1,                               \* >= 0: length of a left-over partial file that the pending NON-resume
                                             \* upload replaces; the statement does not say when (at the request, when
                                             \* the connection is identified, with the first data byte): until data of
                                             \* this upload has been stored, 0 bytes and `alt` bytes are both fine
   cuts |-> 0]

Dn(u) == u.n - u.off                                             \* data bytes on the current connection
D0(u) == u.L.pre + u.L.hdr                                       \* stream offset of the first data byte
Total(u) == D0(u) + Dn(u) + (IF u.r >= 0 THEN u.L.macr + u.r ELSE 0)
UpFinal(u) == u.final.on /\ u.final.kind = "upload"

(* where the stream stands: the part the next byte belongs to and the index inside it (data: index into the
   whole data fork).  Generated scripts carry it so the driver can map abstract offsets to real ones. *)
Where(u) ==
  LET p == u.pos IN
  IF p < u.L.pre THEN [seg |-> "pre", i |-> p]
  ELSE IF p < D0(u) THEN [seg |-> "hdr", i |-> p - u.L.pre]
  ELSE IF p < D0(u) + Dn(u) THEN [seg |-> "data", i |-> u.off + (p - D0(u))]
  ELSE IF p >= Total(u) THEN [seg |-> "end", i |-> 0]
  ELSE IF p < D0(u) + Dn(u) + u.L.macr THEN [seg |-> "macr", i |-> p - D0(u) - Dn(u)]
  ELSE [seg |-> "rsrc", i |-> p - D0(u) - Dn(u) - u.L.macr]

(* Request (203 without transfer options): refused with an error reply when the final name exists.
   s.size (the optional transfer-size field 108: "present" | "absent") has no influence, here and in Resume. *)
Request(s) ==
  /\ up.ph \in {"idle", "dead", "done"}
  /\ IF up.final.on
       THEN /\ out' = [op |-> "request", granted |-> FALSE]
            /\ up' = up
       ELSE /\ out' = [op |-> "request", granted |-> TRUE]
            /\ up' = [up EXCEPT !.ph = "granted", !.res = FALSE, !.off = 0, !.pos = 0,
                                !.alt = IF up.inc.on /\ RunsLen(up.inc.runs) > 0 THEN RunsLen(up.inc.runs) ELSE -1]

(* Resume (203 with transfer options): the reply's resume data carries the length of the partial file. *)
Resume(s) ==
  /\ up.ph \in {"idle", "dead"}
  /\ up.inc.on
  /\ IF up.final.on
       THEN /\ out' = [op |-> "resume", granted |-> FALSE, off |-> 0]
            /\ up' = up
       ELSE /\ out' = [op |-> "resume", granted |-> TRUE, off |-> RunsLen(up.inc.runs)]
            /\ up' = [up EXCEPT !.ph = "granted", !.res = TRUE, !.off = RunsLen(up.inc.runs), !.pos = 0, !.alt = -1]

(* j more bytes of the client's stream arrive.  Passing the end of the preamble the server identifies the
   transfer: it refuses if the final name exists (and then touches nothing), otherwise it opens the partial file
   (keeping it for a resume, starting afresh otherwise).  Bytes of the data region are appended to it. *)
Recv(u, j) ==
  LET p0 == u.pos
      p1 == u.pos + j
      passPre == p0 < u.L.pre /\ p1 >= u.L.pre
      refuse == passPre /\ u.final.on
      keep == u.res \/ FreshAppends
      u1 == IF passPre /\ ~refuse
              THEN [u EXCEPT !.inc = [on |-> TRUE, runs |-> IF keep THEN u.inc.runs ELSE <<>>],
                             !.stale = u.stale \/ (~u.res /\ RunsLen(u.inc.runs) > 0)]
              ELSE u
      dead == refuse \/ u.ph = "refused"
      a == Max(p0, D0(u))
      b == Min(p1, D0(u) + Dn(u))
      u2 == IF ~dead /\ b > a
              THEN [u1 EXCEPT !.inc.runs = AppendRun(@, u.off + (a - D0(u)) + 1, u.off + (b - D0(u))), !.alt = -1]
              ELSE u1
  IN [u2 EXCEPT !.pos = p1, !.ph = IF dead THEN "refused" ELSE "xfer"]

Deliver(s) ==
  /\ up.ph \in {"granted", "xfer", "refused"}
  /\ s.j >= 1 /\ up.pos + s.j <= Total(up)
  /\ up' = Recv(up, s.j)
  /\ out' = [op |-> "deliver"]

Obs(op, u) == [op |-> op, finalOn |-> u.final.on, finalKind |-> u.final.kind,
               incOn |-> u.inc.on, incLen |-> RunsLen(u.inc.runs), incPrefix |-> IsPrefix(u.inc.runs)]

(* The connection dies (or, for a refused transfer, simply ends): nothing on disk changes. *)
CutState(u) == [u EXCEPT !.ph = "dead", !.cuts = @ + 1]
Cut(s) ==
  /\ up.ph \in {"granted", "xfer", "refused"}
  /\ (up.pos < Total(up) \/ up.ph = "refused")
  /\ up' = CutState(up)
  /\ out' = Obs("cut", up')

(* The whole stream has been received: the partial file becomes the final file. *)
Publish(s) ==
  /\ up.ph = "xfer" /\ up.pos = Total(up)
  /\ up' = [up EXCEPT !.final = [on |-> TRUE, kind |-> "upload", runs |-> up.inc.runs],
                      !.inc = [on |-> FALSE, runs |-> <<>>], !.ph = "done"]
  /\ out' = Obs("publish", up')

(* Somebody else creates a file under the final name. *)
Plant(s) ==
  /\ ~up.final.on
  /\ (up.ph \in {"idle", "dead"} \/ (up.ph = "granted" /\ up.pos = 0))
  /\ up' = [up EXCEPT !.final = [on |-> TRUE, kind |-> "foreign", runs |-> <<>>]]
  /\ out' = [op |-> "plant"]

(* A later download of the uploaded file. *)
DownloadBack(s) ==
  /\ up.ph = "done"
  /\ up' = up
  /\ out' = [op |-> "download", size |-> RunsLen(up.final.runs), matches |-> IsWhole(up.final.runs, up.n)]

UpGuard(s) ==
  CASE s.op = "request"  -> up.ph \in {"idle", "dead", "done"}
    [] s.op = "resume"   -> up.ph \in {"idle", "dead"} /\ up.inc.on
    [] s.op = "deliver"  -> up.ph \in {"granted", "xfer", "refused"} /\ s.j >= 1 /\ up.pos + s.j <= Total(up)
    [] s.op = "cut"      -> up.ph \in {"granted", "xfer", "refused"} /\ (up.pos < Total(up) \/ up.ph = "refused")
    [] s.op = "publish"  -> up.ph = "xfer" /\ up.pos = Total(up)
    [] s.op = "plant"    -> ~up.final.on /\ (up.ph \in {"idle", "dead"} \/ (up.ph = "granted" /\ up.pos = 0))
    [] s.op = "download" -> up.ph = "done"
    [] OTHER -> FALSE

UpApply(s) ==
  CASE s.op = "request"  -> Request(s)
    [] s.op = "resume"   -> Resume(s)
    [] s.op = "deliver"  -> Deliver(s)
    [] s.op = "cut"      -> Cut(s)
    [] s.op = "publish"  -> Publish(s)
    [] s.op = "plant"    -> Plant(s)
    [] s.op = "download" -> DownloadBack(s)

(* ---- C09 properties ------------------------------------------------------------- *)
(* a file appears under its final name only when the whole stream of the connection has been received *)
FinalOnlyWhenComplete == [][~UpFinal(up) /\ UpFinal(up') => up.pos = Total(up) /\ up.ph = "xfer"]_vars
(* and then holds exactly the client's data fork *)
FinalIsExact == UpFinal(up) => IsWhole(up.final.runs, up.n)
(* the partial file is a prefix of the client's data fork, never longer than it; it is gone once published *)
PartialIsPrefix == /\ up.inc.on => IsPrefix(up.inc.runs) /\ RunsLen(up.inc.runs) <= up.n
                   /\ up.ph = "done" => ~up.inc.on
(* every data byte that arrives on an accepted connection is kept: the partial file holds exactly the prefix
   received so far (the offset the server handed out plus the data bytes delivered since) *)
PartialIsExactlyReceived ==
  up.ph = "xfer" /\ up.pos >= up.L.pre => RunsLen(up.inc.runs) = up.off + Max(0, Min(up.pos, D0(up) + Dn(up)) - D0(up))
(* a resume is always offered the length of the partial file, so the client's remaining bytes complete it *)
ResumeOffsetIsPartial == [][out'.op = "resume" /\ out'.granted => out'.off = RunsLen(up.inc.runs) /\ up'.off = out'.off]_vars
ResumeCompletesIdentically == up.ph = "done" => UpFinal(up) /\ IsWhole(up.final.runs, up.n)
(* an existing file is never replaced or changed, whoever created it *)
NeverOverwrites == [][up.final.on => up'.final = up.final]_vars
(* a later download returns what was uploaded *)
RoundTrip == out.op = "download" => out.matches /\ out.size = up.n
=============================================================================
