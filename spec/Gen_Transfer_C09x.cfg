CONSTANTS
  FreshAppends = FALSE
  MaxN = 3
  RsrcLens <- RsrcFew
  MaxCuts = 2
  Big = TRUE
  AllowFresh = TRUE
  AllowPlant = TRUE
  Ops = {"request","resume","deliver","cut","publish","plant","download"}
INIT Init
NEXT Next
ACTION_CONSTRAINT EmitUp
CHECK_DEADLOCK FALSE
