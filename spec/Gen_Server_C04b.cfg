CONSTANTS
  Conns = {1, 2, 3, 4, 5, 6}
  IDMod = 65536
  MaxChats = 1
  MaxSteps = 99
  GenDepth = 26
  Ops = {"connect","login","loginbegin","loginend","setuser","userlist","broadcast","chat","close"}
  Thin = TRUE
INIT Init
NEXT Next
ACTION_CONSTRAINT Emit
INVARIANTS UniqueLiveIDs DeliveredOnlyToLive PrivateOnlyToMembers PublicOnlyToReaders NoDuplicateDelivery RosterConverges
CHECK_DEADLOCK FALSE
