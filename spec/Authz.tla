------------------------------- MODULE Authz -------------------------------
(***************************************************************************)
(* Privileges of the Mobius Hotline server: what a privilege number means  *)
(* (C16), which privilege governs which effect of which request (C05),    *)
(* account creation without amplification and protected users (C06).      *)
(*                                                                         *)
(* Written to be bound to the code: one action per kind of harness case,   *)
(* parameterised by a step record `s`, used unchanged by the bounded       *)
(* exhaustive model (MC_Authz, which also emits the cases as scripts) and  *)
(* by trace validation (Trace_Authz: s is a line of the log recorded from  *)
(* the real server).                                                       *)
(*                                                                         *)
(* Trusted transcription: the number <-> meaning table (protocol document  *)
(* 1.9, "Access Privileges", numbers 0..37; 38, 39, 40 are the de-facto    *)
(* 1.9.x numbers - the document's own "Send Private Message (19)" is known *)
(* to be wrong and 19 is left undefined), the bit layout, and the          *)
(* per-transaction "Access:" lines of the document (Req).                  *)
(***************************************************************************)
EXTENDS Integers, Sequences, FiniteSets, TLC

Priv    == 0..63
Defined == (0..18) \cup (20..40)

(* ---- C16: number <-> account-file key, bit layout ------------------------ *)
(* Name[i]: the key of privilege i in the account file (protocol constant myAcc_<Name>, Mobius spells 22 and 23
   out).  Num(n) is the inverse, written out independently (the save and the load side of the real code are two
   independent tables as well); RoundTrip checks the two against each other. *)
Name == [i \in Defined |->
  CASE i = 0  -> "DeleteFile"      [] i = 1  -> "UploadFile"     [] i = 2  -> "DownloadFile"
    [] i = 3  -> "RenameFile"      [] i = 4  -> "MoveFile"       [] i = 5  -> "CreateFolder"
    [] i = 6  -> "DeleteFolder"    [] i = 7  -> "RenameFolder"   [] i = 8  -> "MoveFolder"
    [] i = 9  -> "ReadChat"        [] i = 10 -> "SendChat"       [] i = 11 -> "OpenChat"
    [] i = 12 -> "CloseChat"       [] i = 13 -> "ShowInList"     [] i = 14 -> "CreateUser"
    [] i = 15 -> "DeleteUser"      [] i = 16 -> "OpenUser"       [] i = 17 -> "ModifyUser"
    [] i = 18 -> "ChangeOwnPass"   [] i = 20 -> "NewsReadArt"    [] i = 21 -> "NewsPostArt"
    [] i = 22 -> "DisconnectUser"  [] i = 23 -> "CannotBeDisconnected"
    [] i = 24 -> "GetClientInfo"   [] i = 25 -> "UploadAnywhere" [] i = 26 -> "AnyName"
    [] i = 27 -> "NoAgreement"     [] i = 28 -> "SetFileComment" [] i = 29 -> "SetFolderComment"
    [] i = 30 -> "ViewDropBoxes"   [] i = 31 -> "MakeAlias"      [] i = 32 -> "Broadcast"
    [] i = 33 -> "NewsDeleteArt"   [] i = 34 -> "NewsCreateCat"  [] i = 35 -> "NewsDeleteCat"
    [] i = 36 -> "NewsCreateFldr"  [] i = 37 -> "NewsDeleteFldr" [] i = 38 -> "UploadFolder"
    [] i = 39 -> "DownloadFolder"  [] i = 40 -> "SendPrivMsg"]

AllNames == {Name[i] : i \in Defined}

Num(n) ==
  CASE n = "SendPrivMsg" -> 40     [] n = "DownloadFolder" -> 39  [] n = "UploadFolder" -> 38
    [] n = "NewsDeleteFldr" -> 37  [] n = "NewsCreateFldr" -> 36  [] n = "NewsDeleteCat" -> 35
    [] n = "NewsCreateCat" -> 34   [] n = "NewsDeleteArt" -> 33   [] n = "Broadcast" -> 32
    [] n = "MakeAlias" -> 31       [] n = "ViewDropBoxes" -> 30   [] n = "SetFolderComment" -> 29
    [] n = "SetFileComment" -> 28  [] n = "NoAgreement" -> 27     [] n = "AnyName" -> 26
    [] n = "UploadAnywhere" -> 25  [] n = "GetClientInfo" -> 24   [] n = "CannotBeDisconnected" -> 23
    [] n = "DisconnectUser" -> 22  [] n = "NewsPostArt" -> 21     [] n = "NewsReadArt" -> 20
    [] n = "ChangeOwnPass" -> 18   [] n = "ModifyUser" -> 17      [] n = "OpenUser" -> 16
    [] n = "DeleteUser" -> 15      [] n = "CreateUser" -> 14      [] n = "ShowInList" -> 13
    [] n = "CloseChat" -> 12       [] n = "OpenChat" -> 11        [] n = "SendChat" -> 10
    [] n = "ReadChat" -> 9         [] n = "MoveFolder" -> 8       [] n = "RenameFolder" -> 7
    [] n = "DeleteFolder" -> 6     [] n = "CreateFolder" -> 5     [] n = "MoveFile" -> 4
    [] n = "RenameFile" -> 3       [] n = "DownloadFile" -> 2     [] n = "UploadFile" -> 1
    [] n = "DeleteFile" -> 0

(* privilege i is bit i counted from the most significant bit of the first byte *)
BitPos(i) == [byte |-> i \div 8, mask |-> 2 ^ (7 - (i % 8))]

RECURSIVE SumMask(_)
SumMask(T) == IF T = {} THEN 0
              ELSE LET x == CHOOSE y \in T : TRUE IN BitPos(x).mask + SumMask(T \ {x})

ToBytes(S)    == [b \in 1..8 |-> SumMask({i \in S : BitPos(i).byte = b - 1})]
FromBytes(bs) == {i \in Priv : (bs[BitPos(i).byte + 1] \div BitPos(i).mask) % 2 = 1}

Save(S)         == {Name[i] : i \in S \cap Defined}       \* the keys that are true in the saved account file
Load(names)     == {Num(n) : n \in names \cap AllNames}   \* the privileges of a loaded named-flag file
LoadLegacy(arr) == FromBytes(arr)                         \* the privileges of a legacy `Access: [b0..b7]` file

RoundTripOf(S)    == Load(Save(S)) = S \cap Defined
LegacyAgreesOf(S) == LoadLegacy(ToBytes(S)) \cap Defined = Load(Save(S))
WireMeansSameOf(S) == /\ \A i \in Priv : (i \in S) <=> ((ToBytes(S)[BitPos(i).byte + 1] \div BitPos(i).mask) % 2 = 1)
                      /\ FromBytes(ToBytes(S)) = S
                      /\ \A b \in 1..8 : ToBytes(S)[b] \in 0..255

(* ---- C05: effects, their governing privilege, and the requests ------------ *)
(* Gov[e]: the privilege the protocol assigns to effect class e (from the statement of C05 and the privilege
   names of the protocol document).  "free" effects need no privilege. *)
Gov == [e \in {"file.delete", "folder.delete", "file.rename", "folder.rename", "file.move", "folder.move",
               "folder.create", "file.comment", "folder.comment", "alias.make", "dropbox.view",
               "upload.file", "upload.folder", "upload.outside", "download.file", "download.folder",
               "chat.send", "chat.open", "chat.invite", "pm.send", "broadcast", "info.get",
               "user.disconnect", "user.ban",
               "acct.create", "acct.delete", "acct.read", "acct.modify",
               "board.read", "board.post", "news.read", "news.post", "news.art.delete",
               "news.cat.create", "news.cat.delete", "news.bundle.create", "news.bundle.delete",
               "name.any", "free"} |->
  CASE e = "file.delete" -> {0}      [] e = "folder.delete" -> {6}    [] e = "file.rename" -> {3}
    [] e = "folder.rename" -> {7}    [] e = "file.move" -> {4}        [] e = "folder.move" -> {8}
    [] e = "folder.create" -> {5}    [] e = "file.comment" -> {28}    [] e = "folder.comment" -> {29}
    [] e = "alias.make" -> {31}      [] e = "dropbox.view" -> {30}    [] e = "upload.file" -> {1}
    [] e = "upload.folder" -> {38}   [] e = "upload.outside" -> {25}  [] e = "download.file" -> {2}
    [] e = "download.folder" -> {39} [] e = "chat.send" -> {10}       [] e = "chat.open" -> {11}
    [] e = "chat.invite" -> {11}     [] e = "pm.send" -> {40}         [] e = "broadcast" -> {32}
    [] e = "info.get" -> {24}        [] e = "user.disconnect" -> {22} [] e = "user.ban" -> {22}
    [] e = "acct.create" -> {14}     [] e = "acct.delete" -> {15}     [] e = "acct.read" -> {16}
    [] e = "acct.modify" -> {17}     [] e = "board.read" -> {20}      [] e = "board.post" -> {21}
    [] e = "news.read" -> {20}       [] e = "news.post" -> {21}       [] e = "news.art.delete" -> {33}
    [] e = "news.cat.create" -> {34} [] e = "news.cat.delete" -> {35} [] e = "news.bundle.create" -> {36}
    [] e = "news.bundle.delete" -> {37} [] e = "name.any" -> {26}     [] e = "free" -> {}]

(* Chan[e]: where the harness's effect digest shows effect class e:
   fs (file tree), accts (account directory / account manager), news, board, bans (files in the config dir),
   chats (chat membership), xfers (pending transfers of the requester), other (transactions received by the
   second client), closed (the second client's connection was closed), reveal (data fields in the reply). *)
Chan(e) ==
  CASE e \in {"file.delete", "folder.delete", "file.rename", "folder.rename", "file.move", "folder.move",
              "folder.create", "file.comment", "folder.comment", "alias.make"} -> "fs"
    [] e \in {"upload.file", "upload.folder", "upload.outside", "download.file", "download.folder"} -> "xfers"
    [] e \in {"chat.send", "chat.invite", "pm.send", "broadcast"} -> "other"
    [] e = "chat.open" -> "chats"
    [] e = "user.disconnect" -> "closed"
    [] e = "user.ban" -> "bans"
    [] e \in {"acct.create", "acct.delete", "acct.modify"} -> "accts"
    [] e = "board.post" -> "board"
    [] e \in {"news.post", "news.art.delete", "news.cat.create", "news.cat.delete", "news.bundle.create",
              "news.bundle.delete"} -> "news"
    [] e \in {"dropbox.view", "info.get", "acct.read", "board.read", "news.read"} -> "reveal"
    [] OTHER -> "none"

(* One row per registered transaction type t and context k.
     req   - the privilege set the protocol assigns to the request in that context ("Access:" line of the
             transaction in the protocol document; the privilege named for the effect where the document
             predates folder transfers and private-message privilege 40)
     alts  - other requirement sets that a reading of the statement/document also supports (the check accepts
             every reading: see Trace_Authz)
     parts - the sub-requests in processing order, each a set of effect classes (one part except for requests
             that are sequences of independently governed sub-requests)
     sp    - "anyname": the display-name privilege (no error reply; the name is simply not adopted) *)
R(t, k, req, alts, parts) == [t |-> t, k |-> k, req |-> req, alts |-> alts, parts |-> parts, sp |-> "none", st |-> "agreed"]
(* st: the requester's own state when it sends the request ("<context>@<state>"):
     "agreed" 1.5+ login completed by an Agreed (121) carrying a name (the default)     "old" 1.2.3-style login, name in the login
     "pre"    1.5+ login, Agreed not sent yet                                           "noname" 1.5+ login, Agreed sent without a name field
   The state never changes which privilege governs the request. *)
At(row, k, st) == [row EXCEPT !.k = k, !.st = st]
AnyName(t, k, st) == [R(t, k, {26}, {}, << {"name.any"} >>) EXCEPT !.sp = "anyname", !.st = st]
One(t, k, req, e) == R(t, k, req, {}, << {e} >>)
Free(t, k) == R(t, k, {}, {}, << {"free"} >>)
(* sp = "occupied": the request's target is already taken (an existing account / folder / news item / file at the
   destination): with the privilege the request may fail for that reason or replace the occupant - not judged;
   without it, nothing may be touched, and there is something to lose. *)
Occ(t, k, req, e) == [One(t, k, req, e) EXCEPT !.sp = "occupied"]
Ghost(row) == [row EXCEPT !.sp = "ghost"]
(* sp = "xfer": an upload request whose granted transfer connection is then opened by the client (a tiny file / a
   folder upload without items).  The request is governed as any upload; what the transfer stores is not judged; but a
   folder that appears on the server (other than the folder a folder upload names) is the create-folder effect and
   needs privilege 5 - uploading into a folder that does not exist does not create it for those who may not. *)
Xfer(row) == [row EXCEPT !.sp = "xfer"]

Table == {
  R(101, "board", {20}, {{}}, << {"board.read"} >>),       \* the document lists no privilege for Get Messages
  One(103, "post", {21}, "board.post"),
  One(105, "public", {10}, "chat.send"), One(105, "private", {10}, "chat.send"),
  One(108, "pm", {40}, "pm.send"),
  One(110, "ban0", {22}, "user.disconnect"),
  R(110, "ban1", {22}, {}, << {"user.disconnect", "user.ban"} >>),
  R(110, "ban2", {22}, {}, << {"user.disconnect", "user.ban"} >>),
  One(112, "new", {11}, "chat.open"),
  One(113, "invite", {11}, "chat.invite"),
  Free(114, "reject"), Free(115, "join"), Free(116, "leave"), Free(120, "subject"),
  [R(121, "name", {26}, {}, << {"name.any"} >>) EXCEPT !.sp = "anyname"],
  Free(200, "root"), Free(200, "folder"), One(200, "dropbox", {30}, "dropbox.view"),
  One(202, "file", {2}, "download.file"), R(202, "missing", {}, {{2}}, << {} >>),
  One(203, "uploads", {1}, "upload.file"), One(203, "dropbox", {1}, "upload.file"),
  One(203, "resume", {1}, "upload.file"),
  R(203, "elsewhere", {1, 25}, {}, << {"upload.file", "upload.outside"} >>),
  R(203, "root", {1, 25}, {}, << {"upload.file", "upload.outside"} >>),
  One(204, "file", {0}, "file.delete"), One(204, "folder", {6}, "folder.delete"),
  R(204, "missing", {}, {{0}, {6}}, << {} >>),
  One(205, "root", {5}, "folder.create"), One(205, "nested", {5}, "folder.create"),
  Free(206, "file"), Free(206, "folder"),
  One(207, "file.comment", {28}, "file.comment"), One(207, "folder.comment", {29}, "folder.comment"),
  One(207, "file.rename", {3}, "file.rename"), One(207, "folder.rename", {7}, "folder.rename"),
  R(207, "file.both", {28, 3}, {}, << {"file.comment"}, {"file.rename"} >>),
  R(207, "folder.both", {29, 7}, {}, << {"folder.comment"}, {"folder.rename"} >>),
  Free(207, "file.none"),
  R(207, "missing", {}, {{28}, {29}, {3}, {7}}, << {} >>),
  One(208, "file", {4}, "file.move"), One(208, "folder", {8}, "folder.move"),
  R(208, "missing", {}, {{4}, {8}}, << {} >>),
  One(209, "file", {31}, "alias.make"), One(209, "folder", {31}, "alias.make"),
  R(210, "folder", {39}, {{2}}, << {"download.folder"} >>),  \* document: Download File (2); de facto 39
  Free(212, "banner"),
  R(213, "uploads", {38}, {{1}}, << {"upload.folder"} >>),   \* document: Upload File (1); de facto 38
  R(213, "dropbox", {38}, {{1}}, << {"upload.folder"} >>),
  R(213, "elsewhere", {38, 25}, {{1, 25}}, << {"upload.folder", "upload.outside"} >>),
  R(213, "root", {38, 25}, {{1, 25}}, << {"upload.folder", "upload.outside"} >>),
  Free(300, "list"),
  One(303, "info", {24}, "info.get"),
  [R(304, "name", {26}, {}, << {"name.any"} >>) EXCEPT !.sp = "anyname"],
  One(348, "list", {16}, "acct.read"),
  One(349, "create", {14}, "acct.create"), One(349, "modify", {17}, "acct.modify"),
  One(349, "rename", {17}, "acct.modify"), One(349, "delete", {15}, "acct.delete"),
  R(349, "modify+create", {17, 14}, {}, << {"acct.modify"}, {"acct.create"} >>),
  R(349, "create+delete", {14, 15}, {}, << {"acct.create"}, {"acct.delete"} >>),
  R(349, "delete+modify", {15, 17}, {}, << {"acct.delete"}, {"acct.modify"} >>),
  One(350, "new", {14}, "acct.create"), One(351, "del", {15}, "acct.delete"),
  One(352, "get", {16}, "acct.read"), One(353, "set", {17}, "acct.modify"),
  One(355, "bcast", {32}, "broadcast"),
  R(370, "root", {20}, {{}}, << {"news.read"} >>),          \* no "Access:" line in the document for 370 / 371
  R(371, "cat", {20}, {{}}, << {"news.read"} >>),
  One(380, "cat", {35}, "news.cat.delete"), One(380, "bundle", {37}, "news.bundle.delete"),
  R(380, "missing", {}, {{35}, {37}}, << {} >>),
  One(381, "bundle", {36}, "news.bundle.create"), One(382, "cat", {34}, "news.cat.create"),
  One(400, "art", {20}, "news.read"), One(410, "post", {21}, "news.post"),
  One(411, "art", {33}, "news.art.delete"),
  Free(500, "ka"),
  (* target kinds whose info-fork side file lies about the kind: "folderlie" is a folder whose .info_ file claims a
     TEXT file, "filelie" a file whose .info_ file claims a folder.  The kind is what the object is. *)
  One(204, "filelie", {0}, "file.delete"), One(204, "folderlie", {6}, "folder.delete"),
  One(208, "filelie", {4}, "file.move"), One(208, "folderlie", {8}, "folder.move"),
  One(207, "filelie.comment", {28}, "file.comment"), One(207, "folderlie.comment", {29}, "folder.comment"),
  One(207, "filelie.rename", {3}, "file.rename"), One(207, "folderlie.rename", {7}, "folder.rename"),
  (* field-content variants "<context>/<variant>": optional fields present / absent, option values, 2- vs 4-byte
     integers, an extra unknown field.  None of them changes which privilege governs the request. *)
  One(108, "pm/noopt", {40}, "pm.send"), One(108, "pm/opt2", {40}, "pm.send"), One(108, "pm/opt3", {40}, "pm.send"),
  One(108, "pm/opt4", {40}, "pm.send"), One(108, "pm/opt4w", {40}, "pm.send"), One(108, "pm/quote", {40}, "pm.send"),
  One(108, "pm/extra", {40}, "pm.send"),
  One(105, "public/emote", {10}, "chat.send"), One(105, "public/zeroid", {10}, "chat.send"),
  One(105, "public/opt2", {10}, "chat.send"), One(105, "private/emote", {10}, "chat.send"),
  One(105, "public/extra", {10}, "chat.send"),
  One(110, "ban0/opt0", {22}, "user.disconnect"), One(110, "ban0/opt3", {22}, "user.disconnect"),
  One(110, "ban0/opt1w", {22}, "user.disconnect"), One(110, "ban0/extra", {22}, "user.disconnect"),
  One(103, "post/extra", {21}, "board.post"), One(355, "bcast/extra", {32}, "broadcast"),
  One(112, "new/extra", {11}, "chat.open"), One(303, "info/extra", {24}, "info.get"),
  One(202, "file/preview", {2}, "download.file"), One(202, "file/extra", {2}, "download.file"),
  One(203, "uploads/nosize", {1}, "upload.file"), One(203, "uploads/extra", {1}, "upload.file"),
  R(203, "elsewhere/extra", {1, 25}, {}, << {"upload.file", "upload.outside"} >>),
  R(213, "uploads/opt1", {38}, {{1}}, << {"upload.folder"} >>),
  One(204, "file/extra", {0}, "file.delete"), One(204, "folder/extra", {6}, "folder.delete"),
  One(205, "root/extra", {5}, "folder.create"),
  One(209, "file/extra", {31}, "alias.make"),
  [R(304, "name/opts", {26}, {}, << {"name.any"} >>) EXCEPT !.sp = "anyname"],
  [R(304, "name/auto", {26}, {}, << {"name.any"} >>) EXCEPT !.sp = "anyname"],
  [R(304, "name/icon4", {26}, {}, << {"name.any"} >>) EXCEPT !.sp = "anyname"],
  [R(121, "name/auto", {26}, {}, << {"name.any"} >>) EXCEPT !.sp = "anyname"],
  One(350, "new/nopw", {14}, "acct.create"), One(350, "new/extra", {14}, "acct.create"),
  One(351, "del/extra", {15}, "acct.delete"),
  One(353, "set/nopw", {17}, "acct.modify"), One(353, "set/pw", {17}, "acct.modify"),
  One(353, "set/noaccess", {17}, "acct.modify"),
  One(349, "modify/nopw", {17}, "acct.modify"), One(349, "modify/pw", {17}, "acct.modify"),
  One(381, "bundle/nested", {36}, "news.bundle.create"), One(382, "cat/nested", {34}, "news.cat.create"),
  One(400, "art/id2", {20}, "news.read"), One(400, "art/noflavor", {20}, "news.read"),
  One(410, "post/id2", {21}, "news.post"), One(410, "post/reply", {21}, "news.post"),
  One(411, "art/id2", {33}, "news.art.delete"), One(411, "art/norecurse", {33}, "news.art.delete"),
  R(371, "cat/extra", {20}, {{}}, << {"news.read"} >>),
  (* something to lose at the target (every world also holds stale partial uploads and side files at every upload
     target, see harness/fam/authz/handle.go) *)
  Occ(350, "new/exists", {14}, "acct.create"), Occ(350, "new/orphan", {14}, "acct.create"),
  Occ(349, "create/orphan", {14}, "acct.create"),
  Occ(381, "bundle/exists", {36}, "news.bundle.create"), Occ(382, "cat/exists", {34}, "news.cat.create"),
  Occ(205, "root/exists", {5}, "folder.create"),
  Occ(208, "file/exists", {4}, "file.move"), Occ(209, "file/exists", {31}, "alias.make"),
  Occ(207, "file.rename/exists", {3}, "file.rename"),
  One(112, "new/chat", {11}, "chat.open"),
  (* set-comment with an empty / a one-byte comment field on targets that have a stored comment (file.txt and Folder
     carry one in every world): clearing a comment is setting it *)
  One(207, "file.comment/empty", {28}, "file.comment"), One(207, "file.comment/one", {28}, "file.comment"),
  One(207, "folder.comment/empty", {29}, "folder.comment"), One(207, "folder.comment/one", {29}, "folder.comment"),
  (* uploads whose transfer is opened: into the existing Uploads folder, into missing folders *)
  Xfer(One(203, "uploads+xfer", {1}, "upload.file")), Xfer(One(203, "missingupload+xfer", {1}, "upload.file")),
  Xfer(One(203, "missingdropbox+xfer", {1}, "upload.file")),
  Xfer(R(203, "missingnested+xfer", {1, 25}, {}, << {"upload.file", "upload.outside"} >>)),
  Xfer(R(213, "uploads+xfer", {38}, {{1}}, << {"upload.folder"} >>)),
  Xfer(R(213, "missingupload+xfer", {38}, {{1}}, << {"upload.folder"} >>)),
  Xfer(R(213, "missingnested+xfer", {38, 25}, {{1, 25}}, << {"upload.folder", "upload.outside"} >>)),
  (* aliases as targets: an alias to a file, an alias to a folder, and a dangling alias (its target is gone).
     An alias to a file is a file; for an alias to a folder both the folder and the file privilege are accepted;
     sp = "ghost": the target cannot be resolved - how the request is answered when the privilege is held (and
     whether it is answered at all) is not judged, but without any of the privileges nothing may change. *)
  One(204, "aliasfile", {0}, "file.delete"), R(204, "aliasfolder", {6}, {{0}}, << {"folder.delete"} >>),
  Ghost(R(204, "aliasdangling", {0}, {{6}}, << {"file.delete"} >>)),
  One(208, "aliasfile", {4}, "file.move"), R(208, "aliasfolder", {8}, {{4}}, << {"folder.move"} >>),
  Ghost(R(208, "aliasdangling", {4}, {{8}}, << {"file.move"} >>)),
  One(207, "aliasfile.rename", {3}, "file.rename"), R(207, "aliasfolder.rename", {7}, {{3}}, << {"folder.rename"} >>),
  One(207, "aliasfile.comment", {28}, "file.comment"), R(207, "aliasfolder.comment", {29}, {{28}}, << {"folder.comment"} >>),
  Ghost(R(207, "aliasdangling.rename", {3}, {{7}}, << {"file.rename"} >>)),
  Ghost(R(207, "aliasdangling.comment", {28}, {{29}}, << {"file.comment"} >>)),
  Free(206, "aliasfile"), Free(206, "aliasfolder"), Ghost(Free(206, "aliasdangling")),
  One(202, "aliasfile", {2}, "download.file"), Ghost(One(202, "aliasdangling", {2}, "download.file")),
  One(209, "aliasfile", {31}, "alias.make"), Ghost(One(209, "aliasdangling", {31}, "alias.make")),
  (* news items at depth 2 and 3: a category / a bundle inside a bundle, and one level deeper; requests below them *)
  One(380, "cat2", {35}, "news.cat.delete"), One(380, "bundle2", {37}, "news.bundle.delete"),
  One(380, "cat3", {35}, "news.cat.delete"), One(380, "bundle3", {37}, "news.bundle.delete"),
  R(380, "missing2", {}, {{35}, {37}}, << {} >>),
  One(381, "bundle/deep", {36}, "news.bundle.create"), One(382, "cat/deep", {34}, "news.cat.create"),
  R(370, "root/nested", {20}, {{}}, << {"news.read"} >>), R(370, "root/deep", {20}, {{}}, << {"news.read"} >>),
  R(371, "cat/nested", {20}, {{}}, << {"news.read"} >>), R(371, "cat/deep", {20}, {{}}, << {"news.read"} >>),
  One(400, "art/nested", {20}, "news.read"), One(400, "art/deep", {20}, "news.read"),
  One(410, "post/nested", {21}, "news.post"), One(410, "post/deep", {21}, "news.post"),
  One(411, "art/nested", {33}, "news.art.delete"), One(411, "art/deep", {33}, "news.art.delete"),
  (* account-administration requests that name the requester's own account: the same privilege governs them *)
  One(353, "set/self", {17}, "acct.modify"), One(351, "del/self", {15}, "acct.delete"),
  One(352, "get/self", {16}, "acct.read"),
  One(349, "modify/self", {17}, "acct.modify"), One(349, "rename/self", {17}, "acct.modify"),
  One(349, "delete/self", {15}, "acct.delete"),
  (* requester-state variants *)
  AnyName(304, "name@old", "old"), AnyName(304, "name@pre", "pre"), AnyName(304, "name@noname", "noname"),
  AnyName(121, "name@old", "old"), AnyName(121, "name@noname", "noname"), AnyName(121, "name@agreed", "agreed"),
  At(One(105, "", {10}, "chat.send"), "public@old", "old"), At(One(105, "", {10}, "chat.send"), "public@pre", "pre"),
  At(One(105, "", {10}, "chat.send"), "public@noname", "noname"),
  At(One(108, "", {40}, "pm.send"), "pm@old", "old"), At(One(108, "", {40}, "pm.send"), "pm@pre", "pre"),
  At(One(108, "", {40}, "pm.send"), "pm@noname", "noname"),
  At(One(204, "", {0}, "file.delete"), "file@old", "old"), At(One(204, "", {0}, "file.delete"), "file@pre", "pre"),
  At(One(204, "", {6}, "folder.delete"), "folder@noname", "noname"),
  At(One(350, "", {14}, "acct.create"), "new@old", "old"), At(One(350, "", {14}, "acct.create"), "new@pre", "pre"),
  At(One(355, "", {32}, "broadcast"), "bcast@old", "old"), At(One(355, "", {32}, "broadcast"), "bcast@pre", "pre"),
  At(One(355, "", {32}, "broadcast"), "bcast@noname", "noname"),
  At(One(110, "", {22}, "user.disconnect"), "ban0@old", "old"), At(One(110, "", {22}, "user.disconnect"), "ban0@pre", "pre")
}

Types == {r.t : r \in Table}         \* the 43 registered transaction types
Row(t, k) == CHOOSE r \in Table : r.t = t /\ r.k = k
HasRow(t, k) == \E r \in Table : r.t = t /\ r.k = k
Req(t, k) == Row(t, k).req
EffOf(r) == UNION {r.parts[i] : i \in DOMAIN r.parts}
Eff(t, k) == EffOf(Row(t, k))
NeedOf(p) == UNION {Gov[e] : e \in p}

(* the two tables agree: what the document demands per transaction = what governs the effects it has *)
ReqMatchesGov == \A r \in Table : EffOf(r) # {} => r.req = NeedOf(EffOf(r))   \* (contexts with a missing target have no effect)
KeysUnique == \A r1, r2 \in Table : (r1.t = r2.t /\ r1.k = r2.k) => r1 = r2

(* texts by which the server refuses for lack of privilege *)
RefusalPrefix == <<89,111,117,32,97,114,101,32,110,111,116,32,97,108,108,111,119,101,100,32,116,111>>  \* "You are not allowed to"
UploadOnly == <<98,101,99,97,117,115,101,32,121,111,117,32,97,114,101,32,111,110,108,121,32,97,108,108,111,119,101,100,32,116,111,32,117,112,108,111,97,100,32,116,111,32,116,104,101>>  \* "because you are only allowed to upload to the"
HasPrefix(s, p) == Len(s) >= Len(p) /\ SubSeq(s, 1, Len(p)) = p
Contains(s, p) == \E i \in 1..(Len(s) - Len(p) + 1) : SubSeq(s, i, i + Len(p) - 1) = p
IsRefusalText(txt) == HasPrefix(txt, RefusalPrefix) \/ Contains(txt, UploadOnly)

(* ---- state ----------------------------------------------------------------- *)
VARIABLES accts,   \* login -> access set                       (account manager)
          cap,     \* created login -> the creator's access set at the time of creation   (ghost)
          live,    \* logins with an open, logged-in connection
          banned,  \* logins whose address is in the ban list
          fx,      \* effect classes that happened in the last step
          rep,     \* reply of the last step: "ok" | "refused" | "none"
          nm,      \* the requester's display name: "acct" (the account's name) | "req" (the name it asked for) | "empty"
          last     \* the last step (ghost)

vars == <<accts, cap, live, banned, fx, rep, nm, last>>

(* the world every harness case starts from: requester "req" (its access is set by the case), a second
   logged-in user "other", two spare accounts, and a guest account holding every privilege (so that anything a
   handler might copy from a default account is more than most creators hold) *)
Fresh == [l \in {"req", "other", "victim", "spare", "guest"} |-> IF l = "other" THEN Priv \ {23} ELSE IF l = "guest" THEN Priv ELSE {}]

Init == /\ accts = Fresh /\ cap = <<>> /\ live = {"req", "other"} /\ banned = {}
        /\ fx = {} /\ rep = "none" /\ nm = "acct" /\ last = [op |-> "init"]

(* Handle: the requester, holding exactly s.acc, sends transaction s.t in context s.k.
   Req \subseteq access => every effect of the request happens and the reply is not a refusal;
   otherwise one error reply and nothing else changes.  For a request that is a sequence of sub-requests the
   statement can be read two ways: s.rd = "atomic" (nothing happens) or "partial" (the sub-requests before the
   first forbidden one, each governed by a privilege the requester holds, have happened). *)
Handle(s) ==
  LET r == Row(s.t, s.k)
      n == Len(r.parts)
      bad == {i \in 1..n : ~(NeedOf(r.parts[i]) \subseteq s.acc)}
      firstBad == IF bad = {} THEN n + 1 ELSE CHOOSE i \in bad : \A j \in bad : i <= j
      done == UNION {r.parts[i] : i \in 1..(firstBad - 1)}
  IN
  /\ accts' = [accts EXCEPT !["req"] = s.acc]
  /\ last' = s
  /\ IF r.sp = "anyname"
       THEN /\ nm' = IF 26 \in s.acc THEN "req"
                      ELSE IF r.t = 304 /\ r.st \in {"pre", "noname"} THEN "empty"   \* (it had no name and gets none)
                      ELSE "acct"
            /\ rep' = "ok"
            /\ fx' = IF 26 \in s.acc THEN {"name.any"} ELSE {}
       ELSE /\ nm' = nm
            /\ IF r.req \subseteq s.acc
                 THEN rep' = "ok" /\ fx' = EffOf(r)
                 ELSE rep' = "refused" /\ fx' = IF s.rd = "partial" THEN done ELSE {}
  /\ live' = IF "user.disconnect" \in fx' THEN live \ {"other"} ELSE live
  /\ banned' = IF "user.ban" \in fx' THEN banned \cup {"other"} ELSE banned
  /\ UNCHANGED cap

(* Create: s.by asks for a new account s.login with access s.want, through New User (350) or the create
   branch of Update User (349).  When s.by is the requester its access is set to s.acc first. *)
Shapes == {"full", "absent", "empty", "len1", "len4", "len7", "len9", "len16", "dup"}
(* what a requested bitmap amounts to when the access field has an unusual shape (s.shape): absent or empty - no
   privilege; shorter than 8 bytes - the privileges of the bytes that are there; longer - the first 8 bytes;
   the field twice (the second one all ones) - the first one.  (This is what the code does; the property only says
   that whatever results is within the creator's privileges.) *)
EffWant(s) ==
  CASE s.shape \in {"absent", "empty"} -> {}
    [] s.shape = "len1" -> s.want \cap (0..7)
    [] s.shape = "len4" -> s.want \cap (0..31)
    [] s.shape = "len7" -> s.want \cap (0..55)
    [] OTHER -> s.want

Create(s) ==
  LET a1 == IF s.by = "req" THEN [accts EXCEPT !["req"] = s.acc] ELSE accts
      cacc == a1[s.by]
      ok == 14 \in cacc /\ EffWant(s) \subseteq cacc /\ s.login \notin DOMAIN accts
  IN
  /\ s.by \in DOMAIN accts
  /\ accts' = IF ok THEN a1 @@ (s.login :> EffWant(s)) ELSE a1
  /\ cap' = IF ok THEN cap @@ (s.login :> cacc) ELSE cap
  /\ rep' = IF ok THEN "ok" ELSE "refused"
  /\ fx' = IF ok THEN {"acct.create"} ELSE {}
  /\ last' = s
  /\ UNCHANGED <<live, banned, nm>>

(* Kick: the requester (access s.acc) sends Disconnect User (110) with ban option s.ban against "other", whose
   account has access s.tacc.  s.third: a bystander "prot" (access s.pacc) is logged in as well - from the same
   address as the target ("same"), from another address ("other") - or there is none ("none").  A disconnect request
   names one user: the bystander stays (and a bystander holding privilege 23 must stay, whatever the ban option). *)
Kick(s) ==
  LET tacc == IF s.shared THEN s.acc ELSE s.tacc     \* shared: the target is another session of the requester's account
      ok == 22 \in s.acc /\ 23 \notin tacc
      a1 == [accts EXCEPT !["req"] = s.acc, !["other"] = tacc]
  IN
  /\ accts' = IF s.third = "none" THEN a1 ELSE a1 @@ ("prot" :> s.pacc)
  /\ rep' = IF ok THEN "ok" ELSE "refused"
  /\ fx' = IF ok THEN {"user.disconnect"} \cup (IF s.ban > 0 THEN {"user.ban"} ELSE {}) ELSE {}
  /\ live' = (IF ok THEN live \ {"other"} ELSE live) \cup (IF s.third = "none" THEN {} ELSE {"prot"})
  /\ banned' = IF ok /\ s.ban > 0 THEN banned \cup {"other"} ELSE banned
  /\ last' = s
  /\ UNCHANGED <<cap, nm>>

(* Rt: a privilege set goes through the account file and the wire (pure: the state is not touched) *)
Rt(s) ==
  /\ last' = s /\ fx' = {} /\ rep' = "none"
  /\ UNCHANGED <<accts, cap, live, banned, nm>>

(* Upd: an administrator changes the privileges of the account "victim" to s.S (Set User 353 or the modify branch
   of Update User 349) while a session of that account is live.  The session is told its new privileges in a User
   Access (354) transaction (353; the code sends none for 349 - the session then keeps deciding by, and knowing,
   its old set) and whatever it is told is what is decided and what the file says. *)
Upd(s) ==   \* s.near # "none": a bystander account "near" (access s.B) whose login differs from the edited one only
            \* in letter case / is a prefix / has it as a prefix, with its own live session: it is not touched
  /\ accts' = IF s.near = "none" THEN [accts EXCEPT !["req"] = Priv, !["victim"] = s.S]
                               ELSE [accts EXCEPT !["req"] = Priv, !["victim"] = s.S] @@ ("near" :> s.B)
  /\ last' = s /\ fx' = {"acct.modify"} /\ rep' = "ok"
  /\ UNCHANGED <<cap, live, banned, nm>>

(* Multi: the account "victim" (access s.a0) has s.n live sessions; an administrator changes it to s.a1 (Set User 353
   or the modify branch of Update User 349); then either the administrator sends Disconnect User (ban option s.ban)
   against session number s.k, or session number s.k asks for a new account with access s.want (request s.via).
   Every session of an account is that account, and the account is what it is now: a session of an account that has
   just been marked cannot-be-disconnected is protected; an account created by a session of an account that has just
   lost a privilege does not get that privilege. *)
Multi(s) ==
  LET a1 == [accts EXCEPT !["req"] = Priv, !["victim"] = s.a1]
      kickOK == s.near = "none" /\ 23 \notin s.a1    \* s.near # "none": the target is the session of a protected bystander
                                                    \* account whose login is a near variant of the edited one
      createOK == 14 \in s.a1 /\ s.want \subseteq s.a1
  IN
  /\ last' = s /\ nm' = nm
  /\ IF s.kind = "kick"
       THEN /\ accts' = a1 /\ cap' = cap
            /\ rep' = IF kickOK THEN "ok" ELSE "refused"
            /\ fx' = IF kickOK THEN {"user.disconnect"} \cup (IF s.ban > 0 THEN {"user.ban"} ELSE {}) ELSE {}
            /\ live' = IF kickOK THEN live ELSE live \cup {"victim"}      \* ("victim": its session number s.k)
            /\ banned' = IF kickOK /\ s.ban > 0 THEN banned \cup {"victim"} ELSE banned
       ELSE /\ accts' = IF createOK THEN a1 @@ ("newacct" :> s.want) ELSE a1
            /\ cap' = IF createOK THEN cap @@ ("newacct" :> s.a1) ELSE cap
            /\ rep' = IF createOK THEN "ok" ELSE "refused"
            /\ fx' = IF createOK THEN {"acct.create"} ELSE {}
            /\ UNCHANGED <<live, banned>>

(* Batch: one Update User (349) request of the requester (access s.acc) with several entries, processed in order:
     "modself"  the requester's own account is modified: its access becomes e.set
     "renself"  the requester's own account is renamed (access e.set, normally unchanged)
     "delete"   the account "spare" is deleted
     "create"   a new account e.login with access e.set
   The creator's bitmap that counts for an entry is the one in force after the entries before it.  The request
   stops with an error reply at the first entry the requester may not perform; what was done stays done. *)
RECURSIVE BatchRun(_, _, _, _)
BatchRun(es, i, cur, made) ==
  IF i > Len(es) THEN [made |-> made, bad |-> 0, cur |-> cur]
  ELSE LET e == es[i] IN
    CASE e.kind \in {"modself", "renself"} ->
           IF 17 \in cur THEN BatchRun(es, i + 1, e.set, made) ELSE [made |-> made, bad |-> i, cur |-> cur]
      [] e.kind = "delete" ->
           IF 15 \in cur THEN BatchRun(es, i + 1, cur, made) ELSE [made |-> made, bad |-> i, cur |-> cur]
      [] e.kind = "create" ->
           IF 14 \in cur /\ e.set \subseteq cur
             THEN BatchRun(es, i + 1, cur, made @@ (e.login :> [got |-> e.set, cap |-> cur]))
             ELSE [made |-> made, bad |-> i, cur |-> cur]

(* the requester's bitmap in force when entry k is processed (entries 1..k-1 applied) *)
RECURSIVE CurAt(_, _, _)
CurAt(es, k, acc) == IF k <= 1 THEN acc
                     ELSE LET c == CurAt(es, k - 1, acc) IN
                          IF es[k - 1].kind \in {"modself", "renself"} THEN es[k - 1].set ELSE c

Batch(s) ==
  LET r == BatchRun(s.entries, 1, s.acc, <<>>)
      a1 == [accts EXCEPT !["req"] = r.cur]
  IN
  /\ accts' = a1 @@ [l \in DOMAIN r.made |-> r.made[l].got]
  /\ cap' = cap @@ [l \in DOMAIN r.made |-> r.made[l].cap]
  /\ rep' = IF r.bad = 0 THEN "ok" ELSE "refused"
  /\ fx' = IF DOMAIN r.made # {} THEN {"acct.create"} ELSE {}
  /\ last' = s
  /\ UNCHANGED <<live, banned, nm>>

(* Open: an account editor (access s.racc, holding Open User 16) opens the account "victim" (access s.S) with Get
   User (352) and lists the accounts (348); what it is sent is the account's set.  Holding Modify User (17) it saves
   what it received (353): the account is unchanged. *)
Open(s) ==
  /\ accts' = [accts EXCEPT !["req"] = s.racc, !["victim"] = s.S]
  /\ last' = s /\ rep' = "ok"
  /\ fx' = {"acct.read"} \cup (IF 17 \in s.racc THEN {"acct.modify"} ELSE {})
  /\ UNCHANGED <<cap, live, banned, nm>>

Guard(s) ==
  CASE s.op = "handle" -> HasRow(s.t, s.k) /\ s.acc \subseteq Priv /\ s.rd \in {"atomic", "partial"}
    [] s.op = "create" -> s.by \in DOMAIN accts /\ s.want \subseteq Priv /\ s.via \in {349, 350} /\ s.shape \in Shapes
    [] s.op = "kick"   -> s.ban \in {0, 1, 2} /\ s.acc \subseteq Priv /\ s.tacc \subseteq Priv
                          /\ s.third \in {"none", "same", "other"} /\ s.pacc \subseteq Priv /\ s.shared \in BOOLEAN
    [] s.op = "rt"     -> s.S \subseteq Priv
    [] s.op = "upd"    -> s.S \subseteq Priv /\ s.old \subseteq Priv /\ s.via \in {349, 353}
                          /\ s.near \in {"none", "case", "prefix", "suffix"} /\ s.B \subseteq Priv
    [] s.op = "open"   -> s.S \subseteq Priv /\ s.racc \subseteq Priv /\ 16 \in s.racc
    [] s.op = "batch"  -> s.acc \subseteq Priv /\ Len(s.entries) \in 1..4
                          /\ \A i \in DOMAIN s.entries : s.entries[i].kind \in {"modself", "renself", "delete", "create"}
                                                           /\ s.entries[i].set \subseteq Priv
    [] s.op = "multi"  -> s.kind \in {"kick", "create"} /\ s.edit \in {349, 353} /\ s.n \in 1..3 /\ s.k \in 1..s.n
                          /\ s.a0 \subseteq Priv /\ s.a1 \subseteq Priv /\ s.ban \in {0, 1, 2} /\ s.via \in {349, 350}
                          /\ s.want \subseteq Priv /\ s.near \in {"none", "case", "prefix", "suffix"}
    [] OTHER -> FALSE

Apply(s) ==
  CASE s.op = "handle" -> Handle(s)
    [] s.op = "create" -> Create(s)
    [] s.op = "kick"   -> Kick(s)
    [] s.op = "rt"     -> Rt(s)
    [] s.op = "upd"    -> Upd(s)
    [] s.op = "multi"  -> Multi(s)
    [] s.op = "open"   -> Open(s)
    [] s.op = "batch"  -> Batch(s)

(* ---- properties ----------------------------------------------------------- *)
Actor == IF last.op = "create" THEN last.by ELSE IF last.op = "multi" /\ last.kind = "create" THEN "victim" ELSE "req"

(* C05: whatever happened is governed by a privilege the actor holds *)
NoEffectWithoutPrivilege == last.op # "batch" => \A e \in fx : Gov[e] \subseteq accts[Actor]   \* (batch: see NoAmplification / cap)

(* C05: a requester holding the governing privilege of every effect of its request is not refused *)
NeverRefusedWithPrivilege ==
  (last.op = "handle" /\ NeedOf(Eff(last.t, last.k)) \subseteq last.acc) => rep # "refused"

(* C05: a refused request changes nothing, or (partial reading) only what the actor may do - which is
   NoEffectWithoutPrivilege; under the atomic reading: *)
RefusedChangesNothing == (last.op = "handle" /\ rep = "refused" /\ last.rd = "atomic") => fx = {}

(* C05: the display name follows privilege 26 *)
NameFollowsPrivilege == (last.op = "handle" /\ Row(last.t, last.k).sp = "anyname") => (nm = "req" <=> 26 \in last.acc)

(* C06: an account never holds a privilege its creator lacked, on either creation request *)
NoAmplification == \A a \in DOMAIN cap : accts[a] \subseteq cap[a]

(* C06: a user whose account has privilege 23 is never disconnected or banned by a disconnect request *)
ProtectedNeverKicked ==
  [][\A u \in DOMAIN accts' : 23 \in accts'[u] =>
        ((u \in live => u \in live') /\ (u \notin banned => u \notin banned'))]_vars

(* C16 *)
RoundTrip     == last.op \in {"rt", "upd", "open"} => RoundTripOf(last.S)
LegacyAgrees  == last.op \in {"rt", "upd", "open"} => LegacyAgreesOf(last.S)
WireMeansSame == last.op \in {"rt", "upd", "open"} => WireMeansSameOf(last.S)
=============================================================================
