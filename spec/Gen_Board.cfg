CONSTANTS
  Readers = {1, 2}
  Posters = {11}
  ChunkLen = 2
  Locked = FALSE
INIT Init
NEXT Next
ACTION_CONSTRAINT Emit
CHECK_DEADLOCK FALSE
