INIT TInit
NEXT TNext
POSTCONDITION Consumed
CHECK_DEADLOCK FALSE
