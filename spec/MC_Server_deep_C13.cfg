CONSTANTS
  Conns = {1, 2, 3}
  IDMod = 4
  MaxChats = 1
  MaxSteps = 6
  GenDepth = 99
  Ops = {"connect","login","agreed","setinfo","userlist","close","closebegin","closeend","pm","getinfo","kick","churn","goneidle","wake","setuser"}
  Thin = FALSE
INIT Init
NEXT Next
VIEW View
CONSTRAINT Bound
INVARIANTS UniqueLiveIDs DeliveredOnlyToLive PrivateOnlyToMembers PublicOnlyToReaders NoDuplicateDelivery RosterConverges
PROPERTIES FreshIdOnLogin BanAtDoor NoPostLeaveDelivery
CHECK_DEADLOCK FALSE
