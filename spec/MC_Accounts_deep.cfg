CONSTANTS
  NL = 3
  NN = 1
  MaxSubs = 2
  MaxSteps = 5
  GenDepth = 99
  Ops = {"newuser","setuser","deluser","getuser","list","restart","login","update1","update2"}
  SubKinds = {"put","ren","del"}
  Thin = TRUE
  XPw = TRUE
  Long = FALSE
  Rand = FALSE
INIT Init
NEXT Next
VIEW View
CONSTRAINT Bound
INVARIANTS TypeOK ViewsAgree HashOnly RestartIsIdentity NoOverlongAccount
PROPERTIES NewCanLogin DeletedCannotLogin PasswordSemantics RenamedAwayCannotLogin ReadOnlySteps RoundOfOne OverlongLeavesNoTrace
CHECK_DEADLOCK FALSE
