CONSTANTS
  Deviations = {}
  Level = "core"
  MaxSteps = 99
  GenDepth = 8
  Thin = FALSE
INIT Init11
NEXT Next11
ACTION_CONSTRAINT Emit11
CHECK_DEADLOCK FALSE
