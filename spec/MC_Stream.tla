----------------------------- MODULE MC_Stream -----------------------------
(* Bounded instance of Stream for exhaustive checking: abstract frame lengths (handshake 3, transactions 3 or
   4, preamble 3, fork headers 2, info fork 1..2, data 0..4 bytes, resource fork 0..2 bytes), every frame
   sequence of the listed shapes, and every schedule of Deliver(k) / Consume / AskMore. *)
EXTENDS Stream

CONSTANTS MaxT,      \* at most this many transactions after the login
          MaxData    \* data fork of at most this many bytes

Fr(k, n) == [k |-> k, n |-> n, g |-> FALSE, last |-> FALSE]
Gr(k, n, last) == [k |-> k, n |-> n, g |-> TRUE, last |-> last]

TLens == {3, 4}

RECURSIVE TSeqs(_)
TSeqs(n) == IF n = 0 THEN {<<>>}
            ELSE LET S == TSeqs(n - 1)
                 IN S \cup {Append(s, Fr("T", b)) : s \in {x \in S : Len(x) = n - 1}, b \in TLens}

ControlShapes == {<<Fr("H", 3), Fr("L", a)>> \o ts : a \in TLens, ts \in TSeqs(MaxT)}

FileShape(m, n, r, inFolder) ==
  <<Fr("FILP", 2), Fr("INFOH", 2), Fr("INFO", m), Fr("DATAH", 2), Gr("DATA", n, inFolder /\ r < 0)>>
  \o (IF r >= 0 THEN <<Fr("MACRH", 2), Gr("RSRC", r, inFolder)>> ELSE <<>>)

UploadShapes == {<<Fr("P", 3)>> \o FileShape(m, n, r, FALSE) : m \in {1, 2}, n \in 0..MaxData, r \in -1..2}

DownloadShapes == {<<Fr("P", 3)>>}

FolderShapes ==
  {<<Fr("P", 3), Fr("ITEMD", 3), Fr("ITEMF", 3), Fr("FSIZE", 2)>> \o FileShape(1, n, r, TRUE)
     \o <<Fr("ITEMF", 4), Fr("FSIZE", 2)>> \o FileShape(1, 1, -1, TRUE) : n \in 1..2, r \in {-1, 1}}

Shapes == ControlShapes \cup UploadShapes \cup DownloadShapes \cup FolderShapes

Init == \E fs \in Shapes : InitWith(fs)

Spec == Init /\ [][Next]_vars

(* the folded step used by generation and trace validation lands exactly on the `asked` states of the model *)
FoldIsSound == asked /\ ~dead => /\ consumed = UnitsWithin(delivered)
                                 /\ events = EventsOf(delivered)
                                 /\ consumed = SumGotAll(events, Len(events))
                                 /\ Len(events) <= Len(frames)
=============================================================================
