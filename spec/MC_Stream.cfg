CONSTANTS
  Mode = "readfull"
  MaxT = 2
  MaxData = 4
INIT Init
NEXT Next
INVARIANTS SegmentationIndependent FoldIsSound
PROPERTIES EventsGrowInOrder
CHECK_DEADLOCK FALSE
