------------------------------- MODULE Server -------------------------------
(***************************************************************************)
(* Connections, login gate, client registry and user IDs, presence         *)
(* notifications, public and private chat, private messages, broadcast,    *)
(* administrative disconnect and bans of the Mobius Hotline server.        *)
(*                                                                         *)
(* The module is written to be bound to the code: one action per request   *)
(* handler (hotline/server.go handleNewConnection, ClientConn.Disconnect,  *)
(* internal/mobius/transaction_handlers.go HandleXxx), parameterised by a  *)
(* step record `s` so that the same action is used by the exhaustive model *)
(* (MC_Server: s ranges over a small finite set), by behaviour generation  *)
(* (Gen: the chosen steps are emitted as a script) and by trace validation *)
(* (Trace_Server: s is the next line of a log recorded from the real       *)
(* server).  Every action computes `out`, the exact bag of transactions    *)
(* the server must deliver because of that step.                           *)
(*                                                                         *)
(* Byte strings (names, messages, passwords) are sequences of 0..255.      *)
(* Properties: C04 (LoginGate, PreLoginSilence), C12 (audiences), C13      *)
(* (UniqueLiveIDs, AddressedToHolder, RosterConverges), C17 (BanAtDoor).   *)
(***************************************************************************)
EXTENDS Integers, Sequences, FiniteSets, TLC

CONSTANTS Conns         \* connection slots (a slot is used by at most one connection per run)

VARIABLES accts,   \* login -> [pw, name, acc]           (AccountManager)
          conn,    \* slot  -> connection record         (ClientConn + registry membership)
          chats,   \* sequence of [members, subject]     (ChatMgr); index = order of creation
          bans,    \* addr  -> "perm" | "future" | "soon" | "past"   (BanFile)
          agreement, \* the agreement text (Agreement.txt), a byte sequence
          out      \* sequence of deliveries caused by the last step

vars == <<accts, conn, chats, bans, agreement, out>>

(* privilege numbers used here *)
PReadChat == 9   PSendChat == 10  POpenChat == 11  PModifyUser == 17
PDiscon == 22    PNoDiscon == 23  PGetInfo == 24   PAnyName == 26
PNoAgree == 27   PBroadcast == 32 PSendPM == 40

FreeConn == [ph |-> "free", pend |-> <<>>, addr |-> "", id |-> -1, login |-> "", acc |-> {}, aname |-> <<>>, name |-> <<>>,
             icon |-> 0, admin |-> FALSE, refPM |-> FALSE, refChat |-> FALSE, away |-> FALSE, auto |-> <<>>, ready |-> FALSE]

Live == {c \in Conns : conn[c].ph \in {"in", "closing"}}     \* the client registry ("closing": the peer is gone, the handler has not yet removed the entry)
Others(c) == Live \ {c}

Flags(r) == (IF r.away THEN 1 ELSE 0) + (IF r.admin THEN 2 ELSE 0) + (IF r.refPM THEN 4 ELSE 0) + (IF r.refChat THEN 8 ELSE 0)

Has(c, p) == p \in conn[c].acc

(* ---- messages ---------------------------------------------------------- *)
Msg(to, t) == [to |-> to, t |-> t, rep |-> 0, err |-> 0, chat |-> 0, uid |-> -1, name |-> <<>>, data |-> <<>>,
               icon |-> -1, flags |-> -1, opt |-> -1, users |-> <<>>]
Reply(to)    == [Msg(to, 0) EXCEPT !.rep = 1]
ErrReply(to) == [Msg(to, 0) EXCEPT !.rep = 1, !.err = 1]

UserRec(c) == [uid |-> conn[c].id, name |-> conn[c].name, icon |-> conn[c].icon, flags |-> Flags(conn[c])]
UserRecOf(r) == [uid |-> r.id, name |-> r.name, icon |-> r.icon, flags |-> Flags(r)]

Notify301(to, r) == [Msg(to, 301) EXCEPT !.uid = r.id, !.name = r.name, !.icon = r.icon, !.flags = Flags(r)]
Notify302(to, id) == [Msg(to, 302) EXCEPT !.uid = id]

(* sequences from sets, ordered by user ID as ClientMgr.List / ChatMgr.Members sort them *)
RECURSIVE ById(_)
ById(S) == IF S = {} THEN <<>>
           ELSE LET m == CHOOSE x \in S : \A y \in S : conn[x].id <= conn[y].id
                IN <<m>> \o ById(S \ {m})

Map(f(_), sq) == [i \in DOMAIN sq |-> f(sq[i])]

Str(s) == s   \* byte sequences are already sequences

Spaces(n) == [i \in 1..n |-> 32]
Trunc(s, n) == IF Len(s) > n THEN SubSeq(s, 1, n) ELSE s

(* "\r%13.13s:  %s" and "\r*** %s %s", cut at 8192 bytes (ASCII names) *)
ChatLine(name, msg, emote) ==
  LET n13 == Trunc(name, 13)
      line == IF emote THEN <<13, 42, 42, 42, 32>> \o name \o <<32>> \o msg
              ELSE <<13>> \o Spaces(13 - Len(n13)) \o n13 \o <<58, 32, 32>> \o msg
  IN Trunc(line, 8192)

(* literal texts of the protocol / of Mobius, as bytes *)
PermText == <<89,111,117,32,97,114,101,32,112,101,114,109,97,110,101,110,116,108,121,32,98,97,110,110,101,100,32,111,110,32,116,104,105,115,32,115,101,114,118,101,114>>  \* "You are permanently banned on this server"
TempText == <<89,111,117,32,97,114,101,32,116,101,109,112,111,114,97,114,105,108,121,32,98,97,110,110,101,100,32,111,110,32,116,104,105,115,32,115,101,114,118,101,114>>  \* "You are temporarily banned on this server"
RefusePMText == <<32,100,111,101,115,32,110,111,116,32,97,99,99,101,112,116,32,112,114,105,118,97,116,101,32,109,101,115,115,97,103,101,115,46>>  \* " does not accept private messages."
RefuseChatText == <<32,100,111,101,115,32,110,111,116,32,97,99,99,101,112,116,32,112,114,105,118,97,116,101,32,99,104,97,116,115,46>>  \* " does not accept private chats."
DeclineText == <<32,100,101,99,108,105,110,101,100,32,105,110,118,105,116,97,116,105,111,110,32,116,111,32,99,104,97,116>>  \* " declined invitation to chat"

(* the 8-byte access bitmap of a set of privilege numbers: privilege i is bit i from the most significant bit of byte 0 *)
Pow2(n) == CASE n = 0 -> 1 [] n = 1 -> 2 [] n = 2 -> 4 [] n = 3 -> 8 [] n = 4 -> 16 [] n = 5 -> 32 [] n = 6 -> 64 [] n = 7 -> 128
RECURSIVE SumBits(_, _)
SumBits(S, byte) == IF S = {} THEN 0
                    ELSE LET x == CHOOSE y \in S : TRUE IN
                         (IF x \div 8 = byte THEN Pow2(7 - (x % 8)) ELSE 0) + SumBits(S \ {x}, byte)
AccBytes(S) == [i \in 1..8 |-> SumBits(S, i - 1)]

(* ---- initial state ------------------------------------------------------ *)
InitWith(a, agr) == /\ accts = a
               /\ agreement = agr
               /\ conn = [c \in Conns |-> FreeConn]
               /\ chats = <<>>
               /\ bans = <<>>       \* a function addr -> class, built with @@
               /\ out = <<>>

BanOf(addr) == IF addr \in DOMAIN bans THEN bans[addr] ELSE "none"
Refused(addr) == BanOf(addr) \in {"perm", "future", "soon"}

(* ---- connection and login ------------------------------------------------ *)
(* Connect: TCP accept + valid handshake.  A banned address gets the handshake reply and one ban notice, then
   the connection is closed; nothing else happens (C17 BanAtDoor). *)
Connect(s) ==
  LET c == s.c IN
  /\ conn[c].ph \in {"free", "dialed"}
  /\ IF Refused(s.addr)
       THEN /\ conn' = [conn EXCEPT ![c] = [FreeConn EXCEPT !.ph = "closed", !.addr = s.addr]]
            /\ out' = << [Msg(c, 104) EXCEPT !.data = IF BanOf(s.addr) = "perm" THEN PermText ELSE TempText,
                                            !.opt = 0] >>
       ELSE /\ conn' = [conn EXCEPT ![c] = [FreeConn EXCEPT !.ph = "open", !.addr = s.addr]]
            /\ out' = <<>>
  /\ UNCHANGED <<agreement, accts, chats, bans>>

(* Dial / Handshake: the same in two steps - the TCP connection is accepted first and the peer sends its handshake
   later.  The ban list is consulted when the handshake has been read (C17: "refused right after the handshake"),
   so a ban added between the two steps applies. *)
Dial(s) ==
  /\ conn' = [conn EXCEPT ![s.c] = [FreeConn EXCEPT !.ph = "dialed", !.addr = s.addr]]
  /\ out' = <<>>
  /\ UNCHANGED <<agreement, accts, chats, bans>>

Handshake(s) == Connect([s EXCEPT !.op = "connect"] @@ [addr |-> conn[s.c].addr])

LoginName(s) == IF s.login = "" THEN "guest" ELSE s.login
PwMatches(s) == IF "matches" \in DOMAIN s THEN s.matches   \* computed by the harness with bcrypt from the account file
                ELSE LoginName(s) \in DOMAIN accts /\ accts[LoginName(s)].pw = s.pw

(* Login: first transaction on an open connection.  s.flow = "old" carries name+icon (1.2.3 clients). *)
Login(s) ==
  LET c == s.c
      L == LoginName(s)
  IN
  /\ conn[c].ph = "open"
  /\ IF ~PwMatches(s)
       THEN (* C04: one error reply, close, nothing else changes *)
            /\ conn' = [conn EXCEPT ![c].ph = "closed"]
            /\ out' = << ErrReply(c) >>
       ELSE LET a == accts[L]
                nm == IF s.flow = "old" THEN (IF PAnyName \in a.acc THEN s.name ELSE a.name) ELSE <<>>
                r == [conn[c] EXCEPT !.ph = "in", !.id = s.id, !.login = L, !.acc = a.acc, !.aname = a.name,
                                     !.name = nm, !.icon = IF s.flow = "old" THEN s.icon ELSE 0,
                                     !.admin = PDiscon \in a.acc, !.ready = (s.flow = "old")]
                agree == IF PNoAgree \in a.acc
                           THEN (IF s.flow = "old" THEN <<>> ELSE << [Msg(c, 109) EXCEPT !.opt = 1] >>)
                           ELSE << [Msg(c, 109) EXCEPT !.data = agreement] >>
            IN /\ conn' = [conn EXCEPT ![c] = r]
               /\ out' = << Reply(c), [Msg(c, 354) EXCEPT !.data = AccBytes(a.acc)] >> \o agree
                         \o (IF Len(nm) > 0 THEN Map(LAMBDA d : Notify301(d, r), ById(Live)) ELSE <<>>)
  /\ UNCHANGED <<agreement, accts, chats, bans>>

(* The login split at the point where the credentials are looked up (AccountManager.Get): between LoginBegin and
   LoginEnd the connection is not logged in - it is in nobody's user list and receives nothing (C04). *)
LoginBegin(s) ==
  /\ conn[s.c].ph = "open"
  /\ conn' = [conn EXCEPT ![s.c].ph = "auth", ![s.c].pend = <<s>>]
  /\ out' = <<>>
  /\ UNCHANGED <<agreement, accts, chats, bans>>

LoginEnd(s) ==
  LET c == s.c
      q == [conn[c].pend[1] EXCEPT !.id = s.id] @@ s
      L == LoginName(q)
  IN
  /\ conn[c].ph = "auth"
  /\ IF ~PwMatches(q)
       THEN /\ conn' = [conn EXCEPT ![c].ph = "closed"]
            /\ out' = << ErrReply(c) >>
       ELSE LET a == accts[L]
                nm == IF q.flow = "old" THEN (IF PAnyName \in a.acc THEN q.name ELSE a.name) ELSE <<>>
                r == [conn[c] EXCEPT !.ph = "in", !.id = s.id, !.login = L, !.acc = a.acc, !.aname = a.name,
                                     !.name = nm, !.icon = IF q.flow = "old" THEN q.icon ELSE 0,
                                     !.admin = PDiscon \in a.acc, !.ready = (q.flow = "old")]
                agree == IF PNoAgree \in a.acc
                           THEN (IF q.flow = "old" THEN <<>> ELSE << [Msg(c, 109) EXCEPT !.opt = 1] >>)
                           ELSE << [Msg(c, 109) EXCEPT !.data = agreement] >>
            IN /\ conn' = [conn EXCEPT ![c] = r]
               /\ out' = << Reply(c), [Msg(c, 354) EXCEPT !.data = AccBytes(a.acc)] >> \o agree
                         \o (IF Len(nm) > 0 THEN Map(LAMBDA d : Notify301(d, r), ById(Live)) ELSE <<>>)
  /\ UNCHANGED <<agreement, accts, chats, bans>>

(* The disconnect split at the registry removal (ClientMgr.Delete): after CloseBegin the peer is gone but the entry is
   still there; CloseEnd removes it and tells everybody who is registered at that moment. *)
CloseBegin(s) ==
  /\ conn[s.c].ph = "in"
  /\ conn' = [conn EXCEPT ![s.c].ph = "closing"]
  /\ out' = <<>>
  /\ UNCHANGED <<agreement, accts, chats, bans>>

CloseEnd(s) ==
  LET c == s.c IN
  /\ conn[c].ph = "closing"
  /\ conn' = [conn EXCEPT ![c].ph = "closed"]
  /\ out' = Map(LAMBDA d : Notify302(d, conn[c].id), ById(Others(c)))
  /\ UNCHANGED <<agreement, accts, chats, bans>>

(* Agreed (121): name/icon/options of a 1.5+ client; tells the others. *)
Agreed(s) ==
  LET c == s.c
      nm == IF PAnyName \in conn[c].acc THEN s.name ELSE conn[c].aname
      r == [conn[c] EXCEPT !.name = nm, !.icon = s.icon, !.ready = TRUE, !.refPM = (s.opts % 2 = 1),
                           !.refChat = ((s.opts \div 2) % 2 = 1),
                           !.auto = IF (s.opts \div 4) % 2 = 1 THEN s.auto ELSE conn[c].auto]
  IN
  /\ conn[c].ph = "in"
  /\ conn' = [conn EXCEPT ![c] = r]
  /\ out' = Map(LAMBDA d : Notify301(d, r), ById(Others(c))) \o << Reply(c) >>
  /\ UNCHANGED <<agreement, accts, chats, bans>>

(* SetClientUserInfo (304): no reply; everybody including the sender is told. *)
SetInfo(s) ==
  LET c == s.c
      r == [conn[c] EXCEPT !.name = IF PAnyName \in conn[c].acc THEN s.name ELSE conn[c].name,
                           !.icon = s.icon,
                           !.refPM = IF s.opts >= 0 THEN s.opts % 2 = 1 ELSE conn[c].refPM,
                           !.refChat = IF s.opts >= 0 THEN (s.opts \div 2) % 2 = 1 ELSE conn[c].refChat,
                           !.auto = IF s.opts >= 0 THEN (IF (s.opts \div 4) % 2 = 1 THEN s.auto ELSE <<>>) ELSE conn[c].auto]
  IN
  /\ conn[c].ph = "in"
  /\ conn' = [conn EXCEPT ![c] = r]
  /\ out' = Map(LAMBDA d : Notify301(d, r), ById(Live))
  /\ UNCHANGED <<agreement, accts, chats, bans>>

(* Idle time (keepaliveHandler): after more than 300 s without a request other than keep-alives a user is marked away
   and everybody is told.  The next request of the user - here: a user-list request - is answered as usual (the
   reply still shows the user away), then the away flag is cleared and everybody is told again. *)
GoneIdle(s) ==
  LET c == s.c  r == [conn[c] EXCEPT !.away = TRUE] IN
  /\ conn[c].ph = "in" /\ ~conn[c].away
  /\ conn' = [conn EXCEPT ![c] = r]
  /\ out' = Map(LAMBDA d : Notify301(d, r), ById(Live))
  /\ UNCHANGED <<agreement, accts, chats, bans>>

Wake(s) ==
  LET c == s.c  r == [conn[c] EXCEPT !.away = FALSE] IN
  /\ conn[c].ph = "in" /\ conn[c].away
  /\ conn' = [conn EXCEPT ![c] = r]
  /\ out' = << [Reply(c) EXCEPT !.users = Map(UserRec, ById(Live))] >> \o Map(LAMBDA d : Notify301(d, r), ById(Live))
  /\ UNCHANGED <<agreement, accts, chats, bans>>

(* GetUserNameList (300) *)
UserList(s) ==
  /\ conn[s.c].ph = "in"
  /\ out' = << [Reply(s.c) EXCEPT !.users = Map(UserRec, ById(Live))] >>
  /\ UNCHANGED <<agreement, accts, conn, chats, bans>>

(* Close: the client drops the connection; the deferred Disconnect tells everybody else. *)
Close(s) ==
  LET c == s.c IN
  /\ conn[c].ph \in {"open", "in"}
  /\ conn' = [conn EXCEPT ![c].ph = "closed"]
  /\ out' = IF conn[c].ph = "in" THEN Map(LAMBDA d : Notify302(d, conn[c].id), ById(Others(c))) ELSE <<>>
  /\ UNCHANGED <<agreement, accts, chats, bans>>

(* ---- chat --------------------------------------------------------------- *)
LiveMembers(k) == chats[k].members \cap Live

ChatSend(s) ==
  LET c == s.c
      line == ChatLine(conn[c].name, s.msg, s.emote)
  IN
  /\ conn[c].ph = "in"
  /\ IF ~Has(c, PSendChat) THEN out' = << ErrReply(c) >>
     ELSE IF s.chat = 0
       THEN out' = Map(LAMBDA d : [Msg(d, 106) EXCEPT !.data = line], ById({d \in Live : Has(d, PReadChat)}))
       ELSE /\ s.chat \in DOMAIN chats
            /\ out' = Map(LAMBDA d : [Msg(d, 106) EXCEPT !.chat = s.chat, !.data = line], ById(LiveMembers(s.chat)))
  /\ UNCHANGED <<agreement, accts, conn, chats, bans>>

(* InviteNewChat (112): a new chat with the inviter as only member; target is told unless it refuses chats. *)
InviteNew(s) ==
  LET c == s.c
      tg == s.target
      k == Len(chats) + 1
      rep == [Reply(c) EXCEPT !.chat = k, !.uid = conn[c].id, !.name = conn[c].name, !.icon = conn[c].icon,
                              !.flags = Flags(conn[c])]
  IN
  /\ conn[c].ph = "in" /\ conn[tg].ph = "in"
  /\ IF ~Has(c, POpenChat) THEN out' = << ErrReply(c) >> /\ UNCHANGED chats
     ELSE /\ chats' = Append(chats, [members |-> {c}, subject |-> <<>>])
          /\ out' = (IF conn[tg].refChat
                       THEN << [Msg(c, 104) EXCEPT !.data = conn[tg].name \o RefuseChatText, !.name = conn[tg].name,
                                                   !.uid = conn[tg].id, !.opt = 2] >>
                       ELSE << [Msg(tg, 113) EXCEPT !.chat = k, !.name = conn[c].name, !.uid = conn[c].id] >>)
                    \o << rep >>
  /\ UNCHANGED <<agreement, accts, conn, bans>>

InviteTo(s) ==
  LET c == s.c  tg == s.target IN
  /\ conn[c].ph = "in" /\ conn[tg].ph = "in" /\ s.chat \in DOMAIN chats
  /\ IF ~Has(c, POpenChat) THEN out' = << ErrReply(c) >>
     ELSE out' = << [Msg(tg, 113) EXCEPT !.chat = s.chat, !.name = conn[c].name, !.uid = conn[c].id],
                    [Reply(c) EXCEPT !.chat = s.chat, !.uid = conn[c].id, !.name = conn[c].name,
                                     !.icon = conn[c].icon, !.flags = Flags(conn[c])] >>
  /\ UNCHANGED <<agreement, accts, conn, chats, bans>>

Reject(s) ==
  LET c == s.c IN
  /\ conn[c].ph = "in" /\ s.chat \in DOMAIN chats
  /\ out' = Map(LAMBDA d : [Msg(d, 106) EXCEPT !.chat = s.chat, !.data = conn[c].name \o DeclineText],
                ById(LiveMembers(s.chat)))
  /\ UNCHANGED <<agreement, accts, conn, chats, bans>>

Join(s) ==
  LET c == s.c  k == s.chat
      after == chats[k].members \cup {c}
  IN
  /\ conn[c].ph = "in" /\ k \in DOMAIN chats
  /\ chats' = [chats EXCEPT ![k].members = after]
  /\ out' = Map(LAMBDA d : [Msg(d, 117) EXCEPT !.chat = k, !.uid = conn[c].id, !.name = conn[c].name,
                                               !.icon = conn[c].icon, !.flags = Flags(conn[c])],
                ById(LiveMembers(k)))
            \o << [Reply(c) EXCEPT !.data = chats[k].subject, !.users = Map(UserRec, ById(after \cap Live))] >>   \* members whose connection is gone are dropped
  /\ UNCHANGED <<agreement, accts, conn, bans>>

Leave(s) ==
  LET c == s.c  k == s.chat IN
  /\ conn[c].ph = "in" /\ k \in DOMAIN chats
  /\ chats' = [chats EXCEPT ![k].members = @ \ {c}]
  /\ out' = Map(LAMBDA d : [Msg(d, 118) EXCEPT !.chat = k, !.uid = conn[c].id], ById(LiveMembers(k) \ {c}))
  /\ UNCHANGED <<agreement, accts, conn, bans>>

Subject(s) ==
  LET c == s.c  k == s.chat IN
  /\ conn[c].ph = "in" /\ k \in DOMAIN chats
  /\ chats' = [chats EXCEPT ![k].subject = s.subject]
  /\ out' = Map(LAMBDA d : [Msg(d, 119) EXCEPT !.chat = k, !.data = s.subject], ById(LiveMembers(k)))
  /\ UNCHANGED <<agreement, accts, conn, bans>>

(* ---- private message, broadcast, info ------------------------------------ *)
(* Requests address a user by ID.  The script names a connection slot; the request carries the ID that slot was
   given at login, and it reaches whoever holds that ID now (IDs of departed users are handed out again). *)
Holder(t) == IF \E d \in Live : conn[d].id = conn[t].id
               THEN CHOOSE d \in Live : conn[d].id = conn[t].id
               ELSE t

(* a user ID nobody holds: nothing happens, not even a reply. *)
SendPM(s) ==
  LET c == s.c  tg == Holder(s.target) IN
  /\ conn[c].ph = "in"
  /\ IF ~Has(c, PSendPM) THEN out' = << ErrReply(c) >>
     ELSE IF tg \notin Live THEN out' = <<>>
     ELSE out' =
            (IF conn[tg].refPM
               THEN << [Msg(c, 104) EXCEPT !.data = conn[tg].name \o RefusePMText, !.name = conn[tg].name,
                                           !.uid = conn[tg].id, !.opt = 2] >>
               ELSE << [Msg(tg, 104) EXCEPT !.data = s.msg, !.name = conn[c].name, !.uid = conn[c].id, !.opt = 1] >>)
            \o (IF Len(conn[tg].auto) > 0
                  THEN << [Msg(c, 104) EXCEPT !.data = conn[tg].auto, !.name = conn[tg].name, !.uid = conn[tg].id,
                                              !.opt = 1] >>
                  ELSE <<>>)
            \o << Reply(c) >>
  /\ UNCHANGED <<agreement, accts, conn, chats, bans>>

Broadcast(s) ==
  LET c == s.c IN
  /\ conn[c].ph = "in"
  /\ IF ~Has(c, PBroadcast) THEN out' = << ErrReply(c) >>
     ELSE out' = Map(LAMBDA d : [Msg(d, 104) EXCEPT !.data = s.msg, !.opt = 0], ById(Live)) \o << Reply(c) >>
  /\ UNCHANGED <<agreement, accts, conn, chats, bans>>

GetInfo(s) ==
  LET c == s.c  tg == Holder(s.target) IN
  /\ conn[c].ph = "in"
  /\ IF ~Has(c, PGetInfo) THEN out' = << ErrReply(c) >>
     ELSE IF tg \notin Live THEN out' = << ErrReply(c) >>
     ELSE out' = << [Reply(c) EXCEPT !.name = conn[tg].name] >>
  /\ UNCHANGED <<agreement, accts, conn, chats, bans>>

(* SetUser (353) by an administrator: privileges of connected users of that account change at once.  The admin
   flag shown to others is computed from the access the connection had BEFORE the change (as the code does). *)
SetUser(s) ==
  LET c == s.c
      hit == {d \in Live : conn[d].login = s.login}
      upd(d) == [conn[d] EXCEPT !.acc = s.acc, !.admin = PDiscon \in conn[d].acc]
      conn2 == [d \in Conns |-> IF d \in hit THEN upd(d) ELSE conn[d]]
      perHit(d) == << [Msg(d, 354) EXCEPT !.data = AccBytes(s.acc)] >>
                   \o Map(LAMBDA e : Notify301(e, conn2[d]), ById(Live))
      RECURSIVE Cat(_)
      Cat(sq) == IF sq = <<>> THEN <<>> ELSE perHit(Head(sq)) \o Cat(Tail(sq))
  IN
  /\ conn[c].ph = "in"
  /\ IF ~Has(c, PModifyUser) THEN out' = << ErrReply(c) >> /\ UNCHANGED <<agreement, accts, conn>>
     ELSE IF s.login \notin DOMAIN accts THEN out' = << ErrReply(c) >> /\ UNCHANGED <<agreement, accts, conn>>
     ELSE /\ accts' = [accts EXCEPT ![s.login].acc = s.acc, ![s.login].name = s.name,
                                  ![s.login].pw = IF "pwset" \in DOMAIN s /\ s.pwset THEN s.newpw ELSE @]
          /\ conn' = conn2
          /\ out' = Cat(ById(hit)) \o << Reply(c) >>
  /\ UNCHANGED <<agreement, chats, bans>>

(* ---- administrative disconnect and bans (C17, C06) ------------------------ *)
(* Kick (110): s.ban in {0,1,2}.  The victim is closed about a second later; everybody else is told (the code
   tells them twice - once from the handler's timer, once from the victim's own deferred cleanup; the trace
   specification compares user-left notices as a set). *)
Kick(s) ==
  LET c == s.c  tg == s.target
      banned == s.ban \in {1, 2}
  IN
  /\ conn[c].ph = "in" /\ conn[tg].ph = "in"
  /\ IF ~Has(c, PDiscon) THEN out' = << ErrReply(c) >> /\ UNCHANGED <<conn, bans>>
     ELSE IF Has(tg, PNoDiscon) THEN out' = << ErrReply(c) >> /\ UNCHANGED <<conn, bans>>
     ELSE /\ conn' = [conn EXCEPT ![tg].ph = "closed"]
          /\ bans' = IF banned
                       THEN [a \in DOMAIN bans \cup {conn[tg].addr} |->
                               IF a = conn[tg].addr THEN (IF s.ban = 2 THEN "perm" ELSE "future") ELSE bans[a]]
                       ELSE bans
          /\ out' = (IF banned THEN << [Msg(tg, 104) EXCEPT !.data = IF s.ban = 2 THEN PermText ELSE TempText,
                                                          !.opt = 0] >> ELSE <<>>)
                    \o << Reply(c) >>
                    \o Map(LAMBDA d : Notify302(d, conn[tg].id), ById(Live \ {tg}))
  /\ UNCHANGED <<agreement, accts, chats>>

(* The harness plants a ban with a chosen expiry class through the ban list's public Add. *)
BanAdd(s) ==
  /\ bans' = [a \in DOMAIN bans \cup {s.addr} |-> IF a = s.addr THEN s.class ELSE bans[a]]
  /\ out' = <<>>
  /\ UNCHANGED <<agreement, accts, conn, chats>>

(* Time passes: bans that expire "soon" have expired. *)
Wait(s) ==
  /\ bans' = [a \in DOMAIN bans |-> IF bans[a] = "soon" THEN "past" ELSE bans[a]]
  /\ out' = <<>>
  /\ UNCHANGED <<agreement, accts, conn, chats>>

(* Churn: n connections come and go (each takes a user ID from the registry's counter and releases it). *)
Churn(s) ==
  /\ out' = <<>>
  /\ UNCHANGED <<agreement, accts, conn, chats, bans>>

(* A connection that does not get in: a bad handshake (nothing is answered, the connection is dropped), or a valid
   handshake followed by a first transaction without valid credentials (one error reply), whatever transactions
   the peer appends after it.  Nothing else may happen (C04 PreLoginSilence). *)
HsValid(s) == s.hs = "ok"
RawFail(s) ==
  LET c == s.c IN
  /\ conn[c].ph = "free"
  /\ ~(HsValid(s) /\ s.matches)
  /\ conn' = [conn EXCEPT ![c] = [FreeConn EXCEPT !.ph = "closed", !.addr = s.addr]]
  /\ out' = IF HsValid(s) /\ s.sentFirst THEN << ErrReply(c) >> ELSE <<>>
  /\ UNCHANGED <<agreement, accts, chats, bans>>

(* One planted ban has expired in real time (reported by the harness from its own clock). *)
Expire(s) ==
  /\ bans' = [a \in DOMAIN bans |-> IF a = s.addr /\ bans[a] = "soon" THEN "past" ELSE bans[a]]
  /\ out' = <<>>
  /\ UNCHANGED <<agreement, accts, conn, chats>>

(* Restart: the ban list is reloaded from its file; connections are not modelled across restarts. *)
Restart(s) ==
  /\ out' = <<>>
  /\ UNCHANGED <<agreement, accts, conn, chats, bans>>

(* Guard(s): the step is meaningful in the current model state (the trace specification reports a step whose
   guard fails as drift instead of stalling). *)
InP(c) == c \in Conns /\ conn[c].ph = "in"
Awake(c) == InP(c) /\ ~conn[c].away   \* an away user's next request is modelled by Wake only
Guard(s) ==
  CASE s.op = "connect"   -> s.c \in Conns /\ conn[s.c].ph = "free"
    [] s.op = "dial"      -> s.c \in Conns /\ conn[s.c].ph = "free"
    [] s.op = "handshake" -> s.c \in Conns /\ conn[s.c].ph = "dialed"
    [] s.op = "login"     -> s.c \in Conns /\ conn[s.c].ph = "open"
    [] s.op = "loginbegin" -> s.c \in Conns /\ conn[s.c].ph = "open"
    [] s.op = "loginend"  -> s.c \in Conns /\ conn[s.c].ph = "auth"
    [] s.op = "closebegin" -> InP(s.c)
    [] s.op = "closeend"  -> s.c \in Conns /\ conn[s.c].ph = "closing"
    [] s.op \in {"chatstorm", "banstorm"} -> TRUE
    [] s.op = "close"     -> s.c \in Conns /\ conn[s.c].ph \in {"open", "in"}
    [] s.op \in {"agreed", "setinfo", "userlist", "broadcast", "setuser"} -> InP(s.c) /\ ~conn[s.c].away
    [] s.op = "goneidle"  -> InP(s.c) /\ ~conn[s.c].away
    [] s.op = "wake"      -> InP(s.c) /\ conn[s.c].away
    [] s.op = "chat"      -> Awake(s.c) /\ (s.chat = 0 \/ s.chat \in DOMAIN chats)
    [] s.op = "invitenew" -> Awake(s.c) /\ InP(s.target)
    [] s.op = "invite"    -> Awake(s.c) /\ InP(s.target) /\ s.chat \in DOMAIN chats
    [] s.op \in {"reject", "join", "leave", "subject"} -> Awake(s.c) /\ s.chat \in DOMAIN chats
    [] s.op \in {"pm", "getinfo"} -> Awake(s.c) /\ s.target \in Conns
    [] s.op = "kick"      -> Awake(s.c) /\ InP(s.target) /\ s.c # s.target
    [] s.op \in {"banadd", "wait", "expire", "restart", "churn", "idle"} -> TRUE
    [] s.op = "rawfail"   -> s.c \in Conns /\ conn[s.c].ph = "free" /\ ~Refused(s.addr) /\ ~(HsValid(s) /\ s.matches)
    [] OTHER -> FALSE

Apply(s) ==
  CASE s.op = "connect"   -> Connect(s)
    [] s.op = "dial"      -> Dial(s)
    [] s.op = "handshake" -> Handshake(s)
    [] s.op = "login"     -> Login(s)
    [] s.op = "loginbegin" -> LoginBegin(s)
    [] s.op = "loginend"  -> LoginEnd(s)
    [] s.op = "closebegin" -> CloseBegin(s)
    [] s.op = "closeend"  -> CloseEnd(s)
    [] s.op = "agreed"    -> Agreed(s)
    [] s.op = "setinfo"   -> SetInfo(s)
    [] s.op = "userlist"  -> UserList(s)
    [] s.op = "goneidle"  -> GoneIdle(s)
    [] s.op = "wake"      -> Wake(s)
    [] s.op = "close"     -> Close(s)
    [] s.op = "chat"      -> ChatSend(s)
    [] s.op = "invitenew" -> InviteNew(s)
    [] s.op = "invite"    -> InviteTo(s)
    [] s.op = "reject"    -> Reject(s)
    [] s.op = "join"      -> Join(s)
    [] s.op = "leave"     -> Leave(s)
    [] s.op = "subject"   -> Subject(s)
    [] s.op = "pm"        -> SendPM(s)
    [] s.op = "broadcast" -> Broadcast(s)
    [] s.op = "getinfo"   -> GetInfo(s)
    [] s.op = "setuser"   -> SetUser(s)
    [] s.op = "kick"      -> Kick(s)
    [] s.op = "banadd"    -> BanAdd(s)
    [] s.op = "wait"      -> Wait(s)
    [] s.op = "expire"    -> Expire(s)
    [] s.op = "churn"     -> Churn(s)
    [] s.op = "idle"      -> Churn(s)
    [] s.op \in {"chatstorm", "banstorm"} -> Churn(s)
    [] s.op = "rawfail"   -> RawFail(s)
    [] s.op = "restart"   -> Restart(s)

(* what can be observed of `out`: a connection whose peer is gone receives nothing *)
Observable(sq) == SelectSeq(sq, LAMBDA m : conn[m.to].ph # "closing")

(* ---- properties ---------------------------------------------------------- *)
(* C13: no two registered connections share a user ID *)
UniqueLiveIDs == \A a, b \in Live : a # b => conn[a].id # conn[b].id

(* C04/C12/C13: nothing is delivered to a connection that is not logged in, except the failed-login reply to
   itself and the ban notice to a refused / kicked connection *)
DeliveredOnlyToLive ==
  \A i \in DOMAIN out : LET m == out[i] IN
     \/ conn[m.to].ph \in {"in", "closing"}
     \/ (m.rep = 1 /\ m.err = 1 /\ conn[m.to].ph = "closed")
     \/ (m.t = 104 /\ m.opt = 0 /\ conn[m.to].ph = "closed")

(* C12: private chat traffic goes only to members, public chat only to readers, each at most once *)
PrivateOnlyToMembers ==
  \A i \in DOMAIN out : out[i].t \in {106, 117, 119} /\ out[i].chat # 0
        => out[i].to \in chats[out[i].chat].members
PublicOnlyToReaders ==
  \A i \in DOMAIN out : out[i].t = 106 /\ out[i].chat = 0 => Has(out[i].to, PReadChat)
NoDuplicateDelivery ==
  \A i, j \in DOMAIN out : i # j /\ out[i].t \in {106, 117, 118, 119, 113} => out[i] # out[j]
=============================================================================
