CONSTANTS
  IdPolicy = "max"
  MaxDepth = 2
  MaxArts = 4
  MaxSteps = 7
  GenDepth = 99
  Ops = {"mkbundle","mkcat","post","delart","delitem","get","list","cats","reload","setname"}
  Thin = TRUE
INIT Init
NEXT Next
VIEW View
CONSTRAINT Bound
INVARIANTS ReloadIsIdentity
PROPERTIES FreshId LinksOnPost OthersUntouched DeleteExactlyThat ReloadKeeps ListStaysParseable ChildrenStay
CHECK_DEADLOCK FALSE
