CONSTANTS
  Readers = {1, 2, 3, 4}
  Posters = {11, 12, 13}
  ChunkLen = 2
  Locked = FALSE
INIT Init
NEXT Next
POSTCONDITION Consumed
CHECK_DEADLOCK FALSE
