CONSTANTS
  Deviations = {}
INIT Init
NEXT Next
POSTCONDITION Consumed
CHECK_DEADLOCK FALSE
