CONSTANTS
  Hostile = {1}
  Sentinels = {101}
INIT Init
NEXT GNext
