CONSTANTS
  Mode = "all"
  Tier = "quick"
  Seed = 1
INIT MCInit
NEXT Next
INVARIANTS TablesOK GuardOK NoEffectWithoutPrivilege NeverRefusedWithPrivilege RefusedChangesNothing NameFollowsPrivilege NoAmplification NoChainAmplification RoundTrip LegacyAgrees WireMeansSame
PROPERTIES ProtectedNeverKicked
CHECK_DEADLOCK FALSE
