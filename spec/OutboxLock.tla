----------------------------- MODULE OutboxLock -----------------------------
(* The per-connection write lock of hotline/server.go sendTransaction at the grain of the code after the repair
   (ddd5cdd): a sender takes the connection's lock, writes its transaction in pieces of at most Chunk bytes, and
   releases the lock when the last piece is out.  Unbounded in the number of senders and in the sizes; checked with
   Apalache as an inductive invariant (Init => IndInv, IndInv /\ Next => IndInv'), IndInv => WholeFrames.           *)
EXTENDS Integers, Sequences

CONSTANTS
  \* @type: Int;
  Chunk,
  \* @type: Int;
  MaxTx,
  \* @type: Int;
  MaxLen

VARIABLES
  \* @type: Int -> Int;
  txs,
  \* @type: Int -> Int;
  off,
  \* @type: Int;
  lock,
  \* @type: Seq({tx: Int, off: Int, n: Int});
  wire

Ids == 1..MaxTx
Min(a, b) == IF a < b THEN a ELSE b

Init == /\ txs \in [Ids -> 1..MaxLen]
        /\ off = [i \in Ids |-> 0]
        /\ lock = 0
        /\ wire = <<>>

Acquire(i) == /\ lock = 0 /\ off[i] = 0
              /\ lock' = i
              /\ UNCHANGED <<txs, off, wire>>

WritePiece(i) ==
  LET n == Min(Chunk, txs[i] - off[i]) IN
  /\ lock = i /\ off[i] < txs[i]
  /\ wire' = Append(wire, [tx |-> i, off |-> off[i], n |-> n])
  /\ off' = [off EXCEPT ![i] = off[i] + n]
  /\ UNCHANGED <<txs, lock>>

Release(i) == /\ lock = i /\ off[i] = txs[i]
              /\ lock' = 0
              /\ UNCHANGED <<txs, off, wire>>

Next == \E i \in Ids : Acquire(i) \/ WritePiece(i) \/ Release(i)

(* C14: the pieces of a transaction are contiguous on the wire and in order *)
WholeFrames ==
  \A k \in DOMAIN wire :
     /\ wire[k].off > 0 => (k > 1 /\ wire[k-1].tx = wire[k].tx /\ wire[k-1].off + wire[k-1].n = wire[k].off)
     /\ (k > 1 /\ wire[k-1].off + wire[k-1].n < txs[wire[k-1].tx]) => wire[k].tx = wire[k-1].tx

TypeOK == /\ txs \in [Ids -> 1..MaxLen]
          /\ off \in [Ids -> 0..MaxLen]
          /\ lock \in 0..MaxTx
          /\ \A k \in DOMAIN wire : wire[k].tx \in Ids /\ wire[k].off \in 0..MaxLen /\ wire[k].n \in 1..MaxLen

IndInv ==
  /\ TypeOK
  /\ WholeFrames
  /\ \A i \in Ids : off[i] <= txs[i]
  /\ \A i \in Ids : i # lock => off[i] \in {0, txs[i]}
  /\ \A k \in DOMAIN wire : wire[k].off + wire[k].n <= off[wire[k].tx]
  /\ (wire # <<>> /\ lock = 0) => wire[Len(wire)].off + wire[Len(wire)].n = txs[wire[Len(wire)].tx]
  /\ (wire # <<>> /\ lock # 0) =>
        LET last == wire[Len(wire)] IN
          \/ (last.tx = lock /\ last.off + last.n = off[lock])
          \/ (off[lock] = 0 /\ last.off + last.n = txs[last.tx])
  /\ (wire = <<>> /\ lock # 0) => off[lock] = 0
=============================================================================
