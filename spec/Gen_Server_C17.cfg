CONSTANTS
  Conns = {1, 2, 3, 4, 5, 6}
  IDMod = 65536
  MaxChats = 1
  MaxSteps = 99
  GenDepth = 24
  Ops = {"connect","dial","handshake","login","agreed","userlist","close","kick","banadd","wait","restart"}
  Thin = TRUE
INIT Init
NEXT Next
ACTION_CONSTRAINT Emit
INVARIANTS UniqueLiveIDs DeliveredOnlyToLive PrivateOnlyToMembers PublicOnlyToReaders NoDuplicateDelivery RosterConverges
CHECK_DEADLOCK FALSE
