CONSTANTS
  Variant = "intended"
INIT Init
NEXT Next
POSTCONDITION Consumed
CHECK_DEADLOCK FALSE
