CONSTANTS
  Kinds = {"txn","account","filepath","newspath","fileheader"}
  Bufs = {1,2,3,7,40000}
  Bufs2 = {}
  Modes = {513, 40000}
  Long = TRUE
  BSizes = {4096, 8192, 16384}
  Track = TRUE
INIT Init
NEXT Next
ACTION_CONSTRAINT Emit
INVARIANTS EmittedIsPrefix EofMeansAll
CHECK_DEADLOCK FALSE
