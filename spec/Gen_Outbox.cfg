CONSTANTS
  Chunk = 2
  Atomic = FALSE
  Sizes = {1, 3, 5}
INIT Init
NEXT Next
ACTION_CONSTRAINT Emit
CHECK_DEADLOCK FALSE
