------------------------------- MODULE Files -------------------------------
(***************************************************************************)
(* Path resolution, the file namespace and the account-file namespace of   *)
(* the Mobius Hotline server (C07 containment, C11 file views / file       *)
(* operations).                                                            *)
(*                                                                         *)
(* Names are byte strings (tuples of 0..255).  A path is a sequence of     *)
(* names counted from the top of a sandbox directory; `rootp` is the file  *)
(* root, `usersp` the accounts directory, everything else is "outside".    *)
(* `tree` is the directory tree as it is on disk: path -> node.  Fork and  *)
(* partial-data side files (.info_n, .rsrc_n, n.incomplete) are ordinary   *)
(* entries of the tree, exactly as on disk; HasInfo / HasRsrc / Partial    *)
(* are derived.                                                            *)
(*                                                                         *)
(* Every request handler is a function Do(t, m, s, D) of the tree, the     *)
(* account table, the request record s and a set D of named deviations;    *)
(* the same function is used by the bounded model (MC_Files), by script    *)
(* generation and by trace validation (Trace_Files).  D = {} is what the   *)
(* property statements ask for (every client-supplied component is         *)
(* resolved by Clean under its base).  The deviations name what the pinned *)
(* tree does instead:                                                      *)
(*   F4   a path item / folder-item segment of 253..255 bytes panics       *)
(*   F10  folder-upload item path joined unsanitised (.. pops the base)    *)
(*   F11  rename: new name joined unsanitised                              *)
(*   F12  account update: final write path joined unsanitised              *)
(*   F23  file list strips ".incomplete" anywhere in a name                *)
(*   F24  requests that resolve to the root folder itself use fork side    *)
(*        files NEXT TO the root (.info_<root>, .rsrc_<root>, <root>.inc.) *)
(*   F26  a new (non-resume) upload appends to a left-over partial file   *)
(*   F10b / F11b  alternative repairs (per-segment clean; base name of the *)
(*        cleaned new path) - contained, only the landing place differs    *)
(*   F24b / F25b  alternative repairs: requests that resolve to the root   *)
(*        itself are refused; an alias of a source that does not exist is  *)
(*        refused                                                          *)
(***************************************************************************)
EXTENDS Integers, Sequences, FiniteSets, TLC

CONSTANTS Deviations      \* the deviations enabled in the model-checked instance

VARIABLES tree,    \* path -> [k, s, c, t]
          rootp,   \* the file root
          usersp,  \* the accounts directory
          ignore,  \* "default" | "none" | "custom"
          mem      \* logins the account manager holds in memory

fvars == <<tree, rootp, usersp, ignore, mem>>

AllDevs == {"F4", "F10", "F10b", "F11", "F11b", "F12", "F23", "F24", "F24b", "F25b", "F26"}

(* ---- byte strings --------------------------------------------------------- *)
Absent == <<-1>>                  \* "this field is not in the request"
Val(b) == IF b = Absent THEN <<>> ELSE b
Run(n) == <<-2, n>>               \* "n bytes" (a long comment is not spelled out)
BLen(b) == IF b = Absent THEN 0 ELSE IF Len(b) = 2 /\ b[1] = -2 THEN b[2] ELSE Len(b)
Range(sq) == {sq[i] : i \in DOMAIN sq}
MinOf(S) == CHOOSE x \in S : \A y \in S : x <= y

DotDot == <<46, 46>>
OneDot == <<46>>
Incomplete == <<46,105,110,99,111,109,112,108,101,116,101>>   \* ".incomplete"
InfoPfx == <<46,105,110,102,111,95>>                          \* ".info_"
RsrcPfx == <<46,114,115,114,99,95>>                           \* ".rsrc_"
Yaml == <<46,121,97,109,108>>                                 \* ".yaml"
TxtExt == <<46,116,120,116>>                                  \* ".txt"
TEXT == <<84,69,88,84>>   HTft == <<72,84,102,116>>   Fldr == <<102,108,100,114>>   PDF == <<80,68,70,32>>
PdfExt == <<46,112,100,102>>                                   \* ".pdf"

HasSuffix(b, x) == Len(b) >= Len(x) /\ SubSeq(b, Len(b) - Len(x) + 1, Len(b)) = x
HasPrefix(b, x) == Len(b) >= Len(x) /\ SubSeq(b, 1, Len(x)) = x
TrimSuffix(b, x) == IF HasSuffix(b, x) THEN SubSeq(b, 1, Len(b) - Len(x)) ELSE b
RECURSIVE StripAll(_)            \* strings.ReplaceAll(b, ".incomplete", "")
StripAll(b) == IF Len(b) < 11 THEN b
               ELSE IF SubSeq(b, 1, 11) = Incomplete THEN StripAll(SubSeq(b, 12, Len(b)))
               ELSE <<b[1]>> \o StripAll(Tail(b))

(* Mac Roman <-> UTF-8 for the characters the model uses (the real code: charmap.Macintosh) *)
DecByte(x) == CASE x < 128 -> <<x>> [] x = 138 -> <<195, 164>> [] x = 128 -> <<195, 132>> [] x = 142 -> <<195, 169>>
                [] OTHER -> <<239, 191, 189>>
RECURSIVE Dec(_)
Dec(b) == IF b = <<>> THEN <<>> ELSE DecByte(Head(b)) \o Dec(Tail(b))
DecPath(p) == [i \in DOMAIN p |-> Dec(p[i])]
InTable(b) == \A i \in DOMAIN b : b[i] < 128 \/ b[i] \in {138, 128, 142}
RECURSIVE Enc(_)                 \* -1 marks a name the list encoder rejects (the entry is then not listed)
Enc(d) == IF d = <<>> THEN <<>>
          ELSE IF Head(d) < 128 THEN <<Head(d)>> \o Enc(Tail(d))
          ELSE IF Len(d) >= 2 /\ d[1] = 195 /\ d[2] \in {164, 132, 169}
                 THEN <<(CASE d[2] = 164 -> 138 [] d[2] = 132 -> 128 [] OTHER -> 142)>> \o Enc(SubSeq(d, 3, Len(d)))
          ELSE <<-1>>
Encodable(d) == -1 \notin Range(Enc(d))

(* ---- lexical path resolution (C07: the law) -------------------------------- *)
RECURSIVE Split(_)               \* a component containing "/" splits
Split(b) == LET idx == {i \in DOMAIN b : b[i] = 47} IN
            IF idx = {} THEN <<b>>
            ELSE LET i == MinOf(idx) IN <<SubSeq(b, 1, i - 1)>> \o Split(SubSeq(b, i + 1, Len(b)))
RECURSIVE Pieces(_)
Pieces(cs) == IF cs = <<>> THEN <<>> ELSE Split(Head(cs)) \o Pieces(Tail(cs))

(* one piece against a stack: "" and "." are skipped, ".." pops but never below `floor` entries *)
Step1(stk, pc, floor) == IF pc = <<>> \/ pc = OneDot THEN stk
                         ELSE IF pc = DotDot THEN (IF Len(stk) > floor THEN SubSeq(stk, 1, Len(stk) - 1) ELSE stk)
                         ELSE Append(stk, pc)
RECURSIVE Walk(_, _, _)
Walk(stk, pcs, floor) == IF pcs = <<>> THEN stk ELSE Walk(Step1(stk, Head(pcs), floor), Tail(pcs), floor)

Clean(comps) == Walk(<<>>, Pieces(comps), 0)        \* what filepath.Join("/", ...) is meant to give
JoinRaw(base, comps) == Walk(base, Pieces(comps), 0) \* filepath.Join(base, ...): ".." may eat the base
IsPrefix(a, b) == Len(a) <= Len(b) /\ SubSeq(b, 1, Len(a)) = a
Inside(p, base) == IsPrefix(base, p)
Resolve(root, items, name) == root \o DecPath(Clean(items) \o Clean(<<name>>))

Parent(p) == SubSeq(p, 1, Len(p) - 1)
Base(p) == p[Len(p)]
Sib(p, n) == Parent(p) \o <<n>>
IncOf(p) == Sib(p, Base(p) \o Incomplete)
RsrcOf(p) == Sib(p, RsrcPfx \o Base(p))
InfoOf(p) == Sib(p, InfoPfx \o Base(p))

(* ---- wire decoding of a path field: count(2) { 0 0 len name }* -------------- *)
(* mirrors FilePath.Write: a missing / short item, or an item whose declared length runs past the end of the field,
   yields no token: the path is rejected and the request has no effect *)
RECURSIVE Items(_, _, _, _)
Items(raw, pos, k, prev) ==
  IF k = 0 THEN [st |-> "ok", items |-> <<>>]
  ELSE IF Len(raw) - pos + 1 < 3 THEN [st |-> "err", items |-> <<>>]
  ELSE LET L == raw[pos + 2] IN
       IF pos + 2 + L > Len(raw)
         THEN [st |-> "err", items |-> <<>>]
         ELSE LET it == SubSeq(raw, pos + 3, pos + 2 + L)
                  rest == Items(raw, pos + 3 + L, k - 1, it)
              IN [st |-> rest.st, items |-> <<it>> \o rest.items]
ParsePath(raw, D) ==
  IF raw = Absent \/ raw = <<>> THEN [st |-> "ok", items |-> <<>>]
  ELSE IF Len(raw) = 1 THEN [st |-> "err", items |-> <<>>]
  ELSE LET r == Items(raw, 3, raw[1] * 256 + raw[2], Absent) IN
       IF r.st = "ok" /\ "F4" \in D /\ \E i \in DOMAIN r.items : Len(r.items[i]) >= 253
         THEN [st |-> "panic", items |-> <<>>] ELSE r
EncPath(comps) == <<Len(comps) \div 256, Len(comps) % 256>> \o
                  (LET RECURSIVE Cat(_)
                       Cat(cs) == IF cs = <<>> THEN <<>> ELSE <<0, 0, Len(Head(cs))>> \o Head(cs) \o Cat(Tail(cs))
                   IN Cat(comps))

(* folder-upload item: `count` segments { x x len name } read from raw; a short buffer panics *)
RECURSIVE Segs(_, _, _, _)
Segs(raw, pos, k, D) ==
  IF k = 0 THEN [st |-> "ok", items |-> <<>>]
  ELSE IF Len(raw) - pos + 1 < 3 THEN [st |-> "panic", items |-> <<>>]
  ELSE LET L == raw[pos + 2] IN
       IF pos + 2 + L > Len(raw) \/ ("F4" \in D /\ L >= 253) THEN [st |-> "panic", items |-> <<>>]
       ELSE LET rest == Segs(raw, pos + 3 + L, k - 1, D)
            IN [st |-> rest.st, items |-> <<SubSeq(raw, pos + 3, pos + 2 + L)>> \o rest.items]

(* ---- the tree and the file system primitives ------------------------------- *)
(* node: k kind, s size, t link target; for an information-fork side file also c (comment length) and ty (the type
   code stored in the fork, which the views show instead of the extension's default) *)
FileN(sz) == [k |-> "file", s |-> sz, c |-> 0, t |-> <<>>, ty |-> <<>>]
InfoN(sz, cl, ty) == [k |-> "file", s |-> sz, c |-> cl, t |-> <<>>, ty |-> ty]
DirN == [k |-> "dir", s |-> 0, c |-> 0, t |-> <<>>, ty |-> <<>>]
LinkN(tg) == [k |-> "link", s |-> 0, c |-> 0, t |-> tg, ty |-> <<>>]

Has(t, p) == p \in DOMAIN t
Under(t, p) == {q \in DOMAIN t : IsPrefix(p, q)}
Kids(t, p) == {q \in DOMAIN t : Len(q) = Len(p) + 1 /\ IsPrefix(p, q)}
ValidName(n) == Len(n) <= 255 /\ 0 \notin Range(n)
ValidPath(p) == \A i \in DOMAIN p : ValidName(p[i])
IsDirAt(t, p) == p = <<>> \/ (Has(t, p) /\ t[p].k = "dir")
NotDirPrefix(t, p) == \E i \in 1..(Len(p) - 1) : Has(t, SubSeq(p, 1, i)) /\ t[SubSeq(p, 1, i)].k # "dir"
ThroughLink(t, p) == \E i \in 1..(Len(p) - 1) : Has(t, SubSeq(p, 1, i)) /\ t[SubSeq(p, 1, i)].k = "link"

NoPath == << <<-1>> >>
RECURSIVE Follow(_, _, _)
Follow(t, p, n) == IF ~Has(t, p) THEN NoPath
                   ELSE IF t[p].k = "link" THEN (IF n = 0 THEN NoPath ELSE Follow(t, t[p].t, n - 1))
                   ELSE p
RECURSIVE Hop(_, _, _)
Hop(t, p, n) == IF n = 0 THEN p ELSE IF Has(t, p) /\ t[p].k = "link" THEN Hop(t, t[p].t, n - 1) ELSE p
LinkLoop(t, p) == LET e == Hop(t, p, 6) IN Has(t, e) /\ t[e].k = "link"      \* stat: "too many levels of symbolic links"
StatErr(t, p) == IF ~ValidPath(p) \/ NotDirPrefix(t, p) \/ LinkLoop(t, p) THEN "other"
                 ELSE IF Follow(t, p, 3) = NoPath THEN "noent" ELSE "ok"
StatK(t, p) == IF StatErr(t, p) = "ok" THEN t[Follow(t, p, 3)].k ELSE "none"
StatS(t, p) == IF StatErr(t, p) = "ok" THEN t[Follow(t, p, 3)].s ELSE 0

Fail(t, e) == [ok |-> FALSE, e |-> e, t |-> t]
Good(t) == [ok |-> TRUE, e |-> "", t |-> t]
Without(t, S) == [q \in DOMAIN t \ S |-> t[q]]
With(t, p, n) == [q \in DOMAIN t \cup {p} |-> IF q = p THEN n ELSE t[q]]

ParentErr(t, p) == IF NotDirPrefix(t, p) THEN "other" ELSE IF IsDirAt(t, Parent(p)) THEN "" ELSE "noent"

MkdirFS(t, p) == IF ~ValidPath(p) \/ Has(t, p) THEN Fail(t, "other")
                 ELSE IF ParentErr(t, p) # "" THEN Fail(t, ParentErr(t, p))
                 ELSE Good(With(t, p, DirN))
CreateFS(t, p, n) == IF ~ValidPath(p) \/ (Has(t, p) /\ t[p].k # "file") THEN Fail(t, "other")
                     ELSE IF ParentErr(t, p) # "" THEN Fail(t, ParentErr(t, p))
                     ELSE Good(With(t, p, n))
CreateExclFS(t, p, n) == IF Has(t, p) THEN Fail(t, "other") ELSE CreateFS(t, p, n)
SymlinkFS(t, tg, p) == IF ~ValidPath(p) \/ ~ValidPath(tg) \/ Has(t, p) THEN Fail(t, "other")
                       ELSE IF ParentErr(t, p) # "" THEN Fail(t, ParentErr(t, p))
                       ELSE Good(With(t, p, LinkN(tg)))
RemoveFS(t, p) == IF ~ValidPath(p) THEN Fail(t, "other")
                  ELSE IF ~Has(t, p) THEN Fail(t, IF NotDirPrefix(t, p) THEN "other" ELSE "noent")
                  ELSE IF Kids(t, p) # {} THEN Fail(t, "other")
                  ELSE Good(Without(t, {p}))
RemoveAllFS(t, p) == IF ~ValidPath(p) THEN Fail(t, "other") ELSE Good(Without(t, Under(t, p)))
(* os.Rename *)
RenameFS(t, a, b) ==
  IF ~ValidPath(a) \/ ~ValidPath(b) THEN Fail(t, "other")
  ELSE IF ParentErr(t, a) # "" THEN Fail(t, ParentErr(t, a))        \* both parents are looked up before the source
  ELSE IF ParentErr(t, b) # "" THEN Fail(t, ParentErr(t, b))
  ELSE IF ~Has(t, a) THEN Fail(t, "noent")
  ELSE IF Has(t, b) /\ t[b].k = "dir" THEN Fail(t, "other")       \* Go's os.Rename refuses an existing directory as target
  ELSE IF a = b THEN Good(t)
  ELSE IF t[a].k = "dir" /\ IsPrefix(a, b) THEN Fail(t, "other")
  ELSE IF Has(t, b) /\ t[a].k = "dir" THEN Fail(t, "other")         \* a folder onto a file
  ELSE LET moved == Under(t, a)
           img(q) == b \o SubSeq(q, Len(a) + 1, Len(q))
           keep == (DOMAIN t \ moved) \ {b}
       IN Good([q \in keep \cup {img(x) : x \in moved} |->
                  IF IsPrefix(b, q) /\ q \notin keep THEN t[a \o SubSeq(q, Len(b) + 1, Len(q))] ELSE t[q]])

(* a chain of file system calls with early exit *)
Run0(t) == [t |-> t, go |-> TRUE, e |-> ""]
Then(st, r, ignoreNoent) == IF ~st.go THEN st
                            ELSE IF r.ok THEN [st EXCEPT !.t = r.t]
                            ELSE IF ignoreNoent /\ r.e = "noent" THEN st
                            ELSE [st EXCEPT !.go = FALSE, !.e = r.e]

(* ---- the visible view (C11) -------------------------------------------------- *)
Ignored(n, ign) == CASE ign = "default" -> n # <<>> /\ n[1] \in {46, 64}
                     [] ign = "custom"  -> HasSuffix(n, TxtExt)
                     [] OTHER           -> FALSE
Shown(n, D) == IF "F23" \in D THEN StripAll(n) ELSE TrimSuffix(n, Incomplete)
TypeOfName(n) == IF HasSuffix(n, Incomplete) THEN HTft ELSE IF HasSuffix(n, PdfExt) THEN PDF ELSE TEXT   \* file_types.go (the extensions used)
(* the type every view of a regular file shows: the one stored in its information fork, else the extension's default *)
(* (the fork is whatever <dir>/.info_<name> resolves to: an alias or a moved side file of that name attaches to the sibling) *)
InfoNode(t, q) == IF StatErr(t, InfoOf(q)) = "ok" THEN Follow(t, InfoOf(q), 3) ELSE NoPath
TypeOfFile(t, q) == LET f == InfoNode(t, q) IN
                    IF f # NoPath /\ t[f].k = "file" /\ Len(t[f].ty) = 4 THEN t[f].ty ELSE TypeOfName(Base(q))
VisibleKids(t, d, ign) == {q \in Kids(t, d) : ~Ignored(Base(q), ign)}
RsrcSize(t, p) == IF StatK(t, RsrcOf(p)) = "file" THEN StatS(t, RsrcOf(p)) ELSE 0

(* one list entry: [n (wire name), ty, sz, cls]; cls = what kind of entry it is on disk *)
EntryOf(t, q, ign, D) ==
  LET n == Base(q)
      nm == Enc(Shown(n, D))
  IN CASE t[q].k = "dir"  -> [n |-> nm, ty |-> Fldr, sz |-> Cardinality(VisibleKids(t, q, ign)), cls |-> "dir"]
       [] t[q].k = "link" -> (IF StatK(t, q) = "dir"
                                THEN [n |-> nm, ty |-> Fldr, sz |-> Cardinality(VisibleKids(t, Follow(t, q, 3), ign)), cls |-> "link"]
                                ELSE [n |-> nm, ty |-> TypeOfName(Base(t[q].t)), sz |-> StatS(t, q), cls |-> "link"])
       [] OTHER -> [n |-> nm, ty |-> TypeOfFile(t, q), sz |-> t[q].s + RsrcSize(t, q),
                    cls |-> IF HasSuffix(n, Incomplete) THEN "partial"
                            ELSE IF RsrcSize(t, q) > 0 \/ Has(t, RsrcOf(q)) THEN "forked"
                            ELSE IF TypeOfFile(t, q) = Fldr THEN "odd"      \* a file that a foreign fork declares a folder
                            ELSE "plain"]
Listable(t, q, ign) == /\ ~Ignored(Base(q), ign)
                       /\ (t[q].k = "link" => StatErr(t, q) = "ok")      \* a dangling alias is skipped
ListingSet(t, d, ign, D) == {EntryOf(t, q, ign, D) : q \in {x \in Kids(t, d) : Listable(t, x, ign) /\ Encodable(Shown(Base(x), D))}}
(* the same as a function path -> entry (two entries may show the same name) *)
Listing(t, d, ign, D) == [q \in {x \in Kids(t, d) : Listable(t, x, ign) /\ Encodable(Shown(Base(x), D))} |-> EntryOf(t, q, ign, D)]

HasInfo(t, p) == Has(t, InfoOf(p))
HasRsrc(t, p) == Has(t, RsrcOf(p))
Partial(t, p) == ~Has(t, p) /\ Has(t, IncOf(p))

(* ---- request handlers ------------------------------------------------------------ *)
(* result: t (tree afterwards), m (account table afterwards), rep (ok | err | none | closed), eff (paths the handler
   used in file system calls: what C07 constrains), names (list request: the names shown, as a set of [n, k]) *)
Res(t, m, rep, eff) == [t |-> t, m |-> m, rep |-> rep, eff |-> eff, listed |-> FALSE, names |-> {}, rs |-> "none"]

SideOK(p, rp, D) == p # rp \/ "F24" \in D        \* D = {}: the root folder itself has no side files
Sides(p, rp, D) == IF SideOK(p, rp, D) THEN {IncOf(p), RsrcOf(p), InfoOf(p)} ELSE {}
ExistingSides(t, p, rp, D) == {q \in Sides(p, rp, D) : Has(t, q)}

NameCounts(t, d, ign, D) ==   \* names of a listing with multiplicity
  LET L == Listing(t, d, ign, D)
  IN {[n |-> L[q].n, k |-> Cardinality({x \in DOMAIN L : L[x].n = L[q].n})] : q \in DOMAIN L}

DoList(t, m, s, rp, ign, D) ==
  LET pr == ParsePath(s.path, D)
      p == rp \o DecPath(Clean(pr.items))
  IN IF pr.st = "panic" THEN Res(t, m, "closed", {})
     ELSE IF pr.st = "err" THEN Res(t, m, "none", {})
     ELSE IF StatK(t, p) # "dir" \/ ThroughLink(t, p) THEN Res(t, m, "none", {p})
     ELSE [Res(t, m, "ok", {p}) EXCEPT !.listed = TRUE, !.names = NameCounts(t, Follow(t, p, 3), ign, D)]

(* get-info, download request + transfer, folder download: read only *)
DoRead(t, m, s, rp, D) ==
  LET pr == ParsePath(s.path, D)
      p == Resolve(rp, pr.items, Val(s.name))
  IN IF pr.st = "panic" THEN Res(t, m, "closed", {})
     ELSE IF pr.st = "err" THEN Res(t, m, "none", {})
     ELSE Res(t, m, IF StatErr(t, p) = "other" THEN "none" ELSE "ok",
              {p} \cup ExistingSides(t, p, rp, D) \cup (IF StatErr(t, p) = "ok" THEN {Follow(t, p, 3)} ELSE {}))

DoNewFolder(t, m, s, rp, D) ==
  LET pr == ParsePath(s.path, D)
      p == Resolve(rp, pr.items, Val(s.name))
  IN IF pr.st = "panic" THEN Res(t, m, "closed", {})
     ELSE IF pr.st = "err" THEN Res(t, m, "none", {})
     ELSE IF StatErr(t, p) # "noent" THEN Res(t, m, "err", {p})      \* creating a folder never replaces an entry
     ELSE LET r == MkdirFS(t, p) IN Res(r.t, m, IF r.ok THEN "ok" ELSE "err", {p})

(* where the side files of a moved / renamed file go: next to the data file's new place *)
MoveChain(t, p, tgt, tInc, tRsrc, tInfo, rp, D) ==
  LET s1 == Then(Run0(t), RenameFS(t, p, tgt), FALSE)
      ok == SideOK(p, rp, D)
      s2 == IF ok THEN Then(s1, RenameFS(s1.t, IncOf(p), tInc), TRUE) ELSE s1
      s3 == IF ok THEN Then(s2, RenameFS(s2.t, RsrcOf(p), tRsrc), TRUE) ELSE s2
      s4 == IF ok THEN Then(s3, RenameFS(s3.t, InfoOf(p), tInfo), TRUE) ELSE s3
  IN s4

(* the side-file paths a move used: a side file that exists is renamed to its target once the data file has moved *)
SideEff(t, t2, p, tgt, tInc, tRsrc, tInfo, rp, D) ==
  IF ~SideOK(p, rp, D) \/ (Has(t2, p) /\ p # tgt) \/ ~Has(t, p) THEN {}
  ELSE (IF Has(t, IncOf(p)) THEN {IncOf(p), tInc} ELSE {})
       \cup (IF Has(t, RsrcOf(p)) THEN {RsrcOf(p), tRsrc} ELSE {})
       \cup (IF Has(t, InfoOf(p)) THEN {InfoOf(p), tInfo} ELSE {})

(* set-info (207): comment and / or new name *)
DoSetInfo(t, m, s, rp, D) ==
  LET pr == ParsePath(s.path, D)
      p == Resolve(rp, pr.items, Val(s.name))
      isDir == StatK(t, p) = "dir"
      ip == InfoOf(p)
      cm == Val(s.comment)
      (* the fork file is opened through an alias of that name, if there is one *)
      ipr == IF Has(t, ip) /\ t[ip].k = "link" THEN (IF StatErr(t, ip) = "ok" THEN Follow(t, ip, 3) ELSE t[ip].t) ELSE ip
      newInfo == IF Has(t, ipr) /\ t[ipr].k = "file" THEN InfoN(t[ipr].s - t[ipr].c + BLen(s.comment), BLen(s.comment), t[ipr].ty)
                 ELSE InfoN(74 + Len(Base(p)) + BLen(s.comment), BLen(s.comment), IF isDir THEN Fldr ELSE TypeOfName(Base(p)))
      w == IF s.comment = Absent THEN Good(t)
           ELSE IF ~SideOK(p, rp, D) THEN Fail(t, "other") ELSE CreateFS(t, ipr, newInfo)
      t1 == w.t
      nn == Val(s.newname)
      fileDir == rp \o DecPath(Clean(pr.items))
      q == Resolve(rp, pr.items, nn)
      nd == Dec(nn)
      raw == "F11" \in D
      tgt == IF raw THEN JoinRaw(fileDir, <<nd>>)
             ELSE IF "F11b" \in D THEN fileDir \o <<Base(q)>> ELSE q
      tInc == IF raw THEN JoinRaw(fileDir, <<nd \o Incomplete>>) ELSE IncOf(tgt)
      tRsrc == IF raw THEN JoinRaw(fileDir, <<RsrcPfx \o nd>>) ELSE RsrcOf(tgt)
      tInfo == IF raw THEN JoinRaw(fileDir, <<InfoPfx \o nd>>) ELSE InfoOf(tgt)
      effC == IF s.comment = Absent \/ ~SideOK(p, rp, D) THEN {} ELSE {ip, ipr}
  IN IF pr.st = "panic" THEN Res(t, m, "closed", {})
     ELSE IF pr.st = "err" THEN Res(t, m, "none", {})
     ELSE IF StatErr(t, p) # "ok" THEN Res(t, m, "none", {p})
     ELSE IF ~w.ok THEN Res(t, m, "none", {p} \cup effC)
     ELSE IF s.newname = Absent THEN Res(t1, m, "ok", {p} \cup effC)
     ELSE IF isDir
       THEN LET r == RenameFS(t1, p, q)
            IN Res(r.t, m, IF ~r.ok /\ r.e = "noent" THEN "err" ELSE "ok", {p, q} \cup effC)
       ELSE LET c == MoveChain(t1, p, tgt, tInc, tRsrc, tInfo, rp, D)
            IN Res(c.t, m, IF c.go THEN "ok" ELSE IF c.e = "noent" THEN "err" ELSE "none",
                   {p, tgt} \cup effC \cup SideEff(t1, c.t, p, tgt, tInc, tRsrc, tInfo, rp, D))

DataFileOK(t, p, rp, D) == StatErr(t, p) = "ok" \/ (SideOK(p, rp, D) /\ StatErr(t, IncOf(p)) = "ok")

DoMove(t, m, s, rp, D) ==
  LET pr == ParsePath(s.path, D)
      pn == ParsePath(s.newpath, D)
      p == Resolve(rp, pr.items, Val(s.name))
      dst == rp \o DecPath(Clean(pn.items))
      tgt == dst \o <<Base(p)>>
      c == MoveChain(t, p, tgt, IncOf(tgt), RsrcOf(tgt), InfoOf(tgt), rp, D)
  IN IF pr.st = "panic" \/ pn.st = "panic" THEN Res(t, m, "closed", {})
     ELSE IF pr.st = "err" \/ pn.st = "err" THEN Res(t, m, "none", {})
     ELSE IF StatErr(t, p) = "other" THEN Res(t, m, "none", {p})
     ELSE IF ~DataFileOK(t, p, rp, D) THEN Res(t, m, "err", {p})
     ELSE Res(c.t, m, IF c.go THEN "ok" ELSE "none", {p, tgt} \cup SideEff(t, c.t, p, tgt, IncOf(tgt), RsrcOf(tgt), InfoOf(tgt), rp, D))

DoDelete(t, m, s, rp, D) ==
  LET pr == ParsePath(s.path, D)
      p == Resolve(rp, pr.items, Val(s.name))
      s1 == Then(Run0(t), RemoveAllFS(t, p), FALSE)
      ok == SideOK(p, rp, D)
      s2 == IF ok THEN Then(s1, RemoveFS(s1.t, IncOf(p)), TRUE) ELSE s1
      s3 == IF ok THEN Then(s2, RemoveFS(s2.t, RsrcOf(p)), TRUE) ELSE s2
      s4 == IF ok THEN Then(s3, RemoveFS(s3.t, InfoOf(p)), TRUE) ELSE s3
  IN IF pr.st = "panic" THEN Res(t, m, "closed", {})
     ELSE IF pr.st = "err" THEN Res(t, m, "none", {})
     ELSE IF StatErr(t, p) = "other" THEN Res(t, m, "none", {p})
     ELSE IF ~DataFileOK(t, p, rp, D) THEN Res(t, m, "err", {p})
     ELSE Res(s4.t, m, IF s4.go THEN "ok" ELSE "none", {p} \cup ExistingSides(t, p, rp, D))

DoAlias(t, m, s, rp, D) ==
  LET pr == ParsePath(s.path, D)
      pn == ParsePath(s.newpath, D)
      src == Resolve(rp, pr.items, Val(s.name))
      dst == Resolve(rp, pn.items, Val(s.name))
      r == SymlinkFS(t, src, dst)
  IN IF pr.st = "panic" \/ pn.st = "panic" THEN Res(t, m, "closed", {})
     ELSE IF pr.st = "err" \/ pn.st = "err" THEN Res(t, m, "none", {})
     ELSE Res(r.t, m, IF r.ok THEN "ok" ELSE "err", {src, dst})

(* upload request (203) followed by the transfer of a file with `n` data bytes *)
DoUpload(t, m, s, rp, D, n) ==
  LET pr == ParsePath(s.path, D)
      p == Resolve(rp, pr.items, Val(s.name))
      inc == Parent(p) \o <<Base(p) \o Incomplete>>
      stale == "F26" \in D                     \* pinned tree: a new upload appends to a left-over partial file
      old == IF stale /\ Has(t, inc) /\ t[inc].k = "file" THEN t[inc].s ELSE 0
      s0 == IF stale THEN Run0(t) ELSE Then(Run0(t), RemoveFS(t, inc), TRUE)     \* the request discards old partial data
      s1 == Then(s0, CreateFS(s0.t, inc, FileN(old + n)), FALSE)
      s2 == Then(s1, RenameFS(s1.t, inc, p), FALSE)
  IN IF pr.st = "panic" THEN Res(t, m, "closed", {})
     ELSE IF pr.st = "err" THEN Res(t, m, "none", {})
     ELSE IF StatErr(t, p) = "ok" THEN Res(t, m, "err", {p})
     ELSE IF StatErr(t, p) = "other" THEN Res(t, m, "ok", {p})
     ELSE Res(s2.t, m, "ok", {p, inc})

(* folder upload request (213) and ONE item header on the transfer connection *)
RECURSIVE CleanEach(_)
CleanEach(segs) == IF segs = <<>> THEN <<>> ELSE Clean(<<Head(segs)>>) \o CleanEach(Tail(segs))
DoUpFolder(t, m, s, rp, D, n) ==
  LET pr == ParsePath(s.path, D)
      base == Resolve(rp, pr.items, Val(s.name))
      s0 == IF StatErr(t, base) = "noent" THEN Then(Run0(t), MkdirFS(t, base), FALSE) ELSE Run0(t)
      sg == Segs(s.item.raw, 1, s.item.count, D)
      tgt == IF "F10" \in D THEN JoinRaw(base, sg.items)
             ELSE IF "F10b" \in D THEN base \o CleanEach(sg.items) ELSE base \o Clean(sg.items)
      inc == IF tgt = <<>> THEN <<Incomplete>> ELSE Parent(tgt) \o <<Base(tgt) \o Incomplete>>
      old == IF Has(s0.t, inc) /\ s0.t[inc].k = "file" THEN s0.t[inc].s ELSE 0
      asFolder == IF StatErr(s0.t, tgt) = "noent" THEN Then(s0, MkdirFS(s0.t, tgt), FALSE) ELSE s0
      f1 == Then(s0, CreateFS(s0.t, inc, FileN(old + n)), FALSE)
      asFile == IF StatErr(s0.t, tgt) # "noent" THEN s0 ELSE Then(f1, RenameFS(f1.t, inc, tgt), FALSE)
      fin == IF ~s0.go \/ sg.st # "ok" THEN s0 ELSE IF s.item.folder = 1 THEN asFolder ELSE asFile
  IN IF pr.st = "panic" THEN Res(t, m, "closed", {})
     ELSE IF pr.st = "err" THEN Res(t, m, "none", {})
     ELSE Res(fin.t, m, "ok", {base} \cup (IF s0.go /\ sg.st = "ok" THEN {tgt} ELSE {}))

(* ---- account files ------------------------------------------------------------------ *)
AcctFileC(up, L) == up \o Clean(<<L \o Yaml>>)                       \* Create / Delete: Join("/", login + ".yaml")
AcctFileU(up, L) == LET c == Clean(<<L>>) IN                         \* Update: Join("/", login) + ".yaml"
                    up \o (IF c = <<>> THEN <<Yaml>> ELSE SubSeq(c, 1, Len(c) - 1) \o <<c[Len(c)] \o Yaml>>)
AcctWrite(up, N, D) == IF "F12" \in D THEN JoinRaw(up, <<N \o Yaml>>) ELSE AcctFileU(up, N)
AcctN == FileN(-1)                                                    \* contents of account files are not modelled

(* `own` remembers which login is written INSIDE an account file (file path -> login); a file it does not know holds
   the login its name says *)
SetKey(f, k, v) == [x \in DOMAIN f \cup {k} |-> IF x = k THEN v ELSE f[x]]
DelKey(f, k) == [x \in DOMAIN f \ {k} |-> f[x]]
MoveKey(f, a, b) == IF a \in DOMAIN f THEN SetKey(DelKey(f, a), b, f[a]) ELSE f

AcctCreate(st, up, L) ==
  IF L \in st.m THEN st
  ELSE LET r == CreateExclFS(st.t, AcctFileC(up, L), AcctN)
       IN IF r.ok THEN [st EXCEPT !.t = r.t, !.m = @ \cup {L}, !.eff = @ \cup {AcctFileC(up, L)}, !.own = SetKey(@, AcctFileC(up, L), L)]
          ELSE [st EXCEPT !.eff = @ \cup {AcctFileC(up, L)}]
AcctUpdate(st, up, L, N, D) ==
  IF L \notin st.m THEN AcctCreate(st, up, N)
  ELSE LET r == IF L = N THEN Good(st.t) ELSE RenameFS(st.t, AcctFileU(up, L), AcctFileU(up, N))
           wpath == AcctWrite(up, N, D)
           w == CreateFS(r.t, wpath, AcctN)
           own1 == IF L = N THEN st.own ELSE MoveKey(st.own, AcctFileU(up, L), AcctFileU(up, N))
       IN IF ~r.ok THEN [st EXCEPT !.eff = @ \cup {AcctFileU(up, L), AcctFileU(up, N)}]
          ELSE [st EXCEPT !.t = w.t, !.m = (@ \ {L}) \cup {N}, !.eff = @ \cup {AcctFileU(up, L), AcctFileU(up, N), wpath},
                          !.own = IF w.ok THEN SetKey(own1, wpath, N) ELSE own1]
AcctDelete(st, up, L) ==
  LET r == RemoveFS(st.t, AcctFileC(up, L))
  IN IF r.ok THEN [st EXCEPT !.t = r.t, !.m = @ \ {L}, !.eff = @ \cup {AcctFileC(up, L)}, !.own = DelKey(@, AcctFileC(up, L))]
     ELSE [st EXCEPT !.eff = @ \cup {AcctFileC(up, L)}]

(* restart: NewYAMLAccountManager on the same directory.  Every *.yaml file, in the order of their names, whose name is
   not <login inside, cleaned under "/">.yaml is given that name back if it is free; a failing rename stops the start. *)
RECURSIVE LexLess(_, _)
LexLess(a, b) == IF a = <<>> THEN b # <<>> ELSE IF b = <<>> THEN FALSE
                 ELSE IF a[1] # b[1] THEN a[1] < b[1] ELSE LexLess(Tail(a), Tail(b))
RECURSIVE SortByName(_)
SortByName(S) == IF S = {} THEN <<>>
                 ELSE LET m == CHOOSE x \in S : \A y \in S \ {x} : LexLess(Base(x), Base(y)) IN <<m>> \o SortByName(S \ {m})
YamlFiles(t, up) == {p \in DOMAIN t : Len(p) = Len(up) + 1 /\ IsPrefix(up, p) /\ t[p].k = "file" /\ HasSuffix(Base(p), Yaml)}
RECURSIVE RestartFold(_, _, _, _)
RestartFold(st, files, up, effs) ==
  IF files = <<>> THEN [st EXCEPT !.rs = "ok", !.eff = @ \cup effs]
  ELSE LET p == Head(files)
           login == IF p \in DOMAIN st.own THEN st.own[p] ELSE TrimSuffix(Base(p), Yaml)
           want == AcctFileU(up, login)
       IN IF ~Has(st.t, p) \/ want = p \/ StatErr(st.t, want) # "noent" THEN RestartFold(st, Tail(files), up, effs \cup {p})
          ELSE LET r == RenameFS(st.t, p, want) IN
               IF r.ok THEN RestartFold([st EXCEPT !.t = r.t, !.own = MoveKey(@, p, want)], Tail(files), up, effs \cup {p, want})
               ELSE [st EXCEPT !.rs = "fail", !.eff = @ \cup effs \cup {p, want}]
AcctRestart(st, up) == RestartFold(st, SortByName(YamlFiles(st.t, up)), up, {})

AcctOp(st, up, o, D) ==
  CASE o.op \in {"create350", "create349"} -> (IF o.op = "create349" /\ o.login \in st.m
                                                 THEN AcctUpdate(st, up, o.login, o.login, D) ELSE AcctCreate(st, up, o.login))
    [] o.op = "update" -> AcctUpdate(st, up, o.login, o.login, D)
    [] o.op = "rename" -> (IF o.login = <<>> THEN AcctUpdate(st, up, o.new, o.new, D) ELSE AcctUpdate(st, up, o.login, o.new, D))
    [] o.op \in {"delete351", "delete349"} -> AcctDelete(st, up, o.login)
    [] o.op = "restart" -> AcctRestart(st, up)
    [] OTHER -> st
RECURSIVE AcctOps(_, _, _, _)
AcctOps(st, up, ops, D) == IF ops = <<>> THEN st ELSE AcctOps(AcctOp(st, up, Head(ops), D), up, Tail(ops), D)
DoAcct(t, m, s, up, D) ==
  LET r == AcctOps([t |-> t, m |-> m, eff |-> {}, own |-> <<>>, rs |-> "none"], up, s.ops, D)
  IN [Res(r.t, r.m, "ok", r.eff) EXCEPT !.rs = r.rs]

(* ---- dispatch ----------------------------------------------------------------------------- *)
UploadBytes == 3      \* the drivers upload 3 data bytes per file
Kinds == {"list", "info", "download", "dlfolder", "newfolder", "rename", "setcomment", "move", "delete", "alias",
          "upload", "upfolder", "acct", "seq"}
RECURSIVE Do(_, _, _, _, _, _, _)
(* a short history of requests in one sandbox (kind "seq"): the effects accumulate *)
RECURSIVE DoSteps(_, _, _, _, _, _)
DoSteps(r, steps, rp, up, ign, D) ==
  IF steps = <<>> \/ r.rep = "closed" THEN r
  ELSE LET n == Do(r.t, r.m, Head(steps), rp, up, ign, D)
       IN DoSteps([n EXCEPT !.eff = @ \cup r.eff, !.listed = FALSE, !.names = {}], Tail(steps), rp, up, ign, D)
AtRoot(s, rp, D) == LET pr == ParsePath(s.path, D) IN pr.st = "ok" /\ Resolve(rp, pr.items, Val(s.name)) = rp
Do(t, m, s, rp, up, ign, D) ==
  CASE "F24b" \in D /\ s.kind \in {"info", "download", "setcomment", "rename", "move", "delete"} /\ AtRoot(s, rp, D) -> Res(t, m, "err", {})
    [] "F25b" \in D /\ s.kind = "alias" /\ (LET pr == ParsePath(s.path, D) IN pr.st = "ok" /\ StatErr(t, Resolve(rp, pr.items, Val(s.name))) # "ok")
         -> Res(t, m, "err", {})
    [] s.kind = "list" -> DoList(t, m, s, rp, ign, D)
    [] s.kind \in {"info", "download", "dlfolder"} -> DoRead(t, m, s, rp, D)
    [] s.kind = "newfolder" -> DoNewFolder(t, m, s, rp, D)
    [] s.kind \in {"rename", "setcomment"} -> DoSetInfo(t, m, s, rp, D)
    [] s.kind = "move" -> DoMove(t, m, s, rp, D)
    [] s.kind = "delete" -> DoDelete(t, m, s, rp, D)
    [] s.kind = "alias" -> DoAlias(t, m, s, rp, D)
    [] s.kind = "upload" -> DoUpload(t, m, s, rp, D, UploadBytes)
    [] s.kind = "upfolder" -> DoUpFolder(t, m, s, rp, D, UploadBytes)
    [] s.kind = "acct" -> DoAcct(t, m, s, up, D)
    [] s.kind = "seq" -> DoSteps(Res(t, m, "ok", {}), s.steps, rp, up, ign, D)
    [] OTHER -> Res(t, m, "none", {})

(* the step as an action on the module's variables *)
Apply(s) == LET r == Do(tree, mem, s, rootp, usersp, ignore, Deviations)
            IN tree' = r.t /\ mem' = r.m /\ UNCHANGED <<rootp, usersp, ignore>>

(* ---- C11: what the statement says about operations (used on model transitions and on observed transitions) ---- *)
SideName(n) == HasPrefix(n, InfoPfx) \/ HasPrefix(n, RsrcPfx) \/ HasSuffix(n, Incomplete)
PlainName(b) == b # <<>> /\ b # OneDot /\ b # DotDot /\ 47 \notin Range(b) /\ ValidName(Dec(b)) /\ InTable(b)
                /\ ~SideName(b)

(* trees compared up to the comment side file of a FOLDER (the statement speaks of a file's forks) *)
FolderInfo(T, q) == HasPrefix(Base(q), InfoPfx) /\ LET tg == Sib(q, SubSeq(Base(q), 7, Len(Base(q)))) IN Has(T, tg) /\ T[tg].k = "dir"
(* ... and the comment length / stored type are attributes of information-fork files only *)
Norm(T) == [q \in DOMAIN T |-> IF HasPrefix(Base(q), InfoPfx) THEN T[q] ELSE [T[q] EXCEPT !.c = 0, !.ty = <<>>]]
Core(T, T0) == [q \in {x \in DOMAIN T : ~FolderInfo(T, x) /\ ~FolderInfo(T0, x)} |-> Norm(T)[q]]

WellFormed(s, T0, rp) ==
  LET pr == ParsePath(s.path, {})
      p == Resolve(rp, pr.items, Val(s.name))
      dirOK == pr.st = "ok" /\ \A i \in DOMAIN pr.items : PlainName(pr.items[i])
      srcOK == dirOK /\ PlainName(Val(s.name)) /\ Has(T0, p) /\ T0[p].k \in {"file", "dir"} /\ ~ThroughLink(T0, p)
      pn == ParsePath(s.newpath, {})
      dst == rp \o DecPath(Clean(pn.items))
  IN CASE s.kind = "newfolder" -> dirOK /\ PlainName(Val(s.name)) /\ IsDirAt(T0, Parent(p)) /\ ~ThroughLink(T0, p) /\ ~Has(T0, p)
       [] s.kind = "delete" -> srcOK
       [] s.kind = "setcomment" -> srcOK /\ (Has(T0, InfoOf(p)) => T0[InfoOf(p)].k = "file")
       [] s.kind = "rename" -> srcOK /\ PlainName(Val(s.newname))
                               /\ LET q == Resolve(rp, pr.items, Val(s.newname))
                                  IN ~Has(T0, q) /\ \A x \in {IncOf(q), RsrcOf(q), InfoOf(q)} : ~Has(T0, x)
       [] s.kind = "move" -> srcOK /\ pn.st = "ok" /\ (\A i \in DOMAIN pn.items : PlainName(pn.items[i]))
                             /\ IsDirAt(T0, dst) /\ ~IsPrefix(p, dst) /\ ~ThroughLink(T0, dst \o <<Base(p)>>)
                             /\ LET q == dst \o <<Base(p)>>
                                IN ~Has(T0, q) /\ \A x \in {IncOf(q), RsrcOf(q), InfoOf(q)} : ~Has(T0, x)
       [] s.kind = "alias" -> srcOK /\ pn.st = "ok" /\ (\A i \in DOMAIN pn.items : PlainName(pn.items[i]))
                              /\ IsDirAt(T0, dst) /\ ~Has(T0, dst \o <<Base(p)>>) /\ ~ThroughLink(T0, dst \o <<Base(p)>>)
       [] OTHER -> FALSE

NewFolderNeverReplacesObs(s, T0, T1) ==
  s.kind = "newfolder" => \A q \in DOMAIN T0 : q \in DOMAIN T1 /\ T1[q] = T0[q]

(* a regular file that left its place: no fork / partial-data side file stays behind, and at a fresh target they are
   present exactly if they were present at the source *)
ForksTravelObs(s, T0, T1, rp) ==
  LET pr == ParsePath(s.path, {})
      p == Resolve(rp, pr.items, Val(s.name))
      pn == ParsePath(s.newpath, {})
      tgt == IF s.kind = "rename" THEN Resolve(rp, pr.items, Val(s.newname))
             ELSE rp \o DecPath(Clean(pn.items)) \o <<Base(p)>>
      fresh == ~Has(T0, tgt) /\ \A x \in {IncOf(tgt), RsrcOf(tgt), InfoOf(tgt)} : ~Has(T0, x)
  IN (s.kind \in {"rename", "move", "delete"} /\ pr.st = "ok" /\ Has(T0, p) /\ T0[p].k = "file" /\ ~Has(T1, p) /\ PlainName(Val(s.name)))
     => /\ \A x \in {IncOf(p), RsrcOf(p), InfoOf(p)} : ~Has(T1, x)
        /\ (s.kind # "delete" /\ pn.st = "ok" /\ fresh /\ Has(T1, tgt))
             => /\ (Has(T0, IncOf(p)) <=> Has(T1, IncOf(tgt))) /\ (Has(T0, IncOf(p)) => T1[IncOf(tgt)] = T0[IncOf(p)])
                /\ (Has(T0, RsrcOf(p)) <=> Has(T1, RsrcOf(tgt))) /\ (Has(T0, RsrcOf(p)) => T1[RsrcOf(tgt)] = T0[RsrcOf(p)])
                /\ (Has(T0, InfoOf(p)) <=> Has(T1, InfoOf(tgt))) /\ (Has(T0, InfoOf(p)) => T1[InfoOf(tgt)] = T0[InfoOf(p)])


(* a regular file that is still in its place after a rename / move (a rename to its own name, a move into its own
   folder, a refused request) keeps its forks and partial data unchanged *)
ForksStayObs(s, T0, T1, rp) ==
  LET pr == ParsePath(s.path, {})
      p == Resolve(rp, pr.items, Val(s.name))
  IN (s.kind \in {"rename", "move"} /\ pr.st = "ok" /\ PlainName(Val(s.name)) /\ Has(T0, p) /\ T0[p].k = "file"
        /\ Has(T1, p) /\ T1[p] = T0[p])
     => \A x \in {IncOf(p), RsrcOf(p), InfoOf(p)} : Has(T0, x) => (Has(T1, x) /\ T1[x] = T0[x])

(* entries the request does not name (neither its object nor its destination, nor anything inside a folder it moves or
   deletes) are bystanders: each keeps its forks, comment and partial data unchanged - e.g. an operation on an ALIAS
   must leave the side files of the file it points to alone *)
BystanderForksObs(s, T0, T1, rp) ==
  LET pr == ParsePath(s.path, {})
      pn == ParsePath(s.newpath, {})
      p == Resolve(rp, pr.items, Val(s.name))
      tgt == IF s.kind = "rename" THEN Resolve(rp, pr.items, Val(s.newname))
             ELSE IF s.kind \in {"move", "alias"} THEN rp \o DecPath(Clean(pn.items)) \o <<Base(p)>> ELSE p
      named == {p, tgt}
      ns0 == named \cup UNION {{IncOf(x), RsrcOf(x), InfoOf(x)} : x \in named}
      (* (a side-file NAME of a named entry that is itself an alias leads to the file it points to: the statement is
         silent about side files addressed as objects, the real behaviour - writing through that alias - is accepted) *)
      namedSides == ns0 \cup {Follow(T0, y, 3) : y \in {z \in ns0 : Has(T0, z) /\ T0[z].k = "link" /\ StatErr(T0, z) = "ok"}}
  IN (pr.st = "ok" /\ pn.st = "ok" /\ Len(p) > Len(rp))
     => \A q \in DOMAIN T0 :
          (T0[q].k \in {"file", "dir"} /\ Len(q) > Len(rp) /\ ~SideName(Base(q)) /\ q \notin named /\ ~IsPrefix(p, q) /\ ~IsPrefix(tgt, q)
             /\ Has(T1, q) /\ T1[q] = T0[q])
          => \A x \in {IncOf(q), RsrcOf(q), InfoOf(q)} \ namedSides : Has(T0, x) => (Has(T1, x) /\ T1[x] = T0[x])

(* the tree a well-formed request asks for, stated as an image of paths (no file system calls) *)
Image(T0, p, q, withSides) ==
  LET moved == Under(T0, p) \cup (IF withSides THEN {x \in {IncOf(p), RsrcOf(p), InfoOf(p)} : Has(T0, x)} ELSE {})
      img(x) == IF IsPrefix(p, x) THEN q \o SubSeq(x, Len(p) + 1, Len(x))
                ELSE IF x = IncOf(p) THEN IncOf(q) ELSE IF x = RsrcOf(p) THEN RsrcOf(q) ELSE InfoOf(q)
      src(y) == CHOOSE x \in moved : img(x) = y
  IN [y \in (DOMAIN T0 \ moved) \cup {img(x) : x \in moved} |-> IF y \in {img(x) : x \in moved} THEN T0[src(y)] ELSE T0[y]]
Requested(s, T0, rp) ==
  LET pr == ParsePath(s.path, {})
      p == Resolve(rp, pr.items, Val(s.name))
      pn == ParsePath(s.newpath, {})
      dst == rp \o DecPath(Clean(pn.items))
      cm == Val(s.comment)
  IN CASE s.kind = "newfolder" -> With(T0, p, DirN)
       [] s.kind = "delete" -> Without(T0, Under(T0, p) \cup {IncOf(p), RsrcOf(p), InfoOf(p)})
       [] s.kind = "alias" -> With(T0, dst \o <<Base(p)>>, LinkN(p))
       [] s.kind = "rename" -> Image(T0, p, Resolve(rp, pr.items, Val(s.newname)), T0[p].k = "file")
       [] s.kind = "move" -> Image(T0, p, dst \o <<Base(p)>>, TRUE)
       [] s.kind = "setcomment" -> With(T0, InfoOf(p), IF Has(T0, InfoOf(p)) THEN InfoN(T0[InfoOf(p)].s - T0[InfoOf(p)].c + BLen(s.comment), BLen(s.comment), T0[InfoOf(p)].ty)
                                                          ELSE InfoN(74 + Len(Base(p)) + BLen(s.comment), BLen(s.comment), IF T0[p].k = "dir" THEN Fldr ELSE TypeOfName(Base(p))))
       [] OTHER -> T0

(* ---- differences between two trees -------------------------------------------------------------- *)
(* sizes are compared below `rp` only (contents of account files and of files outside are not modelled) *)
Mask(e, rp) == IF Inside(e.p, rp) THEN e ELSE [e EXCEPT !.s = -1]
Diff(t1, t2, rp) ==
  {Mask([d |-> "+", p |-> p, k |-> t2[p].k, s |-> t2[p].s], rp) : p \in DOMAIN t2 \ DOMAIN t1}
  \cup {Mask([d |-> "-", p |-> p, k |-> t1[p].k, s |-> t1[p].s], rp) : p \in DOMAIN t1 \ DOMAIN t2}
  \cup {Mask([d |-> "~", p |-> p, k |-> t2[p].k, s |-> t2[p].s], rp) : p \in {q \in DOMAIN t1 \cap DOMAIN t2 : t1[q] # t2[q]}}

(* ---- C07 ------------------------------------------------------------------------------------------ *)
InTrees(p, rp, up) == Inside(p, rp) \/ Inside(p, up)
OutsidePart(t, rp, up) == [q \in {x \in DOMAIN t : ~InTrees(x, rp, up)} |-> t[q]]
(* whatever the components: every path used lies inside the root / the accounts directory, outside is unchanged *)
ContainedRes(t, r, rp, up) == /\ \A p \in r.eff : InTrees(p, rp, up)
                              /\ OutsidePart(r.t, rp, up) = OutsidePart(t, rp, up)
=============================================================================
