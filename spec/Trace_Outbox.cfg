CONSTANTS
  Chunk = 32768
  Atomic = FALSE
INIT Init
NEXT Next
POSTCONDITION Consumed
CHECK_DEADLOCK FALSE
