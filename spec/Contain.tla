------------------------------ MODULE Contain ------------------------------
(***************************************************************************)
(* Containment of hostile input (C03).  Life cycle of one accepted         *)
(* connection as hotline/server.go runs it, with a failure (handler panic, *)
(* malformed frame, peer disappearing) possible at every point:            *)
(*   control:  accepted -> limiter -> handshake -> ban gate -> login       *)
(*             -> registered (ClientMgr.Add) -> counted (Stats.Increment)  *)
(*             -> serving* -> failure|close -> deferred cleanup in the      *)
(*             code's order: Stats.Decrement, ClientMgr.Delete + notify,   *)
(*             recover                                                      *)
(*   transfer: accepted -> preamble -> lookup -> counted (in progress ++)  *)
(*             -> moving bytes -> failure|done -> in progress --, entry     *)
(*             removed                                                      *)
(* The rate-limiter table is a critical section entered by every accepted  *)
(* connection (LimiterEnter/LimiterLeave).                                  *)
(* Properties: QuiescentBaseline (when no hostile connection is alive the   *)
(* registry and the counters are what the sentinels account for),          *)
(* LimiterMutualExclusion, SentinelsUnaffected, ProcessAlive.               *)
(* The same variables are driven by trace validation from the events the    *)
(* real server's registry and counters record (Add / Delete / Inc / Dec).   *)
(***************************************************************************)
EXTENDS Integers, Sequences, FiniteSets, TLC

CONSTANTS Hostile,    \* hostile connections (model values / naturals)
          Sentinels   \* well-behaved logged-in connections

VARIABLES pc,        \* hostile connection -> program point
          kind,      \* hostile connection -> "ctl" | "xfer"
          registry,  \* set of registered connections (ClientMgr)
          connected, \* Stats: currently connected
          inflight,  \* Stats: transfers in progress
          inLimiter, \* connections inside the limiter-table critical section
          alive      \* the process

cvars == <<pc, kind, registry, connected, inflight, inLimiter, alive>>

Init == /\ pc = [h \in Hostile |-> "new"]
        /\ kind \in [Hostile -> {"ctl", "xfer"}]
        /\ registry = Sentinels
        /\ connected = Cardinality(Sentinels)
        /\ inflight = 0
        /\ inLimiter = {}
        /\ alive = TRUE

Go(h, to) == pc' = [pc EXCEPT ![h] = to]

LimiterEnter(h) == /\ pc[h] = "new" /\ kind[h] = "ctl" /\ inLimiter = {}    \* the mutex
                   /\ inLimiter' = {h} /\ Go(h, "limiter")
                   /\ UNCHANGED <<kind, registry, connected, inflight, alive>>
LimiterLeave(h) == /\ pc[h] = "limiter"
                   /\ inLimiter' = {} /\ Go(h, "handshake")
                   /\ UNCHANGED <<kind, registry, connected, inflight, alive>>
Login(h)    == /\ pc[h] = "handshake" /\ Go(h, "login")
               /\ UNCHANGED <<kind, registry, connected, inflight, inLimiter, alive>>
Register(h) == /\ pc[h] = "login" /\ registry' = registry \cup {h} /\ Go(h, "registered")
               /\ UNCHANGED <<kind, connected, inflight, inLimiter, alive>>
Count(h)    == /\ pc[h] = "registered" /\ connected' = connected + 1 /\ Go(h, "serving")
               /\ UNCHANGED <<kind, registry, inflight, inLimiter, alive>>
Serve(h)    == /\ pc[h] = "serving" /\ UNCHANGED cvars

(* a failure at any point of a control connection: the deferred calls run in reverse order of registration *)
Fail(h) == /\ kind[h] = "ctl"
           /\ pc[h] \in {"handshake", "login", "registered", "serving"}
           /\ Go(h, CASE pc[h] = "serving" -> "uncount"
                      [] pc[h] = "registered" -> "unregister"
                      [] OTHER -> "closed")
           /\ UNCHANGED <<kind, registry, connected, inflight, inLimiter, alive>>
Uncount(h)    == /\ pc[h] = "uncount" /\ connected' = connected - 1 /\ Go(h, "unregister")
                 /\ UNCHANGED <<kind, registry, inflight, inLimiter, alive>>
Unregister(h) == /\ pc[h] = "unregister" /\ registry' = registry \ {h} /\ Go(h, "closed")
                 /\ UNCHANGED <<kind, connected, inflight, inLimiter, alive>>

(* transfer connection *)
Preamble(h) == /\ pc[h] = "new" /\ kind[h] = "xfer" /\ Go(h, "lookup")
               /\ UNCHANGED <<kind, registry, connected, inflight, inLimiter, alive>>
Begin(h)    == /\ pc[h] = "lookup" /\ inflight' = inflight + 1 /\ Go(h, "moving")
               /\ UNCHANGED <<kind, registry, connected, inLimiter, alive>>
XFail(h)    == /\ pc[h] \in {"lookup", "moving"}
               /\ Go(h, IF pc[h] = "moving" THEN "xdone" ELSE "closed")
               /\ UNCHANGED <<kind, registry, connected, inflight, inLimiter, alive>>
End(h)      == /\ pc[h] = "xdone" /\ inflight' = inflight - 1 /\ Go(h, "closed")
               /\ UNCHANGED <<kind, registry, connected, inLimiter, alive>>

Next == \E h \in Hostile :
          \/ LimiterEnter(h) \/ LimiterLeave(h) \/ Login(h) \/ Register(h) \/ Count(h)
          \/ Fail(h) \/ Uncount(h) \/ Unregister(h)
          \/ Preamble(h) \/ Begin(h) \/ XFail(h) \/ End(h)

Gone == \A h \in Hostile : pc[h] \in {"closed", "new"}

QuiescentBaseline == Gone => /\ registry = Sentinels
                             /\ connected = Cardinality(Sentinels)
                             /\ inflight = 0
LimiterMutualExclusion == Cardinality(inLimiter) <= 1
SentinelsUnaffected == Sentinels \subseteq registry
ProcessAlive == alive
CountersSane == connected >= Cardinality(Sentinels) /\ inflight >= 0

(* ---- mutation plans for the harness: which frame of which session is damaged how ---------------------------- *)
Sessions == {"ctl", "adm", "scan", "lurker", "kick", "prelogin", "upload", "download", "fupload", "fdownload"}   \* (+ two "nonreader" connections added by the driver: logged in, asking a lot, never reading)
Mutations == {"trunc", "total", "datasz", "count", "flen", "dropfield", "shortid", "garbage", "badhs", "size", "dup"}
Applicable(s, m) ==
  CASE s = "kick"     -> m = "dup"       \* the hostile operator disconnects / bans another hostile user (val: ban option)
    [] s = "lurker"   -> m = "shortid"   \* stays connected with odd user info (icon / name / options of unusual lengths, by val)
    [] s = "scan"     -> m = "garbage"   \* a scan of the transfer port with unknown reference numbers, next to busy downloaders
    [] s = "prelogin" -> m \in {"trunc", "total", "datasz", "count", "flen", "garbage", "badhs", "dropfield"}
    [] s \in {"ctl", "adm"} -> m \in Mutations \ {"badhs", "size", "dup"}   \* adm: the same session as an operator (all but account administration), its kick aimed at an absent user; sentinels cannot be disconnected
    [] OTHER          -> m \in {"trunc", "size", "count", "garbage", "badhs", "dup"}   \* dup: the preamble replayed on two connections
Frames(s) == IF s \in {"scan", "lurker", "kick"} THEN 0..0 ELSE IF s \in {"ctl", "adm"} THEN 3..24 ELSE IF s = "prelogin" THEN 1..2 ELSE 0..9
Plans == {p \in [sess : Sessions, frame : 0..24, mut : Mutations, val : 0..6] :
            p.frame \in Frames(p.sess) /\ Applicable(p.sess, p.mut)}
=============================================================================
