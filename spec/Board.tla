------------------------------- MODULE Board -------------------------------
(***************************************************************************)
(* The flat message board (internal/mobius/news.go FlatNews, handlers      *)
(* HandleGetMsgs / HandleTranOldPostNews) and the agreement shown at login *)
(* (internal/mobius/agreement.go, hotline/server.go handleNewConnection).  *)
(* Both stores are read through an io.ReadSeeker with ONE cursor shared by *)
(* every reader: a read is Seek(0) followed by Read calls until EOF.       *)
(*                                                                         *)
(* The text is a sequence of posts, newest first; a post is an abstract id. *)
(* Actors: readers (get-messages / login) and posters.  Each call of the   *)
(* store (Seek, Read, Write) is one action, so that TLC explores every     *)
(* interleaving of the calls of concurrent requests.                       *)
(*   Locked = TRUE  : intended design - a whole read (seek + reads) and a  *)
(*                    post are mutually exclusive critical sections;       *)
(*   Locked = FALSE : the calls interleave freely (used to generate        *)
(*                    adversarial schedules for the real code).            *)
(* C19: every completed read returns a text that was current at some       *)
(* instant during the read (ReadIsWholeCurrentText); every post is kept,   *)
(* newest first (NoPostLost, NewestFirst), on disk when acknowledged.      *)
(***************************************************************************)
EXTENDS Integers, Sequences, FiniteSets, TLC

CONSTANTS Readers, Posters,   \* actor ids (disjoint sets of naturals)
          ChunkLen,           \* posts returned by one Read call (abstract buffer size)
          Locked

VARIABLES text,     \* sequence of post ids, newest first (FlatNews.data)
          versions, \* every text there has ever been, in order
          cursor,   \* the shared read offset (FlatNews.readOffset)
          st,       \* actor -> "idle" | "seeked" | "reading" | "done"
          got,      \* reader -> what its Read calls have returned so far
          from,     \* reader -> index into versions when its read started
          lockedBy, \* 0 or the actor inside its critical section
          disk      \* the text in MessageBoard.txt

bvars == <<text, versions, cursor, st, got, from, lockedBy, disk>>

Actors == Readers \cup Posters
Min(a, b) == IF a < b THEN a ELSE b

InitWith(t) == /\ text = t /\ versions = <<t>> /\ cursor = 0 /\ disk = t
               /\ st = [a \in Actors |-> "idle"]
               /\ got = [r \in Readers |-> <<>>]
               /\ from = [r \in Readers |-> 0]
               /\ lockedBy = 0

Free(a) == ~Locked \/ lockedBy \in {0, a}

Seek(r) == /\ r \in Readers /\ st[r] = "idle" /\ Free(r)
           /\ cursor' = 0
           /\ st' = [st EXCEPT ![r] = "seeked"]
           /\ got' = [got EXCEPT ![r] = <<>>]
           /\ from' = [from EXCEPT ![r] = Len(versions)]
           /\ lockedBy' = IF Locked THEN r ELSE 0
           /\ UNCHANGED <<text, versions, disk>>

(* one Read call: copies from the shared cursor; at the end of the data it reports EOF and the read completes *)
Read(r) == /\ r \in Readers /\ st[r] \in {"seeked", "reading"}
           /\ IF cursor >= Len(text)
                THEN /\ st' = [st EXCEPT ![r] = "done"]
                     /\ lockedBy' = 0
                     /\ UNCHANGED <<cursor, got>>
                ELSE LET n == Min(ChunkLen, Len(text) - cursor) IN
                     /\ got' = [got EXCEPT ![r] = @ \o SubSeq(text, cursor + 1, cursor + n)]
                     /\ cursor' = cursor + n
                     /\ st' = [st EXCEPT ![r] = "reading"]
                     /\ UNCHANGED lockedBy
           /\ UNCHANGED <<text, versions, from, disk>>

(* a post: prepended, persisted, acknowledged - one call of the store (FlatNews.Write holds the store's mutex) *)
Post(p) == /\ p \in Posters /\ st[p] = "idle" /\ Free(p)
           /\ text' = <<p>> \o text
           /\ versions' = Append(versions, text')
           /\ disk' = text'
           /\ st' = [st EXCEPT ![p] = "done"]
           /\ UNCHANGED <<cursor, got, from, lockedBy>>

(* C19 *)
ReadIsWholeCurrentText ==
  \A r \in Readers : st[r] = "done" => \E k \in from[r]..Len(versions) : got[r] = versions[k]
NoPostLost == \A p \in Posters : st[p] = "done" => \E i \in DOMAIN text : text[i] = p
NewestFirst == \A k \in 2..Len(versions) : versions[k] = <<versions[k][1]>> \o versions[k-1]
OnDiskWhenAcked == disk = text
AllDone == \A a \in Actors : st[a] = "done"
=============================================================================
