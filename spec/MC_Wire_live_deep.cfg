CONSTANTS
  Kinds = {"field","txn","user","newscat15","newsartlist","fileheader","account","fnwi","resume","nald","trackerreg","time","handshake","infofork"}
  Bufs = {1,3,40000}
  Bufs2 = {2,40000}
  Modes = {0}
  Long = FALSE
  BSizes = {}
  Track = FALSE
SPECIFICATION FairSpec
PROPERTIES BothTerminate Terminates
CHECK_DEADLOCK FALSE
