CONSTANTS
  Variant = "intended"
  Logins = {"a", "b", "c"}
  IPs = {"1.1.1.1", "10.0.0.2"}
  Names = {"n1", "n2"}
  MaxUpdates = 99
  MaxCrashes = 0
  Kinds = {"board_post","ban_add","acct_create","acct_update","acct_rename","acct_delete","news_cat","news_post","news_delart","news_delitem"}
  GenDepth = 10
INIT Init
NEXT Next
ACTION_CONSTRAINT Emit
INVARIANTS DiskMatchesMemory
CHECK_DEADLOCK FALSE
