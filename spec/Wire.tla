-------------------------------- MODULE Wire --------------------------------
(* C01 - wire format fidelity.  Reference layouts of every protocol object the library serialises, and the
   machine that drains an encoder through caller-supplied buffers.

   Byte strings are tuples over 0..255.  32-bit quantities that are opaque to the model (transaction IDs, error
   codes, type/creator codes, reference numbers, dates) are carried as 4- or 8-byte tuples because TLC integers
   are 32-bit signed; only sizes and counts (which stay below 2^31) are integers.

   The layouts are transcribed from "The Hotline Network Protocol - Version 1.9" (text extract in
   /verif/ref/HLProtocol-1.9.extracted.txt; the section is cited at each operator).  They are NOT derived from the
   Go encoders.  Where the document is silent and the layout is the de-facto one spoken by Hotline 1.5+/1.9 peers
   and by Mobius, the comment says "de-facto".

   Object kinds (field `kind` of a script / log line):
     emitted by the server (drained through Read):   field txn user account fnwi infofork ffo fileheader nald
                                                     newsartlist newscat15 trackerreg
     produced in one piece (no incremental Read):    resume time handshake(reply)
     received (decoder only):                        filepath newspath preamble handshake int obfstr serverrecord
                                                     listing (tracker reply; its request is emitted) flatfile
                                                     (whole flattened file incl. resource fork header) *)
EXTENDS Naturals, Sequences, FiniteSets, TLC

Min(a, b) == IF a < b THEN a ELSE b

U8(n)  == <<n % 256>>
U16(n) == <<(n \div 256) % 256, n % 256>>
U32(n) == <<(n \div 16777216) % 256, (n \div 65536) % 256, (n \div 256) % 256, n % 256>>   \* n < 2^31
Zeros(k) == [i \in 1..k |-> 0]
Rep(b, k) == [i \in 1..k |-> b]

RECURSIVE BE(_)      \* big-endian value (callers guarantee < 2^31)
BE(s) == IF Len(s) = 0 THEN 0 ELSE BE(SubSeq(s, 1, Len(s) - 1)) * 256 + s[Len(s)]

RECURSIVE CatFrom(_, _)
CatFrom(ss, i) == IF i > Len(ss) THEN <<>> ELSE ss[i] \o CatFrom(ss, i + 1)
Cat(ss) == CatFrom(ss, 1)     \* concatenation of a sequence of byte strings

Neg(s) == [i \in 1..Len(s) |-> 255 - s[i]]   \* "every character in this string is negated" (Get User 352 / Login 107)

TRTP == <<84, 82, 84, 80>>    HOTL == <<72, 79, 84, 76>>    HTXF == <<72, 84, 88, 70>>
HTRK == <<72, 84, 82, 75>>
FILP == <<70, 73, 76, 80>>    INFO == <<73, 78, 70, 79>>    DATA == <<68, 65, 84, 65>>
MACR == <<77, 65, 67, 82>>    RFLT == <<82, 70, 76, 84>>    AMAC == <<65, 77, 65, 67>>
MWIN == <<77, 87, 73, 78>>    FLDR == <<102, 108, 100, 114>>
TextPlain == <<116, 101, 120, 116, 47, 112, 108, 97, 105, 110>>     \* "text/plain"

-----------------------------------------------------------------------------
(* ---- layouts ---- *)

(* "Transactions": parameter record = Field ID(2) Field size(2) Field data(size) *)
EncField(f) == U16(f.id) \o U16(Len(f.data)) \o f.data

EncFields(fs) == Cat([i \in 1..Len(fs) |-> EncField(fs[i])])

(* "Transactions": header Flags(1) Is reply(1) Type(2) ID(4) Error code(4) Total size(4) Data size(4), followed by
   Number of parameters(2) and the parameter list.  Total size = Data size (Mobius never splits a transaction
   into parts) = 2 + the parameter list. *)
EncTxn(t) == LET body == EncFields(t.fields)
                 sz   == 2 + Len(body)
             IN <<t.flags, t.isReply>> \o U16(t.type) \o t.id \o t.err \o U32(sz) \o U32(sz)
                \o U16(Len(t.fields)) \o body

(* "User Name with Info (300)": User ID(2) Icon ID(2) User flags(2) User name size(2) User name(size).
   The object may hold Icon / Flags as a 4-byte integer (fields iconw / flagsw = 4, as some clients send Icon ID
   (104)); the wire form is always the 2 low-order bytes - u.icon / u.flags are those 16-bit values. *)
EncUser(u) == U16(u.id) \o U16(u.icon) \o U16(u.flags) \o U16(Len(u.name)) \o u.name

(* List Users (348) reply, one Data(101) field per account - de-facto (348/349 are later than the 1.9 document):
   field count(2) + fields User name(102), User login(105, negated as in Get User 352), User access(110) and,
   when the account has a password, User password(106) = "x". *)
AccountFields(a) ==
  <<[id |-> 102, data |-> a.name], [id |-> 105, data |-> Neg(a.login)], [id |-> 110, data |-> a.access]>>
  \o (IF a.haspw THEN <<[id |-> 106, data |-> <<120>>]>> ELSE <<>>)
EncAccount(a) == U16(Len(AccountFields(a))) \o EncFields(AccountFields(a))

(* "File Name with Info (200)": Type(4) Creator(4) File size(4) reserved(4) Name script(2) Name size(2) Name *)
EncFileNameWithInfo(f) ==
  f.type \o f.creator \o f.size \o f.rsvd \o U16(f.script) \o U16(Len(f.name)) \o f.name

(* "Flattened File Object", flat file information fork: Platform(4) Type signature(4) Creator signature(4)
   Flags(4) Platform flags(4) RSVD(32) Create date(8) Modify date(8) Name script(2) Name size(2) Name(size).
   De-facto tail (real clients and servers send it; the document's table stops at Name): Comment size(2)
   Comment(size). *)
EncInfoFork(i) ==
  i.platform \o i.type \o i.creator \o i.flags \o i.pflags \o i.rsvd \o i.cdate \o i.mdate
  \o U16(i.script) \o U16(Len(i.name)) \o i.name \o U16(Len(i.comment)) \o i.comment

(* "Flattened File Object", fork header: Fork type(4) Compression type(4)=0 RSVD(4) Data size(4) *)
EncForkHeader(type, size4) == type \o Zeros(4) \o Zeros(4) \o size4

(* "Flattened File Object": flat file header Format "FILP"(4) Version(2)=1 RSVD(16) Fork count(2); information
   fork header with Data size = size of the information fork; the information fork; data fork header with the
   content size.  (The fork data and an optional MACR fork follow on the stream; they are C08's subject.) *)
EncFFOHeader(o) ==
  LET info == EncInfoFork(o.info)
  IN FILP \o U16(1) \o Zeros(16) \o U16(o.forks)
     \o EncForkHeader(INFO, U32(Len(info))) \o info
     \o EncForkHeader(DATA, o.datasize)

(* "File Resume Data (203)": Format "RFLT"(4) Version(2)=1 RSVD(34) Fork count(2) + per fork Fork(4) Data size(4)
   RSVD(4) RSVD(4) *)
EncResumeData(r) ==
  RFLT \o U16(1) \o Zeros(34) \o U16(Len(r.forks))
  \o Cat([i \in 1..Len(r.forks) |-> r.forks[i].fork \o r.forks[i].size \o Zeros(8)])

(* "Upload Folder (213)", file name path: Path item count(2) + per item 2 bytes 0, Name size(1), name.
   The same structure is the de-facto content of File Path (202) and News Path (325), whose field descriptions in
   the document carry no table. *)
EncPathItems(segs) == Cat([i \in 1..Len(segs) |-> <<0, 0, Len(segs[i])>> \o segs[i]])
EncFilePath(segs) == U16(Len(segs)) \o EncPathItems(segs)
EncNewsPath(segs) == EncFilePath(segs)

(* "Download Folder (210)": per item Header size(2), header data = Type(2) File path(rest); the path has the
   Upload Folder structure.  Type: 0 file, 1 folder (de-facto; the document says "?"). *)
EncFileHeader(h) ==
  LET p == EncFilePath(h.segs) IN U16(2 + Len(p)) \o U16(IF h.isdir THEN 1 ELSE 0) \o p

(* "News Article List Data (321)", list of articles: Article ID(4) Time stamp(8) Parent article ID(4) Article
   flags(4) Flavor count(2) Title size(1) Title Poster size(1) Poster + per flavor Flavor size(1) Flavor text
   Article size(2).  Mobius always sends exactly one flavor, "text/plain". *)
EncNewsArtList(a) ==
  a.id \o a.date \o a.parent \o a.flags \o U16(1) \o U8(Len(a.title)) \o a.title \o U8(Len(a.poster)) \o a.poster
  \o U8(Len(TextPlain)) \o TextPlain \o U16(a.size)

(* "News Article List Data (321)": ID(4) Article count(4) Name size(1) Name Description size(1) Description,
   list of articles *)
NaldArt(a) == [flags |-> Zeros(4)] @@ a
EncNewsArtListData(d) ==
  d.id \o U32(Len(d.arts)) \o U8(Len(d.name)) \o d.name \o U8(Len(d.desc)) \o d.desc
  \o Cat([i \in 1..Len(d.arts) |-> EncNewsArtList(NaldArt(d.arts[i]))])

(* "News Category List Data 1.5 (323)": Type(2) = 2 bundle / 3 category; bundle: Count(2) Name size(1) Name;
   category: Count(2) GUID(16) Add SN(4) Delete SN(4) Name size(1) Name *)
EncNewsCat15(c) ==
  U16(IF c.bundle THEN 2 ELSE 3) \o U16(c.narts + c.nsubs)
  \o (IF c.bundle THEN <<>> ELSE c.guid \o c.addsn \o c.delsn)
  \o U8(Len(c.name)) \o c.name

(* "Server Interface with Tracker": 1(2) IP port(2) Number of users(2) 0(2) Pass ID(4) Name size(1) Name
   Description size(1) Description; old-tracker form adds Password size(1) Password (the form Mobius sends). *)
EncTrackerReg(t) ==
  U16(1) \o U16(t.port) \o U16(t.users) \o U16(0) \o t.passid
  \o U8(Len(t.name)) \o t.name \o U8(Len(t.desc)) \o t.desc \o U8(Len(t.pass)) \o t.pass

(* "Client Interface with Tracker", server list record: IP(4) port(2) users(2) 0(2) Name size(1) Name
   Description size(1) Description *)
EncServerRecord(s) ==
  s.ip \o U16(s.port) \o U16(s.users) \o Zeros(2) \o U8(Len(s.name)) \o s.name \o U8(Len(s.desc)) \o s.desc

(* "Client Interface with Tracker": the client sends Magic number "HTRK"(4) Version(2) = 1; the tracker replies with
   the same 6-byte header, then the server information header Message type(2) = 1, Message data size(2) = remaining
   size, Number of servers(2), Number of servers(2) again, and the server list records. *)
ListingRequest == HTRK \o U16(1)
EncListing(g) ==
  LET recs == Cat([i \in 1..Len(g.servers) |-> EncServerRecord(g.servers[i])])
  IN HTRK \o U16(1) \o U16(1) \o U16(4 + Len(recs)) \o U16(Len(g.servers)) \o U16(Len(g.servers)) \o recs

(* "Flattened File Object" as a whole stream (upload direction): header, INFO fork, DATA fork header + content and,
   when Fork count = 3, the resource fork header "MACR" + content *)
EncFlatFile(f) ==
  EncFFOHeader([forks |-> f.forks, info |-> f.info, datasize |-> U32(Len(f.data))]) \o f.data
  \o (IF f.forks = 3 THEN EncForkHeader(MACR, U32(Len(f.rsrc))) \o f.rsrc ELSE <<>>)

(* "File Create Date (208)": Year(2) Milliseconds(2) Seconds(4); Mobius sends 0 milliseconds *)
EncTime(t) == U16(t.year) \o U16(0) \o U32(t.secs)

(* "Session Initialization": Protocol ID "TRTP"(4) Sub-protocol ID(4) Version(2) Sub-version(2); the server
   replies "TRTP"(4) Error code(4) = 0.  Mobius accepts sub-protocol "HOTL" only and any version. *)
EncHandshake(h) == h.proto \o h.sub \o U16(h.ver) \o U16(h.subver)
HandshakeValid(h) == h.proto = TRTP /\ h.sub = HOTL
HandshakeReply == TRTP \o Zeros(4)

(* "Download File (202)" ..: transfer connection record Protocol "HTXF"(4) Reference number(4) Data size(4) RSVD(4) *)
EncPreamble(p) == p.proto \o p.ref \o p.size \o p.rsvd

-----------------------------------------------------------------------------
(* ---- dispatch ---- *)

DrainKinds == {"field", "txn", "user", "account", "fnwi", "infofork", "ffo", "fileheader", "nald", "newsartlist",
               "newscat15", "trackerreg"}
WholeKinds == {"resume", "time", "handshake", "listing"}      \* produced in one piece
EmitKinds  == DrainKinds \cup WholeKinds
FedKinds   == {"filepath", "newspath", "preamble", "handshake", "int", "serverrecord", "listing", "flatfile", "obfstr"}   \* decoder input from the spec
DecKinds   == {"field", "txn", "user", "account", "fnwi", "infofork", "ffo", "resume", "fileheader"} \cup FedKinds
Dec2Kinds  == {"infofork", "fileheader"}            \* a second real decoder exists
AllKinds   == EmitKinds \cup FedKinds

(* what the real encoder must emit *)
Out(k, o) ==
  CASE k = "field" -> EncField(o)
    [] k = "txn" -> EncTxn(o)
    [] k = "user" -> EncUser(o)
    [] k = "account" -> EncAccount(o)
    [] k = "fnwi" -> EncFileNameWithInfo(o)
    [] k = "infofork" -> EncInfoFork(o)
    [] k = "ffo" -> EncFFOHeader(o)
    [] k = "resume" -> EncResumeData(o)
    [] k = "fileheader" -> EncFileHeader(o)
    [] k = "nald" -> EncNewsArtListData(o)
    [] k = "newsartlist" -> EncNewsArtList(o)
    [] k = "newscat15" -> EncNewsCat15(o)
    [] k = "trackerreg" -> EncTrackerReg(o)
    [] k = "time" -> EncTime(o)
    [] k = "handshake" -> IF HandshakeValid(o) THEN HandshakeReply ELSE <<>>
    [] k = "listing" -> ListingRequest          \* what the listing client sends before it reads the reply
    [] OTHER -> <<>>

(* what the real decoder is given when the bytes come from the specification *)
In(k, o) ==
  CASE k = "filepath" -> EncFilePath(o.segs)
    [] k = "newspath" -> EncNewsPath(o.segs)
    [] k = "preamble" -> EncPreamble(o)
    [] k = "handshake" -> EncHandshake(o)
    [] k = "int" -> o.data
    [] k = "serverrecord" -> EncServerRecord(o)
    [] k = "listing" -> EncListing(o)
    [] k = "flatfile" -> EncFlatFile(o)
    [] k = "obfstr" -> o.data
    [] OTHER -> <<>>

-----------------------------------------------------------------------------
(* ---- what decoding must yield: the object, re-described with every in-band size/count made explicit ---- *)

CanonField(f) == [id |-> f.id, size |-> Len(f.data), data |-> f.data]
CanonFields(fs) == [i \in 1..Len(fs) |-> CanonField(fs[i])]
CanonInfo(i) == [platform |-> i.platform, type |-> i.type, creator |-> i.creator, flags |-> i.flags,
                 pflags |-> i.pflags, rsvd |-> i.rsvd, cdate |-> i.cdate, mdate |-> i.mdate, script |-> i.script,
                 nsize |-> Len(i.name), name |-> i.name, csize |-> Len(i.comment), comment |-> i.comment]
CanonPath(segs) == [count |-> Len(segs), segs |-> [i \in 1..Len(segs) |-> [len |-> Len(segs[i]), name |-> segs[i]]]]

RECURSIVE JoinSlash(_)
JoinSlash(segs) == IF Len(segs) = 0 THEN <<>>
                   ELSE IF Len(segs) = 1 THEN segs[1]
                   ELSE segs[1] \o <<47>> \o JoinSlash(Tail(segs))

Ok(v) == [st |-> "ok", v |-> v]
Err == [st |-> "error"]

Canon(k, o) ==
  CASE k = "field" -> Ok(CanonField(o))
    [] k = "txn" -> LET sz == 2 + Len(EncFields(o.fields))
                    IN Ok([flags |-> o.flags, isReply |-> o.isReply, type |-> o.type, id |-> o.id, err |-> o.err,
                           total |-> U32(sz), dsize |-> U32(sz), count |-> Len(o.fields), fields |-> CanonFields(o.fields)])
    [] k = "user" -> Ok([id |-> o.id, icon |-> o.icon, flags |-> o.flags, name |-> o.name])
    [] k = "account" -> Ok([count |-> Len(AccountFields(o)), fields |-> CanonFields(AccountFields(o))])
    [] k = "fnwi" -> Ok([type |-> o.type, creator |-> o.creator, size |-> o.size, rsvd |-> o.rsvd, script |-> o.script,
                         nsize |-> Len(o.name), name |-> o.name])
    [] k = "infofork" -> Ok(CanonInfo(o))
    [] k = "ffo" -> Ok([format |-> FILP, version |-> 1, rsvd |-> Zeros(16), forks |-> o.forks,
                        ihdr |-> [type |-> INFO, comp |-> Zeros(4), rsvd |-> Zeros(4), size |-> U32(Len(EncInfoFork(o.info)))],
                        info |-> CanonInfo(o.info),
                        dhdr |-> [type |-> DATA, comp |-> Zeros(4), rsvd |-> Zeros(4), size |-> o.datasize]])
    [] k = "resume" -> Ok([format |-> RFLT, version |-> 1, count |-> Len(o.forks),
                           forks |-> [i \in 1..Len(o.forks) |-> [fork |-> o.forks[i].fork, size |-> o.forks[i].size,
                                                                   rsvda |-> Zeros(4), rsvdb |-> Zeros(4)]]])
    [] k = "fileheader" -> Ok([size |-> 2 + Len(EncFilePath(o.segs)), type |-> IF o.isdir THEN 1 ELSE 0,
                               path |-> CanonPath(o.segs)])
    [] k = "filepath" -> Ok(CanonPath(o.segs))
    [] k = "newspath" -> Ok([names |-> o.segs])
    [] k = "preamble" -> IF o.proto = HTXF THEN Ok([ref |-> o.ref, size |-> o.size]) ELSE Err
    [] k = "handshake" -> Ok([valid |-> HandshakeValid(o)])
    [] k = "int" -> IF Len(o.data) = 2 THEN Ok([v |-> Zeros(2) \o o.data])
                    ELSE IF Len(o.data) = 4 THEN Ok([v |-> o.data]) ELSE Err
    [] k = "serverrecord" -> Ok([ip |-> o.ip, port |-> o.port, users |-> o.users, nsize |-> Len(o.name),
                                 name |-> o.name, dsize |-> Len(o.desc), desc |-> o.desc])
    [] k = "listing" -> Ok([servers |-> [i \in 1..Len(o.servers) |->
                               LET r == o.servers[i] IN [ip |-> r.ip, port |-> r.port, users |-> r.users, nsize |-> Len(r.name),
                                                         name |-> r.name, dsize |-> Len(r.desc), desc |-> r.desc]]])
    [] k = "flatfile" -> Ok([info |-> EncInfoFork(o.info), data |-> o.data, rsrc |-> IF o.forks = 3 THEN o.rsrc ELSE <<>>])
    [] k = "obfstr" -> Ok([s |-> Neg(o.data)])
    [] OTHER -> Err

(* second decoder: FlatFileInformationFork.UnmarshalBinary; the folder-upload path formatter (item names joined
   with "/": only for names without "/", "." and ".." and not empty - path cleaning is C07's subject) *)
Canon2(k, o) ==
  CASE k = "infofork" -> Ok(CanonInfo(o))
    [] k = "fileheader" -> Ok([path |-> JoinSlash(o.segs)])
    [] OTHER -> Err

-----------------------------------------------------------------------------
(* ---- LenPrefixOK: every length/size/count prefix inside the encoding equals the bytes that follow.
   Checked by *parsing* the encoding with its own in-band prefixes: the walk must land exactly on the end. ---- *)

Sub(b, from, to) == SubSeq(b, from, to)

RECURSIVE FieldsEnd(_, _, _)      \* position after n fields starting at p, 0 when the bytes run out
FieldsEnd(b, p, n) ==
  IF n = 0 THEN p
  ELSE IF p + 3 > Len(b) THEN 0
  ELSE LET sz == BE(Sub(b, p + 2, p + 3)) IN
       IF p + 3 + sz > Len(b) THEN 0 ELSE FieldsEnd(b, p + 4 + sz, n - 1)

RECURSIVE PStrEnd(_, _, _)        \* n strings with a one-byte length prefix
PStrEnd(b, p, n) ==
  IF n = 0 THEN p
  ELSE IF p > Len(b) THEN 0
  ELSE IF p + b[p] > Len(b) THEN 0 ELSE PStrEnd(b, p + 1 + b[p], n - 1)

RECURSIVE PathEnd(_, _, _)        \* n path items: 0 0 len name
PathEnd(b, p, n) ==
  IF n = 0 THEN p
  ELSE IF p + 2 > Len(b) THEN 0
  ELSE IF b[p] # 0 \/ b[p + 1] # 0 \/ p + 2 + b[p + 2] > Len(b) THEN 0 ELSE PathEnd(b, p + 3 + b[p + 2], n - 1)

RECURSIVE FlavorsEnd(_, _, _)     \* n flavors: size text articlesize(2)
FlavorsEnd(b, p, n) ==
  IF n = 0 THEN p
  ELSE IF p > Len(b) \/ p + b[p] + 2 > Len(b) THEN 0 ELSE FlavorsEnd(b, p + 1 + b[p] + 2, n - 1)

RECURSIVE ArtsEnd(_, _, _)        \* n article list entries
ArtsEnd(b, p, n) ==
  IF n = 0 THEN p
  ELSE IF p + 21 > Len(b) THEN 0
  ELSE LET fc == BE(Sub(b, p + 20, p + 21))
           q  == PStrEnd(b, p + 22, 2)
       IN IF q = 0 THEN 0
          ELSE LET r == FlavorsEnd(b, q, fc) IN IF r = 0 THEN 0 ELSE ArtsEnd(b, r, n - 1)

RECURSIVE RecordsEnd(_, _, _)     \* n tracker server records: 10 fixed bytes + two one-byte-prefixed strings
RecordsEnd(b, p, n) ==
  IF n = 0 THEN p
  ELSE IF p + 9 > Len(b) THEN 0
  ELSE LET q == PStrEnd(b, p + 10, 2) IN IF q = 0 THEN 0 ELSE RecordsEnd(b, q, n - 1)

InfoForkOK(b) ==
  /\ Len(b) >= 74
  /\ LET ns == BE(Sub(b, 71, 72)) IN
     /\ 72 + ns + 2 <= Len(b)
     /\ BE(Sub(b, 72 + ns + 1, 72 + ns + 2)) = Len(b) - (72 + ns + 2)

LenPrefixOKBytes(k, b) ==
  LET L == Len(b) IN
  CASE k = "field" -> FieldsEnd(b, 1, 1) = L + 1
    [] k = "txn" -> /\ L >= 22
                    /\ b[13] < 128 /\ BE(Sub(b, 13, 16)) = L - 20      \* total size = everything after the 20-byte header
                    /\ Sub(b, 17, 20) = Sub(b, 13, 16)                 \* data size = total size (single part)
                    /\ FieldsEnd(b, 23, BE(Sub(b, 21, 22))) = L + 1    \* parameter count and every field size
    [] k = "user" -> L >= 8 /\ BE(Sub(b, 7, 8)) = L - 8
    [] k = "account" -> L >= 2 /\ FieldsEnd(b, 3, BE(Sub(b, 1, 2))) = L + 1
    [] k = "fnwi" -> L >= 20 /\ BE(Sub(b, 19, 20)) = L - 20
    [] k = "infofork" -> InfoForkOK(b)
    [] k = "ffo" -> /\ L >= 24 + 16 + 74 + 16
                    /\ BE(Sub(b, 23, 24)) \in {2, 3}
                    /\ b[37] < 128 /\ BE(Sub(b, 37, 40)) = L - 40 - 16  \* INFO fork size = the fork that follows
                    /\ InfoForkOK(Sub(b, 41, L - 16))
    [] k = "resume" -> L >= 42 /\ BE(Sub(b, 41, 42)) * 16 = L - 42
    [] k = "fileheader" -> /\ L >= 6 /\ BE(Sub(b, 1, 2)) = L - 2
                           /\ PathEnd(b, 7, BE(Sub(b, 5, 6))) = L + 1
    [] k \in {"filepath", "newspath"} -> L >= 2 /\ PathEnd(b, 3, BE(Sub(b, 1, 2))) = L + 1
    [] k = "nald" -> /\ L >= 10 /\ b[5] < 128
                     /\ LET p == PStrEnd(b, 9, 2) IN p # 0 /\ ArtsEnd(b, p, BE(Sub(b, 5, 8))) = L + 1
    [] k = "newsartlist" -> ArtsEnd(b, 1, 1) = L + 1
    [] k = "newscat15" -> /\ L >= 5
                          /\ IF Sub(b, 1, 2) = <<0, 2>> THEN PStrEnd(b, 5, 1) = L + 1
                             ELSE Sub(b, 1, 2) = <<0, 3>> /\ L >= 29 /\ PStrEnd(b, 29, 1) = L + 1
    [] k = "trackerreg" -> L >= 15 /\ PStrEnd(b, 13, 3) = L + 1
    [] k = "serverrecord" -> L >= 12 /\ PStrEnd(b, 11, 2) = L + 1
    [] k = "time" -> L = 8
    [] k = "preamble" -> L = 16
    [] k = "handshake" -> L \in {0, 8}
    [] k = "listing" -> \/ b = ListingRequest
                        \/ /\ L >= 14 /\ BE(Sub(b, 9, 10)) = L - 10 /\ Sub(b, 11, 12) = Sub(b, 13, 14)
                           /\ RecordsEnd(b, 15, BE(Sub(b, 11, 12))) = L + 1
    [] k = "flatfile" -> /\ L >= 24 + 16 + 74 + 16 /\ b[37] < 128
                         /\ LET isz == BE(Sub(b, 37, 40))
                                dh  == 40 + isz                       \* the DATA fork header follows the INFO fork
                            IN /\ dh + 16 <= L /\ InfoForkOK(Sub(b, 41, dh)) /\ b[dh + 13] < 128
                               /\ LET dsz == BE(Sub(b, dh + 13, dh + 16))
                                      rh  == dh + 16 + dsz
                                  IN IF BE(Sub(b, 23, 24)) = 2 THEN rh = L
                                     ELSE /\ rh + 16 <= L /\ b[rh + 13] < 128 /\ rh + 16 + BE(Sub(b, rh + 13, rh + 16)) = L
    [] OTHER -> TRUE

LenPrefixOK(k, o) ==
  /\ (k \in EmitKinds => LenPrefixOKBytes(k, Out(k, o)))
  /\ (k \in FedKinds \ {"handshake", "int", "obfstr"} => LenPrefixOKBytes(k, In(k, o)))

-----------------------------------------------------------------------------
(* ---- the drain machine: an encoder read through caller-supplied buffers ---- *)

VARIABLES kind, obj,   \* the object being emitted
          enc,         \* its reference encoding Out(kind, obj), computed once
          off,         \* bytes emitted so far (the encoder's read offset)
          eof,         \* the encoder has reported end of stream
          emitted      \* concatenation of the chunks returned so far

dvars == <<kind, obj, enc, off, eof, emitted>>

Enc == enc

DrainInit(k, o) == kind = k /\ obj = o /\ enc = Out(k, o) /\ off = 0 /\ eof = FALSE /\ emitted = <<>>

(* A Read with a buffer of s.n >= 1 bytes returns the next min(n, remaining) bytes; when nothing remains the read
   reports end of stream.  (io.Reader also allows reporting it together with the last bytes; the trace
   specification accepts both, see Trace_Wire.) *)
Read(s) ==
  /\ ~eof /\ s.n >= 1
  /\ IF off >= Len(Enc)
       THEN eof' = TRUE /\ UNCHANGED <<off, emitted>>
       ELSE LET hi == Min(off + s.n, Len(Enc))
            IN off' = hi /\ emitted' = emitted \o SubSeq(Enc, off + 1, hi) /\ eof' = FALSE
  /\ UNCHANGED <<kind, obj, enc>>

EncIsReference == enc = Out(kind, obj)
EmittedIsPrefix == off <= Len(Enc) /\ emitted = SubSeq(Enc, 1, off)
EofMeansAll == eof => emitted = Enc
Terminates == <>eof
=============================================================================
