CONSTANTS
  FreshAppends = FALSE
  MaxN = 4
  RsrcLens <- RsrcAll
  MaxCuts = 3
  Big = TRUE
  AllowFresh = FALSE
  AllowPlant = FALSE
  Ops = {"request","resume","deliver","cut","publish","plant","download"}
INIT Init
NEXT Next
ACTION_CONSTRAINT EmitUp
CHECK_DEADLOCK FALSE
