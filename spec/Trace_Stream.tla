---------------------------- MODULE Trace_Stream ----------------------------
(* Trace validation for C02: consumes log.ndjson recorded by `vh-stream` from the real connection handlers
   (hotline.Server.handleNewConnection / handleFileTransfer running over a scripted connection).  Lines:
     world  a fresh server; the session's frames (lengths of the bytes sent), the scripted segments, `ref` = the
            final observation of the same session delivered unsegmented, `base` = fork bytes on disk beforehand
     ask    the handler called Read: d = bytes delivered so far, and what it had done by then: hs (handshake
            reply written), reg (connection registered = login processed), nd (requests dispatched), wrote
            (bytes written on a transfer connection), data / rsrc (fork bytes on disk)
     disp   a request handler was invoked: type, id, at = bytes delivered at that moment
     end    the handler returned (setup # "": the session could not even be set up): d, err, obs = final observation (transactions written back as a canonical
            multiset, handshake reply, files with sizes and hashes, message board, bytes sent on a transfer)
   Every ask is the model's folded step DeliverEager(d); the model's events, projected on what is observable,
   are compared with the line.
   VIOL (C02): a request dispatched, or a reply-producing frame acted upon, before its last byte was delivered
   (early); a complete reply-producing frame still unprocessed when the server asks for more (lazy); a dispatch
   that is not the next frame of the stream (misparse); outcomes that differ between deliveries of the same
   bytes: the server abandoning a stream it consumes when unsegmented (abandoned), consuming a stream it drops
   when unsegmented (whole-abandoned), a final observation that differs from the unsegmented run's (final) or
   from the first run of the same session (differs).
   DRIFT: bookkeeping (counts out of range, frames / total mismatch), fork bytes on disk differing from the
   model at an ask (the statement does not constrain intermediate disk contents), a handler that did not
   return within the harness's time limit. *)
EXTENDS Stream, Json

VARIABLES l,       \* next line of the log
          cur,     \* the current run's world line
          ndisp,   \* dispatches seen in the current run
          bad,     \* the current run has been reported already
          first,   \* session -> outcome [done, obs] of the first run of that session in this log
          okSess,  \* sessions of which some run was consumed to the end
          stuck,   \* sessions whose unsegmented reference run was not consumed to the end
          noted    \* sessions whose unsegmented run was reported as not reproducible

Log == ndJsonDeserialize("log.ndjson")

tvars == <<vars, l, cur, ndisp, bad, first, okSess, stuck, noted>>

NoWorld == [run |-> 0, sess |-> "", conn |-> "", cls |-> "", total |-> 0, segs |-> <<>>, src |-> ""]

Init == /\ l = 1 /\ cur = NoWorld /\ ndisp = 0 /\ bad = FALSE
        /\ first = <<>> /\ okSess = {} /\ stuck = {} /\ noted = {}
        /\ InitWith(<<>>)

Report(kind, e, what, class, detail) ==
  PrintT(kind \o " " \o ToJson([prop |-> "C02", run |-> e.run, line |-> l, op |-> e.op, kind |-> what, class |-> class,
                                 sess |-> cur.sess, src |-> cur.src, segs |-> cur.segs, step |-> e, detail |-> detail]))

(* ---- projections of the model's events on what the driver can observe ---- *)
Count(ev, k) == Cardinality({j \in DOMAIN ev : ev[j].k = k})
Has(ev, k) == IF \E j \in DOMAIN ev : ev[j].k = k THEN 1 ELSE 0

RECURSIVE SumGot(_, _, _)
SumGot(ev, j, k) == IF j = 0 THEN 0 ELSE (IF ev[j].k = k THEN ev[j].got ELSE 0) + SumGot(ev, j - 1, k)

(* bytes the server writes on a transfer connection when an event is complete: folder uploads answer the
   preamble, every item header and every completed file with a 2-byte action; a download answers the preamble
   with the whole flattened file *)
WroteFor(x) ==
  CASE cur.cls = "fup" /\ x.k \in {"P", "ITEMD", "ITEMF"} -> 2
    [] cur.cls = "fup" /\ frames[x.f].last /\ x.got = frames[x.f].n -> 2
    [] cur.cls = "download" /\ x.k = "P" -> cur.ref.nout
    [] OTHER -> 0
RECURSIVE SumWrote(_, _)
SumWrote(ev, j) == IF j = 0 THEN 0 ELSE WroteFor(ev[j]) + SumWrote(ev, j - 1)

(* index of the j-th request frame *)
RECURSIVE ReqFrom(_, _)
ReqFrom(i, j) == IF i > Len(frames) THEN 0
                 ELSE IF frames[i].k = "T" THEN (IF j = 1 THEN i ELSE ReqFrom(i + 1, j - 1))
                 ELSE ReqFrom(i + 1, j)
ReqIdx(j) == ReqFrom(1, j)

(* the frame a byte offset falls strictly inside of, or 0 *)
InsideFrame(d) == IF \E i \in DOMAIN frames : Start(i) < d /\ d < End(i)
                  THEN CHOOSE i \in DOMAIN frames : Start(i) < d /\ d < End(i) ELSE 0

World ==
  LET e == Log[l] IN
  /\ e.op = "world"
  /\ frames' = WithStarts(e.frames)
  /\ delivered' = 0 /\ consumed' = 0 /\ events' = <<>> /\ asked' = TRUE /\ dead' = FALSE
  /\ cur' = [run |-> e.run, sess |-> e.sess, cls |-> e.cls, src |-> e.src, segs |-> e.segs, base |-> e.base,
             ref |-> e.ref, refd |-> e.refd, reffin |-> e.reffin, referr |-> e.referr,
             refok |-> e.refstable /\ ~e.reftimeout]      \* (the frames live in `frames`)
  /\ ndisp' = 0
  /\ UNCHANGED <<first, okSess>>
  /\ stuck' = IF ~e.reffin THEN stuck \cup {e.sess} ELSE stuck
  /\ IF TotalOf(WithStarts(e.frames)) # e.total
       THEN Report("DRIFT", e, "bookkeeping", "frames", "frame lengths do not add up to the stream length") /\ bad' = TRUE
       ELSE bad' = FALSE
  (* Two unsegmented runs of the session disagreed (or one did not return): reported once per session as drift;
     the runs are then compared with each other only (first run of the session), not with that reference. *)
  /\ IF (~e.refstable \/ e.reftimeout) /\ e.sess \notin noted
       THEN /\ PrintT("DRIFT " \o ToJson([prop |-> "C02", run |-> e.run, line |-> l, op |-> "world", kind |-> "reference",
                                          class |-> "world", sess |-> e.sess, src |-> e.src, segs |-> e.segs,
                                          step |-> [op |-> "world", refd |-> e.refd, referr |-> e.referr],
                                          detail |-> "the unsegmented run is not reproducible or did not return"]))
            /\ noted' = noted \cup {e.sess}
       ELSE noted' = noted

AskEv ==
  LET e == Log[l]
      ev == EventsOf(e.d)
      xhs == Has(ev, "H")  xreg == Has(ev, "L")  xnd == Count(ev, "T")
      xwrote == SumWrote(ev, Len(ev))
      xdata == cur.base.data + SumGot(ev, Len(ev), "DATA")
      xrsrc == cur.base.rsrc + SumGot(ev, Len(ev), "RSRC")
      early == e.hs > xhs \/ e.reg > xreg \/ e.nd > xnd \/ e.wrote > xwrote
      lazy == e.hs < xhs \/ e.reg < xreg \/ e.nd < xnd \/ e.wrote < xwrote
      disk == e.data # xdata \/ e.rsrc # xrsrc
      exp == [hs |-> xhs, reg |-> xreg, nd |-> xnd, wrote |-> xwrote, data |-> xdata, rsrc |-> xrsrc]
  IN
  /\ e.op = "ask"
  /\ UNCHANGED <<cur, ndisp, first, okSess, stuck, noted>>
  /\ IF e.d < delivered \/ e.d > Total
       THEN /\ (~bad => Report("DRIFT", e, "bookkeeping", "count", "delivered byte count out of range"))
            /\ bad' = TRUE /\ UNCHANGED vars
       ELSE /\ DeliverEagerEv(e.d, ev)
            /\ IF bad THEN bad' = bad
               ELSE IF early THEN Report("VIOL", e, "early", "ask", [expected |-> exp]) /\ bad' = TRUE
               ELSE IF lazy THEN Report("VIOL", e, "lazy", "ask", [expected |-> exp]) /\ bad' = TRUE
               ELSE IF disk THEN Report("DRIFT", e, "disk", "ask", [expected |-> exp]) /\ bad' = TRUE
               ELSE bad' = bad

DispEv ==
  LET e == Log[l]
      i == ReqIdx(ndisp + 1)
  IN
  /\ e.op = "disp"
  /\ ndisp' = ndisp + 1
  /\ UNCHANGED <<vars, cur, first, okSess, stuck, noted>>
  /\ IF bad THEN bad' = bad
     ELSE IF i = 0 \/ frames[i].ty # e.ty \/ frames[i].id # e.id
       THEN Report("VIOL", e, "misparse", "disp", [frame |-> IF i = 0 THEN [k |-> "none"] ELSE frames[i]]) /\ bad' = TRUE
     ELSE IF End(i) > e.at
       THEN Report("VIOL", e, "early", "disp", [frame |-> frames[i], frameEnd |-> End(i)]) /\ bad' = TRUE
     ELSE bad' = bad

ClassAt(d) == LET i == InsideFrame(d) IN
              IF i # 0 /\ Atomic(frames[i]) THEN "split-" \o frames[i].k
              ELSE IF i # 0 THEN "inside-" \o frames[i].k ELSE "boundary"

(* The outcome of a run is whether the stream was consumed to the end and, if so, the final observation (what a
   dropped connection had written back by then depends on the outbox pump's timing and is not compared).
   Outcomes of different deliveries of the same bytes must be equal, whichever of them is "the reference": each
   run is compared with the unsegmented run (which may itself be the one that was dropped) and with the first
   unreported run of the same session in the log.  Only when every delivery of a session is dropped alike is
   nothing judged (drift "unconsumed"). *)
EndEv ==
  LET e == Log[l]
      done == e.fin            \* consumed to the end: the handler processed everything up to the last byte
      refdone == cur.reffin
      outc == [done |-> done, obs |-> IF done THEN e.obs ELSE <<>>]
      hasFirst == cur.sess \in DOMAIN first
  IN
  /\ e.op = "end"
  /\ UNCHANGED <<cur, ndisp, stuck, noted>>
  /\ IF e.setup # ""
       THEN /\ (~bad => Report("DRIFT", e, "setup", "end", "the helper control connection of a transfer session failed"))
            /\ bad' = TRUE /\ UNCHANGED <<vars, first, okSess>>
     ELSE IF e.timeout
       THEN /\ (~bad => Report("DRIFT", e, "timeout", "end", "handler did not return in time"))
            /\ bad' = TRUE /\ UNCHANGED <<vars, first, okSess>>
     ELSE IF e.d < delivered \/ e.d > Total
       THEN /\ (~bad => Report("DRIFT", e, "bookkeeping", "count", "delivered byte count out of range"))
            /\ bad' = TRUE /\ UNCHANGED <<vars, first, okSess>>
     ELSE /\ DeliverEager(e.d)
          /\ okSess' = IF done THEN okSess \cup {cur.sess} ELSE okSess
          /\ IF bad THEN bad' = bad
             ELSE IF cur.refok /\ ~done /\ refdone
               THEN Report("VIOL", e, "abandoned", ClassAt(e.d), [at |-> e.d, total |-> Total, err |-> e.err]) /\ bad' = TRUE
             ELSE IF cur.refok /\ done /\ ~refdone
               THEN Report("VIOL", e, "whole-abandoned", ClassAt(cur.refd),
                           [wholeStoppedAt |-> cur.refd, total |-> Total, wholeErr |-> cur.referr]) /\ bad' = TRUE
             ELSE IF cur.refok /\ done /\ e.obs # cur.ref
               THEN Report("VIOL", e, "final", "end", [reference |-> cur.ref, refd |-> cur.refd]) /\ bad' = TRUE
             ELSE IF hasFirst /\ first[cur.sess] # outc
               THEN Report("VIOL", e, "differs", "first-run", [firstRun |-> first[cur.sess]]) /\ bad' = TRUE
             ELSE bad' = bad
          /\ first' = IF hasFirst \/ bad' THEN first ELSE first @@ (cur.sess :> outc)   \* first run not itself reported

TraceNext == /\ l <= Len(Log)
             /\ (World \/ AskEv \/ DispEv \/ EndEv)
             /\ l' = l + 1
             /\ TLCSet(1, l')
             /\ (l = Len(Log) =>       \* sessions the server never consumed under any delivery: nothing was compared
                   \A x \in stuck' \ okSess' :
                     PrintT("DRIFT " \o ToJson([prop |-> "C02", run |-> 0, line |-> l, op |-> "eof", kind |-> "unconsumed",
                                                class |-> "session", sess |-> x, src |-> "", segs |-> <<>>, step |-> [op |-> "eof"],
                                                detail |-> "no delivery of this session was consumed to the end"])))

Consumed == TLCGet(1) = Len(Log) + 1
=============================================================================
