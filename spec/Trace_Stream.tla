---------------------------- MODULE Trace_Stream ----------------------------
(* Trace validation for C02: consumes log.ndjson recorded by `vh-stream` from the real connection handlers
   (hotline.Server.handleNewConnection / handleFileTransfer running over a scripted connection).  Lines:
     world  a fresh server; the session's frames (lengths of the bytes sent), the scripted segments, `ref` = the
            final observation of the same session delivered unsegmented, `base` = fork bytes on disk beforehand
     ask    the handler called Read: d = bytes delivered so far, and what it had done by then: hs (handshake
            reply written), reg (connection registered = login processed), nd (requests dispatched), wrote
            (bytes written on a transfer connection), data / rsrc (fork bytes on disk)
     disp   a request handler was invoked: type, id, at = bytes delivered at that moment
     end    the handler returned (setup # "": the session could not even be set up): d, err, obs = final observation (transactions written back as a canonical
            multiset, handshake reply, files with sizes and hashes, message board, bytes sent on a transfer)
   Every ask is the model's folded step DeliverEager(d); the model's events, projected on what is observable,
   are compared with the line.
   VIOL (C02): a request dispatched, or a reply-producing frame acted upon, before its last byte was delivered
   (early); a complete reply-producing frame still unprocessed when the server asks for more (lazy); a dispatch
   that is not the next frame of the stream (misparse); the server abandoning the stream (abandoned); a final
   observation that differs from the unsegmented run's (final).
   DRIFT: bookkeeping (counts out of range, frames / total mismatch), fork bytes on disk differing from the
   model at an ask (the statement does not constrain intermediate disk contents), a handler that did not
   return within the harness's time limit. *)
EXTENDS Stream, Json

VARIABLES l,       \* next line of the log
          cur,     \* the current run's world line
          ndisp,   \* dispatches seen in the current run
          bad      \* the current run has been reported already

Log == ndJsonDeserialize("log.ndjson")

tvars == <<vars, l, cur, ndisp, bad>>

NoWorld == [run |-> 0, sess |-> "", conn |-> "", cls |-> "", total |-> 0, segs |-> <<>>, src |-> ""]

Init == /\ l = 1 /\ cur = NoWorld /\ ndisp = 0 /\ bad = FALSE
        /\ InitWith(<<>>)

Report(kind, e, what, class, detail) ==
  PrintT(kind \o " " \o ToJson([prop |-> "C02", run |-> e.run, line |-> l, op |-> e.op, kind |-> what, class |-> class,
                                 sess |-> cur.sess, src |-> cur.src, segs |-> cur.segs, step |-> e, detail |-> detail]))

(* ---- projections of the model's events on what the driver can observe ---- *)
Count(ev, k) == Cardinality({j \in DOMAIN ev : ev[j].k = k})
Has(ev, k) == IF \E j \in DOMAIN ev : ev[j].k = k THEN 1 ELSE 0

RECURSIVE SumGot(_, _, _)
SumGot(ev, j, k) == IF j = 0 THEN 0 ELSE (IF ev[j].k = k THEN ev[j].got ELSE 0) + SumGot(ev, j - 1, k)

(* bytes the server writes on a transfer connection when an event is complete: folder uploads answer the
   preamble, every item header and every completed file with a 2-byte action; a download answers the preamble
   with the whole flattened file *)
WroteFor(x) ==
  CASE cur.cls = "fup" /\ x.k \in {"P", "ITEMD", "ITEMF"} -> 2
    [] cur.cls = "fup" /\ frames[x.f].last /\ x.got = frames[x.f].n -> 2
    [] cur.cls = "download" /\ x.k = "P" -> cur.ref.nout
    [] OTHER -> 0
RECURSIVE SumWrote(_, _)
SumWrote(ev, j) == IF j = 0 THEN 0 ELSE WroteFor(ev[j]) + SumWrote(ev, j - 1)

(* index of the j-th request frame *)
ReqFrames == {i \in DOMAIN frames : frames[i].k = "T"}
ReqIdx(j) == IF \E i \in ReqFrames : Cardinality({x \in ReqFrames : x <= i}) = j
             THEN CHOOSE i \in ReqFrames : Cardinality({x \in ReqFrames : x <= i}) = j
             ELSE 0

(* the frame a byte offset falls strictly inside of, or 0 *)
InsideFrame(d) == IF \E i \in DOMAIN frames : Start(i) < d /\ d < End(i)
                  THEN CHOOSE i \in DOMAIN frames : Start(i) < d /\ d < End(i) ELSE 0

World ==
  LET e == Log[l] IN
  /\ e.op = "world"
  /\ frames' = e.frames
  /\ delivered' = 0 /\ consumed' = 0 /\ events' = <<>> /\ asked' = TRUE /\ dead' = FALSE
  /\ cur' = e /\ ndisp' = 0
  /\ IF TotalOf(e.frames) # e.total
       THEN Report("DRIFT", e, "bookkeeping", "frames", "frame lengths do not add up to the stream length") /\ bad' = TRUE
       ELSE bad' = FALSE

AskEv ==
  LET e == Log[l]
      ev == EventsOf(e.d)
      xhs == Has(ev, "H")  xreg == Has(ev, "L")  xnd == Count(ev, "T")
      xwrote == SumWrote(ev, Len(ev))
      xdata == cur.base.data + SumGot(ev, Len(ev), "DATA")
      xrsrc == cur.base.rsrc + SumGot(ev, Len(ev), "RSRC")
      early == e.hs > xhs \/ e.reg > xreg \/ e.nd > xnd \/ e.wrote > xwrote
      lazy == e.hs < xhs \/ e.reg < xreg \/ e.nd < xnd \/ e.wrote < xwrote
      disk == e.data # xdata \/ e.rsrc # xrsrc
      exp == [hs |-> xhs, reg |-> xreg, nd |-> xnd, wrote |-> xwrote, data |-> xdata, rsrc |-> xrsrc]
  IN
  /\ e.op = "ask"
  /\ UNCHANGED <<cur, ndisp>>
  /\ IF e.d < delivered \/ e.d > Total
       THEN /\ (~bad => Report("DRIFT", e, "bookkeeping", "count", "delivered byte count out of range"))
            /\ bad' = TRUE /\ UNCHANGED vars
       ELSE /\ DeliverEager(e.d)
            /\ IF bad THEN bad' = bad
               ELSE IF early THEN Report("VIOL", e, "early", "ask", [expected |-> exp]) /\ bad' = TRUE
               ELSE IF lazy THEN Report("VIOL", e, "lazy", "ask", [expected |-> exp]) /\ bad' = TRUE
               ELSE IF disk THEN Report("DRIFT", e, "disk", "ask", [expected |-> exp]) /\ bad' = TRUE
               ELSE bad' = bad

DispEv ==
  LET e == Log[l]
      i == ReqIdx(ndisp + 1)
  IN
  /\ e.op = "disp"
  /\ ndisp' = ndisp + 1
  /\ UNCHANGED <<vars, cur>>
  /\ IF bad THEN bad' = bad
     ELSE IF i = 0 \/ frames[i].ty # e.ty \/ frames[i].id # e.id
       THEN Report("VIOL", e, "misparse", "disp", [frame |-> IF i = 0 THEN [k |-> "none"] ELSE frames[i]]) /\ bad' = TRUE
     ELSE IF End(i) > e.at
       THEN Report("VIOL", e, "early", "disp", [frame |-> frames[i], frameEnd |-> End(i)]) /\ bad' = TRUE
     ELSE bad' = bad

EndEv ==
  LET e == Log[l]
      i == InsideFrame(e.d)
      class == IF i # 0 /\ Atomic(frames[i]) THEN "split-" \o frames[i].k
               ELSE IF i # 0 THEN "inside-" \o frames[i].k ELSE "boundary"
  IN
  /\ e.op = "end"
  /\ UNCHANGED <<cur, ndisp>>
  /\ IF e.setup # ""
       THEN /\ (~bad => Report("DRIFT", e, "setup", "end", "the helper control connection of a transfer session failed"))
            /\ bad' = TRUE /\ UNCHANGED vars
     ELSE IF e.timeout
       THEN /\ (~bad => Report("DRIFT", e, "timeout", "end", "handler did not return in time"))
            /\ bad' = TRUE /\ UNCHANGED vars
     ELSE IF e.d < delivered \/ e.d > Total
       THEN /\ (~bad => Report("DRIFT", e, "bookkeeping", "count", "delivered byte count out of range"))
            /\ bad' = TRUE /\ UNCHANGED vars
     ELSE /\ DeliverEager(e.d)
          /\ IF bad THEN bad' = bad
             ELSE IF e.d < Total
               THEN Report("VIOL", e, "abandoned", class, [at |-> e.d, total |-> Total, err |-> e.err]) /\ bad' = TRUE
             ELSE IF e.obs # cur.ref
               THEN Report("VIOL", e, "final", "end", [reference |-> cur.ref]) /\ bad' = TRUE
             ELSE bad' = bad

TraceNext == /\ l <= Len(Log)
             /\ (World \/ AskEv \/ DispEv \/ EndEv)
             /\ l' = l + 1
             /\ TLCSet(1, l')

Consumed == TLCGet(1) = Len(Log) + 1
=============================================================================
