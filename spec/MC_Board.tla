------------------------------ MODULE MC_Board ------------------------------
(* MC_Board.cfg (Locked = TRUE): the intended design satisfies C19 under every interleaving.
   Gen_Board.cfg (Locked = FALSE): every interleaving of the unsynchronised calls is emitted as a schedule
   (the sequence of actors making their next store call) for the harness to enact on the real code. *)
EXTENDS Board, Json

VARIABLES hist

Init == InitWith(<<101, 102, 103>>) /\ hist = <<>>

Next == \/ \E r \in Readers : (Seek(r) \/ Read(r)) /\ hist' = Append(hist, r)
        \/ \E p \in Posters : Post(p) /\ hist' = Append(hist, p)

Spec == Init /\ [][Next]_<<bvars, hist>>
View == bvars
Emit == AllDone' => PrintT("B " \o ToJson([readers |-> Readers, posters |-> Posters, order |-> hist', chunk |-> ChunkLen, n |-> 3]))
=============================================================================
