---------------------------- MODULE Trace_Outbox ----------------------------
(* Trace validation for C14.  Two kinds of runs in log.ndjson (recorded by vh-outbox):
   schedule runs  - world{lens} ; write{tx,off,n}* (the write calls in the order the real connection saw them,
                    as released by the gate following a TLC-generated schedule) ; end{frames,pending,...}
                    (the received byte stream re-framed by the independent splitter);
   stress runs    - world{mode="stress", alone} ; ledger{client, frames, malformed, pending, garbage, reqs, reps}*
                    (free-running goroutine clients against the real processOutbox).
   VIOL C14: the stream is not a concatenation of whole transactions each sent once; a reply that answers no
   request of that connection, a duplicated reply, a request type answered when alone but not under load.
   DRIFT: the model's wire bookkeeping and the splitter's verdict disagree. *)
EXTENDS Outbox, Json

VARIABLES l, alone, bad

Log == ndJsonDeserialize("log.ndjson")
tvars == <<ovars, l, alone, bad>>

SeqToSet(sq) == {sq[i] : i \in DOMAIN sq}
Report(kind, e, extra) == PrintT(kind \o " " \o ToJson([prop |-> "C14", run |-> e.run, line |-> l, op |-> e.op, detail |-> extra]))

Init == /\ l = 1 /\ alone = {} /\ bad = FALSE
        /\ InitWith(<<>>)

World ==
  LET e == Log[l] IN
  /\ e.op = "world"
  /\ IF "lens" \in DOMAIN e
       THEN /\ txs' = e.lens /\ off' = [i \in DOMAIN e.lens |-> 0] /\ alone' = {}
       ELSE /\ txs' = <<>> /\ off' = <<>> /\ alone' = SeqToSet(e.alone)
  /\ lock' = 0 /\ wire' = <<>> /\ bad' = FALSE

WriteEv ==
  LET e == Log[l] IN
  /\ e.op = "write"
  /\ IF e.tx \in Ids THEN Observed(e.tx, e.off, e.n)
     ELSE (Report("VIOL", e, "the server wrote bytes that belong to no transaction handed to it") /\ UNCHANGED ovars)
  /\ UNCHANGED <<alone, bad>>

EndEv ==
  LET e == Log[l]
      fr == e.frames
      whole == /\ e.pending = 0 /\ ~e.garbage /\ e.unknown = 0
               /\ \A k \in DOMAIN fr : fr[k].wf /\ fr[k].tx \in Ids
               /\ \A i \in Ids : Cardinality({k \in DOMAIN fr : fr[k].tx = i}) = 1
      model == Contiguous(wire) /\ AllSent
      stuck == "stuck" \in DOMAIN e /\ e.stuck
  IN
  /\ e.op = "end"
  (* a run whose senders had not all finished when the harness gave up waiting (reported as drift by StuckEv) is
     not judged: a transaction may simply not have been written yet *)
  /\ (~whole /\ ~stuck => Report("VIOL", e, [sig |-> "stream-not-whole-transactions", frames |-> fr, pending |-> e.pending, wire |-> wire]))
  /\ (whole # model /\ ~stuck => Report("DRIFT", e, [whole |-> whole, model |-> model, wire |-> wire]))
  /\ UNCHANGED <<ovars, alone, bad>>

(* a schedule run whose senders had not all finished when the harness gave up waiting (a loaded machine): the run is not
   judged; the orchestration turns it into drift only when many runs end that way *)
StuckEv == Log[l].op = "stuck" /\ Report("NOTE", Log[l], "senders did not finish") /\ UNCHANGED <<ovars, alone, bad>>

LedgerEv ==
  LET e == Log[l]
      reqIds == {e.reqs[k].id : k \in DOMAIN e.reqs}
      repIds == {e.reps[k].id : k \in DOMAIN e.reps}
      stray == {e.reps[k].id : k \in {j \in DOMAIN e.reps : e.reps[j].id \notin reqIds}}
      dup == {i \in repIds : Cardinality({k \in DOMAIN e.reps : e.reps[k].id = i}) > 1}
      unanswered == {e.reqs[k].id : k \in {j \in DOMAIN e.reqs : e.reqs[j].type \in alone /\ e.reqs[j].id \notin repIds}}
      noflag == {e.reps[k].id : k \in {j \in DOMAIN e.reps : e.reps[j].flag # 1}}
      broken == e.malformed > 0 \/ e.pending > 0 \/ e.garbage
  IN
  /\ e.op = "ledger"
  /\ (broken => Report("VIOL", e, [sig |-> "stream-not-whole-transactions", client |-> e.client, malformed |-> e.malformed, pending |-> e.pending]))
  /\ (~broken /\ stray # {} => Report("VIOL", e, [sig |-> "reply-to-no-request", client |-> e.client, ids |-> stray]))
  /\ (~broken /\ dup # {} => Report("VIOL", e, [sig |-> "duplicate-reply", client |-> e.client, ids |-> dup]))
  /\ (~broken /\ unanswered # {} => Report("VIOL", e, [sig |-> "unanswered-under-load", client |-> e.client, ids |-> unanswered]))
  /\ UNCHANGED <<ovars, alone, bad>>

Next == /\ l <= Len(Log)
        /\ (World \/ WriteEv \/ EndEv \/ StuckEv \/ LedgerEv)
        /\ l' = l + 1
        /\ TLCSet(1, l')

Consumed == TLCGet(1) = Len(Log) + 1
=============================================================================
