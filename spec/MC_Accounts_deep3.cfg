CONSTANTS
  NL = 2
  NN = 1
  MaxSubs = 3
  MaxSteps = 5
  GenDepth = 99
  Ops = {"newuser","setuser","deluser","getuser","list","restart","login","update1","update2","update3"}
  SubKinds = {"put","ren","del"}
  Thin = TRUE
  XPw = FALSE
  Long = FALSE
  Rand = FALSE
INIT Init
NEXT Next
VIEW View
CONSTRAINT Bound
INVARIANTS TypeOK ViewsAgree HashOnly RestartIsIdentity NoOverlongAccount
PROPERTIES NewCanLogin DeletedCannotLogin PasswordSemantics RenamedAwayCannotLogin ReadOnlySteps RoundOfOne OverlongLeavesNoTrace
CHECK_DEADLOCK FALSE
