CONSTANTS
  Mode = "readfull"
  MaxT = 5
  MaxData = 9
INIT Init
NEXT Next
INVARIANTS SegmentationIndependent FoldIsSound
PROPERTIES EventsGrowInOrder
CHECK_DEADLOCK FALSE
