----------------------------- MODULE Trace_Wire -----------------------------
(* Trace validation for C01: consumes log.ndjson recorded by `vh-wire` from the real encoders and decoders.
   Lines (one JSON object each):
     {"op":"world", ...}                                    start of a recording (no model effect)
     {"op":"obj", run, kind, obj, reads [, fed]}            a new object: the model computes its reference encoding
                                                            ONCE (variable enc) and resets the drain machine
     {"op":"read", run, i, n, got, eof [, err]}             one real Read call with an n-byte buffer: the bytes it
                                                            returned and whether it reported io.EOF (err: any
                                                            other error or a recovered panic)
     {"op":"end", run, calls [, dec] [, dec2] [, terminated:false [, via, precalls, prebytes]] [, hung, reason]}
                                                            end of the object; dec/dec2 = what the real decoder(s)
                                                            produced from the bytes: {"st":"ok","v":canonical
                                                            re-description} | {"st":"error"} | {"st":"panic"}
   Each read line is applied to the drain machine with the same Read(step) the model checker uses.  Judged under
   the property statement (VIOL, prop C01):
     chunk-differs  the bytes returned are not the next bytes of the reference encoding (includes emitting more
                    than the encoding, i.e. an encoder that starts over / never ends)
     early-eof      end of stream reported before all bytes were emitted
     stall          a Read into a non-empty buffer returned no bytes and no end of stream
     read-error     Read failed or panicked
     emission-does-not-terminate   the call bound of the drain was used up without end of stream after the encoder
                    had left the reference encoding, or a component encoder that the object's own Read drains in
                    an unbounded loop (Field inside Transaction/Account, NewsArtList inside the article list) did
                    not report end of stream within its bound (the harness then does not call the composite)
     decode-*       the real decoder failed / panicked / produced something else than the original object
   Accepted without report: end of stream reported together with the last bytes (io.Reader allows both).
   DRIFT (model and code disagree on something the statement does not constrain, or the recording is not what
   the script asked for): a correct but short read, an encoder not drained within the harness' call bound,
   a buffer size that differs from the script, fed bytes that are not the specification's encoding, a missing
   decoder observation.  Acceptance: every line consumed. *)
EXTENDS Wire, Json

VARIABLES l,       \* next line of the log
          reads,   \* the script of the current object
          bad,     \* the current object has already been reported: its remaining lines are only consumed
          short,   \* a read of the current object returned correct bytes but fewer than the buffer takes
          fedok,   \* the bytes fed to the decoder were the specification's
          ncalls   \* read lines of the current object so far (integrity of the recording)

tvars == <<dvars, l, reads, bad, short, fedok, ncalls>>

Log == ndJsonDeserialize("log.ndjson")

Has(e, k) == k \in DOMAIN e
Head16(s) == SubSeq(s, 1, Min(Len(s), 16))

Report(tag, e, cls, detail) ==
  PrintT(tag \o " " \o ToJson([prop |-> "C01", run |-> e.run, line |-> l, kind |-> kind, op |-> e.op, cls |-> cls, detail |-> detail]))

Init == /\ l = 1 /\ reads = <<>> /\ bad = TRUE /\ short = FALSE /\ fedok = TRUE /\ ncalls = 0
        /\ kind = "none" /\ obj = <<>> /\ enc = <<>> /\ off = 0 /\ eof = FALSE /\ emitted = <<>>

World == /\ Log[l].op = "world"
         /\ UNCHANGED <<dvars, reads, bad, short, fedok, ncalls>>

NewObj ==
  LET e == Log[l] IN
  /\ e.op = "obj"
  /\ short' = FALSE /\ ncalls' = 0
  /\ IF e.kind \notin AllKinds
       THEN /\ Report("DRIFT", e, "unknown-kind", e.kind)
            /\ bad' = TRUE /\ fedok' = TRUE /\ reads' = <<>> /\ UNCHANGED dvars
       ELSE /\ kind' = e.kind /\ obj' = e.obj /\ enc' = Out(e.kind, e.obj)      \* = DrainInit(e.kind, e.obj), written out: e must not be primed
            /\ off' = 0 /\ eof' = FALSE /\ emitted' = <<>>
            /\ reads' = e.reads
            /\ bad' = FALSE
            /\ LET okf == (e.kind \in FedKinds) => (Has(e, "fed") /\ e.fed = In(e.kind, e.obj))
               IN /\ (~okf => PrintT("DRIFT " \o ToJson([prop |-> "C01", run |-> e.run, line |-> l, kind |-> e.kind, op |-> "obj",
                                                          cls |-> "fed-not-spec-encoding", detail |-> [want |-> Head16(In(e.kind, e.obj))]])))
                  /\ fedok' = okf

ReadEv ==
  LET e == Log[l]
      k == Len(e.got)
      L == Len(enc)
      s == [n |-> e.n]
      pchunk == IF off >= L THEN <<>> ELSE SubSeq(enc, off + 1, Min(off + e.n, L))    \* the model's prediction
      peof == off >= L
      scripted == IF Len(reads) = 0 THEN e.n ELSE reads[Min(e.i, Len(reads))]
      slice == off + k <= L /\ e.got = SubSeq(enc, off + 1, off + k)                   \* the next k bytes, whatever k
      detail == [call |-> e.i, n |-> e.n, off |-> off, L |-> L, gotlen |-> k, goteof |-> e.eof,
                 want |-> Head16(pchunk), got |-> Head16(e.got)]
  IN
  /\ e.op = "read"
  /\ ncalls' = ncalls + 1
  /\ (e.i # ncalls + 1 => Report("DRIFT", e, "call-index-out-of-sequence", [i |-> e.i, expected |-> ncalls + 1]))
  /\ IF bad THEN UNCHANGED <<dvars, reads, bad, short, fedok>>
     ELSE
     /\ UNCHANGED <<reads, fedok>>
     /\ short' = (short \/ (slice /\ ~e.eof /\ k > 0 /\ e.got # pchunk /\ ~eof /\ ~Has(e, "err")))
     /\ (e.n # scripted => Report("DRIFT", e, "buffer-size-not-scripted", detail))
     /\ IF eof THEN         \* the harness stops at end of stream: nothing may follow
             Report("DRIFT", e, "read-after-eof", detail) /\ bad' = TRUE /\ UNCHANGED dvars
        ELSE IF Has(e, "err") THEN
             Report("VIOL", e, "read-error", detail @@ [err |-> e.err]) /\ bad' = TRUE /\ UNCHANGED dvars
        ELSE IF e.got = pchunk /\ e.eof = peof THEN
             Read(s) /\ bad' = FALSE                                        \* exactly the model's step
        ELSE IF ~slice THEN
             Report("VIOL", e, "chunk-differs", detail) /\ bad' = TRUE /\ UNCHANGED dvars
        ELSE IF e.eof /\ off + k < L THEN
             Report("VIOL", e, "early-eof", detail) /\ bad' = TRUE /\ UNCHANGED dvars
        ELSE IF e.eof THEN                                                  \* end of stream together with the last bytes
             /\ off' = L /\ emitted' = emitted \o e.got /\ eof' = TRUE /\ UNCHANGED <<kind, obj, enc>>
             /\ bad' = FALSE
        ELSE IF k = 0 THEN
             Report("VIOL", e, "stall", detail) /\ bad' = TRUE /\ UNCHANGED dvars
        ELSE /\ off' = off + k /\ emitted' = emitted \o e.got /\ UNCHANGED <<kind, obj, enc, eof>>     \* correct bytes, fewer than the buffer takes: reported at the end line
             /\ bad' = FALSE

DecCheck(e, key, want, tag) ==
  IF ~Has(e, key) THEN Report("DRIFT", e, "no-" \o key, "decoder observation missing")
  ELSE LET d == e[key] IN
       IF d = want THEN TRUE
       ELSE Report("VIOL", e, IF d.st = "panic" THEN "decode-panic" ELSE IF d.st = "error" /\ want.st = "ok" THEN "decode-error" ELSE "decode-differs",
                   [which |-> tag, want |-> IF want.st = "ok" THEN "ok" ELSE "error", got |-> d.st, L |-> Len(enc),
                    msg |-> IF Has(e, key \o "msg") THEN e[key \o "msg"] ELSE ""])

EndEv ==
  LET e == Log[l]
      via == Has(e, "via")                                  \* a component encoder, drained as the composite drains it
      nonterm == Has(e, "terminated") /\ ~e.terminated      \* the bounded drain ended without end of stream
  IN
  /\ e.op = "end"
  /\ UNCHANGED <<dvars, reads, short, fedok, ncalls>>
  /\ bad' = TRUE
  /\ ((e.calls # ncalls \/ e.nreads # Len(reads)) =>            \* the end line repeats what the obj / read lines said
        Report("DRIFT", e, "recording-inconsistent", [calls |-> e.calls, readlines |-> ncalls, nreads |-> e.nreads, scripted |-> Len(reads)]))
  /\ IF Has(e, "hung") THEN Report("DRIFT", e, "real-call-did-not-return", e.reason)
     ELSE IF nonterm /\ (bad \/ via) THEN
       (* Terminates on the recorded run: the encoder (or a component the composite drains in an unbounded loop)
          was still emitting when the call bound was used up, after it had already left the reference encoding
          (reported above) or without ever reporting end of stream to a 512-byte reader *)
       Report("VIOL", e, "emission-does-not-terminate",
              [via |-> IF via THEN e.via ELSE "drain", calls |-> IF via THEN e.precalls ELSE e.calls,
               bytes |-> IF via THEN e.prebytes ELSE off, L |-> Len(enc)])
     ELSE IF bad THEN TRUE ELSE
     /\ (short => Report("DRIFT", e, "short-read", [off |-> off, L |-> Len(enc), calls |-> e.calls]))
     /\ (kind \in EmitKinds /\ ~eof =>
           Report("DRIFT", e, "not-drained-within-bound", [off |-> off, L |-> Len(enc), calls |-> e.calls]))
     /\ (kind \in EmitKinds /\ eof /\ emitted # enc =>            \* EofMeansAll on the recorded run (cannot fail after the per-call checks)
           Report("VIOL", e, "eof-before-all", [off |-> off, L |-> Len(enc)]))
     /\ ((kind \in DecKinds /\ fedok /\ (kind \in EmitKinds \ FedKinds => eof)) => DecCheck(e, "dec", Canon(kind, obj), "dec"))
     /\ ((kind \in Dec2Kinds /\ fedok /\ eof) => DecCheck(e, "dec2", Canon2(kind, obj), "dec2"))

Next == /\ l <= Len(Log)
        /\ (World \/ NewObj \/ ReadEv \/ EndEv)
        /\ l' = l + 1
        /\ TLCSet(1, l')

Consumed == TLCGet(1) = Len(Log) + 1
=============================================================================
