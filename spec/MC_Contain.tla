----------------------------- MODULE MC_Contain -----------------------------
EXTENDS Contain, Json
Spec == Init /\ [][Next]_cvars
(* plan emission (evaluated once: ASSUME) *)
EmitPlans == \A p \in Plans : PrintT("B " \o ToJson(p))
=============================================================================
