CONSTANTS
  Mode = "readfull"
  MaxCuts = 0
  TwoCut = {}
  Sim = TRUE
INIT Init
NEXT GenNext
ACTION_CONSTRAINT Emit
CHECK_DEADLOCK FALSE
