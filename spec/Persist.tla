------------------------------- MODULE Persist -------------------------------
(***************************************************************************)
(* C20 - a crash never leaves persistent state torn.                       *)
(*                                                                         *)
(* The four persistent stores of a Mobius config directory                 *)
(*   board  MessageBoard.txt    (internal/mobius/news.go  FlatNews)         *)
(*   news   ThreadedNews.yaml   (threaded_news.go ThreadedNewsYAML)         *)
(*   accts  Users/<login>.yaml  (account_manager.go YAMLAccountManager)     *)
(*   bans   Banlist.yaml        (ban.go BanFile)                            *)
(* at the level of the system calls an update executes, with a process     *)
(* kill (Crash) possible between any two calls and inside a write, and the  *)
(* restart (Recover) = what each real constructor does with an absent /    *)
(* empty / truncated / whole file.                                          *)
(*                                                                         *)
(* Two layers share one step-record interface:                             *)
(*  - logical: the value a store holds (board = sequence of posts, bans =  *)
(*    set of <<ip, expiry>>, accts = set of <<login, record>>, news =      *)
(*    [cats, arts]) and Effect(u, v), the value after update u;             *)
(*  - physical: dir (name -> inode), ino (inode -> sequence of written      *)
(*    chunks, the last possibly cut), fds; one action per system call.      *)
(* Update protocols (Proto) are sequences of system-call steps per update   *)
(* kind; Variant selects the intended protocols (write temp, close, rename, *)
(* also for creation) or the unsafe ones used as negative controls.         *)
(*                                                                         *)
(* The same operators are used by MC_Persist (steps come from Proto, TLC    *)
(* interleaves Crash everywhere) and by Trace_Persist (steps are the        *)
(* system calls logged by strace from the real stores).                     *)
(*                                                                         *)
(* Process kill only: what was written is in the page cache and survives;   *)
(* power failure (fsync ordering) is outside the property.                  *)
(***************************************************************************)
EXTENDS Integers, Sequences, FiniteSets, TLC

CONSTANTS Variant      \* "intended" | controls: "inplace" | "pinned" | "ackearly" | "linked" | "excltemp"

VARIABLES dir,       \* file record -> inode: the names present in the config directory
          ino,       \* inode -> sequence of chunks [v, k]: what has been written to it (k = "whole" | "part")
          fds,       \* open descriptors: fd -> [ino, app, wr]
          val,       \* store -> the value the running server holds
          acked,     \* store -> the last value acknowledged to a client
          inflight,  \* None or the update being recorded [u, st, old, new, pc, proto, acked]
          phase,     \* "run" | "cut" (killed inside a write: only Crash follows) | "down" | "up"
          loaded     \* store -> [res, val]: what the constructors produced at the last Recover

vars == <<dir, ino, fds, val, acked, inflight, phase, loaded>>

Stores == {"board", "news", "accts", "bans"}
None == [kind |-> "none"]

(* ---- files ----------------------------------------------------------------------------------------------- *)
(* role "final": a path a constructor reads; "tmp": a sibling no constructor reads *)
F(st, key) == [st |-> st, key |-> key, role |-> "final"]
T(st, key) == [st |-> st, key |-> key, role |-> "tmp"]

Restrict(f, S) == [x \in S |-> f[x]]
Referenced(d, f) == {d[p] : p \in DOMAIN d} \cup {f[x].ino : x \in DOMAIN f}
Gc(d, f, i) == Restrict(i, DOMAIN i \cap Referenced(d, f))      \* unreferenced inodes disappear
NewIno == CHOOSE n \in 1..(Cardinality(DOMAIN ino) + 1) : n \notin DOMAIN ino

Whole(v) == << [v |-> v, k |-> "whole"] >>

(* the classes of on-disk states a constructor distinguishes *)
FState(p) == IF p \notin DOMAIN dir THEN "absent"
             ELSE LET c == ino[dir[p]] IN
                  IF Len(c) = 0 THEN "empty"
                  ELSE IF Len(c) = 1 /\ c[1].k = "whole" THEN "whole" ELSE "torn"
FVal(p) == ino[dir[p]][1].v

(* ---- system calls ---------------------------------------------------------------------------------------- *)
(* a step record: [call, mode, file, to, fd, v, k, ok, app, creat, len] *)
Step(call, mode, file, to, v) ==
  [call |-> call, mode |-> mode, file |-> file, to |-> to, fd |-> 1, v |-> v, k |-> "whole", ok |-> TRUE,
   app |-> FALSE, creat |-> TRUE, len |-> 0]

(* is the (successful) call possible in the current directory state?  Failed calls change nothing. *)
SysGuard(s) ==
  \/ ~s.ok
  \/ s.call \in {"fsync", "close"}
  \/ /\ s.call = "open" /\ s.fd \notin DOMAIN fds
     /\ (s.mode = "excl" => s.file \notin DOMAIN dir)
     /\ (s.file \notin DOMAIN dir => (s.creat \/ s.mode = "read"))
  \/ s.call \in {"write", "ftruncate"} /\ s.fd \in DOMAIN fds /\ fds[s.fd].wr
  \/ s.call = "rename" /\ s.file \in DOMAIN dir
  \/ s.call = "link" /\ s.file \in DOMAIN dir /\ s.to \notin DOMAIN dir
  \/ s.call = "unlink" /\ s.file \in DOMAIN dir

SysApply(s) ==
  IF ~s.ok \/ s.call = "fsync" THEN UNCHANGED <<dir, ino, fds, phase>>
  ELSE CASE s.call = "open" ->
         IF s.mode = "read"
           THEN /\ fds' = IF s.file \in DOMAIN dir
                            THEN (s.fd :> [ino |-> dir[s.file], app |-> FALSE, wr |-> FALSE]) @@ fds
                            ELSE fds                                   \* a directory
                /\ UNCHANGED <<dir, ino, phase>>
           ELSE LET exists == s.file \in DOMAIN dir
                    n == IF exists THEN dir[s.file] ELSE NewIno
                IN /\ dir' = IF exists THEN dir ELSE (s.file :> n) @@ dir
                   /\ ino' = IF ~exists \/ s.mode = "trunc" THEN (n :> << >>) @@ ino ELSE ino
                   /\ fds' = (s.fd :> [ino |-> n, app |-> s.app, wr |-> TRUE]) @@ fds
                   /\ UNCHANGED phase
       [] s.call = "write" ->
         (* offsets are not modelled: every protocol writes sequentially from the position it opened at *)
         /\ ino' = [ino EXCEPT ![fds[s.fd].ino] = IF s.k = "empty" THEN @ ELSE Append(@, [v |-> s.v, k |-> s.k])]
         /\ phase' = IF s.k = "whole" THEN phase ELSE "cut"
         /\ UNCHANGED <<dir, fds>>
       [] s.call = "ftruncate" ->
         /\ ino' = [ino EXCEPT ![fds[s.fd].ino] = IF s.len = 0 THEN << >> ELSE Append(@, [v |-> 0, k |-> "part"])]
         /\ UNCHANGED <<dir, fds, phase>>
       [] s.call = "rename" ->
         /\ dir' = [p \in (DOMAIN dir \ {s.file}) \cup {s.to} |-> IF p = s.to THEN dir[s.file] ELSE dir[p]]
         /\ ino' = Gc(dir', fds, ino)
         /\ UNCHANGED <<fds, phase>>
       [] s.call = "link" ->
         /\ dir' = (s.to :> dir[s.file]) @@ dir
         /\ UNCHANGED <<ino, fds, phase>>
       [] s.call = "unlink" ->
         /\ dir' = Restrict(dir, DOMAIN dir \ {s.file})
         /\ ino' = Gc(dir', fds, ino)
         /\ UNCHANGED <<fds, phase>>
       [] s.call = "close" ->
         /\ fds' = Restrict(fds, DOMAIN fds \ {s.fd})
         /\ ino' = Gc(dir, fds', ino)
         /\ UNCHANGED <<dir, phase>>

(* ---- logical values --------------------------------------------------------------------------------------- *)
Keys(S) == {e[1] : e \in S}
Drop(S, k) == {e \in S : e[1] # k}
Max(S) == CHOOSE x \in S : \A y \in S : y <= x
IsPrefix(p, q) == Len(p) <= Len(q) /\ SubSeq(q, 1, Len(p)) = p

StoreOf(u) == CASE u.kind = "board_post" -> "board"
                [] u.kind = "ban_add" -> "bans"
                [] u.kind \in {"acct_create", "acct_update", "acct_rename", "acct_delete"} -> "accts"
                [] u.kind \in {"news_cat", "news_post", "news_delart", "news_delitem"} -> "news"

ArtIds(v, path) == {a[2] : a \in {x \in v.arts : x[1] = path}}

(* when the request handlers issue the update (the stores themselves do not check all of this) *)
Pre(u, v) ==
  CASE u.kind \in {"board_post", "ban_add"} -> TRUE
    [] u.kind = "acct_create" -> u.login \notin Keys(v)
    [] u.kind = "acct_update" -> u.login \in Keys(v)
    [] u.kind = "acct_rename" -> u.login \in Keys(v) /\ u.to \notin Keys(v)
    [] u.kind = "acct_delete" -> u.login \in Keys(v) /\ Cardinality(Keys(v)) > 1   \* never the last account
    [] u.kind = "news_cat"    -> /\ Append(u.path, u.name) \notin Keys(v.cats)
                                 /\ (u.path = << >> \/ <<u.path, 2>> \in v.cats)
    [] u.kind = "news_post"   -> <<u.path, 3>> \in v.cats /\ (u.parent = 0 \/ u.parent \in ArtIds(v, u.path))
    [] u.kind = "news_delart" -> u.id \in ArtIds(v, u.path)
    [] u.kind = "news_delitem" -> u.path \in Keys(v.cats)

(* the complete new value *)
Effect(u, v) ==
  CASE u.kind = "board_post"  -> <<u.p>> \o v                                    \* FlatNews.Write prepends
    [] u.kind = "ban_add"     -> Drop(v, u.ip) \cup {<<u.ip, u.t>>}
    [] u.kind = "acct_create" -> v \cup {<<u.login, u.r>>}
    [] u.kind = "acct_update" -> Drop(v, u.login) \cup {<<u.login, u.r>>}
    [] u.kind = "acct_rename" -> Drop(v, u.login) \cup {<<u.to, u.r>>}
    [] u.kind = "acct_delete" -> Drop(v, u.login)
    [] u.kind = "news_cat"    -> [v EXCEPT !.cats = @ \cup {<<Append(u.path, u.name), u.type>>}]
    [] u.kind = "news_post"   -> LET ids == ArtIds(v, u.path)
                                     id == IF ids = {} THEN 1 ELSE Max(ids) + 1
                                 IN [v EXCEPT !.arts = @ \cup {<<u.path, id, u.r>>}]
    [] u.kind = "news_delart" -> [v EXCEPT !.arts = {a \in @ : ~(a[1] = u.path /\ a[2] = u.id)}]
    [] u.kind = "news_delitem" -> [cats |-> {c \in v.cats : ~IsPrefix(u.path, c[1])},
                                   arts |-> {a \in v.arts : ~IsPrefix(u.path, a[1])}]

Zero(st) == CASE st = "board" -> << >> [] st = "news" -> [cats |-> {}, arts |-> {}] [] OTHER -> {}

(* ---- what the constructors do ------------------------------------------------------------------------------ *)
(* NewFlatNews: os.ReadFile - an absent file is an error, any bytes load (a truncated text is served as the board)
   NewThreadedNewsYAML: os.Open + yaml Decode - absent and empty (EOF) are errors
   NewBanFile: a missing file is an empty list; empty (EOF) is an error
   NewYAMLAccountManager: every Users/*.yaml must unmarshal; no file at all is an error; an EMPTY file
     unmarshals into an account with an empty login (which the constructor then even re-saves as Users/.yaml)
   A truncated YAML document either fails to parse or parses into something else: "torn" either way. *)
Res(r, v) == [res |-> r, val |-> v]
Load(st) ==
  IF st = "accts"
    THEN LET P == {p \in DOMAIN dir : p.st = "accts" /\ p.role = "final"} IN
         IF P = {} THEN Res("fail", Zero(st))
         ELSE IF \E p \in P : FState(p) \in {"torn", "empty"} THEN Res("torn", Zero(st))
         ELSE Res("ok", {FVal(p) : p \in P})             \* keyed by the Login inside the file, not by the file name
    ELSE LET p == F(st, "-")
             s == FState(p)
         IN CASE s = "whole"  -> Res("ok", FVal(p))
              [] s = "torn"   -> Res("torn", Zero(st))
              [] s = "empty"  -> IF st = "board" THEN Res("ok", << >>) ELSE Res("fail", Zero(st))
              [] s = "absent" -> IF st = "bans" THEN Res("ok", {}) ELSE Res("fail", Zero(st))

(* ---- update protocols ---------------------------------------------------------------------------------------- *)
(* the temp file: a fixed name next to the final file opened with O_TRUNC (os.WriteFile(path+".tmp")), or a fresh
   name opened with O_EXCL (os.CreateTemp) - the same protocol, a fresh name can only collide with less *)
AtomicReplace(f, t, v) ==
  << Step("open", IF Variant = "excltemp" THEN "excl" ELSE "trunc", t, t, 0), Step("write", "", t, t, v), Step("close", "", t, t, 0), Step("rename", "", t, f, 0) >>
CreateLinked(f, t, v) ==          \* link(2) fails if the name exists and never exposes a partial file
  << Step("open", "trunc", t, t, 0), Step("write", "", t, t, v), Step("close", "", t, t, 0),
     Step("link", "", t, f, 0), Step("unlink", "", t, t, 0) >>
InPlace(f, v) ==
  << Step("open", "trunc", f, f, 0), Step("write", "", f, f, v), Step("close", "", f, f, 0) >>
CreateExcl(f, v) ==
  << Step("open", "excl", f, f, 0), Step("write", "", f, f, v), Step("close", "", f, f, 0) >>
AckStep == Step("ack", "", F("-", "-"), F("-", "-"), 0)

(* "excltemp" control: the FIXED temp name is created with O_EXCL - a temp file left by a kill makes every later save
   of that store fail (see Fail) *)
Replace(f, t, v) == IF Variant \in {"intended", "ackearly", "linked", "excltemp"} THEN AtomicReplace(f, t, v) ELSE InPlace(f, v)
(* Creation: the account manager's mutex makes "check that the login is free, then temp + rename" exclusive, and no
   hard link ever exists.  The "linked" control (temp + link(2) + unlink temp) is NOT crash-safe together with
   AtomicReplace: a crash between link and unlink leaves the temp name hard-linked to the account file, and the next
   update of that login truncates the account file through its O_TRUNC open of the temp name. *)
Create(f, t, v)  == CASE Variant \in {"intended", "ackearly", "excltemp"} -> AtomicReplace(f, t, v)
                      [] Variant = "linked" -> CreateLinked(f, t, v)
                      [] OTHER -> CreateExcl(f, v)

Body(u, new) ==
  LET st == StoreOf(u) IN
  CASE st = "board" -> IF Variant = "pinned"
                         THEN AtomicReplace(F(st, "-"), T(st, "-"), new) \o InPlace(F(st, "-"), new)   \* news.go:65-83
                         ELSE Replace(F(st, "-"), T(st, "-"), new)
    [] st = "news"  -> IF Variant = "pinned" THEN AtomicReplace(F(st, "-"), T(st, "-"), new)          \* writeFile
                       ELSE Replace(F(st, "-"), T(st, "-"), new)
    [] st = "bans"  -> Replace(F(st, "-"), T(st, "-"), new)
    [] u.kind = "acct_create" -> Create(F(st, u.login), T(st, u.login), <<u.login, u.r>>)
    [] u.kind = "acct_update" -> Replace(F(st, u.login), T(st, u.login), <<u.login, u.r>>)
    [] u.kind = "acct_rename" -> << Step("rename", "", F(st, u.login), F(st, u.to), 0) >>
                                 \o Replace(F(st, u.to), T(st, u.to), <<u.to, u.r>>)
    [] u.kind = "acct_delete" -> << Step("unlink", "", F(st, u.login), F(st, u.login), 0) >>

TouchesFinal(s) == s.call \in {"rename", "link", "unlink"} /\ (s.file.role = "final" \/ s.to.role = "final")
FirstCommit(b) == CHOOSE i \in 1..Len(b) : TouchesFinal(b[i]) /\ \A j \in 1..(i - 1) : ~TouchesFinal(b[j])

(* the acknowledgement (the reply to the client) comes after the last call - or, in the "ackearly" control,
   before the call that makes the change visible *)
Proto(u, new) ==
  LET b == Body(u, new) IN
  IF Variant = "ackearly" /\ \E i \in 1..Len(b) : TouchesFinal(b[i])
    THEN LET i == FirstCommit(b) IN SubSeq(b, 1, i - 1) \o <<AckStep>> \o SubSeq(b, i, Len(b))
    ELSE Append(b, AckStep)

(* ---- actions --------------------------------------------------------------------------------------------------- *)
Start(u) ==
  LET st == StoreOf(u) IN
  /\ phase = "run" /\ inflight.kind = "none" /\ Pre(u, val[st])
  /\ inflight' = [kind |-> "upd", u |-> u, st |-> st, old |-> val[st], new |-> Effect(u, val[st]), pc |-> 1,
                  proto |-> Proto(u, Effect(u, val[st])), acked |-> FALSE]
  /\ UNCHANGED <<dir, ino, fds, val, acked, phase, loaded>>

(* the next call of the protocol; k = how much of a write reaches the file before a kill *)
StepSys(k) ==
  /\ phase = "run" /\ inflight.kind = "upd" /\ inflight.pc <= Len(inflight.proto)
  /\ LET s == inflight.proto[inflight.pc] IN
     IF s.call = "ack"
       THEN /\ k = "whole"
            /\ acked' = [acked EXCEPT ![inflight.st] = inflight.new]
            /\ inflight' = [inflight EXCEPT !.pc = @ + 1, !.acked = TRUE]
            /\ UNCHANGED <<dir, ino, fds, val, phase, loaded>>
       ELSE /\ (k # "whole" => s.call = "write")
            /\ SysGuard(s)
            /\ SysApply([s EXCEPT !.k = k])
            /\ inflight' = [inflight EXCEPT !.pc = @ + 1]
            /\ UNCHANGED <<val, acked, loaded>>

Finish ==
  /\ phase = "run" /\ inflight.kind = "upd" /\ inflight.pc > Len(inflight.proto)
  /\ val' = [val EXCEPT ![inflight.st] = inflight.new]
  /\ inflight' = None
  /\ UNCHANGED <<dir, ino, fds, acked, phase, loaded>>

(* The next call of the protocol cannot succeed in the current directory (e.g. O_EXCL on a name a dead process left
   behind): the store's method returns an error and the update is over.  Several request handlers only LOG that error
   and acknowledge the request all the same (HandleDisconnectUser for a ban, HandleSetUser, HandleNewNewsCat /
   HandleNewNewsFldr, HandlePostNewsArt, HandleDelNewsArt); the store has then already changed its in-memory value. *)
AcksOnError(kind) == kind \in {"ban_add", "acct_update", "news_cat", "news_post", "news_delart"}
Fail ==
  /\ phase = "run" /\ inflight.kind = "upd" /\ inflight.pc <= Len(inflight.proto)
  /\ inflight.proto[inflight.pc].call # "ack"
  /\ ~SysGuard(inflight.proto[inflight.pc])
  /\ IF AcksOnError(inflight.u.kind)
       THEN /\ acked' = [acked EXCEPT ![inflight.st] = inflight.new]
            /\ val' = [val EXCEPT ![inflight.st] = inflight.new]
       ELSE UNCHANGED <<acked, val>>
  /\ inflight' = None
  /\ fds' = << >>
  /\ ino' = Gc(dir, << >>, ino)
  /\ UNCHANGED <<dir, phase, loaded>>

Crash ==
  /\ phase \in {"run", "cut"}
  /\ phase' = "down"
  /\ fds' = << >>
  /\ ino' = Gc(dir, << >>, ino)
  /\ UNCHANGED <<dir, val, acked, inflight, loaded>>       \* val, inflight: remembered to judge the recovery

Recover ==
  /\ phase = "down"
  /\ loaded' = [st \in Stores |-> Load(st)]
  /\ phase' = "up"
  /\ UNCHANGED <<dir, ino, fds, val, acked, inflight>>

Resume ==                         \* the restarted server serves what it loaded
  /\ phase = "up"
  /\ val' = [st \in Stores |-> loaded[st].val]
  /\ acked' = val'
  /\ inflight' = None
  /\ phase' = "run"
  /\ UNCHANGED <<dir, ino, fds, loaded>>

(* ---- properties -------------------------------------------------------------------------------------------------- *)
(* judged on any recovery result r (store -> [res, val]): the model's own Load in MC_Persist, the real
   constructors' result in Trace_Persist *)
Fails(r) == {st \in Stores : r[st].res = "fail"}
TornIn(r) == {st \in Stores : /\ r[st].res # "fail"
                              /\ IF inflight.kind = "upd" /\ inflight.st = st
                                   THEN r[st].res = "torn" \/ (r[st].val # inflight.old /\ r[st].val # inflight.new)
                                   ELSE r[st].res = "torn" \/ r[st].val # val[st]}
SafeRecovery(r) == Fails(r) = {} /\ TornIn(r) = {}

CrashSafe == phase = "up" => SafeRecovery(loaded)

AckedKept(r) == \A st \in Stores :
   /\ r[st].res = "ok"
   /\ \/ r[st].val = acked[st]
      \/ inflight.kind = "upd" /\ inflight.st = st /\ r[st].val = inflight.new
AckedNeverLost == phase = "up" => AckedKept(loaded)
=============================================================================
