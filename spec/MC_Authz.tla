----------------------------- MODULE MC_Authz -----------------------------
(* Bounded instance of Authz: every harness case is one step from the fresh world (plus, in the model check, a
   second account creation by the account just created: amplification must not be possible along a chain).
   The same module emits the cases as scripts (ACTION_CONSTRAINT Emit), one JSON object per case:
     Mode = "c05": every (transaction type, context) row of Authz!Table x the access sets
                   {}, ALL, every reading Req of the row, ALL \ Req, ALL \ {p}, Req \ {p}, {p} for p in Req,
                   and {p}, ALL \ {p} for one seed-chosen p (quick) or all 64 p (thorough)
     Mode = "c06": creator/requested pairs (ALL\{i},{i}), ({i},{i}), ({i,14},{i}), ({i,14},{j}), ({i,14},{i,j})
                   for all i and the sampled (quick) or all (thorough) j, on both creation requests;
                   disconnect requests x ban option x target access sets
     Mode = "c16": {}, ALL, Defined, all 64 singletons and their complements, Defined \ {i}, pairs of defined
                   privileges (sampled / all), pseudo-random subsets
     Mode = "all": everything at the quick size, both readings of sequence requests, creation chains. *)
EXTENDS Authz, Json

CONSTANTS Mode, Tier, Seed

VARIABLES hist
mcvars == <<vars, hist>>

Thorough == Tier = "thorough"
On(m) == Mode = "all" \/ Mode = m

(* a pseudo-random subset of the 64 privilege numbers (deterministic in n and Seed) *)
Rand(n) == {i \in Priv : (((n + 3) * (i + 7) * 2654 + n * 97 + i * 1009 + Seed * 31) % 4093) % 2 = 1}   \* (< 2^31 for n <= 10000)

(* ---- C05 cases ------------------------------------------------------------ *)
Pick(r) == IF (r.t + Seed) % 2 = 0 THEN {(Seed * 7 + r.t + 11) % 64} ELSE {}   \* (quick: every other transaction type)
Readings(r) == {r.req} \cup r.alts
Mention(r) == UNION Readings(r)
AccSets(r) ==
  {{}, Priv, Mention(r), Priv \ Mention(r)} \cup (IF Thorough THEN {Defined} ELSE {})
  \cup Readings(r)
  \cup {Priv \ A : A \in Readings(r)}
  \cup {Priv \ {p} : p \in Mention(r)}
  \cup {{p} : p \in Mention(r)}
  \cup UNION {{A \ {p} : p \in A} : A \in Readings(r)}
  \cup UNION {{{p}, Priv \ {p}} : p \in IF Thorough /\ Mode # "all" THEN Priv ELSE Pick(r)}
  \cup (IF r.sp = "xfer" THEN {Mention(r) \cup {5}, Priv \ {5}, Mention(r) \cup {0, 9}} ELSE {})
  \cup (IF r.t \in 348..353   \* account administration: the unused "change own password" privilege (18) alone and with the rest
          THEN {{18}, Mention(r) \cup {18}, (Priv \ Mention(r)) \ {18}, Defined \ Mention(r)} ELSE {})
  \cup (IF Thorough /\ Mode # "all"
          THEN UNION {{Rand(r.t + n) \cup A, Rand(r.t + n) \ A} : A \in Readings(r), n \in 1..16}
          ELSE {})

Rds(r) == IF Mode = "all" /\ Len(r.parts) > 1 THEN {"atomic", "partial"} ELSE {"atomic"}

HandleSteps ==
  UNION {{[op |-> "handle", t |-> r.t, k |-> r.k, acc |-> a, rd |-> rd] : a \in AccSets(r), rd \in Rds(r)} : r \in Table}

(* ---- C06 cases ------------------------------------------------------------ *)
PairOK(i, j) == (Thorough /\ Mode # "all") \/ ((i * 64 + j + Seed * 5) % 29 = 0)
IJ == {p \in Priv \X Priv : PairOK(p[1], p[2])}
Pairs ==
  {<<Priv \ {i}, {i}>> : i \in Priv} \cup {<<{i}, {i}>> : i \in Priv} \cup {<<{i, 14}, {i}>> : i \in Priv}
  \cup {<<{p[1], 14}, {p[2]}>> : p \in IJ} \cup {<<{p[1], 14}, {p[1], p[2]}>> : p \in IJ}
  \cup {<<Defined, Defined>>, <<Defined, Defined \cup {19}>>, <<Defined, Priv>>, <<Priv, Priv>>, <<Priv, Defined>>,
        <<Priv \ {14}, {}>>, <<{14}, {}>>, <<{}, {}>>, <<Defined \ {14}, {0}>>}

(* field-shape variants of the requested bitmap, for creators that lack what the default accounts hold *)
ShapePairs == {<<c, w>> : c \in {{14}, {14, 2}, {14, 40}, Priv \ {2}, Priv \ {63}, Defined \ {9}, Priv} \cup {{14, (Seed * 13 + 5) % 64}},
                         w \in {{}, Priv, Defined, {2}, {9, 40}, {63}}}
CreateSteps ==
  {[op |-> "create", via |-> v, by |-> "req", acc |-> p[1], login |-> "newacct", want |-> p[2], shape |-> "full"] : p \in Pairs, v \in {349, 350}}
  \cup {[op |-> "create", via |-> v, by |-> "req", acc |-> p[1], login |-> "newacct", want |-> p[2], shape |-> sh] :
          p \in ShapePairs, v \in {349, 350}, sh \in Shapes \ {"full"}}

KickSteps ==
  {[op |-> "kick", acc |-> a, tacc |-> t, ban |-> b, third |-> "none", pacc |-> {}, shared |-> FALSE] :
     a \in {Priv, {22}, {22, 23}, Priv \ {22}}, t \in {{}, {23}, Priv, Priv \ {23}, Defined \ {23}}, b \in {0, 1, 2}}
  \cup  \* a protected bystander, logged in from the target's address or from another one
  {[op |-> "kick", acc |-> a, tacc |-> t, ban |-> b, third |-> th, pacc |-> pa, shared |-> FALSE] :
     a \in {Priv, {22}}, t \in {{}, Priv \ {23}, {23}}, b \in {0, 1, 2}, th \in {"same", "other"}, pa \in {{23}, Priv}}
  \cup  \* the target is another connection of the requester's own account
  {[op |-> "kick", acc |-> a, tacc |-> a, ban |-> b, third |-> th, pacc |-> {23}, shared |-> TRUE] :
     a \in {{22, 23}, Priv, {22}, Priv \ {23}, {23}, Defined}, b \in {0, 1, 2}, th \in {"none", "same"}}

(* ---- C16 cases ------------------------------------------------------------ *)
RtSets ==
  {{}, Priv, Defined, Priv \ Defined}
  \cup {{i} : i \in Priv} \cup {Priv \ {i} : i \in Priv} \cup {Defined \ {i} : i \in Defined}
  \cup {{p[1], p[2]} : p \in {q \in Defined \X Defined : q[1] < q[2] /\ ((Thorough /\ Mode # "all") \/ (q[1] * 41 + q[2] + Seed * 3) % 13 = 0)}}
  \cup {Rand(n) : n \in 1..(IF Thorough /\ Mode # "all" THEN 4000 ELSE 40)}
  \cup {Rand(n) \cap Defined : n \in 1..(IF Thorough /\ Mode # "all" THEN 1500 ELSE 20)}
RtSteps == {[op |-> "rt", S |-> S] : S \in RtSets}

(* privileges of a live session's account changed by an administrator: new set S, old set {} or the complement *)
UpdSets == {{i} : i \in Priv} \cup {{}, Priv, Defined, Priv \ {40}, Defined \ {2}}
           \cup {Rand(n) : n \in 1..(IF Thorough /\ Mode # "all" THEN 300 ELSE 12)}
UpdSteps == UNION {{[op |-> "upd", via |-> v, S |-> S, old |-> o, near |-> "none", B |-> {}] : v \in {349, 353}, o \in {{}, Priv \ S}} : S \in UpdSets}
            \cup  \* with a bystander account whose login is a near variant of the edited one (its set: the complement)
            UNION {{[op |-> "upd", via |-> v, S |-> S, old |-> {}, near |-> nr, B |-> Priv \ S] : v \in {349, 353}, nr \in {"case", "prefix", "suffix"}}
                     : S \in {{}, {23}, {40}, Defined, {(Seed * 19 + 7) % 41}}}

(* an account with several live sessions is edited; then one of its sessions is the target of a disconnect request /
   creates an account *)
MultiNK == {<<1, 1>>, <<2, 1>>, <<2, 2>>, <<3, 2>>, <<3, 3>>}
RevBits == {22, 40, 0, (Seed * 17 + 3) % 64} \cup (IF Thorough /\ Mode # "all" THEN Priv ELSE {})
MultiSteps ==
  {[op |-> "multi", kind |-> "kick", edit |-> ed, n |-> nk[1], k |-> nk[2], a0 |-> aa[1], a1 |-> aa[2], ban |-> b,
    via |-> 350, want |-> {}, near |-> "none"] :
     ed \in {349, 353}, nk \in MultiNK, aa \in {<<{}, {23}>>, <<Priv \ {23}, Priv>>, <<{23}, {23, 9}>>}, b \in {0, 1, 2}}
  \cup  \* the edit takes 23 away from the account; the target is the session of a protected near-namesake account
  {[op |-> "multi", kind |-> "kick", edit |-> ed, n |-> 1, k |-> 1, a0 |-> {23}, a1 |-> {}, ban |-> b,
    via |-> 350, want |-> {}, near |-> nr] : ed \in {349, 353}, b \in {0, 1, 2}, nr \in {"case", "prefix", "suffix"}}
  \cup
  {[op |-> "multi", kind |-> "create", edit |-> ed, n |-> nk[1], k |-> nk[2], a0 |-> {14, p}, a1 |-> {14} \ ({p} \ {14}), ban |-> 0,
    via |-> v, want |-> {p}, near |-> "none"] :
     ed \in {349, 353}, nk \in MultiNK, p \in RevBits \ {14}, v \in {349, 350}}

(* an account editor opens / lists / re-saves an account it does not dominate *)
OpenSets == {{i} : i \in Priv} \cup {Priv, Defined, {}, Priv \ {16}, Priv \ {17}, Defined \ {2}}
            \cup {Rand(n + 50) : n \in 1..(IF Thorough /\ Mode # "all" THEN 300 ELSE 10)}
OpenSteps == {[op |-> "open", S |-> S, racc |-> ra] : S \in OpenSets, ra \in {{16}, {16, 17}, {16, 17, 2, 9, 40}}}

(* multi-entry Update User batches *)
E(kind, login, set) == [kind |-> kind, login |-> login, set |-> set]
BatchBits == {2, 40, 22, (Seed * 23 + 11) % 64} \cup (IF Thorough /\ Mode # "all" THEN Priv ELSE {})
Adm == {14, 15, 17}
BatchSteps ==
  UNION {
    LET acc == Adm \cup {b, 9} IN
    {[op |-> "batch", acc |-> acc, entries |-> es] : es \in {
       << E("modself", "req", acc \ {b}), E("create", "n1", {b}) >>,                 \* drops b, then grants b
       << E("modself", "req", acc \ {b}), E("create", "n1", {9}) >>,                 \* ... grants something it kept
       << E("modself", "req", acc \ {b}), E("create", "n1", {}), E("create", "n2", {b, 9}) >>,
       << E("modself", "req", acc \ {14}), E("create", "n1", {}) >>,                  \* drops Create User itself
       << E("create", "n1", {b}), E("modself", "req", acc \ {b}) >>,                 \* grants b, then drops it
       << E("create", "n1", {b}), E("create", "n2", {b, 63 - (b % 2)}) >>,            \* second one beyond the creator
       << E("create", "n1", {b}), E("create", "n2", {9}) >>,
       << E("delete", "spare", {}), E("create", "n1", {b}) >>,
       << E("delete", "spare", {}), E("create", "n1", {b, 33}) >>,
       << E("renself", "req", acc), E("create", "n1", {b}) >>,
       << E("renself", "req", acc \ {b}), E("create", "n1", {b}) >>,                 \* renamed and reduced in one entry
       << E("renself", "req", acc), E("create", "n1", {b, 33}) >>
    }} : b \in BatchBits \ (Adm \cup {9, 33, 62, 63})}

FirstSteps == (IF On("c05") THEN HandleSteps ELSE {}) \cup (IF On("c06") THEN CreateSteps \cup KickSteps \cup MultiSteps \cup BatchSteps ELSE {})
              \cup (IF On("c16") THEN RtSteps \cup UpdSteps \cup OpenSteps ELSE {})

(* second step (model check only): the account just created creates another one *)
ChainSteps ==
  IF Mode = "all" /\ Len(hist) = 1 /\ last.op = "create" /\ rep = "ok"
    THEN {[op |-> "create", via |-> v, by |-> "newacct", acc |-> {}, login |-> "newacct2", want |-> w, shape |-> "full"] :
            v \in {349, 350}, w \in {{}, accts["newacct"], accts["newacct"] \cup {0}, accts["newacct"] \cup {63}, Priv}}
    ELSE {}

Step(s) == Apply(s) /\ hist' = Append(hist, s)

MCInit == Init /\ hist = <<>>
Next == \/ Len(hist) = 0 /\ \E s \in FirstSteps : Step(s)
        \/ \E s \in ChainSteps : Step(s)
Spec == MCInit /\ [][Next]_mcvars

(* ---- invariants of the instance -------------------------------------------- *)
TablesOK == ReqMatchesGov /\ KeysUnique /\ Cardinality(Types) = 43
            /\ Cardinality(AllNames) = 40 /\ \A i \in Defined : Num(Name[i]) = i
GuardOK == \A i \in DOMAIN hist : hist[i].op \in {"handle", "create", "kick", "rt", "upd", "multi", "open", "batch"} /\ Guard(hist[i])
(* chains: what the second account holds, the first creator held *)
NoChainAmplification ==
  ("newacct2" \in DOMAIN accts) => accts["newacct2"] \subseteq cap["newacct"]

(* ---- script emission --------------------------------------------------------- *)
Script(s) == IF s.op = "rt"
               THEN [op |-> "rt", S |-> s.S, bytes |-> ToBytes(s.S), names |-> Save(s.S), allnames |-> AllNames]
             ELSE IF s.op = "open"
               THEN [op |-> "open", S |-> s.S, racc |-> s.racc, bytes |-> ToBytes(s.S), rbytes |-> ToBytes(s.racc)]
             ELSE IF s.op = "upd"
               THEN [op |-> "upd", via |-> s.via, S |-> s.S, old |-> s.old, bytes |-> ToBytes(s.S), near |-> s.near, B |-> s.B]
               ELSE s
Emit == (Len(hist') = 1) => PrintT("B " \o ToJson(Script(hist'[1])))
=============================================================================
