----------------------------- MODULE Trace_News -----------------------------
(* Trace validation of the threaded news (C18): consumes log.ndjson recorded by `vh-news` from the real server.
   Every line is either a "world" event (a fresh server with an empty news file: the model is reset) or one step
   with its arguments and what the real code showed afterwards:
     live.nodes - for every path the script ever mentioned: `cats` (the parsed category listing, 370), `list` (the
                  article-list field 321 parsed by the driver's own reader: ok / exact / count / entries), `arts`
                  (get-article replies of the IDs that answered), `absent` (the IDs that did not)
     disk       - the complete dump of a second store loaded from ThreadedNews.yaml (or ok = FALSE and the error)
     reply      - for get / list / cats steps the reply to the step itself
   The step is applied to the model by News!Apply and the views are compared with the model's state.  Differences in
   what the property statement constrains (which articles exist, their title / poster / date / body, the links a post
   must set, the list: parseable, complete, in ID order, the entries' title / poster / date / parent; the children of
   a path; the reloaded tree) are printed as "VIOL {...}", differences in anything else (other links, list flags /
   flavor / size, the ID policy, unexpected error replies, a step that is not enabled) as "DRIFT {...}".
   Dates come from the server's clock: the model takes the date the new article shows right after the post and
   requires it unchanged from then on, in every view.  Acceptance: every line consumed. *)
EXTENDS News, Json

VARIABLES l,       \* next line of the log
          seen     \* set of <<run, tag>> already reported (one report per run and kind of difference)

Log == ndJsonDeserialize("log.ndjson")

tvars == <<vars, l, seen>>

Range(sq) == {sq[i] : i \in DOMAIN sq}
ArtsOf(t, p) == IF p \in DOMAIN t THEN t[p].arts ELSE <<>>
ZeroDate == <<0, 0, 0, 0, 0, 0, 0, 0>>

ViolTags == {"ids", "content", "links", "list", "children", "reload", "lost", "unread"}

(* ---- comparing one observed article with the model's ---------------------------------------------------------- *)
ArtFails(x, a) ==
  IF x.id \notin DOMAIN a THEN {"ids"}
  ELSE LET r == a[x.id] IN
       (IF <<x.title, x.poster, x.date, x.body>> # Content(r) THEN {"content"} ELSE {})
       \cup (IF <<x.parent, x.prev, x.next, x.first>> # Links(r) THEN {"links-other"} ELSE {})
       \cup (IF x.flav # "text/plain" THEN {"aux"} ELSE {})

(* ---- the article list ------------------------------------------------------------------------------------------ *)
ListFails(L, a) ==
  LET exp == ListView(a)
      parsed == L.ok /\ L.exact /\ L.count = Len(L.entries)
      idsOK == [k \in DOMAIN L.entries |-> L.entries[k].id] = [k \in DOMAIN exp |-> exp[k].id]
      fieldsOK == idsOK /\ \A k \in DOMAIN exp :
                     LET o == L.entries[k]  m == exp[k] IN
                     o.title = m.title /\ o.poster = m.poster /\ o.date = m.date /\ o.parent = m.parent
      auxOK == /\ L.hid = 0 /\ L.nl = 0 /\ L.dl = 0
               /\ \A k \in DOMAIN L.entries :
                     LET o == L.entries[k] IN
                     o.flags = 0 /\ o.flavors = 1 /\ o.flavor = "text/plain"
                     /\ (k \in DOMAIN exp /\ idsOK => o.size = exp[k].size)
  IN IF ~(parsed /\ idsOK /\ fieldsOK) THEN {"list"}
     ELSE IF ~auxOK THEN {"list-aux"} ELSE {}

(* ---- the children of a path -------------------------------------------------------------------------------------- *)
ItemSet(items) == {[name |-> it.name, kind |-> it.kind] : it \in Range(items)}
CatsOK(items, exp) == /\ \A it \in Range(items) : it.ok
                      /\ ItemSet(items) = exp
                      /\ Len(items) = Cardinality(exp)
Phantom == [name |-> <<>>, kind |-> 0]

(* ---- one observed node ------------------------------------------------------------------------------------------- *)
PresentIds(n) == {x.id : x \in Range(n.arts)}
(* a post may, as far as the statement goes, pick any unused ID: exactly one new ID that is not the model's *)
FreshAlt(e, n, pre) ==
  /\ e.op = "post" /\ n.path = e.path
  /\ LET a0 == ArtsOf(pre, e.path) IN
     \E j \in PresentIds(n) \ DOMAIN a0 : PresentIds(n) = DOMAIN a0 \cup {j} /\ j # NewId(a0)

(* `unobs`: the read requests about this path were not answered (connection closed / no reply).  For a path that exists
   the statement applies (its listing and its article list must be returned): "unread"; about a path that does not
   exist nothing is claimed. *)
NodeFails(e, n, t, pre) ==
  IF n.unobs THEN (IF n.path \in DOMAIN t \cup {<<>>} THEN {"unread"} ELSE {}) ELSE
  LET a == ArtsOf(t, n.path) IN
  (IF DOMAIN a \subseteq PresentIds(n) \cup Range(n.absent) THEN {} ELSE {"obs-incomplete"})
  \cup (IF PresentIds(n) = DOMAIN a /\ Len(n.arts) = Cardinality(DOMAIN a) THEN {}
        ELSE IF FreshAlt(e, n, pre) THEN {"id-policy"} ELSE {"ids"})
  \cup UNION {ArtFails(x, a) : x \in Range(n.arts)}
  \cup ListFails(n.list, a)
  \cup (IF CatsOK(n.cats, CatViewIn(t, n.path)) THEN {} ELSE {"children"})

(* ---- what a post must have set (LinksOnPost) ------------------------------------------------------------------------ *)
PostLinkFails(e, pre) ==
  IF e.op # "post" \/ \E n \in Range(e.live.nodes) : n.path = e.path /\ n.unobs THEN {}
  ELSE LET a0 == ArtsOf(pre, e.path)
           id == NewId(a0)
           ns == {n \in Range(e.live.nodes) : n.path = e.path}
           obs(i) == {x \in UNION {Range(n.arts) : n \in ns} : x.id = i}
           okNew == \E x \in obs(id) : /\ x.parent = e.parent
                                       /\ x.prev = IF DOMAIN a0 = {} THEN 0 ELSE Max(DOMAIN a0)
           okPrev == DOMAIN a0 # {} => \E x \in obs(Max(DOMAIN a0)) : x.next = id
           okFirst == (e.parent # 0 /\ a0[e.parent].first = 0) => \E x \in obs(e.parent) : x.first = id
       IN IF okNew /\ okPrev /\ okFirst THEN {} ELSE {"links"}

(* ---- the reply to a read step itself ---------------------------------------------------------------------------------- *)
ReplyFails(e, t) ==
  IF "reply" \notin DOMAIN e THEN {} ELSE
  CASE e.op = "get" ->
         LET a == ArtsOf(t, e.path) IN
         IF e.reply.present # (e.id \in DOMAIN a) THEN {"ids"}
         ELSE IF e.reply.present THEN ArtFails(e.reply, a) ELSE {}
    [] e.op = "list" -> ListFails(e.reply, ArtsOf(t, e.path))
    [] e.op = "cats" -> IF CatsOK(e.reply.items, CatViewIn(t, e.path)) THEN {} ELSE {"children"}
    [] OTHER -> {}

LiveFails(e, t, pre) ==
  UNION {NodeFails(e, n, t, pre) : n \in Range(e.live.nodes)}
  \cup PostLinkFails(e, pre)
  \cup ReplyFails(e, t)
  \cup (IF DOMAIN t \cup {<<>>} \subseteq {n.path : n \in Range(e.live.nodes)} THEN {} ELSE {"obs-incomplete"})
  \cup (IF e.anom # <<>> THEN {"anomaly"} ELSE {})

(* ---- the reloaded tree ---------------------------------------------------------------------------------------------------- *)
DiskPaths(D) == {n.path : n \in Range(D.nodes)}
DiskArtDiffs(D, t) ==
  UNION {UNION {LET r == t[n.path].arts[x.id] IN
                 {[path |-> n.path, id |-> x.id, field |-> f[1], exp |-> f[2], got |-> f[3]]
                    : f \in {g \in {<<"title", r.title, x.title>>, <<"poster", r.poster, x.poster>>, <<"body", r.body, x.body>>,
                                    <<"date", r.date, x.date>>, <<"links", Links(r), <<x.parent, x.prev, x.next, x.first>> >>}
                             : g[2] # g[3]}}
               : x \in {y \in Range(n.arts) : y.id \in DOMAIN t[n.path].arts}}
         : n \in {m \in Range(D.nodes) : m.path \in DOMAIN t}}
DiskShapeOK(D, t) ==
  /\ DiskPaths(D) = DOMAIN t /\ Len(D.nodes) = Cardinality(DOMAIN t)
  /\ \A n \in Range(D.nodes) :
        /\ n.kind = t[n.path].kind /\ n.name = Last(n.path)
        /\ {x.id : x \in Range(n.arts)} = DOMAIN t[n.path].arts
        /\ Len(n.arts) = Cardinality(DOMAIN t[n.path].arts)
DiskOK(D, t) == D.ok /\ DiskShapeOK(D, t) /\ DiskArtDiffs(D, t) = {}

(* the live view of the articles and children is clean: then a different reloaded tree is the reload's doing *)
TreeTags == {"ids", "content", "links", "links-other", "children", "id-policy", "obs-incomplete", "anomaly"}

Fails(e, t, pre) ==
  LET lf == LiveFails(e, t, pre) IN
  lf \cup (IF lf \cap TreeTags = {} /\ ~DiskOK(e.disk, t) THEN {"reload"} ELSE {})

(* ---- details for the report ------------------------------------------------------------------------------------------------- *)
Seen(e) == {n \in Range(e.live.nodes) : ~n.unobs}
ListDetail(e, t) ==
  LET bad == {n \in Seen(e) : "list" \in ListFails(n.list, ArtsOf(t, n.path))} IN
  [paths |-> {n.path : n \in bad},
   allOver512 |-> \A n \in bad : MaxEntryLen(ArtsOf(t, n.path)) > 512,
   entryLens |-> {MaxEntryLen(ArtsOf(t, n.path)) : n \in bad},
   obs |-> {[ok |-> n.list.ok, exact |-> n.list.exact, count |-> n.list.count, entries |-> Len(n.list.entries), len |-> n.list.len] : n \in bad}]
ChildDetail(e, t, pre) ==
  LET bad == {n \in Seen(e) : ~CatsOK(n.cats, CatViewIn(t, n.path))} IN
  [nodes |-> {[path |-> n.path, expected |-> CatViewIn(t, n.path), got |-> n.cats] : n \in bad},
   phantomOnly |-> \A n \in bad : /\ \A it \in Range(n.cats) : it.ok
                                  /\ ItemSet(n.cats) = CatViewIn(t, n.path) \cup {Phantom}
                                  /\ Len(n.cats) = Cardinality(CatViewIn(t, n.path)) + 1,
   afterDelartInMissing |-> e.op = "delart" /\ e.path \notin DOMAIN pre]
ReloadDetail(e, t) ==
  IF ~e.disk.ok THEN [unloadable |-> TRUE, err |-> e.disk.err]
  ELSE [unloadable |-> FALSE, err |-> "", missing |-> DOMAIN t \ DiskPaths(e.disk), extra |-> DiskPaths(e.disk) \ DOMAIN t,
        shapeOK |-> DiskShapeOK(e.disk, t), diffs |-> DiskArtDiffs(e.disk, t)]
TreeDetail(e, t) ==
  {[path |-> n.path, model |-> DOMAIN ArtsOf(t, n.path), present |-> PresentIds(n), absent |-> Range(n.absent),
    fails |-> UNION {ArtFails(x, ArtsOf(t, n.path)) : x \in Range(n.arts)}]
     : n \in {m \in Seen(e) : PresentIds(m) # DOMAIN ArtsOf(t, m.path)
                                          \/ UNION {ArtFails(x, ArtsOf(t, m.path)) : x \in Range(m.arts)} # {}}}

Args(e) == [k \in DOMAIN e \ {"live", "disk", "reply"} |-> e[k]]

Detail(e, t, pre, f) ==
  [fails |-> f, stale |-> FALSE,
   list |-> IF "list" \in f THEN ListDetail(e, t) ELSE [paths |-> {}],
   children |-> IF "children" \in f THEN ChildDetail(e, t, pre) ELSE [nodes |-> {}],
   reload |-> IF "reload" \in f THEN ReloadDetail(e, t) ELSE [unloadable |-> FALSE],
   unread |-> IF "unread" \in f THEN {[path |-> n.path, how |-> n.how] : n \in {m \in Range(e.live.nodes) : m.unobs /\ m.path \in DOMAIN t \cup {<<>>}}} ELSE {},
   tree |-> IF f \cap {"ids", "content", "links", "links-other", "id-policy", "aux"} # {} THEN TreeDetail(e, t) ELSE {}]

Report(kind, e, detail) ==
  PrintT(kind \o " " \o ToJson([prop |-> "C18", run |-> e.run, line |-> l, k |-> e.k, op |-> e.op, step |-> Args(e), detail |-> detail]))

(* ---- the trace ------------------------------------------------------------------------------------------------------------------ *)
Init == /\ l = 1 /\ seen = {}
        /\ InitWith(<<>>)

World ==
  LET e == Log[l] IN
  /\ e.op = "world"
  /\ nodes' = <<>> /\ disk' = <<>> /\ uname' = e.user /\ out' = NoOut
  /\ seen' = seen

ObsDate(e) ==
  LET id == NewId(ArtsAt(e.path))
      xs == {x \in UNION {Range(n.arts) : n \in {m \in Range(e.live.nodes) : m.path = e.path}} : x.id = id}
  IN IF xs = {} THEN ZeroDate ELSE (CHOOSE x \in xs : TRUE).date

StepOf(e) == IF e.op = "post"
               THEN [op |-> "post", path |-> e.path, parent |-> e.parent, title |-> e.title, body |-> e.body, date |-> ObsDate(e)]
               ELSE e

Drifted(e) == <<e.run, "drift">> \in seen

(* A reload step whose file has the model's shape but other article texts or links - after that difference has been
   reported as a violation of ReloadIsIdentity at the step that wrote the file: from here on the running store is the
   reloaded one, so the model follows the file (the consequences of the reported difference are not reported again
   as changed articles). *)
TreeOfDisk(D) ==
  [p \in DiskPaths(D) |->
     LET n == CHOOSE m \in Range(D.nodes) : m.path = p IN
     [kind |-> n.kind,
      arts |-> [i \in {x.id : x \in Range(n.arts)} |->
                  LET x == CHOOSE y \in Range(n.arts) : y.id = i IN
                  [title |-> x.title, poster |-> x.poster, date |-> x.date, body |-> x.body, parent |-> x.parent,
                   prev |-> x.prev, next |-> x.next, first |-> x.first]]]]
Adopts(e) == /\ e.op = "reload" /\ e.ok /\ <<e.run, "reload">> \in seen
             /\ e.disk.ok /\ DiskShapeOK(e.disk, disk) /\ ~DiskOK(e.disk, disk)
ReloadAdopt(e) == /\ nodes' = TreeOfDisk(e.disk)
                  /\ disk' = nodes'
                  /\ out' = [op |-> "reload"]
                  /\ UNCHANGED uname

(* A step the server did not answer (`noreply`), answered by closing the connection (`panicked`: the handler's panic is
   recovered by dropping the connection) or after which it could not be observed any more (`ended`).  The statement
   does not say how such a request is answered, so a step that took effect, or that the model excludes anyway, is
   reported as DRIFT - but a valid request whose effect is missing afterwards is a violation ("lost"); the model then takes whichever of
   "took effect" / "did not take effect" agrees with what the server shows on a fresh connection, and the run goes on
   being judged (an article that was acknowledged earlier and is missing now is still a violation).  If neither
   agrees, the rest of the run is not judged. *)
Unanswered(e) == e.panicked \/ e.noreply \/ e.ended
TreeClean(e, t) == /\ UNION {NodeFails(e, n, t, nodes) : n \in Range(e.live.nodes)} \cap TreeTags = {}
                   /\ DOMAIN t \cup {<<>>} \subseteq {n.path : n \in Range(e.live.nodes)}

UnansweredEv(e, s) ==
  LET can == Guard(s) /\ ~(e.op = "reload" /\ ~e.ok)
      ta == IF can THEN TreeAfter(s) ELSE nodes
      (* where the live view has unobservable paths the loadable file decides which items and articles exist *)
      blind == \E n \in Range(e.live.nodes) : n.unobs
      onDisk(x) == ~blind \/ DiskShapeOK(e.disk, x)
      (* neither the affected path can be read nor the file be loaded (both reported before): the effect of the step
         cannot be known, the rest of the run is not judged *)
      undec == blind /\ ~e.disk.ok
      okA == ~e.ended /\ ~undec /\ can /\ TreeClean(e, ta) /\ onDisk(ta)
      okU == ~e.ended /\ ~undec /\ TreeClean(e, nodes) /\ onDisk(nodes)
      t == IF okA THEN ta ELSE nodes
      (* a request that is valid in the model (existing item, existing or zero parent) and must change the tree, but
         the tree the server shows afterwards does not have the change: the post / the new item / the deletion is
         lost - the statement applies whatever the server did instead of answering *)
      lost == \/ ~e.ended /\ ~undec /\ can /\ ta # nodes /\ ~okA
              \/ ~e.ended /\ e.op \in {"get", "list", "cats"} /\ Exists(e.path)     \* a read of an existing path
      why == IF e.ended THEN "server not observable any more: run ended"
             ELSE IF e.panicked THEN "connection closed instead of a reply (handler panicked)"
             ELSE "no reply within the bound"
  IN /\ IF lost
          THEN (~Drifted(e) /\ <<e.run, "lost">> \notin seen =>
                  Report("VIOL", e, [fails |-> {"lost"}, how |-> why, noEffect |-> okU, anom |-> e.anom]))
          ELSE (* (after a reported loss or unanswered read of an existing path, further unanswered steps of the run whose effect
                  cannot be told apart are not reported again) *)
               (~Drifted(e) /\ <<e.run, why>> \notin seen /\ <<e.run, "lost">> \notin seen /\ <<e.run, "unread">> \notin seen
                /\ ~(<<e.run, "thread">> \in seen /\ ~can) =>
                  Report("DRIFT", e, [fails |-> {why}, tookEffect |-> okA, noEffect |-> okU, anom |-> e.anom]))
     /\ seen' = seen \cup {IF lost THEN <<e.run, "lost">> ELSE <<e.run, why>>}
                     \cup (IF okA \/ okU THEN {} ELSE {<<e.run, "drift">>})
     /\ nodes' = t /\ disk' = t
     /\ uname' = IF e.op = "setname" THEN e.name ELSE uname
     /\ out' = [op |-> e.op, unanswered |-> TRUE]

(* A delete-article with the recursive flag set, for which the server shows the second reading (the article and its
   reply subtree are gone, everything else is there): accepted, the model follows. *)
RecAlt(e, s) == /\ e.op = "delart" /\ e.rec = 1 /\ DelArtHit(s)
                /\ DelArtTreeRec(s) # DelArtTree(s)
                /\ ~TreeClean(e, DelArtTree(s)) /\ TreeClean(e, DelArtTreeRec(s))
DeleteThread(s) == /\ nodes' = DelArtTreeRec(s) /\ disk' = nodes'
                   /\ out' = [op |-> "delart", path |-> s.path, id |-> s.id, hit |-> TRUE, thread |-> TRUE]
                   /\ UNCHANGED uname

(* A request addressed below a path that does not exist (News!Stale): the model keeps everything as it is, and so must
   the server - answered or not (the implementation drops the connection for create and post).  Judged like any other
   step, against the unchanged tree: no component of the missing path may show up in a listing, on a fresh connection
   or in the file. *)
StaleFails(e) ==
  LET lf == UNION {NodeFails(e, n, nodes, nodes) : n \in Range(e.live.nodes)}
            \cup (IF DOMAIN nodes \cup {<<>>} \subseteq {n.path : n \in Range(e.live.nodes)} THEN {} ELSE {"obs-incomplete"})
            \cup (IF e.anom # <<>> THEN {"anomaly"} ELSE {})
  IN lf \cup (IF lf \cap TreeTags = {} /\ ~DiskOK(e.disk, nodes) THEN {"reload"} ELSE {})

StaleEv(e, s) ==
  /\ Apply(s)
  /\ LET f == StaleFails(e)
         viol == f \cap ViolTags
         fresh == {x \in viol : <<e.run, x>> \notin seen}
     IN IF Drifted(e) \/ f = {} THEN seen' = seen
        ELSE IF viol # {}
          THEN /\ (fresh # {} => Report("VIOL", e, [Detail(e, nodes, nodes, fresh) EXCEPT !.stale = TRUE]))
               /\ seen' = seen \cup {<<e.run, x>> : x \in viol}
          ELSE /\ Report("DRIFT", e, Detail(e, nodes, nodes, f))
               /\ seen' = seen \cup {<<e.run, "drift">>}

StepEv ==
  LET e == Log[l]
      s == StepOf(e)
  IN
  /\ e.op # "world"
  /\ IF ~e.ended /\ Stale(s) THEN StaleEv(e, s)
     ELSE IF Unanswered(e) THEN UnansweredEv(e, s)
     ELSE IF ~Guard(s) \/ (e.op = "reload" /\ ~e.ok)
       THEN (* not a step of the model: the script should not contain it (or the file could not be loaded: the
               disk view of the previous step has already said so) *)
            /\ (~Drifted(e) /\ e.op # "reload" /\ <<e.run, "lost">> \notin seen /\ <<e.run, "thread">> \notin seen =>
                  Report("DRIFT", e, [fails |-> {"step not enabled in the model"}]))
            /\ seen' = IF e.op = "reload" THEN seen ELSE seen \cup {<<e.run, "drift">>}
            /\ UNCHANGED vars
       ELSE /\ IF Adopts(e) THEN ReloadAdopt(e) ELSE IF RecAlt(e, s) THEN DeleteThread(s) ELSE Apply(s)
            /\ LET f == Fails(e, nodes', nodes)
                   viol == f \cap ViolTags
                   fresh == {x \in viol : <<e.run, x>> \notin seen}
                   (* the scripts are generated under the first reading of a recursive delete: once the server has
                      shown the second one, later steps may name articles that are gone *)
                   sn == IF RecAlt(e, s) THEN seen \cup {<<e.run, "thread">>} ELSE seen
               IN IF Drifted(e) \/ f = {} THEN seen' = sn
                  ELSE IF viol # {}
                    THEN /\ (fresh # {} => Report("VIOL", e, Detail(e, nodes', nodes, fresh)))
                         /\ seen' = sn \cup {<<e.run, x>> : x \in viol}
                    ELSE /\ Report("DRIFT", e, Detail(e, nodes', nodes, f))
                         /\ seen' = sn \cup {<<e.run, "drift">>}

Next == /\ l <= Len(Log)
        /\ (World \/ StepEv)
        /\ l' = l + 1
        /\ TLCSet(1, l')

Consumed == TLCGet(1) = Len(Log) + 1
=============================================================================
