CONSTANTS
  Conns = {1, 2, 3}
  IDMod = 4
  MaxChats = 1
  MaxSteps = 5
  GenDepth = 99
  Ops = {"goneidle","wake","loginbegin","loginend","closebegin","closeend","churn","rawfail","connect","dial","handshake","login","agreed","setinfo","userlist","close","chat","invitenew","invite","reject","join","leave","subject","pm","broadcast","getinfo","setuser","kick","banadd","wait","restart"}
  Thin = FALSE
INIT Init
NEXT Next
VIEW View
CONSTRAINT Bound
INVARIANTS UniqueLiveIDs DeliveredOnlyToLive PrivateOnlyToMembers PublicOnlyToReaders NoDuplicateDelivery RosterConverges
PROPERTIES FreshIdOnLogin BanAtDoor NoPostLeaveDelivery
CHECK_DEADLOCK FALSE
