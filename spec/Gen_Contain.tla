----------------------------- MODULE Gen_Contain -----------------------------
(* Emits the mutation plans of Contain!Plans once (ASSUME), as "B {...}" lines. *)
EXTENDS MC_Contain
ASSUME EmitPlans
GNext == UNCHANGED cvars
=============================================================================
