CONSTANTS
  Readers = {1, 2, 3}
  Posters = {11, 12}
  ChunkLen = 2
  Locked = TRUE
INIT Init
NEXT Next
INVARIANTS ReadIsWholeCurrentText NoPostLost NewestFirst OnDiskWhenAcked
CHECK_DEADLOCK FALSE
