CONSTANTS
  FreshAppends = TRUE
  MaxN = 4
  RsrcLens <- RsrcAll
  MaxCuts = 3
  Big = FALSE
  AllowFresh = TRUE
  AllowPlant = TRUE
  Ops = {"request","resume","deliver","cut","publish","plant","download","dl"}
INIT Init
NEXT Next
VIEW View
INVARIANTS FinalIsExact PartialIsPrefix PartialIsExactlyReceived ResumeCompletesIdentically RoundTrip DlByteExact DlJudgeAccepts DlJudgeSensitive
PROPERTIES FinalOnlyWhenComplete NeverOverwrites ResumeOffsetIsPartial
CHECK_DEADLOCK FALSE
