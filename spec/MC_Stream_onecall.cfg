CONSTANTS
  Mode = "onecall"
  MaxT = 2
  MaxData = 4
INIT Init
NEXT Next
INVARIANTS SegmentationIndependent
CHECK_DEADLOCK FALSE
