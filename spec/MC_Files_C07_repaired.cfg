CONSTANTS
  Deviations = {"F10b", "F11b", "F24b", "F25b"}
  Level = "core"
  MaxSteps = 0
  GenDepth = 0
  Thin = TRUE
INIT Init07
NEXT Next07
INVARIANTS Contained07
CHECK_DEADLOCK FALSE
