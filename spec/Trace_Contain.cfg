CONSTANTS
  Hostile = {1}
  Sentinels = {101}
INIT Init0
NEXT TNext
POSTCONDITION Consumed
CHECK_DEADLOCK FALSE
