CONSTANTS
  Conns = {1,2,3,4,5,6,7,8,9,10,11,12}
INIT Init
NEXT Next
POSTCONDITION Consumed
CHECK_DEADLOCK FALSE
