--------------------------- MODULE Trace_Transfer ---------------------------
(* Trace validation of downloads (C08) and uploads with cuts (C09): consumes log.ndjson recorded by `vh-transfer`
   from the real server (real HandleDownloadFile / HandleUploadFile through a logged-in client, real
   handleFileTransfer over in-memory connections).  Lines:

     {"op":"dl","run":i,"c":{case},"o":{facts}}        one real download: the case (lengths, forks, request) and
                                                       the structural facts of reply and stream (Transfer!DlJudge)
     {"op":"world","run":i,"n":N,"r":R,"L":{..}}       a fresh upload target: the model is reset
     {"op":"request"|"resume","run":i,...}             the 203 transaction and what the reply carried
     {"op":"deliver","run":i,"j":J}                    J bytes of the client's stream are handed to the server
     {"op":"cut"|"publish","run":i,"o":{..}}           the connection died / ended; what the directory holds now
     {"op":"plant","run":i}                            a foreign file was created under the final name
     {"op":"download","run":i,...}                     a later real download of the uploaded file

   Every upload step is applied to the model with the same action operators MC_Transfer uses; what the model
   says the directory must hold is compared with what it does hold.  A contradiction of the statement is a
   "VIOL {...}" line naming the clause; a difference the statement does not speak about is "DRIFT {...}".
   After the first report of a run the rest of that run is consumed without judging (model and code have
   parted).  Acceptance: every line consumed. *)
EXTENDS Transfer, Json

VARIABLES l,     \* next line of the log
          bad    \* runs already reported

Log == ndJsonDeserialize("log.ndjson")

tvars == <<vars, l, bad>>

Report(kind, prop, e, extra) ==
  PrintT(kind \o " " \o ToJson([prop |-> prop, run |-> e.run, line |-> l, op |-> e.op, step |-> e, detail |-> extra]))

Init == /\ l = 1 /\ bad = {}
        /\ up = UpInit(0, -1, [pre |-> PreambleLen, hdr |-> 1, macr |-> ForkHdrLen])
        /\ out = [op |-> "init"]

World ==
  LET e == Log[l] IN
  /\ e.op = "world"
  /\ up' = UpInit(e.n, e.r, e.L)
  /\ out' = [op |-> "init"]
  /\ bad' = bad

(* ---- C08 ----------------------------------------------------------------- *)
DlEv ==
  LET e == Log[l]
      v == DlJudge(e.c, e.o)
      d == DlDrift(e.c, e.o)
  IN
  /\ e.op = "dl"
  /\ (v # {} => Report("VIOL", "C08", e, [clauses |-> v]))
  /\ (v = {} /\ d # {} => Report("DRIFT", "C08", e, [clauses |-> d]))
  /\ UNCHANGED <<vars, bad>>

(* ---- C09 ----------------------------------------------------------------- *)
UpOps == {"request", "resume", "deliver", "cut", "publish", "plant", "download"}

Granted(e) == e.replied /\ ~e.err /\ e.has107

(* clauses of the C09 statement contradicted by the observation of step e; u0/u1: model before/after *)
UpJudge(e, u0, u1, o1) ==
  CASE e.op = "request" ->
         {x \in {"ResumeCompletes"} : o1.granted /\ ~Granted(e) /\ u0.cuts > 0}
    [] e.op = "resume" ->
         IF o1.granted
           THEN {x \in {"ResumeOffset"} :
                   ~(Granted(e) /\ e.has203 /\ e.rflt) \/ e.off # o1.off \/ e.off # e.incSize}
           ELSE {}
    [] e.op = "cut" ->
         LET o == e.o
             expLen == IF u1.inc.on THEN RunsLen(u1.inc.runs) ELSE 0
         IN {x \in {"FinalOnlyWhenComplete", "NeverOverwrites", "PartialIsPrefix"} :
               CASE x = "FinalOnlyWhenComplete" -> o.finalExists /\ ~u1.final.on
                 [] x = "NeverOverwrites" -> u1.final.on /\ u1.final.kind = "foreign" /\ ~o.foreignIntact
                 [] x = "PartialIsPrefix" ->
                      IF u1.alt >= 0   \* a left-over partial file is being replaced, no data of this upload stored yet
                        THEN o.incExists /\ ~(o.prefixOK /\ o.incSize \in {0, u1.alt})
                        ELSE \/ o.incExists /\ (o.incSize # expLen \/ ~o.prefixOK)
                             \/ ~o.incExists /\ expLen > 0}
    [] e.op = "publish" ->
         LET o == e.o
         IN {x \in {"ResumeCompletes", "FinalIsExact"} :
               CASE x = "ResumeCompletes" -> ~o.finalExists
                 [] x = "FinalIsExact" -> o.finalExists /\ ~o.finalMatches}
    [] e.op = "download" ->
         {x \in {"RoundTrip"} : ~(e.replied /\ e.dataMatches /\ e.f207 = u0.n)}
    [] OTHER -> {}

UpDriftSet(e, u0, u1, o1) ==
  CASE e.op \in {"request", "resume"} -> {x \in {"grant"} : o1.granted # Granted(e)}
    [] e.op = "publish" -> {x \in {"partialRemains"} : e.o.incExists}
    [] OTHER -> {}

(* while a left-over partial file may or may not have been replaced yet, the model follows what the directory
   shows (both are within the statement) *)
AdaptStale(u, o) ==
  IF u.alt >= 0 /\ (~o.incExists \/ (o.prefixOK /\ o.incSize \in {0, u.alt}))
    THEN [u EXCEPT !.inc = IF ~o.incExists THEN [on |-> FALSE, runs |-> <<>>]
                           ELSE IF o.incSize = 0 THEN [on |-> TRUE, runs |-> <<>>]
                           ELSE [on |-> TRUE, runs |-> << <<1, u.alt>> >>]]
    ELSE u

Ctx(u0, u1) == [stale |-> u1.stale, res |-> u1.res, seg |-> Where(u0).seg, cuts |-> u1.cuts,
                expFinal |-> u1.final.on, expIncOn |-> u1.inc.on, expIncLen |-> RunsLen(u1.inc.runs),
                off |-> u1.off, pos |-> u0.pos]

UpEv ==
  LET e == Log[l] IN
  /\ e.op \in UpOps
  /\ IF e.run \in bad
       THEN UNCHANGED <<vars, bad>>
       ELSE IF ~UpGuard(e)
         THEN /\ Report("DRIFT", "C09", e, [clauses |-> {"step not enabled in the model"}, ph |-> up.ph])
              /\ bad' = bad \cup {e.run}
              /\ UNCHANGED vars
         ELSE IF e.op = "cut"
           THEN LET u1 == CutState(up)
                    v == UpJudge(e, up, u1, [op |-> "cut"])
                IN /\ up' = AdaptStale(u1, e.o)
                   /\ out' = Obs("cut", up')
                   /\ (v # {} => Report("VIOL", "C09", e, [clauses |-> v, ctx |-> Ctx(up, u1)]))
                   /\ bad' = IF v # {} THEN bad \cup {e.run} ELSE bad
           ELSE /\ UpApply(e)
                /\ LET v == UpJudge(e, up, up', out')
                       d == UpDriftSet(e, up, up', out')
                   IN /\ (v # {} => Report("VIOL", "C09", e, [clauses |-> v, ctx |-> Ctx(up, up')]))
                      /\ (v = {} /\ d # {} => Report("DRIFT", "C09", e, [clauses |-> d, ctx |-> Ctx(up, up')]))
                      /\ bad' = IF v # {} \/ d # {} THEN bad \cup {e.run} ELSE bad

Next == /\ l <= Len(Log)
        /\ (World \/ DlEv \/ UpEv)
        /\ l' = l + 1
        /\ TLCSet(1, l')

Consumed == TLCGet(1) = Len(Log) + 1
=============================================================================
