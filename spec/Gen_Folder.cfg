CONSTANTS
  MaxDown = 3
  MaxUp = 2
  MaxDownX = 2
  MaxUpX = 2
  MaxDepth = 3
  Sizes = {0, 2}
  UpSizes = {0, 2}
  Modes = {"down", "up"}
  EmitOn = TRUE
INIT Init
NEXT Next
ACTION_CONSTRAINT Emit
INVARIANTS TreesOK CountEqualsHeaders EachOnceInOrder WalkInvariant ChoiceHonoured UploadRecreates FinalIsWhole UpDownIdentity
PROPERTIES SkipComplete ResumePartial
CHECK_DEADLOCK FALSE
