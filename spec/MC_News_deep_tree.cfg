CONSTANTS
  IdPolicy = "max"
  MaxDepth = 2
  MaxArts = 4
  MaxSteps = 9
  NNames = 2
  NTexts = 1
  GenDepth = 99
  Ops = {"mkcat","post","delart","delitem","reload"}
  Thin = TRUE
INIT Init
NEXT Next
VIEW View
CONSTRAINT Bound
INVARIANTS ReloadIsIdentity
PROPERTIES StaleChangesNothing FreshId LinksOnPost OthersUntouched DeleteExactlyThat ReloadKeeps ListStaysParseable ChildrenStay
CHECK_DEADLOCK FALSE
