CONSTANTS
  Conns = {1, 2, 3, 4, 5}
  IDMod = 65536
  MaxChats = 1
  MaxSteps = 99
  GenDepth = 28
  Ops = {"goneidle","wake","closebegin","closeend","churn","connect","login","agreed","setinfo","userlist","close","pm","getinfo","broadcast","setuser","kick","invitenew"}
  Thin = TRUE
INIT Init
NEXT Next
ACTION_CONSTRAINT Emit
INVARIANTS UniqueLiveIDs DeliveredOnlyToLive PrivateOnlyToMembers PublicOnlyToReaders NoDuplicateDelivery RosterConverges
CHECK_DEADLOCK FALSE
