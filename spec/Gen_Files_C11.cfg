CONSTANTS
  Deviations = {}
  Level = "core"
  MaxSteps = 99
  GenDepth = 5
  Thin = TRUE
INIT Init11
NEXT Next11
ACTION_CONSTRAINT Emit11
CHECK_DEADLOCK FALSE
