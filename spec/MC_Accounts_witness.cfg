CONSTANTS
  NL = 2
  NN = 1
  MaxSubs = 2
  MaxSteps = 5
  GenDepth = 99
  Ops = {"newuser","setuser","deluser","getuser","list","restart","login","update1","update2"}
  SubKinds = {"put","ren","del"}
  Thin = TRUE
  XPw = FALSE
  Long = FALSE
  Rand = FALSE
INIT Init
NEXT Next
VIEW View
CONSTRAINT Bound
INVARIANTS NeverThreeAccounts NeverRenamed

CHECK_DEADLOCK FALSE
