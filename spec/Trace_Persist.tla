---------------------------- MODULE Trace_Persist ----------------------------
(* Trace validation for C20.  log.ndjson is written by `vh-persist materialise` from strace logs of vh-persistd
   (the real stores performing scripted updates):
     world  the initial directory (files with content ids) and the values the real constructors loaded from it
     begin  an update starts (kind and arguments, payloads named by ids)
     sys    one system call on the config directory (call, mode, file, fd, content id) TOGETHER WITH what the real
            constructors load from the directory as it is when the process is killed at the entry of this call
            (crash), and - for a write - when it is killed after k bytes of it (cuts: k in {0, 1, half, len-1})
     end    the store's method returned (ok = no error = the change is acknowledged) + the recovery after it
     probes (on every crash point) crash HISTORIES through the real request handlers: the server was restarted on the
            crashed directory (real constructors), ONE further change was requested through its real handler (acked =
            the handler's reply acknowledges it), the server was restarted again: what the constructors hold then
     hist   (on sys / end lines) continuation after an EARLIER crash: the process was killed at a crash point of the
            previous update of this store (origin j, ci, cut; rec = what the constructors recovered there), the
            recorded calls that follow were re-executed on that crashed directory, and this is what the real
            constructors load from it at this boundary of the next update
   Every call is applied to the model's directory by Persist!SysApply (the action MC_Persist uses).  The recovery
   observations are judged with Persist!SafeRecovery against the model's old / new value (new = Effect(update, old)):
     VIOL C20   a store fails to load, the in-flight store holds neither the complete old nor the complete new value,
                another store changed, or an acknowledged change is not there after the acknowledgement
                - also for the continued histories (crash, restart, next update of the store, second crash or completion)
                - a change acknowledged by the real handler after a restart on a crashed directory is not there (or a
                  store no longer loads / holds neither value / another store changed) after the next restart
     DRIFT      an update the model does not enable or a call the model's directory cannot execute
     SHAPE      (informational) an update that survived every crash point and continuation here although its call sequence
                is not the protocol shape proven in MC_Persist
   Acceptance: every line consumed. *)
EXTENDS Persist, Json

VARIABLES l,       \* next line
          bad,     \* the current update already has a violating crash point
          steps,   \* the calls of the current update so far
          seen     \* <<run, u, class>> already reported

Log == ndJsonDeserialize("log.ndjson")
tvars == <<vars, l, bad, steps, seen>>

SeqToSet(sq) == {sq[i] : i \in DOMAIN sq}

(* temp files are identified by their name, final files by the key the constructor derives *)
Fl(f) == IF f.role = "final" THEN F(f.st, f.key) ELSE [st |-> f.st, key |-> f.raw, role |-> f.role]

ValIn(st, x) == CASE st = "board" -> x
                  [] st = "news" -> [cats |-> SeqToSet(x.cats), arts |-> SeqToSet(x.arts)]
                  [] OTHER -> SeqToSet(x)

(* what the real constructors produced, in the form Persist!SafeRecovery judges *)
ObsRes(o) == [st \in Stores |-> IF o[st].ok THEN Res("ok", ValIn(st, o[st].val)) ELSE Res("fail", Zero(st))]

StepOf(e) == [call |-> e.call, mode |-> e.mode, file |-> Fl(e.file), to |-> Fl(e.to), fd |-> e.fd, v |-> e.cid,
              k |-> "whole", ok |-> e.ok, app |-> e.app, creat |-> e.creat, len |-> e.len]

(* ---- crash-point classes ------------------------------------------------------------------------------------- *)
Tag(s) == IF s.call = "open" THEN "open-" \o s.mode ELSE s.call
PrevTag == IF Len(steps) = 0 THEN "begin" ELSE Tag(steps[Len(steps)])
FdRole(fd) == IF fd \in DOMAIN fds /\ \E p \in DOMAIN dir : p.role = "final" /\ dir[p] = fds[fd].ino THEN "final" ELSE "tmp"
RoleOf(s) == IF s.call \in {"write", "close", "ftruncate", "fsync"} THEN FdRole(s.fd)
             ELSE IF s.call \in {"rename", "link"} THEN s.to.role ELSE s.file.role
BoundaryClass(s) == "after-" \o PrevTag \o "-before-" \o Tag(s) \o "@" \o RoleOf(s)
CutClass(s) == "mid-write@" \o FdRole(s.fd)

Report(kind, e, extra) ==
  PrintT(kind \o " " \o ToJson([prop |-> "C20", run |-> e.run, line |-> l, op |-> e.op, u |-> e.u, detail |-> extra]))

PointDetail(p) ==
  LET r == ObsRes(p.o) IN
  [class |-> p.class, store |-> inflight.st, kind |-> inflight.u.kind, upd |-> inflight.u, cut |-> p.k,
   fails |-> Fails(r), neither |-> TornIn(r), errs |-> [st \in Fails(r) |-> p.o[st].err], state |-> p.o.key,
   recovered |-> IF inflight.st \in Fails(r) THEN "load error" ELSE ToJson(p.o[inflight.st].val),
   old |-> ToJson(inflight.old), new |-> ToJson(inflight.new)]

(* print one VIOL per (run, update, class): the point of the class with the smallest cut *)
ReportPoints(e, pts) ==
  \A c \in {p.class : p \in pts} :
     (<<e.run, e.u, c>> \notin seen) =>
        Report("VIOL", e, PointDetail(CHOOSE p \in pts : p.class = c /\ \A q \in pts : q.class = c => p.k <= q.k))

(* ---- protocol shape --------------------------------------------------------------------------------------------- *)
NormF(f) == IF f.role = "final" THEN <<f.st, f.key, "final">> ELSE <<f.st, "*", f.role>>
(* a temp file may have any name the constructors ignore and may be created by O_TRUNC on a fixed name or by O_EXCL
   on a fresh name (os.CreateTemp): both are "create" *)
NormMode(s) == IF s.call = "open" /\ s.file.role # "final" /\ s.mode \in {"trunc", "excl"} THEN "create" ELSE s.mode
NormStep(s) == <<s.call, NormMode(s), NormF(s.file), NormF(s.to)>>
Keep(s) == s.ok /\ s.call \notin {"fsync", "ack"}
RECURSIVE Squash(_)
Squash(sq) == IF Len(sq) <= 1 THEN sq
              ELSE IF sq[1].call = "write" /\ sq[2].call = "write" /\ sq[1].fd = sq[2].fd THEN Squash(Tail(sq))
              ELSE <<sq[1]>> \o Squash(Tail(sq))
Shape(sq) == LET q == Squash(SelectSeq(sq, Keep)) IN [i \in DOMAIN q |-> NormStep(q[i])]

(* ---- crash histories through the real handlers ------------------------------------------------------------------ *)
(* r = what was recovered at the crash point (judged safe); q = one probe: an ordinary update from the recovered
   state - whatever the dead process left behind is part of that state. *)
ProbeVerdict(q, r) ==
  LET st == StoreOf(q.upd)
      rv == r[st].val
      a == ObsRes(q.crash)
  IN IF ~Pre(q.upd, rv) THEN "skip"
     ELSE IF Fails(a) # {} THEN "store-fails-to-load"
     ELSE IF \E o \in Stores \ {st} : a[o].val # r[o].val THEN "other-store-changed"
     ELSE IF a[st].val = Effect(q.upd, rv) THEN "ok"
     ELSE IF a[st].val = rv THEN (IF q.acked THEN "acknowledged-change-not-durable" ELSE "ok")
     ELSE "neither-old-nor-new"
ProbeClass(q, r) == "restart-then-" \o q.upd.kind \o "/" \o ProbeVerdict(q, r)
(* the violating (point, probe) pairs of a set of crash points *)
BadProbes(pts) ==
  {<<p, i>> \in UNION {{<<p, i>> : i \in DOMAIN p.probes} : p \in {x \in pts : SafeRecovery(ObsRes(x.o))}} :
     ProbeVerdict(p.probes[i], ObsRes(p.o)) \notin {"ok", "skip"}}
ProbeDetail(p, i) ==
  LET q == p.probes[i]
      r == ObsRes(p.o)
      a == ObsRes(q.crash)
      st == StoreOf(q.upd)
  IN [class |-> ProbeClass(q, r), store |-> inflight.st, kind |-> inflight.u.kind, upd |-> inflight.u, cut |-> p.k,
      first_crash |-> p.class, then_requested |-> q.upd, acknowledged_by_handler |-> q.acked, handler_note |-> q.note,
      fails |-> Fails(a), errs |-> [x \in Fails(a) |-> q.crash[x].err],
      recovered_after_first_crash |-> ToJson(p.o[st].val),
      recovered_after_second_restart |-> IF st \in Fails(a) THEN "load error" ELSE ToJson(q.crash[st].val),
      expected |-> ToJson(Effect(q.upd, r[st].val))]
ProbeClasses(B) == {ProbeClass(x[1].probes[x[2]], ObsRes(x[1].o)) : x \in B}
ReportProbes(e, B) ==
  \A c \in ProbeClasses(B) :
     (<<e.run, e.u, c>> \notin seen) =>
        LET x == CHOOSE y \in B : ProbeClass(y[1].probes[y[2]], ObsRes(y[1].o)) = c IN Report("VIOL", e, ProbeDetail(x[1], x[2]))

(* ---- continuation after an earlier crash ------------------------------------------------------------------------ *)
(* History: killed at an earlier crash point where the constructors recovered h.rec for this store; then this update.
   Single-file stores are rewritten as a whole, so the complete new value is this update's recorded new value;
   account files are per login, so it is Effect(update, recovered).  A history in which the handlers would not issue
   this update on the recovered accounts is not judged. *)
HistRec(h) == ValIn(inflight.st, h.rec)
HistLive(h) == inflight.st # "accts" \/ Pre(inflight.u, HistRec(h))
HistNew(h) == IF inflight.st = "accts" THEN Effect(inflight.u, HistRec(h)) ELSE inflight.new
HistBad(h, isAcked) ==
  LET r == ObsRes(h.crash)
      st == inflight.st
  IN \/ Fails(r) # {}
     \/ r[st].val # HistRec(h) /\ r[st].val # HistNew(h)
     \/ \E o \in Stores \ {st} : r[o].val # val[o]
     \/ isAcked /\ r[st].val # HistNew(h)
HistDetail(h, cls) ==
  LET r == ObsRes(h.crash) IN
  [class |-> cls, store |-> inflight.st, kind |-> inflight.u.kind, upd |-> inflight.u, cut |-> h.cut,
   origin |-> [update |-> h.j, call |-> h.ci, cut |-> h.cut], fails |-> Fails(r),
   errs |-> [st \in Fails(r) |-> h.crash[st].err], state |-> h.crash.key,
   recovered_at_first_crash |-> ToJson(h.rec),
   recovered |-> IF inflight.st \in Fails(r) THEN "load error" ELSE ToJson(h.crash[inflight.st].val),
   new |-> ToJson(HistNew(h))]
BadHists(e, isAcked) == {i \in DOMAIN e.hist : HistLive(e.hist[i]) /\ HistBad(e.hist[i], isAcked)}
ReportHists(e, cls, B) ==
  (B # {} /\ <<e.run, e.u, cls>> \notin seen) => Report("VIOL", e, HistDetail(e.hist[CHOOSE i \in B : \A k \in B : i <= k], cls))

(* ---- events --------------------------------------------------------------------------------------------------- *)
Init == /\ l = 1 /\ bad = FALSE /\ steps = << >> /\ seen = {}
        /\ dir = << >> /\ ino = << >> /\ fds = << >>
        /\ val = [st \in Stores |-> Zero(st)] /\ acked = [st \in Stores |-> Zero(st)]
        /\ inflight = None /\ phase = "run"
        /\ loaded = [st \in Stores |-> Res("ok", Zero(st))]

World ==
  LET e == Log[l] IN
  /\ e.op = "world"
  /\ dir' = [p \in {Fl(e.files[i].file) : i \in DOMAIN e.files} |->
                             CHOOSE i \in DOMAIN e.files : Fl(e.files[i].file) = p]
  /\ ino' = [i \in DOMAIN e.files |-> IF e.files[i].empty THEN << >> ELSE Whole(e.files[i].cid)]
  /\ fds' = << >>
  /\ val' = [st \in Stores |-> ValIn(st, e.val[st])]
  /\ acked' = val'
  /\ inflight' = None /\ phase' = "run"
  /\ bad' = FALSE /\ steps' = << >>
  /\ UNCHANGED <<loaded, seen>>

Begin ==
  LET e == Log[l]
      u == e.upd
      st == StoreOf(u)
  IN
  /\ e.op = "begin"
  /\ IF inflight.kind = "none" /\ Pre(u, val[st])
       THEN /\ inflight' = [kind |-> "upd", u |-> u, st |-> st, old |-> val[st], new |-> Effect(u, val[st]), pc |-> 1,
                            proto |-> Proto(u, Effect(u, val[st])), acked |-> FALSE]
            /\ UNCHANGED seen
       ELSE /\ Report("DRIFT", e, [what |-> "update not enabled in the model", upd |-> u])
            /\ inflight' = None
            /\ seen' = seen
  /\ bad' = FALSE /\ steps' = << >>
  /\ UNCHANGED <<dir, ino, fds, val, acked, phase, loaded>>

SysEv ==
  LET e == Log[l]
      s == StepOf(e)
      pts == {[class |-> BoundaryClass(s), k |-> -1, o |-> e.crash, probes |-> e.probes]}
             \cup {[class |-> IF e.cuts[i].k = 0 THEN BoundaryClass(s) ELSE CutClass(s), k |-> e.cuts[i].k, o |-> e.cuts[i].crash,
                     probes |-> e.cuts[i].probes] : i \in DOMAIN e.cuts}
      badPts == {p \in pts : ~SafeRecovery(ObsRes(p.o))}
  IN
  /\ e.op = "sys"
  /\ IF inflight.kind # "upd"
       THEN /\ UNCHANGED <<dir, ino, fds, phase, bad, steps, seen>>      \* its begin was already reported as drift
       ELSE /\ ReportPoints(e, badPts)
            /\ ReportProbes(e, BadProbes(pts))
            /\ ReportHists(e, "continued-after-crash/" \o BoundaryClass(s), BadHists(e, FALSE))
            /\ seen' = seen \cup {<<e.run, e.u, p.class>> : p \in badPts}
                            \cup {<<e.run, e.u, c>> : c \in ProbeClasses(BadProbes(pts))}
                            \cup (IF BadHists(e, FALSE) # {} THEN {<<e.run, e.u, "continued-after-crash/" \o BoundaryClass(s)>>} ELSE {})
            /\ bad' = (bad \/ badPts # {} \/ BadHists(e, FALSE) # {} \/ BadProbes(pts) # {})
            /\ steps' = Append(steps, s)
            /\ IF SysGuard(s)
                 THEN SysApply(s)
                 ELSE /\ Report("DRIFT", e, [what |-> "call not executable in the model's directory", call |-> s])
                      /\ UNCHANGED <<dir, ino, fds, phase>>
  /\ UNCHANGED <<val, acked, inflight, loaded>>

EndEv ==
  LET e == Log[l]
      st == inflight.st
      o == e.crash
      cls == "after-" \o PrevTag \o "-before-end"
      hcls == "continued-after-crash/completed"
      pt == [class |-> cls, k |-> -1, o |-> o, probes |-> e.probes]
      unsafe == ~SafeRecovery(ObsRes(o))
      newThere == o[st].ok /\ ValIn(st, o[st].val) = inflight.new
      lost == e.ok /\ ~unsafe /\ ~newThere
      want == Shape(inflight.proto)
      got == Shape(steps)
  IN
  /\ e.op = "end"
  /\ IF inflight.kind # "upd"
       THEN UNCHANGED <<val, acked, seen>>
       ELSE /\ (unsafe => ReportPoints(e, {pt}))
            /\ ReportHists(e, hcls, BadHists(e, e.ok))
            /\ ReportProbes(e, BadProbes({pt}))
            /\ (lost /\ <<e.run, e.u, "acknowledged-change-not-durable">> \notin seen =>
                  Report("VIOL", e, PointDetail([class |-> "acknowledged-change-not-durable", k |-> -1, o |-> o])))
            /\ seen' = seen \cup (IF unsafe THEN {<<e.run, e.u, cls>>} ELSE {})
                            \cup (IF lost THEN {<<e.run, e.u, "acknowledged-change-not-durable">>} ELSE {})
                            \cup (IF BadHists(e, e.ok) # {} THEN {<<e.run, e.u, hcls>>} ELSE {})
                            \cup {<<e.run, e.u, c>> : c \in ProbeClasses(BadProbes({pt}))}
            /\ ((e.ok /\ ~bad /\ ~unsafe /\ ~lost /\ BadHists(e, e.ok) = {} /\ BadProbes({pt}) = {} /\ got # want) =>
                  Report("SHAPE", e, [what |-> "survives every crash point and continuation here, but is not the protocol shape proven in MC_Persist",
                                      kind |-> inflight.u.kind, got |-> got, want |-> want]))
            /\ val' = [val EXCEPT ![st] = IF o[st].ok THEN ValIn(st, o[st].val) ELSE inflight.old]
            /\ acked' = [acked EXCEPT ![st] = IF e.ok THEN inflight.new ELSE @]
  /\ inflight' = None
  /\ bad' = FALSE /\ steps' = << >>
  /\ UNCHANGED <<dir, ino, fds, phase, loaded>>

Next == /\ l <= Len(Log)
        /\ (World \/ Begin \/ SysEv \/ EndEv)
        /\ l' = l + 1
        /\ TLCSet(1, l')

Consumed == TLCGet(1) = Len(Log) + 1
=============================================================================
