---------------------------- MODULE MC_Transfer ----------------------------
(* Bounded instance of Transfer.

   MC_Transfer.cfg (Big = FALSE): exhaustive check.  Uploads: abstract stream lengths (preamble 1, header 3,
   resource fork header 1), data fork n <= MaxN, resource fork r in RsrcLens; the client's stream is delivered
   one abstract byte at a time and may be cut before any byte, at most MaxCuts times, each cut followed by a
   resume request (or a fresh request when no partial file exists; with AllowFresh also a fresh request although
   one exists); a foreign file may appear under the final name at any quiet moment.  Downloads: every class
   n <= MaxN x resume offset 0..n x preview x stored resource fork x stored info fork x name class, at byte level
   with the real header layout.

   Gen_Transfer_C09.cfg (Big = TRUE): the same machine with one Deliver per connection (any length): every
   sequence of cut offsets is one behaviour; each complete behaviour is printed as an upload script "U {...}".
   Gen_Transfer_C08.cfg: prints every download class as "D {...}". *)
EXTENDS Transfer, Json

CONSTANTS MaxN, RsrcLens, MaxCuts, Big, AllowFresh, AllowPlant, Ops

VARIABLES cur,   \* the step just taken (record)
          hist   \* the steps taken so far, with the stream position after each (the script)

mcvars == <<vars, cur, hist>>

LAbs == [pre |-> 1, hdr |-> 3, macr |-> 1]
RsrcAll == {-1, 0, 2}   \* -1: the client sends no resource fork
RsrcFew == {-1, 2}

Init == /\ \E n \in 0..MaxN, r \in RsrcLens : up = UpInit(n, r, LAbs)
        /\ out = [op |-> "init"]
        /\ cur = [op |-> "init"]
        /\ hist = <<>>

(* ---- download classes -------------------------------------------------------- *)
NameOf(c) == CASE c = "one"      -> <<97>>
               [] c = "ascii"    -> <<102, 105, 108, 101, 46, 116, 120, 116>>                  \* file.txt
               [] c = "long31"   -> [i \in 1..31 |-> 97 + (i % 26)]
               [] c = "macroman" -> <<99, 97, 102, 195, 169, 45, 195, 188, 46, 116, 120, 116>>  \* UTF-8 on disk
NameClasses == {"one", "ascii", "long31", "macroman"}
DataOf(n) == [i \in 1..n |-> 10 + i]
RsrcOf(r) == IF r < 0 THEN [on |-> FALSE, bytes |-> <<>>] ELSE [on |-> TRUE, bytes |-> [i \in 1..r |-> 200 + i]]
CommentOf(cl) == [i \in 1..cl |-> 33 + i]

DlSteps ==
  IF out.op = "init" /\ up.n = 0 /\ up.r = -1
    THEN {[op |-> "dl", nc |-> nc, cl |-> cl, n |-> n, rsrc |-> r, info |-> info,
           f |-> [name |-> NameOf(nc), comment |-> CommentOf(cl), info |-> info, data |-> DataOf(n), rs |-> RsrcOf(r)],
           q |-> [resume |-> res, k |-> k, preview |-> pv]] :
            nc \in NameClasses, n \in 0..MaxN, r \in RsrcLens, info \in BOOLEAN, cl \in {0, 2},
            res \in BOOLEAN, k \in 0..MaxN, pv \in BOOLEAN}
    ELSE {}
DlFeasible(s) == s.q.k <= s.n /\ (~s.q.resume => s.q.k = 0) /\ (~s.info => s.cl = 0)

(* ---- upload steps -------------------------------------------------------------- *)
Stopped == out.op \in {"request", "resume"} /\ ~out.granted
Active == up.ph \in {"granted", "xfer", "refused"}

(* the optional transfer-size field (108) of a 203 request, present or absent, with and without the resume option:
   the statement gives it no influence on what is stored (Request / Resume ignore s.size).  The exhaustive check
   enumerates both; emitted scripts leave it open ("any") and the driver draws it for every request. *)
SizeField == IF Big THEN {"any"} ELSE {"present", "absent"}

UpSteps ==
  IF out.op = "dl" \/ Stopped THEN {}
  ELSE
    (IF up.ph \in {"idle", "dead"}
       THEN (IF up.inc.on THEN {[op |-> "resume", size |-> z] : z \in SizeField}
                          ELSE {[op |-> "request", size |-> z] : z \in SizeField})
            \cup (IF AllowFresh /\ up.inc.on THEN {[op |-> "request", size |-> z] : z \in SizeField} ELSE {})
       ELSE {})
    \cup (IF up.ph = "done"
            THEN (IF out.op = "publish" THEN {[op |-> "download"]} ELSE
                  IF out.op = "download" THEN {[op |-> "request"]} ELSE {})
            ELSE {})
    \cup (IF Active
            THEN (IF Big THEN (IF up.pos = 0
                                 THEN {[op |-> "deliver", j |-> j] :
                                         j \in IF up.cuts >= MaxCuts /\ ~up.final.on THEN {Total(up)} ELSE 1..Total(up)}
                                 ELSE {})
                  ELSE (IF up.pos < Total(up) THEN {[op |-> "deliver", j |-> 1]} ELSE {}))
            ELSE {})
    \cup (IF Active /\ (up.pos < Total(up) \/ up.ph = "refused") /\ (up.cuts < MaxCuts \/ up.ph = "refused" \/ up.final.on)
            THEN {[op |-> "cut"]} ELSE {})
    \cup (IF up.ph = "xfer" /\ up.pos = Total(up) THEN {[op |-> "publish"]} ELSE {})
    \cup (IF AllowPlant /\ ~up.final.on /\ (up.ph \in {"idle", "dead"} \/ (up.ph = "granted" /\ up.pos = 0))
            THEN {[op |-> "plant"]} ELSE {})

AllSteps == {s \in UpSteps \cup {d \in DlSteps : DlFeasible(d)} : s.op \in Ops}

Step(s) ==
  /\ IF s.op = "dl" THEN Download(s) ELSE UpApply(s)
  /\ cur' = s
  /\ hist' = Append(hist, IF s.op \in {"deliver", "cut"} THEN [op |-> s.op, at |-> Where(up')] ELSE [op |-> s.op])

Next == \E s \in AllSteps : Step(s)

Spec == Init /\ [][Next]_mcvars

View == <<up, out, cur>>

(* ---- C08 at design level --------------------------------------------------------- *)
DlByteExact == cur.op = "dl" => /\ DlExact(cur.f, cur.q)
                                /\ out.stream = DlStream(cur.f, cur.q) /\ out.reply = DlReply(cur.f, cur.q)
(* the judge used on real logs accepts the model's own stream ... *)
DlJudgeAccepts == cur.op = "dl" =>
   LET c == CaseOf(cur.f, cur.q)  o == DlModelFacts(cur.f, cur.q)
   IN DlJudge(c, o) = {} /\ DlDrift(c, o) = {}
(* ... and rejects every single corrupted fact the statement constrains *)
DlJudgeSensitive == cur.op = "dl" =>
   LET c == CaseOf(cur.f, cur.q)  o == DlModelFacts(cur.f, cur.q)
       R == IF c.rsrc < 0 THEN 0 ELSE c.rsrc
   IN /\ "ref107" \in DlJudge(c, [o EXCEPT !.has107 = FALSE])
      /\ "size207" \in DlJudge(c, [o EXCEPT !.f207 = @ + 1])
      /\ "data" \in DlJudge(c, [o EXCEPT !.dataMatches = FALSE])
      /\ (c.preview \/ c.rsrc < 0 => "size108" \in DlJudge(c, [o EXCEPT !.f108 = @ + 1]))
      /\ (c.preview => "previewBare" \in DlJudge(c, [o EXCEPT !.hdrLen = 1]))
      /\ (~c.preview => /\ "infoSize" \in DlJudge(c, [o EXCEPT !.infoSizeField = @ + 1])
                        /\ "nameLen" \in DlJudge(c, [o EXCEPT !.nameLenField = @ + 1])
                        /\ "header" \in DlJudge(c, [o EXCEPT !.hdrLen = 0]))
      /\ "tail" \in DlJudge(c, [o EXCEPT !.tail = [kind |-> "raw", size |-> 0, bodyLen |-> o.tail.bodyLen + 1, match |-> FALSE]])
      /\ "tail" \in DlJudge(c, [o EXCEPT !.tail = [kind |-> "macr", size |-> R + 1, bodyLen |-> R, match |-> TRUE]])
      /\ (R > 0 => /\ "tail" \in DlJudge(c, [o EXCEPT !.tail.match = FALSE])
                   /\ "tail" \in DlJudge(c, [o EXCEPT !.tail = [kind |-> "none", size |-> 0, bodyLen |-> 0, match |-> TRUE]]))

(* ---- script emission ------------------------------------------------------------- *)
Terminal == \/ out'.op = "request" /\ up'.ph = "done"
            \/ out'.op \in {"request", "resume"} /\ ~out'.granted /\ up'.ph # "done"
EmitUp == Terminal => PrintT("U " \o ToJson([n |-> up.n, r |-> up.r, steps |-> hist']))
EmitDl == cur'.op = "dl" =>
   PrintT("D " \o ToJson([n |-> cur'.n, k |-> cur'.q.k, resume |-> cur'.q.resume, preview |-> cur'.q.preview,
                          rsrc |-> cur'.rsrc, info |-> cur'.info, nc |-> cur'.nc, cl |-> cur'.cl]))
=============================================================================
