----------------------------- MODULE MC_Server -----------------------------
(* Bounded instance of Server for exhaustive checking (MC_Server.cfg) and for generating action scripts
   (Gen_Server.cfg, simulation): 3 connection slots, 2 addresses, 3 accounts, at most MaxChats private chats,
   user IDs allocated modulo IDMod so that the counter wraps inside the model. *)
EXTENDS Server, Json

CONSTANTS IDMod, MaxChats, MaxSteps, GenDepth,
          Ops,    \* the step kinds enabled in this configuration (one family per property)
          Thin    \* TRUE: few argument variants per step kind (keeps random walks balanced)

VARIABLES ctr,    \* the registry's ID counter (MemClientMgr.nextClientID)
          view,   \* slot -> [on, s]: set of user records: the roster a client keeps from list + notifications
          hist    \* the steps taken so far (the script)

mcvars == <<vars, ctr, view, hist>>

A == <<65>>  B == <<66, 98>>
Addrs == {"10.1.1.1", "10.1.1.12", "10.2.2.2"}   \* one address is a textual prefix of another

(* "brk": an account whose stored password hash is unusable (empty / plain text / truncated): no password matches it *)
Accounts == [g \in {"guest", "adm", "mute", "mod", "brk"} |->
   CASE g = "guest" -> [pw |-> <<>>,  name |-> <<103>>, acc |-> {9, 10, 11, 26, 40}]
     [] g = "adm"   -> [pw |-> <<1>>, name |-> <<97>>,  acc |-> {9, 10, 11, 17, 22, 24, 26, 32, 40}]
     [] g = "mute"  -> [pw |-> <<2>>, name |-> <<109>>, acc |-> {23}]
     [] g = "mod"   -> [pw |-> <<3>>, name |-> <<111>>, acc |-> {10, 11, 22, 26, 40}]
     [] g = "brk"   -> [pw |-> <<255, 254>>, name |-> <<98>>, acc |-> {9, 10, 17, 22}]]   \* may disconnect (shown as admin) but may not read chat

Init == /\ InitWith(Accounts, <<72, 105>>)
        /\ ctr = 0
        /\ view = [c \in Conns |-> [on |-> FALSE, s |-> {}]]
        /\ hist = <<>>

(* intended allocator: advance the counter, skipping IDs held by connected clients *)
InUse(i) == \E c \in Live : conn[c].id = i
RECURSIVE Probe(_)
Probe(k) == IF InUse((ctr + k) % IDMod) THEN Probe(k + 1) ELSE k
NextCtr == ctr + Probe(1)
NextId == NextCtr % IDMod

LowestFree == CHOOSE c \in Conns : conn[c].ph = "free" /\ \A d \in Conns : conn[d].ph = "free" => c <= d
AnyFree == \E c \in Conns : conn[c].ph = "free"
Chats == DOMAIN chats

(* "ADM", "Adm", "adm ", "GUEST": spellings that are NOT the login of any account (logins are compared exactly) *)
LoginVariants == IF Thin THEN {<<"", <<>>>>, <<"adm", <<1>>>>, <<"mute", <<2>>>>, <<"mod", <<3>>>>, <<"adm", <<2>>>>, <<"nobody", <<>>>>, <<"", <<5>>>>, <<"brk", <<>>>>, <<"brk", <<1>>>>,
                                 <<"ADM", <<1>>>>, <<"Adm", <<1>>>>, <<"adm ", <<1>>>>, <<"GUEST", <<>>>>}
                 ELSE {"", "adm", "mute", "mod", "nobody", "brk", "ADM", "Guest"} \X {<<>>, <<1>>, <<2>>, <<3>>, <<5>>}

StepsOf(c) ==
  IF conn[c].ph = "open" THEN
       {[op |-> "login", c |-> c, login |-> v[1], pw |-> v[2], flow |-> f, name |-> A, icon |-> 1, id |-> NextId]
          : v \in LoginVariants, f \in {"old", "new"}}
       \cup {[op |-> "loginbegin", c |-> c, login |-> v[1], pw |-> v[2], flow |-> f, name |-> A, icon |-> 1, id |-> -1]
          : v \in {<<"", <<>>>>, <<"adm", <<1>>>>, <<"adm", <<2>>>>}, f \in {"old", "new"}}
       \cup (IF Thin THEN {} ELSE {[op |-> "close", c |-> c]})
  ELSE IF conn[c].ph = "dialed" THEN {[op |-> "handshake", c |-> c]}
  ELSE IF conn[c].ph = "auth" THEN {[op |-> "loginend", c |-> c, id |-> NextId]}
  ELSE IF conn[c].ph = "closing" THEN {[op |-> "closeend", c |-> c]}
  ELSE IF conn[c].ph = "in" /\ conn[c].away THEN {[op |-> "wake", c |-> c], [op |-> "close", c |-> c]}
  ELSE IF conn[c].ph = "in" THEN
       (IF conn[c].ready THEN {[op |-> "goneidle", c |-> c]} ELSE {}) \cup
       (IF ~conn[c].ready
          THEN {[op |-> "agreed", c |-> c, name |-> n, icon |-> 2, opts |-> o, auto |-> <<33>>] : n \in {A, B}, o \in IF Thin THEN {0, 7} ELSE {0, 1, 2, 4}}
          ELSE {[op |-> "setinfo", c |-> c, name |-> n, icon |-> 3, icon4 |-> i4, opts |-> o, auto |-> <<34>>] : n \in IF Thin THEN {B} ELSE {A, B}, o \in {-1, 0, 5}, i4 \in BOOLEAN}
               \cup {[op |-> "userlist", c |-> c]})
       \cup {[op |-> "close", c |-> c], [op |-> "closebegin", c |-> c]}
       \cup {[op |-> "chat", c |-> c, chat |-> k, msg |-> <<104>>, emote |-> e, zeroid |-> z] : k \in {0} \cup Chats, e \in BOOLEAN, z \in BOOLEAN}
       \cup {[op |-> "invitenew", c |-> c, target |-> t] : t \in IF Len(chats) < MaxChats THEN {d \in Live \ {c} : conn[d].ph = "in"} ELSE {}}
       \cup {[op |-> "invite", c |-> c, chat |-> k, target |-> t] : k \in Chats, t \in {d \in Live \ {c} : conn[d].ph = "in"}}
       \cup {[op |-> o, c |-> c, chat |-> k] : o \in {"reject", "join", "leave"}, k \in Chats}
       \cup {[op |-> "subject", c |-> c, chat |-> k, subject |-> <<83>>] : k \in Chats}
       \cup {[op |-> "pm", c |-> c, target |-> t, msg |-> <<112>>] : t \in {d \in Conns : conn[d].ph \in {"in", "closed"}}}   \* (also to oneself)
       \cup {[op |-> "broadcast", c |-> c, msg |-> <<98>>]}
       \cup {[op |-> "getinfo", c |-> c, target |-> t] : t \in Live}
       \cup {[op |-> "setuser", c |-> c, login |-> l, name |-> <<120>>, acc |-> a, pwset |-> ps, newpw |-> <<5>>]
              : l \in IF Thin THEN {"guest"} ELSE {"guest", "mute", "zz"}, a \in {{}, {9, 10, 22}}, ps \in BOOLEAN}
       \cup {[op |-> "kick", c |-> c, target |-> t, ban |-> b] : t \in {d \in Live \ {c} : conn[d].ph = "in"}, b \in {0, 1, 2}}
  ELSE {}

GlobalSteps ==
  (IF AnyFree THEN {[op |-> "connect", c |-> LowestFree, addr |-> a] : a \in Addrs} ELSE {})
  \cup (IF AnyFree THEN {[op |-> "dial", c |-> LowestFree, addr |-> a] : a \in Addrs} ELSE {})   \* accepted, handshake still to come
  \cup {[op |-> "banadd", addr |-> a, class |-> k] : a \in {x \in Addrs : BanOf(x) \in {"none", "soon"}}, k \in {"soon", "past", "perm"}}   \* (also over a ban that is still running)
  \cup (IF (\E a \in DOMAIN bans : bans[a] = "soon") \/ (\E i \in DOMAIN hist : hist[i].op = "banadd" /\ hist[i].class = "soon" /\ \A j \in (i+1)..Len(hist) : hist[j].op # "wait")
          THEN {[op |-> "wait"]} ELSE {})   \* time passes beyond every short ban planted so far, replaced ones included
  \cup (IF \E c \in Conns : conn[c].ph \in {"in", "open"} THEN {[op |-> "restart"]} ELSE {})
  \cup (IF Live # {} THEN {[op |-> "churn", n |-> IDMod - 1]} ELSE {})
  \cup (IF AnyFree THEN {[op |-> "rawfail", c |-> LowestFree, addr |-> a, hs |-> h, matches |-> FALSE, sentFirst |-> TRUE,
                            login |-> "adm", pw |-> <<9>>, trailing |-> t]
                             : a \in {x \in Addrs : ~Refused(x)}, h \in {"ok", "badproto", "badsub", "short", "lower", "mixed"}, t \in {0, 2}} ELSE {})

EnabledSteps == {s \in GlobalSteps \cup UNION {StepsOf(c) : c \in Conns} : s.op \in Ops}
AllSteps == IF EnabledSteps = {} THEN {[op |-> "idle"]} ELSE EnabledSteps   \* keeps random walks going to GenDepth

(* the roster a client maintains *)
RECURSIVE Fold(_, _, _)
Fold(v, sq, lister) ==
  IF sq = <<>> THEN v
  ELSE LET m == Head(sq)
           cur == v[m.to]
           nxt == IF m.rep = 1 /\ m.err = 0 /\ m.to = lister
                    THEN [on |-> TRUE, s |-> {m.users[i] : i \in DOMAIN m.users}]   \* a fetched user list
                  ELSE IF ~cur.on THEN cur
                  ELSE IF m.t = 301 THEN [cur EXCEPT !.s = {r \in @ : r.uid # m.uid} \cup {[uid |-> m.uid, name |-> m.name, icon |-> m.icon, flags |-> m.flags]}]
                  ELSE IF m.t = 302 THEN [cur EXCEPT !.s = {r \in @ : r.uid # m.uid}]
                  ELSE cur
       IN Fold([v EXCEPT ![m.to] = nxt], Tail(sq), lister)

Range(sq) == {sq[i] : i \in DOMAIN sq}

Step(s) ==
  /\ Apply(s)
  /\ ctr' = IF s.op \in {"login", "loginend"} /\ conn'[s.c].ph = "in" THEN NextCtr
            ELSE IF s.op = "churn" THEN ctr + s.n ELSE ctr
  /\ view' = Fold(view, out', IF s.op \in {"userlist", "wake"} THEN s.c ELSE 0)   \* deliveries applied in order
  /\ hist' = Append(hist, s)

Next == \E s \in AllSteps : Step(s)

Spec == Init /\ [][Next]_mcvars

Bound == Len(hist) < MaxSteps
View == <<accts, conn, chats, bans, ctr, view, Len(hist)>>   \* the step count keeps the bounded search complete under VIEW

(* C13: a client that folds the notifications it receives into the list it fetched has the current list *)
(* "users who have completed login": connections of 1.5+ clients that have not yet sent Agreed are in the
   registry (and in fetched lists, with an empty name) but have not been announced; they are compared only
   once they are ready. *)
Ready == {d \in Live : conn[d].ready}   \* (a closing connection is still registered and listed)
PendingIds == {conn[d].id : d \in Live \ Ready}
Roster == {UserRec(d) : d \in Ready}
RosterConverges == \A c \in {d \in Ready : conn[d].ph = "in"} : view[c].on => {r \in view[c].s : r.uid \notin PendingIds} = Roster

(* C13: what the registry hands out never collides with a live user *)
FreshIdOnLogin == [][\A c \in Conns : conn[c].ph # "in" /\ conn'[c].ph = "in" => ~InUse(conn'[c].id)]_mcvars

(* C17: a connection from a refused address never gets past the door *)
BanAtDoor == [][\A c \in Conns : conn[c].ph \in {"free", "dialed"} /\ conn'[c].ph = "open" => ~Refused(conn'[c].addr)]_mcvars

(* C12: after leaving, nothing from that chat *)
NoPostLeaveDelivery ==
  [][\A i \in DOMAIN out' : out'[i].t \in {106, 117, 119} /\ out'[i].chat # 0
        => out'[i].to \in chats'[out'[i].chat].members \/ out'[i].to \in chats[out'[i].chat].members]_mcvars

(* script emission: simulation prints the walk when it reaches GenDepth *)
Emit == (Len(hist') = GenDepth) => PrintT("B " \o ToJson([world |-> [accts |-> Accounts, agreement |-> agreement, broken |-> {"brk"}], steps |-> hist']))
=============================================================================
