CONSTANTS
  Deviations = {}
  Level = "core"
  MaxSteps = 2
  GenDepth = 99
  Thin = FALSE
INIT Init11
NEXT Next11
INVARIANTS ListedIsAddressable ListShowsExactly ViewsAgreeOnSizeType StaysInRoot
PROPERTIES ForksTravel ForksStay BystandersKeepForks NewFolderNeverReplaces OpsChangeExactly
CHECK_DEADLOCK FALSE
