----------------------------- MODULE Gen_Stream -----------------------------
(* Script generation for C02.  The frame sequences are those of the session library of the Go driver
   (`vh-stream -describe` writes sessions.ndjson: the lengths of the concrete bytes it will send).  A script is
   a session and a partition of its byte stream into TCP segments; TLC produces
     Gen_Stream_cuts.cfg (exhaustive): the unsegmented stream, every one-cut segmentation whose cut lies within
        +-2 bytes of a frame boundary or inside a fixed-size header, every two-cut segmentation whose cuts lie
        within +-1 byte of a frame boundary or on a field boundary inside a fixed-size header, the
        one-byte-at-a-time segmentation, one-byte-at-a-time after an unsplit first frame, and equal pieces of
        7 / 64 / 1000 bytes, halves and thirds, and whole frames 1 / 10 / 70 per segment;
     Gen_Stream_sim.cfg (simulation): random walks of Deliver(k), k drawn from a size palette.
   Every step is Stream!Segment (Deliver(k) with the server's side elided; MC_Stream covers the server). *)
EXTENDS Stream, Json

CONSTANTS MaxCuts,   \* cuts per enumerated segmentation
          TwoCut,    \* names of the sessions whose two-cut segmentations are enumerated ({} = all)
          Sim        \* TRUE: random-walk generation

VARIABLES sess,   \* index into Sessions
          segs,   \* the segments delivered so far
          style   \* how this script is being built

gvars == <<vars, sess, segs, style>>

Sessions == ndJsonDeserialize("sessions.ndjson")

(* bytes at the start of a frame that form a fixed-size header *)
HeaderLen(fr) ==
  CASE fr.k \in {"H", "P", "FILP", "INFOH", "DATAH", "MACRH", "FSIZE"} -> fr.n
    [] fr.k \in {"L", "T"} -> 22      \* 20-byte header + parameter count
    [] fr.k \in {"ITEMD", "ITEMF"} -> 6
    [] OTHER -> 0

(* field boundaries inside the fixed-size headers (offsets from the start of the frame) *)
FieldCuts(fr) ==
  CASE fr.k \in {"L", "T"} -> {2, 4, 8, 12, 14, 16, 20}
    [] fr.k = "H" -> {1, 4, 8, 10, 11}
    [] fr.k = "P" -> {1, 4, 8, 12, 15}
    [] fr.k = "FILP" -> {4, 6, 22}
    [] fr.k \in {"INFOH", "DATAH", "MACRH"} -> {4, 12, 15}
    [] fr.k \in {"ITEMD", "ITEMF"} -> {1, 2, 4, 6}
    [] fr.k = "FSIZE" -> {2}
    [] OTHER -> {}

Within(fs, S) == LET t == TotalOf(fs) IN {p \in S : p >= 1 /\ p < t}

Pos1(fs) == Within(fs, UNION {((EndOf(fs, i) - 2)..(EndOf(fs, i) + 2))
                                   \cup ((StartOf(fs, i) + 1)..(StartOf(fs, i) + HeaderLen(fs[i]) - 1)) : i \in DOMAIN fs})
Pos2(fs) == Within(fs, UNION {((EndOf(fs, i) - 1)..(EndOf(fs, i) + 1))
                                   \cup {StartOf(fs, i) + o : o \in {x \in FieldCuts(fs[i]) : x < fs[i].n}} : i \in DOMAIN fs})

Palette(st) == CASE st = "tiny" -> 1..3
                 [] st = "small" -> 1..24
                 [] st = "mixed" -> {1, 2, 3, 5, 8, 12, 13, 16, 20, 21, 22, 23, 40, 100, 700, 4096}
                 [] st = "big" -> {1, 7, 16, 22, 100, 1000, 4096, 4097, 20000, 32768, 33000}
                 [] OTHER -> {}

Styles(s) == IF ~Sim THEN {"cuts"}
             ELSE IF s.total <= 1500 THEN {"tiny", "small", "mixed", "tiny-head", "small-head", "mixed-head"}
             ELSE IF s.total <= 8000 THEN {"small", "mixed", "small-head", "mixed-head", "big"}
             ELSE {"big", "big-head"}

Base(st) == CASE st \in {"tiny", "tiny-head"} -> "tiny" [] st \in {"small", "small-head"} -> "small"
              [] st \in {"mixed", "mixed-head"} -> "mixed" [] OTHER -> "big"
HeadFirst(st) == st \in {"tiny-head", "small-head", "mixed-head", "big-head"}

Init == \E i \in DOMAIN Sessions :
          /\ sess = i
          /\ style \in Styles(Sessions[i])
          /\ segs = <<>>
          /\ InitWith(Sessions[i].frames)

Tot == Sessions[sess].total      \* = Total (checked by the trace specification for every run)

StepTo(p) == /\ SegmentIn(p - delivered, Tot)
             /\ segs' = Append(segs, p - delivered)
             /\ UNCHANGED <<sess, style>>

Ones(n) == [i \in 1..n |-> 1]
(* the stream in pieces of k bytes (the last one shorter) *)
Chunks(n, k) == [i \in 1..((n + k - 1) \div k) |-> IF i * k <= n THEN k ELSE n - (i - 1) * k]
ChunkSizes(n) == (IF n <= 3000 THEN {7} ELSE {}) \cup (IF n <= 20000 THEN {64} ELSE {}) \cup {1000}
                 \cup {(n + 1) \div 2, (n + 2) \div 3}       \* two and three large segments

(* whole frames per segment: g frames in each (g = 1: every request in its own read; larger g: coalesced requests) *)
Min(a, b) == IF a < b THEN a ELSE b
Grouped(fs, g) == SelectSeq([j \in 1..((Len(fs) + g - 1) \div g) |->
                               EndOf(fs, Min(j * g, Len(fs))) - EndOf(fs, (j - 1) * g)], LAMBDA x : x > 0)
GroupSizes == {1, 10, 70}

(* sessions of very many frames: first cuts at the frame boundaries +-1 only *)
Many(fs) == Len(fs) > 60
PosB(fs) == Within(fs, UNION {(EndOf(fs, i) - 1)..(EndOf(fs, i) + 1) : i \in DOMAIN fs})

RECURSIVE SumSeq(_, _)
SumSeq(sq, j) == IF j = 0 THEN 0 ELSE sq[j] + SumSeq(sq, j - 1)

CutNext ==
  LET P1 == Pos1(frames)
      P2 == Pos2(frames)
  IN
  \/ /\ segs = <<>>                 \* first cut (or none: the unsegmented stream)
     /\ \E p \in (IF Many(frames) THEN PosB(frames) ELSE P1 \cup P2) \cup {Tot} :
          /\ SegmentIn(p, Tot) /\ segs' = <<p>> /\ UNCHANGED sess
          /\ style' = IF p = Tot THEN "cut0" ELSE IF ~Many(frames) /\ p \in P2 THEN "cuts2" ELSE "cuts1"
  \/ /\ style = "cuts2" /\ Len(segs) < MaxCuts /\ (TwoCut = {} \/ Sessions[sess].sess \in TwoCut)     \* further cuts only between positions of the reduced set
     /\ \E p \in P2 : p > delivered /\ StepTo(p)
  \/ /\ style \in {"cuts1", "cuts2"} /\ StepTo(Tot)
  \/ /\ segs = <<>> /\ Sessions[sess].ones          \* one byte at a time
     /\ SegmentIn(Tot, Tot) /\ segs' = Ones(Tot) /\ style' = "ones" /\ UNCHANGED sess
  \/ /\ segs = <<>> /\ Len(frames) > 1               \* whole frames, g per segment
     /\ \E g \in GroupSizes : /\ g < Len(frames) /\ SegmentIn(Tot, Tot) /\ segs' = Grouped(frames, g)
                                /\ style' = "frames" /\ UNCHANGED sess
  \/ /\ segs = <<>>                                  \* equal pieces
     /\ \E k \in ChunkSizes(Tot) : /\ k < Tot /\ SegmentIn(Tot, Tot) /\ segs' = Chunks(Tot, k)
                                      /\ style' = "chunks" /\ UNCHANGED sess
  \/ /\ segs = <<>> /\ Sessions[sess].ones /\ Len(frames) > 1   \* the same after an unsplit first frame
     /\ SegmentIn(Tot, Tot) /\ segs' = <<frames[1].n>> \o Ones(Tot - frames[1].n) /\ style' = "ones-head"
     /\ UNCHANGED sess

SimNext ==
  \/ /\ HeadFirst(style) /\ segs = <<>> /\ StepTo(frames[1].n)
  \/ /\ ~(HeadFirst(style) /\ segs = <<>>)
     /\ \E k \in Palette(Base(style)) : k <= Tot - delivered /\ StepTo(delivered + k)

GenNext == delivered < Tot /\ IF Sim THEN SimNext ELSE CutNext

Src == IF Sim THEN "sim-" \o style
       ELSE IF style' \in {"ones", "ones-head", "chunks", "frames"} THEN style' ELSE "cut" \o ToString(Len(segs') - 1)

Emit == (delivered' = Tot) =>
          PrintT("B " \o ToJson([sess |-> Sessions[sess].sess, segs |-> segs', src |-> Src]))

GenInv == Tot = Total /\ delivered <= Total /\ SumSeq(segs, Len(segs)) = delivered
=============================================================================
