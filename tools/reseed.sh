#!/bin/bash
# reseed.sh [jobs] : runs every seeded change under seeded/<id>/ against its property's quick check (bin/seedtest, scratch
# worktrees) and prints one line per change: <id> caught|MISSED|ERROR <first signature>
cd /verif
jobs=${1:-2}
ls -d seeded/C*-*/ | sed 's#seeded/##; s#/##' | xargs -P "$jobs" -I{} sh -c '
  id={}; p=${id%%-*}
  out=$(bin/seedtest seeded/$id/patch.diff $p 2>&1)
  sig=$(echo "$out" | grep -m1 "signature:" | sed "s/ *signature: //")
  if echo "$out" | grep -q "exit=1"; then echo "$id caught $sig";
  elif echo "$out" | grep -q "exit=0"; then echo "$id MISSED";
  else echo "$id ERROR $(echo "$out" | grep -m1 -E "error|ERROR|DRIFT" | cut -c1-160)"; fi'
