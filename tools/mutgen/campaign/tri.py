import json,sys
# usage: tri.py ID class prop note [input] [strengthening]
a=sys.argv[1:]
rec=dict(id=a[0],cls=a[1],prop=a[2],note=a[3],manifest=a[4] if len(a)>4 else "",strengthen=a[5] if len(a)>5 else "")
open('/var/tmp/mutcamp/triage.jsonl','a').write(json.dumps(rec)+"\n")
open('/var/tmp/mutcamp/triaged.txt','a').write(a[0]+"\n")
