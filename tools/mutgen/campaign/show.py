import json,sys
st=sys.argv[1].split(',')
seen=set(l.strip() for l in open('/var/tmp/mutcamp/triaged.txt')) if __import__('os').path.exists('/var/tmp/mutcamp/triaged.txt') else set()
for l in open('/var/tmp/mutcamp/results.jsonl'):
    r=json.loads(l)
    if r['status'] in st and r['id'] not in seen:
        print(r['id'],r['file']+':'+str(r['line']),r['func'],r['op'],'|',r['orig'],'=>',r['repl'],'| checks:',[(c['prop'],c['rc']) for c in r.get('checks',[])])
        if r['status']=='check-error': print('     ',r.get('detail','')[:1200].replace('\n','\n      '))
