#!/usr/bin/env python3
"""extra.py: runs follow-up checks listed in extra.txt ('<id> Cxx Cyy' per line), 3 in parallel; results -> extra.jsonl"""
import json, os, shutil, sys, threading, queue
sys.path.insert(0, "/var/tmp/mutcamp")
import run as R
ms = {json.loads(l)["id"]: json.loads(l) for l in open(R.GEN + "/mutants.jsonl")}
done = set()
if os.path.exists(R.BASE + "/extra.jsonl"):
    for l in open(R.BASE + "/extra.jsonl"):
        e = json.loads(l); done.add((e["id"], e["check"]["prop"]))
q = queue.Queue()
for l in open(R.BASE + "/extra.txt"):
    a = l.split()
    if a:
        q.put((a[0], [p for p in a[1:] if (a[0], p) not in done]))
lock = threading.Lock()
def worker(slot):
    while True:
        try: mid, props = q.get_nowait()
        except queue.Empty: return
        if not props: continue
        m = ms[mid]
        wt = "%s/wt/x%d" % (R.BASE, slot); scratch = "%s/scratch/x%d" % (R.BASE, slot)
        shutil.rmtree(scratch, ignore_errors=True); os.makedirs(scratch, exist_ok=True)
        with R.wt_lock:
            if os.path.exists(wt): R.rm_worktree(wt)
            R.sh(["git", "-C", "/repo", "worktree", "add", "-q", "--detach", wt, "HEAD"], timeout=120)
        try:
            rc, out, _ = R.sh(["git", "-C", wt, "apply", R.GEN + "/" + m["patch"]], timeout=60)
            assert rc == 0, out
            for p in props:
                res = R.run_check(p, wt, scratch)
                with lock:
                    open(R.BASE + "/extra.jsonl", "a").write(json.dumps(dict(id=mid, check=res)) + "\n")
                    print(mid, p, res["rc"], res["viol"], res["sigs"][:1], res["err"][:200], flush=True)
        finally:
            with R.wt_lock: R.rm_worktree(wt)
            shutil.rmtree(scratch, ignore_errors=True)
ts = [threading.Thread(target=worker, args=(i,)) for i in range(3)]
[t.start() for t in ts]; [t.join() for t in ts]
