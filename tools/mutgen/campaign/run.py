#!/usr/bin/env python3
"""Mutation campaign runner: run.py --limit N [--hours H] [--ids M0001,M0002] [--workers 3]"""
import argparse, fnmatch, json, os, re, shutil, signal, subprocess, sys, threading, time, queue

BASE = "/var/tmp/mutcamp"
GEN = BASE + "/gen"
RES = BASE + "/results.jsonl"
GOENV = dict(GOFLAGS="-mod=mod", GOPROXY="off", GOSUMDB="off", GOTOOLCHAIN="local")

EXTRA = [  # (file:func glob, props) — helper functions that the anchors do not name but the properties plausibly cover
    ("hotline/client_manager.go:*", ["C13", "C04"]),
    ("hotline/client_conn.go:ClientConn.handleTransaction", ["C03", "C04", "C14", "C05"]),
    ("hotline/client_conn.go:ClientFileTransferMgr.*", ["C08", "C09"]),
    ("hotline/client_conn.go:NewClientFileTransferMgr", ["C08", "C09"]),
    ("hotline/client_conn.go:ClientConn.FileRoot", ["C07", "C11"]),
    ("hotline/client_conn.go:*", ["C13", "C14"]),
    ("hotline/file_transfer.go:MemFileTransferMgr.*", ["C08", "C09", "C10"]),
    ("hotline/file_transfer.go:ClientConn.NewFileTransfer", ["C08", "C09", "C10"]),
    ("hotline/file_transfer.go:FileTransfer.*", ["C08", "C10", "C01"]),
    ("hotline/file_transfer.go:*", ["C08", "C09", "C10"]),
    ("hotline/file_wrapper.go:*", ["C08", "C09", "C11", "C10"]),
    ("hotline/files.go:*", ["C11", "C10", "C01"]),
    ("hotline/flattened_file_object.go:*", ["C01", "C08", "C09", "C11"]),
    ("hotline/file_store.go:*", ["C11", "C09", "C07"]),
    ("hotline/file_resume_data.go:*", ["C01", "C09", "C08"]),
    ("hotline/file_path.go:*", ["C01", "C07", "C11"]),
    ("hotline/file_types.go:*", ["C11", "C01"]),
    ("hotline/file_name_with_info.go:*", ["C01", "C11"]),
    ("hotline/server.go:Server.NewClientConn", ["C13", "C04"]),
    ("hotline/server.go:Server.keepaliveHandler", ["C13"]),
    ("hotline/server.go:sendBanMessage", ["C17"]),
    ("hotline/server.go:Server.SendAll", ["C13", "C05"]),
    ("hotline/server.go:Server.handleFileTransfer", ["C08", "C09", "C10"]),
    ("hotline/server.go:*", ["C03", "C04", "C13", "C17"]),
    ("hotline/transaction_handlers.go:*", ["C04", "C05"]),
    ("hotline/transaction.go:*", ["C01", "C14", "C02"]),
    ("hotline/field.go:*", ["C01", "C14"]),
    ("hotline/user.go:*", ["C01", "C13", "C04"]),
    ("hotline/account.go:*", ["C01", "C15", "C04"]),
    ("hotline/access.go:*", ["C05", "C16"]),
    ("hotline/chat.go:*", ["C12"]),
    ("hotline/handshake.go:*", ["C04", "C02", "C01"]),
    ("hotline/news.go:*", ["C01", "C18"]),
    ("hotline/tracker.go:*", ["C01"]),
    ("hotline/time.go:*", ["C01", "C11"]),
    ("hotline/stats.go:*", ["C13"]),
    ("hotline/transfer.go:*", ["C02", "C09", "C01"]),
    ("hotline/panic.go:*", ["C03"]),
    ("internal/mobius/agreement.go:*", ["C19"]),
    ("internal/mobius/news.go:*", ["C19", "C20"]),
    ("internal/mobius/ban.go:*", ["C17", "C20"]),
    ("internal/mobius/threaded_news.go:*", ["C18", "C20"]),
    ("internal/mobius/account_manager.go:*", ["C15", "C16", "C20", "C07"]),
    ("internal/mobius/transaction_handlers.go:RegisterHandlers", ["C05", "C04"]),
]
MAXCHECKS = 6


def checks_for(m):
    out = list(m["props"])
    key = m["file"] + ":" + m["func"]
    for g, ps in EXTRA:
        if fnmatch.fnmatchcase(key, g):
            for p in ps:
                if p not in out:
                    out.append(p)
    if len(out) < 2:
        for p in m["file_props"]:
            if p not in out:
                out.append(p)
            if len(out) >= 4:
                break
    return out[:MAXCHECKS]


def sh(cmd, cwd=None, env=None, timeout=600):
    e = dict(os.environ)
    e.update(GOENV)
    if env:
        e.update(env)
    t0 = time.time()
    p = subprocess.Popen(cmd, cwd=cwd, env=e, stdout=subprocess.PIPE, stderr=subprocess.STDOUT, text=True,
                         errors="replace", start_new_session=True)
    try:
        out, _ = p.communicate(timeout=timeout)
        rc = p.returncode
    except subprocess.TimeoutExpired:
        try:
            os.killpg(p.pid, signal.SIGKILL)
        except ProcessLookupError:
            pass
        out, _ = p.communicate()
        rc = -9
        out = (out or "") + "\n[TIMEOUT after %ds]" % timeout
    return rc, out, time.time() - t0


def rm_worktree(wt):
    sh(["git", "-C", "/repo", "worktree", "remove", "--force", wt], timeout=120)
    if os.path.exists(wt):
        shutil.rmtree(wt, ignore_errors=True)
        sh(["git", "-C", "/repo", "worktree", "prune"], timeout=120)


wt_lock = threading.Lock()


def run_check(prop, wt, scratch):
    rc, out, dt = sh(["/verif/bin/vcheck", "run", prop, "--tier", "quick"],
                     env={"VERIF_REPO": wt, "VERIF_SCRATCH": scratch}, timeout=360)
    sigs = re.findall(r"^\s*signature: (.*)$", out, re.M)
    viol = bool(re.search(r"^VIOLATION ", out, re.M))
    known = re.findall(r"^KNOWN-FINDING.*$", out, re.M)
    errhead = ""
    if rc not in (0, 1):
        mm = re.search(r"^(CHECK-ERROR|SPEC-DRIFT)", out, re.M)
        errhead = (out[mm.start():mm.start() + 900] if mm else out[-600:]).strip()
    return dict(prop=prop, rc=rc, viol=viol, sigs=sigs[:3], known=len(known), err=errhead, wall=round(dt, 1))


def process(m, slot):
    wt = "%s/wt/s%d" % (BASE, slot)
    scratch = "%s/scratch/s%d" % (BASE, slot)
    r = dict(id=m["id"], rank=m["rank"], file=m["file"], line=m["line"], func=m["func"], op=m["op"], orig=m["orig"],
             repl=m["repl"], tier=m["tier"], props=m["props"], t=time.strftime("%H:%M:%S"))
    t0 = time.time()
    try:
        shutil.rmtree(scratch, ignore_errors=True)
        os.makedirs(scratch, exist_ok=True)
        with wt_lock:
            if os.path.exists(wt):
                rm_worktree(wt)
            rc, out, _ = sh(["git", "-C", "/repo", "worktree", "add", "-q", "--detach", wt, "HEAD"], timeout=120)
        if rc != 0:
            r["status"] = "infra-error"
            r["detail"] = out[-300:]
            return r
        rc, out, _ = sh(["git", "-C", wt, "apply", GEN + "/" + m["patch"]], timeout=60)
        if rc != 0:
            r["status"] = "infra-error"
            r["detail"] = "apply: " + out[-300:]
            return r
        rc, out, dt = sh(["sh", "-c", "go build ./... && go build -tags verif ./..."], cwd=wt, timeout=600)
        if rc != 0:
            r["status"] = "build-fail"
            r["detail"] = out.strip().splitlines()[-1][:200] if out.strip() else ""
            return r
        rc, out, dt = sh(["go", "test", "-vet=off", "-count=1", "-timeout", "150s", "./..."], cwd=wt, timeout=400)
        r["test_wall"] = round(dt, 1)
        if rc != 0:
            r["status"] = "killed-by-tests"
            fails = re.findall(r"^\s*--- FAIL: (\S+)", out, re.M)
            if not fails:
                if "panic:" in out:
                    fails = ["panic"]
                elif "TIMEOUT" in out or "test timed out" in out:
                    fails = ["timeout"]
                elif "fatal error" in out:
                    fails = ["fatal error"]
            r["detail"] = ",".join(fails[:4])
            return r
        # candidate
        cs = checks_for(m)
        r["checks"] = []
        detected = None
        for c in cs:
            res = run_check(c, wt, scratch)
            if res["rc"] not in (0, 1, -9):
                res2 = run_check(c, wt, scratch)
                res2["retried"] = True
                res2["first_err"] = res["err"][:200]
                res = res2
            r["checks"].append(res)
            if res["rc"] == 1 and res["viol"]:
                detected = res
                break
            if res["rc"] == -9:
                break  # a check timed out (6 min): do not spend the remaining checks on a hanging mutant
        if detected:
            r["status"] = "detected"
            r["detected_by"] = detected["prop"]
            r["signature"] = detected["sigs"][0] if detected["sigs"] else ""
        elif any(x["rc"] not in (0, 1) for x in r["checks"]):
            r["status"] = "check-error"
            r["detail"] = "; ".join("%s: %s" % (x["prop"], x["err"][:700]) for x in r["checks"] if x["rc"] not in (0, 1))
        else:
            r["status"] = "survived"
        return r
    except Exception as e:  # noqa
        r["status"] = "infra-error"
        r["detail"] = repr(e)[:300]
        return r
    finally:
        r["wall"] = round(time.time() - t0, 1)
        with wt_lock:
            rm_worktree(wt)
        shutil.rmtree(scratch, ignore_errors=True)


def main():
    ap = argparse.ArgumentParser()
    ap.add_argument("--limit", type=int, default=10)
    ap.add_argument("--hours", type=float, default=4.0)
    ap.add_argument("--workers", type=int, default=3)
    ap.add_argument("--ids", default="")
    ap.add_argument("--redo", action="store_true")
    a = ap.parse_args()
    ms = [json.loads(l) for l in open(GEN + "/mutants.jsonl")]
    done = set()
    if os.path.exists(RES) and not a.redo:
        for l in open(RES):
            try:
                done.add(json.loads(l)["id"])
            except Exception:
                pass
    if a.ids:
        want = set(a.ids.split(","))
        todo = [m for m in ms if m["id"] in want]
    else:
        todo = [m for m in ms[:a.limit] if m["id"] not in done]
    print("todo", len(todo), "done", len(done), flush=True)
    q = queue.Queue()
    for m in todo:
        q.put(m)
    deadline = time.time() + a.hours * 3600
    lock = threading.Lock()

    def worker(slot):
        while time.time() < deadline and not os.path.exists(BASE + "/STOP"):
            try:
                m = q.get_nowait()
            except queue.Empty:
                return
            r = process(m, slot)
            with lock:
                with open(RES, "a") as f:
                    f.write(json.dumps(r) + "\n")
                print(r["t"], r["id"], r["file"] + ":" + str(r["line"]), r["op"], "->", r["status"],
                      r.get("detected_by", ""), r.get("detail", "")[:100], "%.0fs" % r["wall"], flush=True)

    ts = [threading.Thread(target=worker, args=(i,)) for i in range(a.workers)]
    for t in ts:
        t.start()
    for t in ts:
        t.join()
    print("finished", flush=True)


if __name__ == "__main__":
    main()
