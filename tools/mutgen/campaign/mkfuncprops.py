import json,re,sys,fnmatch
funcs=json.load(open('/var/tmp/mutcamp/funcs_pinned.json'))
head=json.load(open('/var/tmp/mutcamp/funcs_head.json'))
headset={(x['file'],x['func']) for x in head}
res={'funcs':{},'files':{}}
def addf(file,fn,p):
    if (file,fn) not in headset: return
    l=res['funcs'].setdefault(file+':'+fn,[])
    if p not in l: l.append(p)
CODEC=re.compile(r'(^|\.)(Read|Write|MarshalBinary|UnmarshalBinary|Scan|.*[sS]can.*|.*Split.*|ReadFrom|WriteTo|Size|.*Size|.*Bytes.*|.*Len.*)$')
for line in open('/verif/properties.jsonl'):
    p=json.loads(line); pid=p['id']
    for f in p['anchors']['files']:
        l=res['files'].setdefault(f,[])
        if pid not in l: l.append(pid)
    for m in p['anchors']['mechanism']:
        w=m['where']
        # tokens: file optionally followed by :ranges ; "(used at 525-681)" refers to the last file
        cur=None
        for tok in re.finditer(r'([A-Za-z_/\*\.]+\.go)(?::([0-9,\-]+))?|used at ([0-9\-]+)|\(every Handle\* function\)', w):
            if tok.group(1):
                cur=tok.group(1); rng=tok.group(2)
                if '*' in cur:
                    # whole-directory anchor: codec-looking functions of the property's own file list
                    for x in funcs:
                        if x['file'] in p['anchors']['files'] and CODEC.search(x['func']): addf(x['file'],x['func'],pid)
                    continue
                if not rng:
                    continue
                for r in [q for q in rng.split(',') if q.strip('-')]:
                    lo,_,hi=r.partition('-'); lo=int(lo); hi=int(hi or lo)
                    for x in funcs:
                        if x['file']==cur and x['start']<=hi and x['end']>=lo: addf(cur,x['func'],pid)
            elif tok.group(3):
                lo,_,hi=tok.group(3).partition('-'); lo=int(lo); hi=int(hi or lo)
                for x in funcs:
                    if x['file']==cur and x['start']<=hi and x['end']>=lo: addf(cur,x['func'],pid)
            else:
                for x in funcs:
                    if x['file']==cur and x['func'].startswith('Handle'): addf(cur,x['func'],pid)
# functions added by fix commits inherit from their callers' properties
res['funcs'].setdefault('internal/mobius/account_manager.go:writeFileAtomic',['C07','C15','C20'])
res['funcs'].setdefault('internal/mobius/transaction_handlers.go:targetsFileRoot',['C07','C11'])
json.dump(res,open('/var/tmp/mutcamp/funcprops.json','w'),indent=1,sort_keys=True)
for k in sorted(res['funcs']): print(k,res['funcs'][k])
print(len(res['funcs']),'anchored functions of',len(head))
un=[x['file']+':'+x['func'] for x in head if x['file']+':'+x['func'] not in res['funcs']]
print('UNANCHORED:',un)
