// mutgen enumerates first-order mutants of the mobius sources and emits each one as a unified diff plus metadata.
//
//	mutgen funcs -root DIR                         JSON list of the functions of the selected files (file,func,start,end)
//	mutgen gen   -root DIR -funcprops fp.json -out OUTDIR [-seed S]
//
// Operators: negate-if, rel-swap (< <=, > >=), eq-swap (== !=), logic-swap (&& ||), obo-cmp / obo-slice (+1/-1 on an
// integer literal in a comparison / slice bound), del-call, del-assign (statement deletion), ret-nil (return err -> nil),
// bool-swap (true <-> false).
//
// Standard library only; byte-offset text replacement on positions taken from go/ast.
package main

import (
	"encoding/json"
	"flag"
	"fmt"
	"go/ast"
	"go/parser"
	"go/token"
	"math/rand"
	"os"
	"path/filepath"
	"sort"
	"strconv"
	"strings"
)

// ---------------------------------------------------------------------------------------------- file selection

var skipFiles = map[string]bool{
	"hotline/verif_hooks.go": true, "hotline/client.go": true, "hotline/doc.go": true, "hotline/config.go": true,
	"internal/mobius/api.go": true, "internal/mobius/config.go": true, "internal/mobius/logger.go": true,
}

func selectFiles(root string) []string {
	var out []string
	for _, dir := range []string{"hotline", "internal/mobius"} {
		ents, err := os.ReadDir(filepath.Join(root, dir))
		if err != nil {
			fatal(err)
		}
		for _, e := range ents {
			n := e.Name()
			if e.IsDir() || !strings.HasSuffix(n, ".go") || strings.HasSuffix(n, "_test.go") || strings.HasPrefix(n, "mock") {
				continue
			}
			rel := dir + "/" + n
			if skipFiles[rel] {
				continue
			}
			out = append(out, rel)
		}
	}
	sort.Strings(out)
	return out
}

// ---------------------------------------------------------------------------------------------- model

type FuncInfo struct {
	File  string `json:"file"`
	Func  string `json:"func"`
	Start int    `json:"start"`
	End   int    `json:"end"`
}

type Mutant struct {
	ID        string   `json:"id"`
	Rank      int      `json:"rank"`
	File      string   `json:"file"`
	Line      int      `json:"line"`
	Col       int      `json:"col"`
	Func      string   `json:"func"`
	Op        string   `json:"op"`
	Orig      string   `json:"orig"`
	Repl      string   `json:"repl"`
	Props     []string `json:"props"`      // properties whose anchor mechanism ranges intersect the function
	FileProps []string `json:"file_props"` // properties that list the file in anchors.files
	Tier      int      `json:"tier"`       // 0 function anchored, 1 file anchored, 2 neither
	Patch     string   `json:"patch"`
	start     int
	end       int
	repl      string
}

type FuncProps struct {
	Funcs map[string][]string `json:"funcs"` // "file:Func" -> props
	Files map[string][]string `json:"files"` // file -> props
}

func fatal(a ...any) {
	fmt.Fprintln(os.Stderr, a...)
	os.Exit(2)
}

func recvName(fd *ast.FuncDecl) string {
	if fd.Recv == nil || len(fd.Recv.List) == 0 {
		return ""
	}
	t := fd.Recv.List[0].Type
	for {
		switch x := t.(type) {
		case *ast.StarExpr:
			t = x.X
			continue
		case *ast.IndexExpr:
			t = x.X
			continue
		case *ast.Ident:
			return x.Name
		}
		return "?"
	}
}

func funcName(fd *ast.FuncDecl) string {
	if r := recvName(fd); r != "" {
		return r + "." + fd.Name.Name
	}
	return fd.Name.Name
}

// ---------------------------------------------------------------------------------------------- enumeration

type enumerator struct {
	fset *token.FileSet
	src  []byte
	file string
	fn   string
	out  []*Mutant
}

func (e *enumerator) off(p token.Pos) int { return e.fset.Position(p).Offset }

func (e *enumerator) add(op string, s, t int, repl string, at token.Pos) {
	pos := e.fset.Position(at)
	orig := string(e.src[s:t])
	if orig == repl {
		return
	}
	e.out = append(e.out, &Mutant{File: e.file, Line: pos.Line, Col: pos.Column, Func: e.fn, Op: op,
		Orig: clip(orig), Repl: clip(repl), start: s, end: t, repl: repl})
}

func clip(s string) string {
	s = strings.Join(strings.Fields(s), " ")
	if len(s) > 120 {
		s = s[:117] + "..."
	}
	return s
}

var relSwap = map[token.Token]string{token.LSS: "<=", token.LEQ: "<", token.GTR: ">=", token.GEQ: ">"}
var eqSwap = map[token.Token]string{token.EQL: "!=", token.NEQ: "=="}
var logicSwap = map[token.Token]string{token.LAND: "||", token.LOR: "&&"}

func isRel(t token.Token) bool {
	switch t {
	case token.LSS, token.LEQ, token.GTR, token.GEQ, token.EQL, token.NEQ:
		return true
	}
	return false
}

func isLogCall(src string) bool {
	for _, p := range []string{"slog.", "log.", "fmt.Print", "fmt.Fprint"} {
		if strings.HasPrefix(src, p) {
			return true
		}
	}
	head := src
	if i := strings.IndexByte(head, '('); i >= 0 {
		head = head[:i]
	}
	return strings.Contains(head, "Logger.") || strings.Contains(head, "logger.") || strings.Contains(head, ".Logger")
}

// intLits collects INT literals reachable through +,-,*,paren from x.
func intLits(x ast.Expr, out *[]*ast.BasicLit) {
	switch v := x.(type) {
	case *ast.BasicLit:
		if v.Kind == token.INT {
			*out = append(*out, v)
		}
	case *ast.ParenExpr:
		intLits(v.X, out)
	case *ast.BinaryExpr:
		if v.Op == token.ADD || v.Op == token.SUB || v.Op == token.MUL {
			intLits(v.X, out)
			intLits(v.Y, out)
		}
	}
}

func (e *enumerator) obo(op string, lit *ast.BasicLit) {
	n, err := strconv.ParseInt(lit.Value, 0, 64)
	if err != nil {
		return
	}
	s, t := e.off(lit.Pos()), e.off(lit.End())
	e.add(op+"+1", s, t, strconv.FormatInt(n+1, 10), lit.Pos())
	e.add(op+"-1", s, t, strconv.FormatInt(n-1, 10), lit.Pos())
}

// stmt deletion: only statements that are direct members of a statement list
func (e *enumerator) stmtList(list []ast.Stmt) {
	for _, st := range list {
		switch s := st.(type) {
		case *ast.ExprStmt:
			if _, ok := s.X.(*ast.CallExpr); ok {
				a, b := e.off(s.Pos()), e.off(s.End())
				if isLogCall(string(e.src[a:b])) {
					continue
				}
				e.del("del-call", a, b, s.Pos())
			}
		case *ast.AssignStmt:
			if s.Tok == token.DEFINE {
				continue
			}
			e.del("del-assign", e.off(s.Pos()), e.off(s.End()), s.Pos())
		}
	}
}

func (e *enumerator) del(op string, a, b int, at token.Pos) {
	// widen to whole lines when the statement is alone on its line(s)
	s, t := a, b
	i := s
	for i > 0 && (e.src[i-1] == ' ' || e.src[i-1] == '\t') {
		i--
	}
	j := t
	for j < len(e.src) && (e.src[j] == ' ' || e.src[j] == '\t') {
		j++
	}
	if (i == 0 || e.src[i-1] == '\n') && j < len(e.src) && e.src[j] == '\n' {
		s, t = i, j+1
	}
	pos := e.fset.Position(at)
	e.out = append(e.out, &Mutant{File: e.file, Line: pos.Line, Col: pos.Column, Func: e.fn, Op: op,
		Orig: clip(string(e.src[a:b])), Repl: "", start: s, end: t, repl: ""})
}

func (e *enumerator) walk(n ast.Node) {
	ast.Inspect(n, func(n ast.Node) bool {
		switch x := n.(type) {
		case *ast.IfStmt:
			s, t := e.off(x.Cond.Pos()), e.off(x.Cond.End())
			e.add("negate-if", s, t, "!("+string(e.src[s:t])+")", x.Cond.Pos())
		case *ast.BinaryExpr:
			s, t := e.off(x.OpPos), e.off(x.OpPos)+len(x.Op.String())
			if r, ok := relSwap[x.Op]; ok {
				e.add("rel-swap", s, t, r, x.OpPos)
			}
			if r, ok := eqSwap[x.Op]; ok {
				e.add("eq-swap", s, t, r, x.OpPos)
			}
			if r, ok := logicSwap[x.Op]; ok {
				e.add("logic-swap", s, t, r, x.OpPos)
			}
			if isRel(x.Op) {
				for _, o := range []ast.Expr{x.X, x.Y} {
					if l, ok := o.(*ast.BasicLit); ok && l.Kind == token.INT {
						e.obo("obo-cmp", l)
					}
				}
			}
		case *ast.SliceExpr:
			for _, b := range []ast.Expr{x.Low, x.High, x.Max} {
				if b == nil {
					continue
				}
				var ls []*ast.BasicLit
				intLits(b, &ls)
				for _, l := range ls {
					e.obo("obo-slice", l)
				}
			}
		case *ast.BlockStmt:
			e.stmtList(x.List)
		case *ast.CaseClause:
			e.stmtList(x.Body)
		case *ast.CommClause:
			e.stmtList(x.Body)
		case *ast.ReturnStmt:
			for _, r := range x.Results {
				if id, ok := r.(*ast.Ident); ok && id.Name == "err" {
					e.add("ret-nil", e.off(id.Pos()), e.off(id.End()), "nil", id.Pos())
				}
			}
		case *ast.Ident:
			if x.Name == "true" {
				e.add("bool-swap", e.off(x.Pos()), e.off(x.End()), "false", x.Pos())
			} else if x.Name == "false" {
				e.add("bool-swap", e.off(x.Pos()), e.off(x.End()), "true", x.Pos())
			}
		}
		return true
	})
}

// eq-swap on the top-level condition of an if is the same mutant as negate-if: drop it.
func dedupe(ms []*Mutant) []*Mutant {
	type k struct {
		f    string
		s, t int
		r    string
	}
	negated := map[string]bool{} // file:line:col of if-conditions that are a plain ==/!= comparison
	_ = negated
	seen := map[k]bool{}
	var out []*Mutant
	for _, m := range ms {
		kk := k{m.File, m.start, m.end, m.repl}
		if seen[kk] {
			continue
		}
		seen[kk] = true
		out = append(out, m)
	}
	return out
}

func enumerate(root, file string) ([]*Mutant, []FuncInfo) {
	src, err := os.ReadFile(filepath.Join(root, file))
	if err != nil {
		fatal(err)
	}
	fset := token.NewFileSet()
	f, err := parser.ParseFile(fset, file, src, parser.ParseComments)
	if err != nil {
		fatal(err)
	}
	var ms []*Mutant
	var fis []FuncInfo
	for _, d := range f.Decls {
		fd, ok := d.(*ast.FuncDecl)
		if !ok || fd.Body == nil {
			continue
		}
		if strings.HasPrefix(recvName(fd), "Mock") || strings.HasPrefix(recvName(fd), "mock") {
			continue
		}
		name := funcName(fd)
		fis = append(fis, FuncInfo{File: file, Func: name, Start: fset.Position(fd.Pos()).Line, End: fset.Position(fd.End()).Line})
		e := &enumerator{fset: fset, src: src, file: file, fn: name}
		// top-level if conditions that are a plain ==/!= comparison: negate-if covers the eq-swap
		skipEq := map[token.Pos]bool{}
		ast.Inspect(fd.Body, func(n ast.Node) bool {
			if is, ok := n.(*ast.IfStmt); ok {
				if b, ok := is.Cond.(*ast.BinaryExpr); ok && (b.Op == token.EQL || b.Op == token.NEQ) {
					skipEq[b.OpPos] = true
				}
			}
			return true
		})
		e.walk(fd.Body)
		for _, m := range e.out {
			if m.Op == "eq-swap" {
				// position of the operator is m.start
				drop := false
				for p := range skipEq {
					if fset.Position(p).Offset == m.start {
						drop = true
					}
				}
				if drop {
					continue
				}
			}
			ms = append(ms, m)
		}
	}
	return dedupe(ms), fis
}

// ---------------------------------------------------------------------------------------------- unified diff

func splitLines(b []byte) []string {
	s := string(b)
	if s == "" {
		return nil
	}
	ls := strings.SplitAfter(s, "\n")
	if ls[len(ls)-1] == "" {
		ls = ls[:len(ls)-1]
	}
	return ls
}

func makePatch(file string, src []byte, s, t int, repl string) string {
	// line-align the edit
	ls := s
	for ls > 0 && src[ls-1] != '\n' {
		ls--
	}
	le := t
	if !(t > s && src[t-1] == '\n') {
		for le < len(src) && src[le] != '\n' {
			le++
		}
		if le < len(src) {
			le++
		}
	}
	oldSeg := splitLines(src[ls:le])
	newBytes := append(append(append([]byte{}, src[ls:s]...), repl...), src[t:le]...)
	newSeg := splitLines(newBytes)
	all := splitLines(src)
	first := strings.Count(string(src[:ls]), "\n") // 0-based index of first changed line
	const ctx = 3
	cs := first - ctx
	if cs < 0 {
		cs = 0
	}
	ce := first + len(oldSeg) + ctx
	if ce > len(all) {
		ce = len(all)
	}
	var b strings.Builder
	fmt.Fprintf(&b, "--- a/%s\n+++ b/%s\n", file, file)
	oldCount := ce - cs
	newCount := oldCount - len(oldSeg) + len(newSeg)
	oldStart, newStart := cs+1, cs+1
	if oldCount == 0 {
		oldStart = cs
	}
	if newCount == 0 {
		newStart = cs
	}
	fmt.Fprintf(&b, "@@ -%d,%d +%d,%d @@\n", oldStart, oldCount, newStart, newCount)
	for i := cs; i < first; i++ {
		b.WriteString(" " + all[i])
	}
	for _, l := range oldSeg {
		b.WriteString("-" + l)
	}
	for _, l := range newSeg {
		b.WriteString("+" + l)
	}
	for i := first + len(oldSeg); i < ce; i++ {
		b.WriteString(" " + all[i])
	}
	return b.String()
}

// ---------------------------------------------------------------------------------------------- sampling order

// rank orders all mutants so that any prefix is spread over functions and operators, anchored functions first:
// rounds; in every round each tier-0 function contributes one mutant, tier-1 functions every 2nd round, tier-2
// functions every 4th round; within a function the operator used least so far in that function is preferred,
// ties broken by the seeded shuffle.
func rank(ms []*Mutant, seed int64) {
	rng := rand.New(rand.NewSource(seed))
	type grp struct {
		key  string
		tier int
		ms   []*Mutant
		used map[string]int
	}
	gm := map[string]*grp{}
	var keys []string
	for _, m := range ms {
		k := m.File + ":" + m.Func
		g := gm[k]
		if g == nil {
			g = &grp{key: k, tier: m.Tier, used: map[string]int{}}
			gm[k] = g
			keys = append(keys, k)
		}
		g.ms = append(g.ms, m)
	}
	sort.Strings(keys)
	for _, k := range keys {
		g := gm[k]
		rng.Shuffle(len(g.ms), func(i, j int) { g.ms[i], g.ms[j] = g.ms[j], g.ms[i] })
	}
	opClass := func(op string) string {
		if i := strings.IndexAny(op, "+-"); i > 0 && strings.HasPrefix(op, "obo") {
			return op[:i]
		}
		return op
	}
	r := 0
	left := len(ms)
	for round := 0; left > 0; round++ {
		order := append([]string{}, keys...)
		rng.Shuffle(len(order), func(i, j int) { order[i], order[j] = order[j], order[i] })
		for _, k := range order {
			g := gm[k]
			if len(g.ms) == 0 {
				continue
			}
			if (g.tier == 1 && round%2 != 0) || (g.tier == 2 && round%4 != 0) {
				continue
			}
			best := 0
			for i, m := range g.ms {
				if g.used[opClass(m.Op)] < g.used[opClass(g.ms[best].Op)] {
					best = i
				}
			}
			m := g.ms[best]
			g.ms = append(g.ms[:best], g.ms[best+1:]...)
			g.used[opClass(m.Op)]++
			m.Rank = r
			r++
			left--
		}
	}
}

// ---------------------------------------------------------------------------------------------- main

func main() {
	if len(os.Args) < 2 {
		fatal("usage: mutgen funcs|gen ...")
	}
	fs := flag.NewFlagSet(os.Args[1], flag.ExitOnError)
	root := fs.String("root", "/repo", "source tree")
	fp := fs.String("funcprops", "", "JSON {funcs:{file:Func->[props]}, files:{file->[props]}}")
	out := fs.String("out", "", "output directory")
	seed := fs.Int64("seed", 1, "sampling seed")
	fs.Parse(os.Args[2:])
	files := selectFiles(*root)
	switch os.Args[1] {
	case "funcs":
		var all []FuncInfo
		for _, f := range files {
			_, fis := enumerate(*root, f)
			all = append(all, fis...)
		}
		json.NewEncoder(os.Stdout).Encode(all)
	case "gen":
		var props FuncProps
		if *fp != "" {
			b, err := os.ReadFile(*fp)
			if err != nil {
				fatal(err)
			}
			if err := json.Unmarshal(b, &props); err != nil {
				fatal(err)
			}
		}
		if *out == "" {
			fatal("-out required")
		}
		os.MkdirAll(filepath.Join(*out, "patches"), 0o755)
		var all []*Mutant
		srcs := map[string][]byte{}
		for _, f := range files {
			ms, _ := enumerate(*root, f)
			b, _ := os.ReadFile(filepath.Join(*root, f))
			srcs[f] = b
			all = append(all, ms...)
		}
		sort.SliceStable(all, func(i, j int) bool {
			a, b := all[i], all[j]
			if a.File != b.File {
				return a.File < b.File
			}
			if a.start != b.start {
				return a.start < b.start
			}
			if a.Op != b.Op {
				return a.Op < b.Op
			}
			return a.repl < b.repl
		})
		for i, m := range all {
			m.ID = fmt.Sprintf("M%04d", i+1)
			m.Props = props.Funcs[m.File+":"+m.Func]
			m.FileProps = props.Files[m.File]
			if m.Props == nil {
				m.Props = []string{}
			}
			if m.FileProps == nil {
				m.FileProps = []string{}
			}
			switch {
			case len(m.Props) > 0:
				m.Tier = 0
			case len(m.FileProps) > 0:
				m.Tier = 1
			default:
				m.Tier = 2
			}
			m.Patch = "patches/" + m.ID + ".diff"
			p := makePatch(m.File, srcs[m.File], m.start, m.end, m.repl)
			if err := os.WriteFile(filepath.Join(*out, m.Patch), []byte(p), 0o644); err != nil {
				fatal(err)
			}
		}
		rank(all, *seed)
		sort.SliceStable(all, func(i, j int) bool { return all[i].Rank < all[j].Rank })
		w, err := os.Create(filepath.Join(*out, "mutants.jsonl"))
		if err != nil {
			fatal(err)
		}
		enc := json.NewEncoder(w)
		byOp := map[string]int{}
		byTier := map[int]int{}
		for _, m := range all {
			enc.Encode(m)
			byOp[m.Op]++
			byTier[m.Tier]++
		}
		w.Close()
		fmt.Fprintf(os.Stderr, "%d mutants, by tier %v, by operator %v\n", len(all), byTier, byOp)
	default:
		fatal("unknown subcommand")
	}
}
