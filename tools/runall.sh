#!/bin/sh
# runall.sh [tier] [seeds...] : runs every claimed check and prints one line per run
tier=${1:-quick}; shift 2>/dev/null
seeds=${*:-1}
cd /verif
for s in $seeds; do
  for p in $(cat tools/claimed.txt); do
    t0=$(date +%s)
    out=$(VERIF_SEED=$s bin/vcheck run $p --tier $tier 2>&1)
    rc=$?
    t1=$(date +%s)
    kf=$(echo "$out" | grep -c '^KNOWN-FINDING')
    echo "$p seed=$s tier=$tier rc=$rc known=$kf wall=$((t1-t0))s $(echo "$out" | grep -E '^VIOLATION|^SPEC-DRIFT|^CHECK-ERROR' | head -2 | cut -c1-160 | tr '\n' ' ')"
  done
done
