#!/usr/bin/env python3
"""import_seed.py: copies confirmed seeded changes from /tmp/seed/<Cxx>/mutN to /verif/seeded/<Cxx>-mN/ (patch.diff, demo/,
NOTES.md) and writes meta.json.  Detection status is kept in seeded/status.json (edited by hand / by tools)."""
import json, os, shutil, sys, glob, re
V = os.path.dirname(os.path.dirname(os.path.abspath(__file__)))
status = {}
sp = os.path.join(V, "seeded", "status.json")
if os.path.exists(sp):
    status = json.load(open(sp))
for d in sorted(glob.glob("/tmp/seed/C*/mut[0-9]")) + sorted(glob.glob("/tmp/seed2/C*/mut[0-9]")) + sorted(glob.glob("/tmp/seed3/C*/mut[0-9]")) + sorted(glob.glob("/tmp/seed4/C*/mut[0-9]")) + sorted(glob.glob("/tmp/seed5/C*/mut[0-9]")) + sorted(glob.glob("/tmp/seed6/C*/mut[0-9]")) + sorted(glob.glob("/tmp/seed7/C*/mut[0-9]")) + sorted(glob.glob("/tmp/seed8/C*/mut[0-9]")):
    prop = d.split("/")[3]; m = d.split("/")[4].replace("mut", "m")
    sid = "%s-%s" % (prop, m) if d.startswith("/tmp/seed/") else ("%s-r2%s" % (prop, m) if d.startswith("/tmp/seed2/") else ("%s-r3%s" % (prop, m) if d.startswith("/tmp/seed3/") else ("%s-r4%s" % (prop, m) if d.startswith("/tmp/seed4/") else ("%s-r5%s" % (prop, m) if d.startswith("/tmp/seed5/") else ("%s-r6%s" % (prop, m) if d.startswith("/tmp/seed6/") else ("%s-r7%s" % (prop, m) if d.startswith("/tmp/seed7/") else "%s-r8%s" % (prop, m)))))))
    dst = os.path.join(V, "seeded", sid)
    if not os.path.exists(os.path.join(d, "patch.diff")):
        continue
    if os.path.exists(os.path.join(dst, "patch.diff")) and "--force" not in sys.argv:
        continue   # already imported (patches rebased by hand onto later fixes must not be overwritten)
    os.makedirs(os.path.join(dst, "demo"), exist_ok=True)
    # strip test-config noise from the patch
    patch = open(os.path.join(d, "patch.diff")).read()
    parts = re.split(r'(?m)^(?=diff --git )', patch)
    patch = "".join(p for p in parts if "internal/mobius/test/" not in p.split("\n")[0])
    open(os.path.join(dst, "patch.diff"), "w").write(patch)
    for f in glob.glob(os.path.join(d, "demo", "**", "*_test.go"), recursive=True):
        shutil.copy(f, os.path.join(dst, "demo", os.path.basename(f)))
    notes = os.path.join(d, "NOTES.md")
    if os.path.exists(notes):
        shutil.copy(notes, os.path.join(dst, "NOTES.md"))
    needs = ""
    if os.path.exists(notes):
        t = open(notes).read()
        mm = re.search(r'(?is)what it needs[^\n]*\n(.*?)(\n## |\Z)', t)
        if mm:
            needs = " ".join(mm.group(1).split())[:600]
    st = status.get(sid, {})
    meta = {"id": sid, "property": prop, "source": "fresh sub-agent given only the property text and a scratch worktree of /repo",
            "needs_to_manifest": needs,
            "confirmed": "bin/seedverify: builds with and without -tags verif, existing suite passes with the change, demo fails with / passes without the change (3 runs each)",
            "ran": "bin/seedtest seeded/%s/patch.diff %s (scratch worktree, VERIF_REPO; /repo untouched)" % (sid, prop),
            "detected_by": st.get("detected_by", []), "detection_note": st.get("note", "")}
    json.dump(meta, open(os.path.join(dst, "meta.json"), "w"), indent=1)
    print(sid, "->", dst)
