// Package files is the driver/observer of the C07 (containment) and C11 (file views / file operations) checks.
// It executes scripts written by TLC (spec/MC_Files.tla) against the real handlers on a real directory and
// records what the real code did: reply classes, parsed file lists, get-info and download replies, directory
// snapshots before/after.  It holds no expectations; spec/Trace_Files.tla judges the log.
package files

import (
	"bytes"
	"context"
	"encoding/json"
	"fmt"
	"os"
	"path/filepath"
	"runtime"
	"sort"
	"strconv"
	"strings"
	"sync/atomic"
	"time"
	"unicode/utf8"

	"verifharness/sim"
)

func Run(args []string) error {
	if len(args) < 1 {
		return fmt.Errorf("usage: vh-files c07|c11 -scripts f -out f [-par n]")
	}
	// the server prints stack traces of recovered panics on stdout; this driver writes only files and stderr
	if dn, err := os.OpenFile(os.DevNull, os.O_WRONLY, 0); err == nil {
		os.Stdout = dn
	}
	// many short-lived sandboxes: more than 8 scheduler threads only add kernel contention (measured)
	if runtime.NumCPU() > 8 && os.Getenv("GOMAXPROCS") == "" {
		runtime.GOMAXPROCS(8)
	}
	switch args[0] {
	case "c07":
		return runC07(args[1:])
	case "c11":
		return runC11(args[1:])
	}
	return fmt.Errorf("unknown sub-driver %q", args[0])
}

// ---- JSON helpers ----------------------------------------------------------------------------------------------

func bytesOf(v any) []byte {
	switch x := v.(type) {
	case nil:
		return nil
	case string:
		return []byte(x)
	case []any:
		b := make([]byte, len(x))
		for i, e := range x {
			f, _ := e.(float64)
			b[i] = byte(int(f))
		}
		return b
	}
	return nil
}

// optBytes decodes a byte string that may be the "absent" marker [-1] (the field is then not sent at all).
func optBytes(v any) (b []byte, present bool) {
	l, ok := v.([]any)
	if !ok {
		return nil, false
	}
	if len(l) == 1 {
		if f, _ := l[0].(float64); f < 0 {
			return nil, false
		}
	}
	if len(l) == 2 { // [-2, n]: n bytes 'k' (long comments are not spelled out in the scripts)
		if f, _ := l[0].(float64); f == -2 {
			n, _ := l[1].(float64)
			return bytes.Repeat([]byte{'k'}, int(n)), true
		}
	}
	return bytesOf(v), true
}

func intOf(v any) int {
	switch x := v.(type) {
	case float64:
		return int(x)
	case int:
		return x
	case bool:
		if x {
			return 1
		}
	}
	return 0
}

func strOf(v any) string {
	s, _ := v.(string)
	return s
}

func listOf(v any) []any {
	l, _ := v.([]any)
	return l
}

func compsOf(v any) [][]byte {
	var out [][]byte
	for _, e := range listOf(v) {
		out = append(out, bytesOf(e))
	}
	return out
}

func ints(b []byte) []int { return sim.Ints(b) }

func compsJSON(c [][]byte) [][]int {
	out := make([][]int, len(c))
	for i, x := range c {
		out[i] = ints(x)
	}
	return out
}

func readScripts(path string) ([]map[string]any, error) {
	return sim.ReadNDJSON(path)
}

// ---- Mac Roman (independent, only the characters the scripts use) ------------------------------------------------

var macToRune = map[byte]rune{0x80: 'Ä', 0x8A: 'ä', 0x8E: 'é'}

// toDisk maps wire (Mac Roman) bytes to the on-disk name the protocol means; ok=false if a byte is not in the table.
func toDisk(w []byte) (string, bool) {
	var b strings.Builder
	for _, c := range w {
		if c < 0x80 {
			b.WriteByte(c)
			continue
		}
		r, ok := macToRune[c]
		if !ok {
			return "", false
		}
		b.WriteRune(r)
	}
	return b.String(), true
}

// toWire is the inverse of toDisk; ok=false if the name cannot be written in the table's repertoire.
func toWire(d string) ([]byte, bool) {
	var out []byte
	for i := 0; i < len(d); {
		r, n := utf8.DecodeRuneInString(d[i:])
		if r == utf8.RuneError && n == 1 {
			return nil, false
		}
		i += n
		if r < 0x80 {
			out = append(out, byte(r))
			continue
		}
		found := false
		for c, rr := range macToRune {
			if rr == r {
				out = append(out, c)
				found = true
			}
		}
		if !found {
			return nil, false
		}
	}
	return out, true
}

// encPath encodes path components (wire bytes) as a Hotline path: count(2) { 0 0 len(1) name }*.
func encPath(comps [][]byte) []byte {
	b := []byte{byte(len(comps) >> 8), byte(len(comps))}
	for _, c := range comps {
		b = append(b, 0, 0, byte(len(c)))
		b = append(b, c...)
	}
	return b
}

// ---- world -----------------------------------------------------------------------------------------------------

var shardCtr atomic.Int64

const Marker = "XCANARYX" // appears in the content (and some names) of everything planted outside root and Users

type sandbox struct {
	outer string // the directory whose recursive snapshot is taken
	w     *sim.World
	vw    string // random component of w.Dir below outer/l1/l2/l3, logged as "W"
}

func (s *sandbox) close() {
	s.w.Close()
	_ = os.RemoveAll(s.outer)
}

func fileContent(n int, seed byte) []byte {
	b := make([]byte, n)
	for i := range b {
		b[i] = 'a' + byte((i*7+int(seed))%23)
	}
	return b
}

// infoFork renders a flattened-file information fork (protocol document, "Flattened file object"): platform(4)
// type(4) creator(4) flags(4) platform flags(4) reserved(32) create(8) modify(8) name script(2) name size(2) name
// comment size(2) comment.
func infoFork(name []byte, typ, creator string, comment []byte) []byte {
	b := []byte("AMAC")
	b = append(b, typ...)
	b = append(b, creator...)
	b = append(b, 0, 0, 0, 0, 0, 0, 1, 0)
	b = append(b, make([]byte, 32)...)
	b = append(b, 7, 112, 0, 0, 0, 0, 0, 1)
	b = append(b, 7, 112, 0, 0, 0, 0, 0, 1)
	b = append(b, 0, 0, byte(len(name)>>8), byte(len(name)))
	b = append(b, name...)
	b = append(b, byte(len(comment)>>8), byte(len(comment)))
	b = append(b, comment...)
	return b
}

// flatFile renders a complete flattened file object with a data fork only.
func flatFile(name []byte, data []byte) []byte {
	info := infoFork(name, "TEXT", "ttxt", nil)
	b := []byte("FILP")
	b = append(b, 0, 1)
	b = append(b, make([]byte, 16)...)
	b = append(b, 0, 2)
	b = append(b, "INFO"...)
	b = append(b, 0, 0, 0, 0, 0, 0, 0, 0)
	b = append(b, sim.U32(len(info))...)
	b = append(b, info...)
	b = append(b, "DATA"...)
	b = append(b, 0, 0, 0, 0, 0, 0, 0, 0)
	b = append(b, sim.U32(len(data))...)
	b = append(b, data...)
	return b
}

// buildTree creates the entries of a world description below root.  Entry: p (components, on-disk bytes), k
// (file | dir | info), s (size of a file), c (comment length of an info fork).
func buildTree(root string, entries []any) error {
	type ent struct {
		p []string
		m map[string]any
	}
	var es []ent
	for _, e := range entries {
		m, _ := e.(map[string]any)
		var p []string
		for _, c := range compsOf(m["p"]) {
			p = append(p, string(c))
		}
		es = append(es, ent{p, m})
	}
	// parents first; information forks last (their type depends on what they describe)
	rank := func(e ent) int {
		if strOf(e.m["k"]) == "info" {
			return 1000 + len(e.p)
		}
		if strOf(e.m["k"]) == "link" {
			return 2000 + len(e.p)
		}
		return len(e.p)
	}
	sort.SliceStable(es, func(i, j int) bool { return rank(es[i]) < rank(es[j]) })
	for _, e := range es {
		full := filepath.Join(append([]string{root}, e.p...)...)
		base := e.p[len(e.p)-1]
		switch strOf(e.m["k"]) {
		case "dir":
			if err := os.Mkdir(full, 0755); err != nil {
				return err
			}
		case "file":
			n := intOf(e.m["s"])
			b := fileContent(n, byte(n))
			if err := os.WriteFile(full, b, 0644); err != nil {
				return err
			}
		case "link": // an alias: absolute target below the same root, as the server's make-alias stores it
			var tp []string
			for _, c := range compsOf(e.m["t"]) {
				tp = append(tp, string(c))
			}
			if err := os.Symlink(filepath.Join(append([]string{root}, tp...)...), full); err != nil {
				return err
			}
		case "info":
			c := intOf(e.m["c"])
			cm := make([]byte, c)
			for i := range cm {
				cm[i] = 'k'
			}
			nm := strings.TrimPrefix(base, ".info_")
			typ, cr := "TEXT", "TTXT"
			if strings.HasSuffix(nm, ".txt") {
				cr = "ttxt"
			}
			if fi, err := os.Stat(filepath.Join(filepath.Dir(full), nm)); err == nil && fi.IsDir() {
				typ, cr = "fldr", "n/a "
			}
			if ty := bytesOf(e.m["ty"]); len(ty) == 4 { // the world plants a fork with this stored type
				typ = string(ty)
				if typ == "PDF " {
					cr = "CARO"
				}
			}
			if err := os.WriteFile(full, infoFork([]byte(nm), typ, cr, cm), 0644); err != nil {
				return err
			}
		default:
			return fmt.Errorf("world entry kind %q", strOf(e.m["k"]))
		}
	}
	return nil
}

func ignoreOf(world map[string]any) (pats []string, none bool) {
	switch strOf(world["ignore"]) {
	case "none":
		return nil, true
	case "custom":
		return []string{`\.txt$`}, false
	}
	return nil, false // default patterns of sim.NewWorld: ^\. and ^@
}

// newSandbox builds outer/l1/l2/l3/<vw>/{root,config/Users} with the world's tree, plus (canaries=true) marker
// files next to the root and the accounts directory.  The exact places a leaving path would land on (W/x, W/abs,
// config/x.yaml, ../x, ../../x) stay free here; the request's `occ` flag decides whether they are occupied (a leaving
// read needs something to read, a leaving create needs the place to be free).
func newSandbox(world map[string]any, canaries bool) (*sandbox, error) {
	return newSandboxUR(world, canaries, false, 0)
}

// spell writes a directory path in one of the non-canonical forms a configuration file may contain (0 = as is).
func spell(p string, sp int) string {
	dir, base := filepath.Dir(p), filepath.Base(p)
	switch sp {
	case 1:
		return p + "/"
	case 2:
		return dir + "//" + base
	case 3:
		return dir + "/./" + base
	}
	return p
}

// newSandboxUR: with userRoot the requester's account ("admin") is confined to its own file root W/userroot (the
// world's tree is built there); the server-wide W/root is then OUTSIDE for this client and carries canaries under
// the names the tree uses.
// sp: how the client's file root (the server-wide FileRoot, or the account's with userRoot) is spelled.
func newSandboxUR(world map[string]any, canaries bool, userRoot bool, sp int) (*sandbox, error) {
	// (sandboxes are spread over shard directories: creating and removing thousands of directories in ONE parent
	// serialises on that directory in the kernel)
	shard := filepath.Join(sim.ScratchBase(), fmt.Sprintf("fsh-%02d", shardCtr.Add(1)%64))
	_ = os.MkdirAll(shard, 0755)
	outer, err := os.MkdirTemp(shard, "fo-")
	if err != nil {
		return nil, err
	}
	base := filepath.Join(outer, "l1", "l2", "l3")
	if err := os.MkdirAll(base, 0755); err != nil {
		return nil, err
	}
	pats, none := ignoreOf(world)
	// (the account files carry the marker too, in the account name: reading one of them is a disclosure)
	accts := []sim.Acct{
		{Login: "guest", Name: "guest " + Marker, Access: sim.AccessBits(2, 9, 10, 11, 20, 21, 26, 40)},
		{Login: "admin", Name: "admin " + Marker, Password: "admin", Access: sim.DefinedOnly(sim.AllAccess())},
	}
	w, err := sim.NewWorld(sim.WorldOpts{BaseDir: base, IgnoreFiles: pats, NoIgnore: none, Accounts: accts})
	if err != nil {
		_ = os.RemoveAll(outer)
		return nil, err
	}
	s := &sandbox{outer: outer, w: w, vw: filepath.Base(w.Dir)}
	treeRoot := w.Root
	if !userRoot && sp != 0 {
		w.Srv.Config.FileRoot = spell(w.Root, sp)
	}
	if userRoot {
		treeRoot = filepath.Join(w.Dir, "userroot")
		if err := os.Mkdir(treeRoot, 0755); err != nil {
			s.close()
			return nil, err
		}
		acc := w.AM.Get("admin")
		if acc == nil {
			s.close()
			return nil, fmt.Errorf("no admin account")
		}
		acc.FileRoot = spell(treeRoot, sp)
		tmpMu.RLock() // (an account write: never while a tmp = 1 request has $TMPDIR pointing nowhere)
		err := w.AM.Update(*acc, "admin")
		tmpMu.RUnlock()
		if err != nil {
			s.close()
			return nil, err
		}
		body := []byte("server-wide root " + Marker + "\n")
		for _, rel := range []string{"x", "abs", "b.txt", "a/x", "a/a/x", Marker + ".srv"} {
			p := filepath.Join(w.Root, rel)
			_ = os.MkdirAll(filepath.Dir(p), 0755)
			_ = os.WriteFile(p, body, 0644)
		}
		if canaries {
			_ = os.WriteFile(filepath.Join(w.Dir, ".info_userroot"), infoFork([]byte("userroot"), "TEXT", "TTXT", []byte("comment "+Marker)), 0644)
			_ = os.WriteFile(filepath.Join(w.Dir, ".rsrc_userroot"), body, 0644)
			_ = os.WriteFile(filepath.Join(w.Dir, "userroot.incomplete"), body, 0644)
		}
	}
	if err := buildTree(treeRoot, listOf(world["tree"])); err != nil {
		s.close()
		return nil, err
	}
	if canaries {
		mk := func(rel string, content []byte) {
			p := filepath.Join(outer, rel)
			_ = os.MkdirAll(filepath.Dir(p), 0755)
			_ = os.WriteFile(p, content, 0644)
		}
		body := []byte("secret " + Marker + " content\n")
		d := filepath.Join("l1", "l2", "l3", s.vw)
		mk(filepath.Join(d, "outside", "secret.txt"), body)
		mk(filepath.Join(d, "outside", Marker+"-name.txt"), body)
		mk(filepath.Join(d, "root-evil", "x"), body)
		mk(filepath.Join(d, "root.bak", "keep"), body) // siblings sharing a name prefix with the root ...
		mk(filepath.Join(d, Marker+".top"), body)
		// what the fork / partial-data side files of the root folder itself would be called
		mk(filepath.Join(d, ".info_root"), infoFork([]byte("root"), "TEXT", "TTXT", []byte("comment "+Marker)))
		mk(filepath.Join(d, ".rsrc_root"), body)
		mk(filepath.Join(d, "root.incomplete"), body)
		// next to Users/
		mk(filepath.Join(d, "config", "secret.yaml"), body)
		mk(filepath.Join(d, "config", "Users-evil", "z.yaml"), body)
		mk(filepath.Join(d, "config", "Users-x", "keep"), body) // ... and with the accounts directory
		mk(filepath.Join(d, "config", "Users.bak", "admin.yaml"), body)
		// above the sandbox
		mk(filepath.Join("l1", "l2", "l3", Marker+".up"), body)
	}
	return s, nil
}

// ---- snapshots ---------------------------------------------------------------------------------------------------

type node struct {
	P  []string // components below the snapshot base; the sandbox's random directory name is replaced by "W"
	K  string
	S  int64
	H  string
	T  string // link target
	C  int    // comment length stored in an information-fork side file (.info_*), parsed from the file
	Ty []byte // type code stored in such a file
}

func (s *sandbox) snapshotAt(dir string, prefix []string) ([]node, error) {
	es, err := sim.Snapshot(dir)
	if err != nil {
		return nil, err
	}
	var out []node
	for _, e := range es {
		p := append(append([]string{}, prefix...), strings.Split(e.Path, "/")...)
		for i := range p {
			if p[i] == s.vw {
				p[i] = "W"
			}
		}
		nd := node{P: p, K: e.Kind, S: e.Size, H: e.Hash, T: e.Target}
		if e.Kind == "file" && strings.HasPrefix(filepath.Base(e.Path), ".info_") {
			nd.C, nd.Ty = forkFacts(filepath.Join(dir, e.Path))
		}
		out = append(out, nd)
	}
	return out, nil
}

// forkFacts reads the comment length and the type code out of an information fork file (0, nil if it is not one).
func forkFacts(path string) (int, []byte) {
	b, err := os.ReadFile(path)
	if err != nil || len(b) < 74 {
		return 0, nil
	}
	nl := int(b[70])<<8 | int(b[71])
	if len(b) < 72+nl+2 {
		return 0, append([]byte(nil), b[4:8]...)
	}
	return int(b[72+nl])<<8 | int(b[73+nl]), append([]byte(nil), b[4:8]...)
}

func (s *sandbox) snapshotOuter() ([]node, error) { return s.snapshotAt(s.outer, nil) }

// relTarget renders a link target relative to the snapshot base (components), or nil if it points elsewhere.
func (s *sandbox) relTarget(t string, base string, prefix []string) [][]int {
	if t == base {
		return compsJSON(toB(prefix))
	}
	if strings.HasPrefix(t, base+"/") {
		p := append(append([]string{}, prefix...), strings.Split(t[len(base)+1:], "/")...)
		for i := range p {
			if p[i] == s.vw {
				p[i] = "W"
			}
		}
		return compsJSON(toB(p))
	}
	return [][]int{ints([]byte("?external"))}
}

func toB(p []string) [][]byte {
	out := make([][]byte, len(p))
	for i, c := range p {
		out[i] = []byte(c)
	}
	return out
}

func (s *sandbox) nodeJSON(n node, base string, prefix []string) map[string]any {
	m := map[string]any{"p": compsJSON(toB(n.P)), "k": n.K, "s": n.S, "t": [][]int{}, "c": 0, "ty": []int{}}
	if n.K == "file" && strings.HasPrefix(n.P[len(n.P)-1], ".info_") {
		m["c"] = n.C
		m["ty"] = ints(n.Ty)
	}
	if n.K == "link" {
		m["t"] = s.relTarget(n.T, base, prefix)
	}
	return m
}

func key(n node) string { return strings.Join(n.P, "\x00/") }

// diffNodes lists the paths added (+), removed (-) or changed (~: kind, size, content or link target).
func diffNodes(a, b []node) []map[string]any {
	am := map[string]node{}
	for _, n := range a {
		am[key(n)] = n
	}
	out := []map[string]any{}
	seen := map[string]bool{}
	for _, n := range b {
		seen[key(n)] = true
		o, ok := am[key(n)]
		switch {
		case !ok:
			out = append(out, map[string]any{"d": "+", "p": compsJSON(toB(n.P)), "k": n.K, "s": n.S})
		case o.K != n.K || o.S != n.S || o.H != n.H || o.T != n.T:
			out = append(out, map[string]any{"d": "~", "p": compsJSON(toB(n.P)), "k": n.K, "s": n.S})
		}
	}
	for _, n := range a {
		if !seen[key(n)] {
			out = append(out, map[string]any{"d": "-", "p": compsJSON(toB(n.P)), "k": n.K, "s": n.S})
		}
	}
	return out
}

// ---- requests --------------------------------------------------------------------------------------------------

type reply struct {
	status string // ok | err | none | closed
	tx     sim.Tx
}

// request sends one transaction followed by a keep-alive and waits (bounded) for the keep-alive's reply or for the
// server to close the connection; the in-order pump guarantees the request's own reply, if any, came first.
func request(c *sim.Client, typ int, fields ...sim.F) (reply, error) {
	id := c.Send(typ, fields...)
	kid := c.Send(sim.TKeepAlive)
	_, err := c.WaitReply(kid, 20*time.Second)
	closed := false
	if err == sim.ErrClosed {
		closed = true
	} else if err != nil {
		return reply{}, fmt.Errorf("request type %d: no keep-alive reply: %w", typ, err)
	}
	r := reply{status: "none"}
	if closed {
		r.status = "closed"
	}
	for _, t := range c.Drain() {
		if t.IsReply == 1 && t.ID == id {
			r.tx = t
			if t.Err != 0 {
				r.status = "err"
			} else {
				r.status = "ok"
			}
		}
	}
	return r, nil
}

func login(w *sim.World) (*sim.Client, error) {
	c := w.Dial("")
	rep, err := c.Login(sim.LoginOpts{Login: "admin", Password: "admin", Name: "adm", Icon: 1})
	if err != nil {
		return nil, err
	}
	if rep.Err != 0 {
		return nil, fmt.Errorf("admin login refused")
	}
	c.Drain()
	return c, nil
}

// workSem bounds the number of sandboxes doing CPU / file system work at the same time; sandboxes waiting for a
// transfer handler's final sleep do not hold a slot.
var workSem = make(chan struct{}, workSlots())

func workSlots() int {
	n := runtime.NumCPU()
	if n > 8 {
		n = 8
	}
	if v, err := strconv.Atoi(os.Getenv("VERIF_FILES_SLOTS")); err == nil && v > 0 {
		n = v
	}
	return n
}

func acquireWork() { workSem <- struct{}{} }
func releaseWork() { <-workSem }

// runTransfer plays the client side of a transfer connection: everything in `payload` is written after the 16-byte
// preamble, the sending direction is closed, and the bytes the server wrote are returned once its handler has
// finished (the handler sleeps 3 s before returning).  status: done | timeout.
func runTransfer(w *sim.World, ref []byte, payload []byte) (got []byte, status string) {
	ce, se := sim.Pipe()
	done := make(chan struct{})
	go func() {
		defer close(done)
		defer se.Close()
		_ = w.Srv.VerifHandleFileTransfer(context.Background(), se, "10.9.9.9:5555")
	}()
	pre := append([]byte("HTXF"), ref...)
	pre = append(pre, 0, 0, 0, 0, 0, 0, 0, 0)
	_, _ = ce.Write(append(pre, payload...))
	ce.CloseWrite()
	status = "done"
	// the handler sleeps 3 s before it returns: give the CPU slot to another sandbox meanwhile
	releaseWork()
	select {
	case <-done:
	case <-time.After(30 * time.Second):
		status = "timeout"
	}
	acquireWork()
	b, _ := ce.TakeAll()
	_ = ce.Close()
	if status == "timeout" {
		<-done // closing the client end unblocks the handler; its deferred sleep is bounded
	}
	return b, status
}

// parseList decodes the field-200 records of a file list reply: type(4) creator(4) size(4) rsvd(4) script(2)
// nameLen(2) name.
func parseList(t sim.Tx) []map[string]any {
	out := []map[string]any{}
	for _, b := range t.GetAll(sim.FFileNameWithInfo) {
		if len(b) < 20 {
			out = append(out, map[string]any{"n": ints(b), "t": []int{}, "c": []int{}, "s": -1, "short": 1})
			continue
		}
		nl := sim.BE(b[18:20])
		name := b[20:]
		short := 0
		if nl <= len(name) {
			name = name[:nl]
		} else {
			short = 1
		}
		out = append(out, map[string]any{"n": ints(name), "t": ints(b[0:4]), "c": ints(b[4:8]), "s": sim.BE(b[8:12]), "short": short})
	}
	return out
}

func emitJSON(m map[string]any) string {
	b, _ := json.Marshal(m)
	return string(b)
}
