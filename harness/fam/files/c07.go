package files

import (
	"bytes"
	"flag"
	"fmt"
	"os"
	"path/filepath"
	"sort"
	"sync"

	"github.com/jhalter/mobius/verifexport"
	"verifharness/sim"
)

// `vh-files c07`: every script is ONE request (or a short sequence of account operations) built by TLC from the
// adversarial component alphabet.  Each runs in its own sandbox
//     outer/l1/l2/l3/W/{root/, config/Users/, canary siblings}
// and the driver records: the reply class, what the reply showed (listed names, reported size), whether any byte the
// server sent contains the canary marker, and the recursive difference of `outer` before/after.  No expectation here.

func readOnlyKind(k string) bool {
	switch k {
	case "list", "info", "download", "dlfolder":
		return true
	}
	return false
}

func runC07(args []string) error {
	fs := flag.NewFlagSet("c07", flag.ExitOnError)
	in := fs.String("scripts", "", "ndjson: first line {world:..}, then one request per line")
	out := fs.String("out", "log.ndjson", "event log")
	par := fs.Int("par", 256, "parallel sandboxes")
	_ = fs.Parse(args)
	lines, err := readScripts(*in)
	if err != nil {
		return err
	}
	var world map[string]any
	var reqs []map[string]any
	for _, l := range lines {
		if w, ok := l["world"].(map[string]any); ok {
			world = w
			continue
		}
		reqs = append(reqs, l)
	}
	if world == nil {
		return fmt.Errorf("no world header in %s", *in)
	}
	lg, err := sim.NewLog(*out)
	if err != nil {
		return err
	}
	if sharedTmp, err = os.MkdirTemp(sim.ScratchBase(), "tmpdir-shared-"); err != nil {
		return err
	}
	_ = os.WriteFile(filepath.Join(sharedTmp, "keep"), []byte("tmp "+Marker+"\n"), 0644)
	_ = os.Setenv("TMPDIR", sharedTmp)
	defer os.RemoveAll(sharedTmp)
	results := make([]map[string]any, len(reqs))
	errs := make([]error, len(reqs))
	var wg sync.WaitGroup
	sem := make(chan struct{}, *par)
	for i := range reqs {
		wg.Add(1)
		sem <- struct{}{}
		go func(i int) {
			defer wg.Done()
			defer func() { <-sem }()
			results[i], errs[i] = runC07Request(world, reqs[i])
		}(i)
	}
	wg.Wait()
	closeLive()
	for i, e := range errs {
		if e != nil {
			return fmt.Errorf("request %d %s: %w", i+1, emitJSON(reqs[i]), e)
		}
	}
	// one world event per sandbox variant (occ = are the places a leaving path would land on occupied by canaries),
	// followed by the requests that ran in that variant
	// one world event per sandbox variant, followed by the requests that ran in that variant.  Variants: occ = are the
	// places a leaving path would land on occupied by canaries; ur = is the requester confined to its own file root
	type variant struct{ occ, ur, sp int }
	vof := func(q map[string]any) variant { return variant{intOf(q["occ"]), intOf(q["ur"]), intOf(q["sp"])} }
	var order []variant
	seenV := map[variant]bool{}
	for i := range reqs {
		v := vof(reqs[i])
		if v.ur == 1 && v.occ != 0 {
			return fmt.Errorf("request %d: variant occ=%d ur=%d is not defined", i+1, v.occ, v.ur)
		}
		if !seenV[v] {
			seenV[v] = true
			order = append(order, v)
		}
	}
	sort.Slice(order, func(i, j int) bool {
		a, b := order[i], order[j]
		return a.sp*4+a.ur*2+a.occ < b.sp*4+b.ur*2+b.occ
	})
	// (sp = how the client's root is spelled in the configuration: canonical, trailing slash, double slash, dot segment)
	for _, v := range order {
		first := true
		for i, r := range results {
			if vof(reqs[i]) != v {
				continue
			}
			if first {
				first = false
				rootName := "root"
				if v.ur == 1 {
					rootName = "userroot"
				}
				lg.Emit(map[string]any{"op": "world", "run": 0, "occ": v.occ, "ur": v.ur, "sp": v.sp, "mode": "c07", "ignore": "default", "snap": r["_snap0"],
					"rootp": compsJSON(toB([]string{"l1", "l2", "l3", "W", rootName})), "usersp": compsJSON(toB([]string{"l1", "l2", "l3", "W", "config", "Users"}))})
			}
			delete(r, "_snap0")
			r["run"] = i + 1
			lg.Emit(r)
		}
	}
	return lg.Close()
}

// liveSandbox is a sandbox with a logged-in client whose directory tree is still exactly as built.
type liveSandbox struct {
	sb   *sandbox
	c    *sim.Client
	snap []node
}

var liveMu sync.Mutex
var livePool = map[int][]*liveSandbox{}

func takeLive(variant int) *liveSandbox {
	liveMu.Lock()
	defer liveMu.Unlock()
	l := livePool[variant]
	if len(l) == 0 {
		return nil
	}
	ls := l[len(l)-1]
	livePool[variant] = l[:len(l)-1]
	return ls
}

func putLive(variant int, ls *liveSandbox) {
	liveMu.Lock()
	livePool[variant] = append(livePool[variant], ls)
	liveMu.Unlock()
}

func closeLive() {
	liveMu.Lock()
	defer liveMu.Unlock()
	for _, l := range livePool {
		for _, ls := range l {
			ls.sb.close()
		}
	}
	livePool = map[int][]*liveSandbox{}
}

var tmpMu sync.RWMutex
var sharedTmp string

// tmpState renders the entries and the modification time of the shared $TMPDIR canary directory.
func tmpState() string {
	fi, err := os.Lstat(sharedTmp)
	if err != nil {
		return "gone"
	}
	es, _ := os.ReadDir(sharedTmp)
	st := fmt.Sprintf("%d", fi.ModTime().UnixNano())
	for _, e := range es {
		st += "|" + e.Name()
	}
	return st
}

var snap0Mu sync.Mutex
var snap0Key = map[int]string{}

func field(id int, v any) (sim.F, bool) {
	b, ok := optBytes(v)
	if !ok {
		return sim.F{}, false
	}
	return sim.Fld(id, b), true
}

func runC07Request(world map[string]any, rq map[string]any) (map[string]any, error) {
	kind := strOf(rq["kind"])
	occ := intOf(rq["occ"])
	acquireWork()
	defer releaseWork()
	ur := intOf(rq["ur"])
	sp := intOf(rq["sp"])
	variant := occ + 2*ur + 4*sp
	// a sandbox (and its logged-in client) that a previous request of the same variant left exactly as it was built is
	// used again; otherwise a fresh one is built
	ls := takeLive(variant)
	if ls == nil {
		sb, err := newSandboxUR(world, true, ur == 1, sp)
		if err != nil {
			return nil, err
		}
		if occ == 1 && ur == 0 {
			body := []byte("landing " + Marker + "\n")
			d := sb.w.Dir
			for _, rel := range []string{"x", "abs", "config/x.yaml", "../x", "../../x", "../abs", "root.bak/n", "config/Users-x/a.yaml"} {
				_ = os.WriteFile(filepath.Join(d, rel), body, 0644)
			}
		}
		c, err := login(sb.w)
		if err != nil {
			sb.close()
			return nil, err
		}
		snap, err := sb.snapshotOuter()
		if err != nil {
			sb.close()
			return nil, err
		}
		ls = &liveSandbox{sb: sb, c: c, snap: snap}
	}
	sb, c, before := ls.sb, ls.c, ls.snap
	reusable := false
	defer func() {
		if reusable {
			putLive(variant, ls)
		} else {
			sb.close()
		}
	}()
	seenBytes := len(c.AllBytes)
	tmpBefore := ""
	ev := map[string]any{}
	for k, v := range rq {
		ev[k] = v
	}
	ev["op"] = "req"
	snapJSON := make([]map[string]any, len(before))
	keyStr := ""
	for i, n := range before {
		snapJSON[i] = sb.nodeJSON(n, sb.outer, nil)
		sz := n.S
		if len(n.P) > 1 && n.P[len(n.P)-2] == "Users" {
			sz = 0 // account files carry salted hashes: contents (and the YAML encoder's quoting) differ
		}
		keyStr += fmt.Sprintf("%s|%s|%d\n", key(n), n.K, sz)
	}
	// every sandbox of a variant must start identical (the log carries one world event per variant)
	snap0Mu.Lock()
	if k0, ok := snap0Key[variant]; !ok {
		snap0Key[variant] = keyStr
	} else if k0 != keyStr {
		snap0Mu.Unlock()
		return nil, fmt.Errorf("sandboxes of variant occ=%d ur=%d sp=%d differ initially", occ, ur, sp)
	}
	snap0Mu.Unlock()
	ev["_snap0"] = snapJSON

	var xferBytes []byte
	xfer := "none"
	names := [][]int{}
	listed := 0
	fsize := -1
	reps := []string{}

	if kind == "acct" {
		// $TMPDIR (process-wide) points at a canary directory outside every sandbox for the whole run; its entries and
		// modification time are observed around every account request (a file created there and removed again still
		// shows).  tmp = 1: the request runs alone with $TMPDIR pointing at a directory that does not exist.
		if intOf(rq["tmp"]) == 1 {
			tmpMu.Lock()
			_ = os.Setenv("TMPDIR", filepath.Join(sharedTmp, "missing"))
			defer func() {
				_ = os.Setenv("TMPDIR", sharedTmp)
				tmpMu.Unlock()
			}()
		} else {
			tmpMu.RLock()
			defer tmpMu.RUnlock()
		}
		tmpBefore = tmpState()
		for _, o := range listOf(rq["ops"]) {
			m, _ := o.(map[string]any)
			if strOf(m["op"]) == "restart" {
				// the real constructor on the directory the requests left behind; whether it starts is an observation
				if _, err := verifexport.NewYAMLAccountManager(filepath.Join(sb.w.Config, "Users")); err != nil {
					reps = append(reps, "fail")
				} else {
					reps = append(reps, "ok")
				}
				continue
			}
			r, err := acctOp(c, m)
			if err != nil {
				return nil, err
			}
			reps = append(reps, r.status)
			if r.status == "closed" {
				break
			}
		}
	} else {
		// one request, or (kind "seq") a short history of requests in the same sandbox
		steps := []map[string]any{rq}
		if kind == "seq" {
			steps = nil
			for _, st := range listOf(rq["steps"]) {
				m, _ := st.(map[string]any)
				steps = append(steps, m)
			}
		}
		for _, st := range steps {
			o, err := execStep(sb, c, st)
			if err != nil {
				return nil, err
			}
			reps = append(reps, o.rep)
			xferBytes = append(xferBytes, o.xferBytes...)
			if o.xfer != "none" {
				xfer = o.xfer
			}
			if kind != "seq" {
				names, listed, fsize = o.names, o.listed, o.fsize
			}
			if o.rep == "closed" {
				break
			}
		}
	}
	after, err := sb.snapshotOuter()
	if err != nil {
		return nil, err
	}
	c.Drain()
	disclosed := 0
	from := seenBytes - len(Marker)
	if from < 0 {
		from = 0
	}
	if bytes.Contains(c.AllBytes[from:], []byte(Marker)) || bytes.Contains(xferBytes, []byte(Marker)) {
		disclosed = 1
	}
	d := diffNodes(before, after)
	if kind == "acct" && tmpState() != tmpBefore {
		d = append(d, map[string]any{"d": "~", "p": compsJSON(toB([]string{"tmpdir-shared"})), "k": "dir", "s": 0})
	}
	closed := false
	for _, r := range reps {
		if r == "closed" {
			closed = true
		}
	}
	reusable = len(d) == 0 && !closed && disclosed == 0 && kind != "acct" && xfer != "timeout" && !c.ServerDone()
	ev["reps"] = reps
	ev["xfer"] = xfer
	ev["names"] = names
	ev["listed"] = listed
	ev["fsize"] = fsize
	ev["disclosed"] = disclosed
	ev["diff"] = d
	return ev, nil
}

type stepObs struct {
	rep       string
	names     [][]int
	listed    int
	fsize     int
	xfer      string
	xferBytes []byte
}

// execStep sends one file request and, if the reply carries a transfer reference, plays the transfer.
func execStep(sb *sandbox, c *sim.Client, rq map[string]any) (stepObs, error) {
	o := stepObs{names: [][]int{}, fsize: -1, xfer: "none"}
	kind := strOf(rq["kind"])
	typ, fields, err := buildRequest(rq)
	if err != nil {
		return o, err
	}
	r, err := request(c, typ, fields...)
	if err != nil {
		return o, err
	}
	o.rep = r.status
	if r.status != "ok" {
		return o, nil
	}
	switch kind {
	case "list":
		o.listed = 1
		for _, e := range parseList(r.tx) {
			o.names = append(o.names, e["n"].([]int))
		}
	case "info", "download":
		if b, ok := r.tx.Get(sim.FFileSize); ok {
			o.fsize = sim.BE(b)
		}
	}
	if ref, ok := r.tx.Get(sim.FRefNum); ok && len(ref) == 4 {
		var payload []byte
		switch kind {
		case "dlfolder":
			for i := 0; i < 200; i++ {
				payload = append(payload, 0, 1)
			}
		case "upload":
			payload = flatFile([]byte("up"), []byte("UPL"))
		case "upfolder":
			it, _ := rq["item"].(map[string]any)
			raw := bytesOf(it["raw"])
			payload = append(payload, sim.U16(4+len(raw))...)
			payload = append(payload, sim.U16(intOf(it["folder"]))...)
			payload = append(payload, sim.U16(intOf(it["count"]))...)
			payload = append(payload, raw...)
			if intOf(it["folder"]) == 0 {
				ff := flatFile([]byte("it"), []byte("ITM"))
				payload = append(payload, sim.U32(len(ff))...)
				payload = append(payload, ff...)
			}
		}
		o.xferBytes, o.xfer = runTransfer(sb.w, ref, payload)
	}
	return o, nil
}

// acctOp sends one account operation: create350 | create349 | update | rename | delete351 | delete349.
func acctOp(c *sim.Client, m map[string]any) (reply, error) {
	login := bytesOf(m["login"])
	nw := bytesOf(m["new"])
	zero := make([]byte, 8)
	sub := func(fs ...sim.F) sim.F {
		b := sim.U16(len(fs))
		for _, f := range fs {
			b = append(b, sim.U16(f.ID)...)
			b = append(b, sim.U16(len(f.Data))...)
			b = append(b, f.Data...)
		}
		return sim.Fld(sim.FData, b)
	}
	switch strOf(m["op"]) {
	case "create350":
		return request(c, sim.TNewUser, sim.Fld(sim.FUserLogin, sim.Obfuscate(login)), sim.Fld(sim.FUserPassword, []byte("pw")),
			sim.Fld(sim.FUserName, []byte("nm")), sim.Fld(sim.FUserAccess, zero))
	case "create349", "update":
		return request(c, sim.TUpdateUser, sub(sim.Fld(sim.FUserLogin, sim.Obfuscate(login)), sim.Fld(sim.FUserName, []byte("nm")),
			sim.Fld(sim.FUserPassword, []byte{0}), sim.Fld(sim.FUserAccess, zero)))
	case "rename":
		return request(c, sim.TUpdateUser, sub(sim.Fld(sim.FData, sim.Obfuscate(login)), sim.Fld(sim.FUserLogin, sim.Obfuscate(nw)),
			sim.Fld(sim.FUserName, []byte("nm")), sim.Fld(sim.FUserPassword, []byte{0}), sim.Fld(sim.FUserAccess, zero)))
	case "delete351":
		return request(c, sim.TDeleteUser, sim.Fld(sim.FUserLogin, sim.Obfuscate(login)))
	case "delete349":
		return request(c, sim.TUpdateUser, sub(sim.Fld(sim.FData, sim.Obfuscate(login))))
	}
	return reply{}, fmt.Errorf("unknown account op %q", strOf(m["op"]))
}

// buildRequest translates a request record (kind + optional byte-string arguments) into a transaction.
func buildRequest(rq map[string]any) (typ int, fields []sim.F, err error) {
	add := func(id int, key string) {
		if f, ok := field(id, rq[key]); ok {
			fields = append(fields, f)
		}
	}
	switch strOf(rq["kind"]) {
	case "list":
		typ = sim.TGetFileNameList
		add(sim.FFilePath, "path")
	case "info":
		typ = sim.TGetFileInfo
		add(sim.FFileName, "name")
		add(sim.FFilePath, "path")
	case "newfolder":
		typ = sim.TNewFolder
		add(sim.FFileName, "name")
		add(sim.FFilePath, "path")
	case "rename":
		typ = sim.TSetFileInfo
		add(sim.FFileName, "name")
		add(sim.FFilePath, "path")
		add(sim.FFileNewName, "newname")
	case "setcomment":
		typ = sim.TSetFileInfo
		add(sim.FFileName, "name")
		add(sim.FFilePath, "path")
		add(sim.FFileComment, "comment")
	case "move":
		typ = sim.TMoveFile
		add(sim.FFileName, "name")
		add(sim.FFilePath, "path")
		add(sim.FFileNewPath, "newpath")
	case "delete":
		typ = sim.TDeleteFile
		add(sim.FFileName, "name")
		add(sim.FFilePath, "path")
	case "alias":
		typ = sim.TMakeFileAlias
		add(sim.FFileName, "name")
		add(sim.FFilePath, "path")
		add(sim.FFileNewPath, "newpath")
	case "download":
		typ = sim.TDownloadFile
		add(sim.FFileName, "name")
		add(sim.FFilePath, "path")
	case "dlfolder":
		typ = sim.TDownloadFldr
		add(sim.FFileName, "name")
		add(sim.FFilePath, "path")
	case "upload":
		typ = sim.TUploadFile
		add(sim.FFileName, "name")
		add(sim.FFilePath, "path")
		fields = append(fields, sim.Fld(sim.FTransferSize, sim.U32(200)))
	case "upfolder":
		typ = sim.TUploadFldr
		add(sim.FFileName, "name")
		add(sim.FFilePath, "path")
		fields = append(fields, sim.Fld(sim.FTransferSize, sim.U32(200)), sim.Fld(sim.FFolderItemCount, sim.U16(1)))
	case "acct", "seq":
	default:
		return 0, nil, fmt.Errorf("unknown kind %q", strOf(rq["kind"]))
	}
	return typ, fields, nil
}
