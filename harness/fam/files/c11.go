package files

import (
	"flag"
	"fmt"
	"sort"
	"strings"
	"sync"

	"verifharness/sim"
)

// `vh-files c11`: every script is a world (a small directory tree + an ignore-pattern configuration) and a
// sequence of file-management requests chosen by TLC.  They are executed by one logged-in client that holds every
// privilege.  After the world is built and after every step the driver records
//   snap  - the real directory tree below the file root (kind, size, link target)
//   lists - the parsed file-list reply (transaction 200) of every real folder
//   infos - the get-info reply (206) for every listed entry, addressed by exactly the bytes that were listed
//   dls   - the download reply (202) sizes for every listed entry that is not shown as a folder
// Nothing is compared here.

func runC11(args []string) error {
	fs := flag.NewFlagSet("c11", flag.ExitOnError)
	in := fs.String("scripts", "", "ndjson, one script per line")
	out := fs.String("out", "log.ndjson", "event log")
	par := fs.Int("par", 32, "parallel scripts")
	_ = fs.Parse(args)
	scripts, err := readScripts(*in)
	if err != nil {
		return err
	}
	lg, err := sim.NewLog(*out)
	if err != nil {
		return err
	}
	results := make([][]map[string]any, len(scripts))
	errs := make([]error, len(scripts))
	var wg sync.WaitGroup
	sem := make(chan struct{}, *par)
	for i := range scripts {
		wg.Add(1)
		sem <- struct{}{}
		go func(i int) {
			defer wg.Done()
			defer func() { <-sem }()
			results[i], errs[i] = runC11Script(i+1, scripts[i])
		}(i)
	}
	wg.Wait()
	for i := range scripts {
		if errs[i] != nil {
			return fmt.Errorf("script %d: %w", i+1, errs[i])
		}
		lg.EmitAll(results[i])
	}
	return lg.Close()
}

var rootPrefix = []string{"root"}

func runC11Script(run int, sc map[string]any) ([]map[string]any, error) {
	world, _ := sc["world"].(map[string]any)
	sb, err := newSandbox(world, false)
	if err != nil {
		return nil, err
	}
	defer sb.close()
	c, err := login(sb.w)
	if err != nil {
		return nil, err
	}
	var evs []map[string]any
	ev := map[string]any{"op": "world", "run": run, "mode": "c11", "occ": 0, "ignore": strOf(world["ignore"]),
		"rootp": compsJSON(toB(rootPrefix)), "usersp": compsJSON(toB([]string{"config", "Users"}))}
	if err := observe(sb, &c, ev); err != nil {
		return nil, err
	}
	evs = append(evs, ev)
	for i, st := range listOf(sc["steps"]) {
		rq, _ := st.(map[string]any)
		ev := map[string]any{}
		for k, v := range rq {
			ev[k] = v
		}
		ev["op"] = "step"
		ev["run"] = run
		ev["i"] = i + 1
		typ, fields, err := buildRequest(rq)
		if err != nil {
			return nil, err
		}
		r, err := request(c, typ, fields...)
		if err != nil {
			return nil, err
		}
		ev["rep"] = r.status
		if r.status == "closed" {
			// the connection is gone (a handler panicked): observe through a fresh one
			if c, err = login(sb.w); err != nil {
				return nil, err
			}
		}
		if err := observe(sb, &c, ev); err != nil {
			return nil, err
		}
		evs = append(evs, ev)
	}
	return evs, nil
}

// observe fills ev with snap, lists, infos, dls.
func observe(sb *sandbox, cp **sim.Client, ev map[string]any) error {
	// a request that makes the server drop the connection is an observation ("closed"), not a failure of the driver:
	// the next request goes through a fresh connection
	ask := func(typ int, fields ...sim.F) (reply, error) {
		r, err := request(*cp, typ, fields...)
		if err == nil && r.status == "closed" {
			nc, lerr := login(sb.w)
			if lerr != nil {
				return r, lerr
			}
			*cp = nc
		}
		return r, err
	}
	nodes, err := sb.snapshotAt(sb.w.Root, rootPrefix)
	if err != nil {
		return err
	}
	snap := []map[string]any{{"p": compsJSON(toB(rootPrefix)), "k": "dir", "s": 0, "t": [][]int{}, "c": 0, "ty": []int{}}}
	for _, n := range nodes {
		snap = append(snap, sb.nodeJSON(n, sb.w.Root, rootPrefix))
	}
	ev["snap"] = snap
	// every real folder, addressed by the Mac Roman form of its path
	dirs := [][]string{{}}
	for _, n := range nodes {
		if n.K == "dir" {
			dirs = append(dirs, n.P[1:])
		}
	}
	sort.Slice(dirs, func(i, j int) bool { return strings.Join(dirs[i], "/") < strings.Join(dirs[j], "/") })
	lists := []map[string]any{}
	infos := []map[string]any{}
	dls := []map[string]any{}
	for _, d := range dirs {
		var wire [][]byte
		ok := true
		for _, comp := range d {
			wb, o := toWire(comp)
			if !o {
				ok = false
			}
			wire = append(wire, wb)
		}
		if !ok {
			continue
		}
		var pf []sim.F
		if len(wire) > 0 {
			pf = append(pf, sim.Fld(sim.FFilePath, encPath(wire)))
		}
		r, err := ask(sim.TGetFileNameList, pf...)
		if err != nil {
			return err
		}
		le := map[string]any{"d": compsJSON(wire), "rep": r.status, "es": []map[string]any{}}
		if r.status == "ok" {
			es := parseList(r.tx)
			le["es"] = es
			for _, e := range es {
				nm := e["n"].([]int)
				nb := make([]byte, len(nm))
				for i, x := range nm {
					nb[i] = byte(x)
				}
				f := append([]sim.F{sim.Fld(sim.FFileName, nb)}, pf...)
				ir, err := ask(sim.TGetFileInfo, f...)
				if err != nil {
					return err
				}
				im := map[string]any{"d": compsJSON(wire), "n": nm, "rep": ir.status, "name": []int{}, "t": []int{}, "s": -1, "cl": 0}
				if ir.status == "ok" {
					if b, ok := ir.tx.Get(sim.FFileName); ok {
						im["name"] = ints(b)
					}
					if b, ok := ir.tx.Get(sim.FFileType); ok {
						im["t"] = ints(b)
					}
					if b, ok := ir.tx.Get(sim.FFileSize); ok {
						im["s"] = sim.BE(b)
					}
					if b, ok := ir.tx.Get(sim.FFileComment); ok {
						im["cl"] = len(b)
					}
				}
				infos = append(infos, im)
				if string(bytesFromInts(e["t"].([]int))) != "fldr" {
					dr, err := ask(sim.TDownloadFile, f...)
					if err != nil {
						return err
					}
					dm := map[string]any{"d": compsJSON(wire), "n": nm, "rep": dr.status, "x": -1, "s": -1}
					if dr.status == "ok" {
						if b, ok := dr.tx.Get(sim.FTransferSize); ok {
							dm["x"] = sim.BE(b)
						}
						if b, ok := dr.tx.Get(sim.FFileSize); ok {
							dm["s"] = sim.BE(b)
						}
					}
					dls = append(dls, dm)
				}
			}
		}
		lists = append(lists, le)
	}
	ev["lists"] = lists
	ev["infos"] = infos
	ev["dls"] = dls
	return nil
}

func bytesFromInts(x []int) []byte {
	b := make([]byte, len(x))
	for i, v := range x {
		b[i] = byte(v)
	}
	return b
}
