package authz

import (
	"fmt"
	"os"
	"path/filepath"
	"sort"
	"strings"

	"github.com/jhalter/mobius/hotline"
	"github.com/jhalter/mobius/verifexport"
	"gopkg.in/yaml.v3"

	"verifharness/sim"
)

// runRt (C16): one privilege set S goes through the account file in both formats, through the account manager,
// through an authorization decision per privilege number and through the user-access field sent at login.
// The case carries, computed by the specification: "bytes" = ToBytes(S), "names" = Save(S) (the keys the
// specification says are true in the saved file) and "allnames" (every key of the named format).  Recorded:
//
//	aload    the 8 bitmap bytes of the account after the real manager loaded a named-flag file with exactly `names` true
//	bkeys    the keys that are true in the file the real manager wrote for an account created with bitmap `bytes`
//	ball     every key of that file's Access map
//	cmem     the bitmap after the real manager loaded (and migrated) the legacy file `Access: [b0..b7]`
//	cform    the form of the Access node in the file after that load ("map" once migrated)
//	ckeys    the keys that are true in the migrated file
//	creload  the bitmap when a fresh manager loads the migrated file
//	dauth    the privilege numbers i for which ClientConn.Authorize(i) holds for a logged-in user of the account
//	dwire    the user-access field (transaction 354) the server sent at login
func runRt(c map[string]any, ev map[string]any) error {
	bits, err := bytes8(c["bytes"])
	if err != nil {
		return err
	}
	names := strsOf(c["names"])
	all := strsOf(c["allnames"])
	isTrue := map[string]bool{}
	for _, n := range names {
		isTrue[n] = true
	}
	base, err := os.MkdirTemp(sim.ScratchBase(), "rt-")
	if err != nil {
		return err
	}
	defer os.RemoveAll(base)
	hash := sim.HashPassword("pw")
	head := func(login string) string {
		return fmt.Sprintf("Login: %s\nName: %s\nPassword: \"%s\"\n", login, "U", hash)
	}
	named := func(login string, on map[string]bool) string {
		var b strings.Builder
		b.WriteString(head(login))
		b.WriteString("Access:\n")
		// DownloadFile first, as the real writer does (the loader recognises the named format by that line)
		order := append([]string{}, all...)
		sort.SliceStable(order, func(i, j int) bool { return order[i] == "DownloadFile" && order[j] != "DownloadFile" })
		for _, n := range order {
			fmt.Fprintf(&b, "    %s: %v\n", n, on[n])
		}
		b.WriteString("FileRoot: \"\"\n")
		return b.String()
	}
	readAccess := func(path string) (form string, trueKeys, allKeys []string, err error) {
		raw, err := os.ReadFile(path)
		if err != nil {
			return "", nil, nil, err
		}
		var doc map[string]any
		if err := yaml.Unmarshal(raw, &doc); err != nil {
			return "", nil, nil, err
		}
		switch a := doc["Access"].(type) {
		case map[string]any:
			for k, v := range a {
				allKeys = append(allKeys, k)
				if bv, ok := v.(bool); ok && bv {
					trueKeys = append(trueKeys, k)
				}
			}
			sort.Strings(trueKeys)
			sort.Strings(allKeys)
			return "map", nzs(trueKeys), nzs(allKeys), nil
		case []any:
			return "array", []string{}, []string{}, nil
		}
		return "other", []string{}, []string{}, nil
	}

	// (a) named-flag file as the specification's Save(S) predicts it -> real loader
	dirA := filepath.Join(base, "a")
	_ = os.MkdirAll(dirA, 0755)
	if err := os.WriteFile(filepath.Join(dirA, "u.yaml"), []byte(named("u", isTrue)), 0644); err != nil {
		return err
	}
	ma, err := verifexport.NewYAMLAccountManager(dirA)
	if err != nil {
		return fmt.Errorf("rt(a): %w", err)
	}
	ua := ma.Get("u")
	if ua == nil {
		return fmt.Errorf("rt(a): account did not load")
	}
	ev["aload"] = sim.Ints(ua.Access[:])

	// (b) account with bitmap ToBytes(S) created through the real manager -> independent YAML parse of its file
	dirB := filepath.Join(base, "b")
	_ = os.MkdirAll(dirB, 0755)
	if err := os.WriteFile(filepath.Join(dirB, "seed.yaml"), []byte(named("seed", map[string]bool{})), 0644); err != nil {
		return err
	}
	mb, err := verifexport.NewYAMLAccountManager(dirB)
	if err != nil {
		return fmt.Errorf("rt(b): %w", err)
	}
	if err := mb.Create(hotline.Account{Login: "u", Name: "U", Password: hash, Access: hotline.AccessBitmap(bits)}); err != nil {
		return fmt.Errorf("rt(b): create: %w", err)
	}
	form, tk, ak, err := readAccess(filepath.Join(dirB, "u.yaml"))
	if err != nil {
		return fmt.Errorf("rt(b): %w", err)
	}
	ev["bform"] = form
	ev["bkeys"] = tk
	ev["ball"] = ak

	// (c) legacy array form -> real loader (migration path) -> file afterwards -> fresh loader
	dirC := filepath.Join(base, "c")
	_ = os.MkdirAll(dirC, 0755)
	var arr []string
	for _, x := range bits {
		arr = append(arr, fmt.Sprint(int(x)))
	}
	legacy := head("u") + "Access: [" + strings.Join(arr, ", ") + "]\nFileRoot: \"\"\n"
	if err := os.WriteFile(filepath.Join(dirC, "u.yaml"), []byte(legacy), 0644); err != nil {
		return err
	}
	mc, err := verifexport.NewYAMLAccountManager(dirC)
	if err != nil {
		return fmt.Errorf("rt(c): %w", err)
	}
	uc := mc.Get("u")
	if uc == nil {
		return fmt.Errorf("rt(c): account did not load")
	}
	ev["cmem"] = sim.Ints(uc.Access[:])
	form, tk, _, err = readAccess(filepath.Join(dirC, "u.yaml"))
	if err != nil {
		return fmt.Errorf("rt(c): %w", err)
	}
	ev["cform"] = form
	ev["ckeys"] = tk
	mc2, err := verifexport.NewYAMLAccountManager(dirC)
	if err != nil {
		return fmt.Errorf("rt(c) reload: %w", err)
	}
	uc2 := mc2.Get("u")
	if uc2 == nil {
		return fmt.Errorf("rt(c): account did not reload")
	}
	ev["creload"] = sim.Ints(uc2.Access[:])

	// (d) authorization decisions and the wire
	ev["dworld"] = "ok"
	w, err := sim.NewWorld(sim.WorldOpts{Accounts: []sim.Acct{{Login: "u", Name: "U", Password: "pw"}}})
	if err != nil {
		// the world's own self-check (an account without privileges must load without privileges) failed: what was
		// observed so far is still judged
		ev["dworld"] = err.Error()
		ev["dwire"], ev["nwire"], ev["dauth"] = []int{}, 0, []int{}
		ev["owire"], ev["onwire"], ev["oauth"] = []int{}, 0, []int{}
		return nil
	}
	defer w.Close()
	if err := setAccess(w, "u", bits); err != nil {
		return err
	}
	cl := w.Dial("")
	if rep, err := cl.Login(sim.LoginOpts{Login: "u", Password: "pw", Name: "U"}); err != nil || rep.Err != 0 {
		return fmt.Errorf("rt(d): login: %v err=%d", err, rep.Err)
	}
	wire := []int{}
	nwire := 0
	for _, f := range cl.Drain() {
		if f.IsReply == 0 && f.Type == sim.TUserAccess {
			nwire++
			if b, ok := f.Get(sim.FUserAccess); ok && nwire == 1 {
				wire = sim.Ints(b)
			}
		}
	}
	ev["dwire"] = wire
	ev["nwire"] = nwire
	cc := cl.ServerConn()
	if cc == nil {
		return fmt.Errorf("rt(d): no server connection")
	}
	auth := []int{}
	for i := 0; i < 64; i++ {
		if cc.Authorize(i) {
			auth = append(auth, i)
		}
	}
	ev["dauth"] = auth
	// the same for a second session that logs in the 1.2.3 way (name and icon in the login, no version, no Agreed)
	oc := w.Dial("")
	if rep, err := oc.Login(sim.LoginOpts{Login: "u", Password: "pw", Name: "U old", Icon: 2, Old: true}); err != nil || rep.Err != 0 {
		return fmt.Errorf("rt(d): old-flow login: %v err=%d", err, rep.Err)
	}
	owire, onwire := []int{}, 0
	for _, f := range oc.Drain() {
		if f.IsReply == 0 && f.Type == sim.TUserAccess {
			onwire++
			if b, ok := f.Get(sim.FUserAccess); ok && onwire == 1 {
				owire = sim.Ints(b)
			}
		}
	}
	ev["owire"] = owire
	ev["onwire"] = onwire
	occ := oc.ServerConn()
	if occ == nil {
		return fmt.Errorf("rt(d): no server connection (old flow)")
	}
	oauth := []int{}
	for i := 0; i < 64; i++ {
		if occ.Authorize(i) {
			oauth = append(oauth, i)
		}
	}
	ev["oauth"] = oauth
	return nil
}

// runUpd (C16): a session of account "x" (old privileges c["old"]) is live while an administrator changes the
// account's privileges to c["S"] - bitmap c["bytes"] = ToBytes(S) from the specification - through Set User (353)
// or the modify branch of Update User (349).  Recorded:
//
//	reply    the administrator's reply class
//	lwire    the user-access field (354) the session got at login
//	n354     how many user-access transactions the session received because of the change
//	uwire    the bytes of the last of them
//	dauth    the privilege numbers i with Authorize(i) for the live session afterwards
//	disk     the account's bitmap when a fresh account manager loads the directory
func runUpd(c map[string]any, ev map[string]any) error {
	bits, err := bytes8(c["bytes"])
	if err != nil {
		return err
	}
	old := bitmapOf(c["old"])
	near, _ := c["near"].(string)
	edited, bystander := "x", ""
	switch near {
	case "", "none":
	case "case":
		edited, bystander = "bob", "Bob"
	case "prefix":
		edited, bystander = "bob", "bo"
	case "suffix":
		edited, bystander = "bob", "bobby"
	default:
		return fmt.Errorf("upd: near %q", near)
	}
	accts := []sim.Acct{{Login: "adm", Name: "Admin", Password: "ap"}, {Login: edited, Name: "X", Password: "xp"}}
	if bystander != "" {
		accts = append(accts, sim.Acct{Login: bystander, Name: "Bystander", Password: "bp"})
	}
	w, err := sim.NewWorld(sim.WorldOpts{Accounts: accts})
	if err != nil {
		// the world's own self-check failed (accounts without privileges did not load as such): recorded, the
		// trace specification reports that the case did not run; the file-level cases of the same run are judged
		ev["reply"], ev["live"], ev["n354"] = "noworld: "+err.Error(), false, 0
		ev["lwire"], ev["uwire"], ev["dauth"], ev["disk"] = []int{}, []int{}, []int{}, []int{}
		return nil
	}
	defer w.Close()
	if err := setAccess(w, "adm", sim.AllAccess()); err != nil {
		return err
	}
	if err := setAccess(w, edited, old); err != nil {
		return err
	}
	x := w.Dial("")
	if rep, err := x.Login(sim.LoginOpts{Login: edited, Password: "xp", Name: "X"}); err != nil || rep.Err != 0 {
		return fmt.Errorf("upd: login x: %v err=%d", err, rep.Err)
	}
	lwire := []int{}
	for _, f := range x.Drain() {
		if f.IsReply == 0 && f.Type == sim.TUserAccess {
			if b, ok := f.Get(sim.FUserAccess); ok {
				lwire = sim.Ints(b)
			}
		}
	}
	var by *sim.Client
	ev["bn354"], ev["bwire"], ev["bauth"], ev["bdisk"] = 0, []int{}, []int{}, []int{}
	if bystander != "" {
		if err := setAccess(w, bystander, bitmapOf(c["B"])); err != nil {
			return err
		}
		by = w.Dial("")
		if rep, err := by.Login(sim.LoginOpts{Login: bystander, Password: "bp", Name: "By"}); err != nil || rep.Err != 0 {
			return fmt.Errorf("upd: login bystander: %v err=%d", err, rep.Err)
		}
		by.Drain()
	}
	adm := w.Dial("")
	if rep, err := adm.Login(sim.LoginOpts{Login: "adm", Password: "ap", Name: "Admin"}); err != nil || rep.Err != 0 {
		return fmt.Errorf("upd: login adm: %v err=%d", err, rep.Err)
	}
	if err := x.Settle(); err != nil {
		return err
	}
	x.Drain()
	adm.Drain()
	var id uint32
	switch intOf(c["via"]) {
	case 353:
		id = adm.Send(sim.TSetUser, sim.Fld(sim.FUserLogin, sim.Obfuscate([]byte(edited))), sim.Fld(sim.FUserName, []byte("X")),
			sim.Fld(sim.FUserPassword, []byte{0}), sim.Fld(sim.FUserAccess, bits[:]))
	case 349:
		id = adm.Send(sim.TUpdateUser, sim.Fld(sim.FData, encSub(sim.Fld(sim.FUserLogin, sim.Obfuscate([]byte(edited))),
			sim.Fld(sim.FUserName, []byte("X")), sim.Fld(sim.FUserPassword, []byte{0}), sim.Fld(sim.FUserAccess, bits[:]))))
	default:
		return fmt.Errorf("upd: via %v", c["via"])
	}
	settleErr := adm.Settle()
	reply := "none"
	for _, f := range adm.Drain() {
		if f.IsReply == 1 && f.ID == id {
			reply = "ok"
			if f.Err != 0 {
				reply = "err"
			}
		}
	}
	if settleErr != nil && reply == "none" {
		reply = "closed"
	}
	ev["reply"] = reply
	if !x.ServerDone() {
		_ = x.Settle()
	}
	n354, uwire := 0, []int{}
	for _, f := range x.Drain() {
		if f.IsReply == 0 && f.Type == sim.TUserAccess {
			n354++
			if b, ok := f.Get(sim.FUserAccess); ok {
				uwire = sim.Ints(b)
			}
		}
	}
	if by != nil {
		if !by.ServerDone() {
			_ = by.Settle()
		}
		bn, bw := 0, []int{}
		for _, f := range by.Drain() {
			if f.IsReply == 0 && f.Type == sim.TUserAccess {
				bn++
				if b, ok := f.Get(sim.FUserAccess); ok {
					bw = sim.Ints(b)
				}
			}
		}
		ev["bn354"], ev["bwire"] = bn, bw
		ba := []int{}
		if cc := by.ServerConn(); cc != nil {
			for i := 0; i < 64; i++ {
				if cc.Authorize(i) {
					ba = append(ba, i)
				}
			}
		}
		ev["bauth"] = ba
	}
	ev["lwire"] = lwire
	ev["n354"] = n354
	ev["uwire"] = uwire
	auth := []int{}
	if cc := x.ServerConn(); cc != nil {
		for i := 0; i < 64; i++ {
			if cc.Authorize(i) {
				auth = append(auth, i)
			}
		}
		ev["live"] = true
	} else {
		ev["live"] = false
	}
	ev["dauth"] = auth
	disk := []int{}
	fresh, err := verifexport.NewYAMLAccountManager(filepath.Join(w.Config, "Users"))
	if err != nil {
		return fmt.Errorf("upd: reload accounts: %w", err)
	}
	if a := fresh.Get(edited); a != nil {
		disk = sim.Ints(a.Access[:])
	}
	ev["disk"] = disk
	if bystander != "" {
		if a := fresh.Get(bystander); a != nil {
			ev["bdisk"] = sim.Ints(a.Access[:])
		}
	}
	return nil
}

// parseSub splits the payload of a List Users entry: count(2) { id(2) size(2) data }*.
func parseSub(b []byte) map[int][]byte {
	out := map[int][]byte{}
	if len(b) < 2 {
		return out
	}
	n := sim.BE(b[0:2])
	p := b[2:]
	for i := 0; i < n && len(p) >= 4; i++ {
		id, sz := sim.BE(p[0:2]), sim.BE(p[2:4])
		if len(p) < 4+sz {
			break
		}
		out[id] = p[4 : 4+sz]
		p = p[4+sz:]
	}
	return out
}

// runOpen (C16): an account editor "ed" (access c["racc"], bitmap c["rbytes"]) opens the account "x" (bitmap
// c["bytes"] = ToBytes(S)) with Get User (352), lists the accounts (348) and - when it holds Modify User - saves
// the account with exactly the bytes it received (353).  Recorded: greply / lreply / sreply (reply classes), gwire
// (access field of the Get User reply), lwire (access field of x's entry in the List Users reply), saved, and the
// account afterwards: mem (running account manager) and disk (freshly loaded one).
func runOpen(c map[string]any, ev map[string]any) error {
	bits, err := bytes8(c["bytes"])
	if err != nil {
		return err
	}
	rbits, err := bytes8(c["rbytes"])
	if err != nil {
		return err
	}
	ev["greply"], ev["lreply"], ev["sreply"], ev["saved"] = "none", "none", "none", false
	ev["gwire"], ev["lwire"], ev["mem"], ev["disk"] = []int{}, []int{}, []int{}, []int{}
	w, err := sim.NewWorld(sim.WorldOpts{Accounts: []sim.Acct{
		{Login: "ed", Name: "Editor", Password: "ep"},
		{Login: "x", Name: "X", Password: "xp"},
	}})
	if err != nil {
		ev["greply"] = "noworld: " + err.Error()
		return nil
	}
	defer w.Close()
	if err := setAccess(w, "ed", rbits); err != nil {
		return err
	}
	if err := setAccess(w, "x", bits); err != nil {
		return err
	}
	ed := w.Dial("")
	if rep, err := ed.Login(sim.LoginOpts{Login: "ed", Password: "ep", Name: "Editor"}); err != nil || rep.Err != 0 {
		return fmt.Errorf("open: login: %v err=%d", err, rep.Err)
	}
	ed.Drain()
	cls := func(rep sim.Tx, err error) string {
		switch {
		case err != nil:
			return "closed"
		case rep.Err != 0:
			return "err"
		}
		return "ok"
	}
	rep, rerr := ed.Request(sim.TGetUser, sim.Fld(sim.FUserLogin, []byte("x")))
	ev["greply"] = cls(rep, rerr)
	var got []byte
	if b, ok := rep.Get(sim.FUserAccess); ok && rerr == nil {
		got = b
		ev["gwire"] = sim.Ints(b)
	}
	lrep, lerr := ed.Request(sim.TListUsers)
	ev["lreply"] = cls(lrep, lerr)
	if lerr == nil {
		for _, entry := range lrep.GetAll(sim.FData) {
			f := parseSub(entry)
			if string(sim.Obfuscate(f[sim.FUserLogin])) == "x" {
				ev["lwire"] = sim.Ints(f[sim.FUserAccess])
			}
		}
	}
	if sim.BitSet(rbits, 17) && got != nil {
		// save what was received, unchanged (password marker "keep")
		srep, serr := ed.Request(sim.TSetUser, sim.Fld(sim.FUserLogin, sim.Obfuscate([]byte("x"))), sim.Fld(sim.FUserName, []byte("X")),
			sim.Fld(sim.FUserPassword, []byte{0}), sim.Fld(sim.FUserAccess, got))
		ev["sreply"] = cls(srep, serr)
		ev["saved"] = true
	}
	if a := w.AM.Get("x"); a != nil {
		ev["mem"] = sim.Ints(a.Access[:])
	}
	fresh, err := verifexport.NewYAMLAccountManager(filepath.Join(w.Config, "Users"))
	if err != nil {
		return fmt.Errorf("open: reload accounts: %w", err)
	}
	if a := fresh.Get("x"); a != nil {
		ev["disk"] = sim.Ints(a.Access[:])
	}
	return nil
}
