package authz

import (
	"context"
	"encoding/hex"
	"fmt"
	"os"
	"path/filepath"
	"sort"
	"strings"
	"sync"
	"time"

	"github.com/jhalter/mobius/hotline"

	"verifharness/sim"
)

// chatRec wraps the server's real chat manager and remembers which chats exist, so that chat membership can be
// part of the effect digest.  Every call is forwarded unchanged.
type chatRec struct {
	inner hotline.ChatManager
	mu    sync.Mutex
	ids   []hotline.ChatID
}

func (c *chatRec) New(cc *hotline.ClientConn) hotline.ChatID {
	id := c.inner.New(cc)
	c.mu.Lock()
	c.ids = append(c.ids, id)
	c.mu.Unlock()
	return id
}
func (c *chatRec) GetSubject(id hotline.ChatID) string         { return c.inner.GetSubject(id) }
func (c *chatRec) Join(id hotline.ChatID, cc *hotline.ClientConn) { c.inner.Join(id, cc) }
func (c *chatRec) Leave(id hotline.ChatID, clientID [2]byte)   { c.inner.Leave(id, clientID) }
func (c *chatRec) SetSubject(id hotline.ChatID, s string)      { c.inner.SetSubject(id, s) }
func (c *chatRec) Members(id hotline.ChatID) []*hotline.ClientConn {
	return c.inner.Members(id)
}

func (c *chatRec) digest() []string {
	c.mu.Lock()
	ids := append([]hotline.ChatID(nil), c.ids...)
	c.mu.Unlock()
	var out []string
	for i, id := range ids {
		var ms []string
		for _, m := range c.inner.Members(id) {
			if m != nil && m.Account != nil {
				ms = append(ms, m.Account.Login)
			}
		}
		sort.Strings(ms)
		out = append(out, fmt.Sprintf("chat%d members=%s subject=%q", i+1, strings.Join(ms, ","), c.inner.GetSubject(id)))
	}
	return out
}

// names used by the cases
const (
	reqAcctName  = "ReqAcct"   // the requester's account name
	reqLoginName = "Requester" // the name the requester asks for at login
	reqNewName   = "Chosen"    // the name the requester asks for in the case's request
)

type hworld struct {
	w    *sim.World
	req  *sim.Client
	oth  *sim.Client
	prot *sim.Client // optional bystander (C06)
	lastReply sim.Tx // the reply to the observed request, if any
	cm   *chatRec
	chat []byte
}

type hopts struct {
	acc, othAcc [8]byte
	withChat    bool
	reqState    string // the requester's own state: "" / "agreed", "old", "pre", "noname" (see Authz!R)
	othLogin    string // account of the second client ("" = other); "req": a second session of the requester's account
	orphan      bool   // an account file Users/newacct.yaml that the account manager does not know
	third       string // "", "none", "same" (bystander from the second client's address), "other" (from another address)
	pacc        [8]byte
}

// infoFork renders an information-fork side file (.info_<name>) from the protocol document's layout of the
// flattened file object's information fork: platform(4) type(4) creator(4) flags(4) platform flags(4) reserved(32)
// create date(8) modify date(8) name script(2) name size(2) name comment size(2) comment.
func infoFork(typ, creator, name, comment string) []byte {
	b := []byte("AMAC")
	b = append(b, typ...)
	b = append(b, creator...)
	b = append(b, 0, 0, 0, 0, 0, 0, 1, 0)
	b = append(b, make([]byte, 32)...)
	date := []byte{0x07, 0x70, 0, 0, 0x00, 0x10, 0x00, 0x00}
	b = append(b, date...)
	b = append(b, date...)
	b = append(b, 0, 0)
	b = append(b, sim.U16(len(name))...)
	b = append(b, name...)
	b = append(b, sim.U16(len(comment))...)
	b = append(b, comment...)
	return b
}

func setAccess(w *sim.World, login string, acc [8]byte) error {
	a := w.AM.Get(login)
	if a == nil {
		return fmt.Errorf("account %q missing", login)
	}
	a.Access = hotline.AccessBitmap(acc)
	return w.AM.Update(*a, login)
}

func allDefinedBut(skip ...int) [8]byte {
	a := sim.AllAccess()
	for _, i := range skip {
		a[i/8] &^= 1 << uint(7-i%8)
	}
	return a
}

// newHWorld builds the world every C05 / C06-kick case starts from: a file root with a file, a folder, an Uploads
// folder holding a partial upload, a drop box and a destination folder; accounts req / other / victim / spare;
// threaded news with a bundle, a category and one article; a message board; requester and a second client logged in.
func newHWorld(o hopts) (*hworld, error) {
	acc, othAcc, withChat := o.acc, o.othAcc, o.withChat
	w, err := sim.NewWorld(sim.WorldOpts{
		Accounts: []sim.Acct{
			// (accounts are written without privileges; the case's bitmaps are set below through the real manager)
			{Login: "req", Name: reqAcctName, Password: "rp"},
			{Login: "other", Name: "OtherAcct", Password: "op"},
			{Login: "victim", Name: "Victim", Password: "vp"},
			{Login: "spare", Name: "Spare", Password: "sp"},
			{Login: "prot", Name: "Bystander", Password: "pp"},
		},
		Agreement: "agreement text",
		Board:     "old news\r",
	})
	if err != nil {
		return nil, err
	}
	h := &hworld{w: w}
	fail := func(err error) (*hworld, error) { w.Close(); return nil, err }
	h.cm = &chatRec{inner: w.Srv.ChatMgr}
	w.Srv.ChatMgr = h.cm
	for _, d := range []string{"Folder", "Uploads", "Drop Box", "Dest", "Stuff"} {
		if err := os.MkdirAll(filepath.Join(w.Root, d), 0755); err != nil {
			return fail(err)
		}
	}
	for p, data := range map[string]string{
		"file.txt": "hello file", "Folder/inner.txt": "inner", "Uploads/part.bin.incomplete": "12345",
		"Drop Box/secret.txt": "secret", "Stuff/in.txt": "in stuff", "liar.txt": "a regular file",
		// side files that lie about the kind of the object: the folder Stuff claims to be a text file, the file
		// liar.txt claims to be a folder
		".info_Stuff":    string(infoFork("TEXT", "ttxt", "Stuff", "")),
		".info_liar.txt": string(infoFork("fldr", "n/a ", "liar.txt", "")),
		// something to lose at every target a request names: stale partial uploads with side files in every
		// location class, partial folder uploads, an occupant at the move / alias / rename destination
		"new.bin.incomplete": "stale", ".info_new.bin": string(infoFork("BINA", "????", "new.bin", "stale")), ".rsrc_new.bin": "stale rsrc",
		"Uploads/new.bin.incomplete": "stale", "Uploads/.info_new.bin": string(infoFork("BINA", "????", "new.bin", "stale")), "Uploads/.rsrc_new.bin": "stale rsrc",
		"Drop Box/new.bin.incomplete": "stale", "Drop Box/.info_new.bin": string(infoFork("BINA", "????", "new.bin", "stale")), "Drop Box/.rsrc_new.bin": "stale rsrc",
		"Folder/new.bin.incomplete": "stale", "Folder/.info_new.bin": string(infoFork("BINA", "????", "new.bin", "stale")), "Folder/.rsrc_new.bin": "stale rsrc",
		"Uploads/.info_part.bin": string(infoFork("BINA", "????", "part.bin", "partial")), "Uploads/.rsrc_part.bin.incomplete": "partial rsrc",
		"UpDir/x.bin.incomplete": "stale", "Uploads/UpDir/x.bin.incomplete": "stale", "Drop Box/UpDir/x.bin.incomplete": "stale",
		"Folder/UpDir/x.bin.incomplete": "stale",
		// stored comments on the ordinary file and folder (something to lose for a set-comment request)
		".info_file.txt": string(infoFork("TEXT", "ttxt", "file.txt", "a stored comment")),
		".info_Folder":   string(infoFork("fldr", "n/a ", "Folder", "a stored folder comment")),
		"occupied.txt": "occupant", "Dest/occupied.txt": "occupant at the destination", ".info_occupied.txt": string(infoFork("TEXT", "ttxt", "occupied.txt", "keep me")),
	} {
		if err := os.MkdirAll(filepath.Dir(filepath.Join(w.Root, p)), 0755); err != nil {
			return fail(err)
		}
		if err := os.WriteFile(filepath.Join(w.Root, p), []byte(data), 0644); err != nil {
			return fail(err)
		}
	}
	if err := w.News.CreateGrouping([]string{}, "Bundle", hotline.NewsBundle); err != nil {
		return fail(err)
	}
	if err := w.News.CreateGrouping([]string{}, "Cat", hotline.NewsCategory); err != nil {
		return fail(err)
	}
	if err := w.News.PostArticle([]string{"Cat"}, 0, hotline.NewsArtData{Title: "First", Poster: "setup",
		Date: hotline.NewTime(time.Unix(1700000000, 0)), DataFlav: hotline.NewsFlavor, Data: "article body"}); err != nil {
		return fail(err)
	}
	// aliases: to a file, to a folder, and one whose target is gone
	for l, target := range map[string]string{"alias-file": "file.txt", "alias-folder": "Folder", "alias-dangling": "gone.txt"} {
		if err := os.Symlink(filepath.Join(w.Root, target), filepath.Join(w.Root, l)); err != nil {
			return fail(err)
		}
	}
	// nested news items: a bundle and a category inside the bundle, and a category and a bundle one level deeper
	for _, g := range []struct {
		path []string
		name string
		typ  [2]byte
	}{
		{[]string{"Bundle"}, "SubBundle", hotline.NewsBundle}, {[]string{"Bundle"}, "SubCat", hotline.NewsCategory},
		{[]string{"Bundle", "SubBundle"}, "DeepCat", hotline.NewsCategory}, {[]string{"Bundle", "SubBundle"}, "DeepBundle", hotline.NewsBundle},
	} {
		if err := w.News.CreateGrouping(g.path, g.name, g.typ); err != nil {
			return fail(err)
		}
	}
	for _, np := range [][]string{{"Bundle", "SubCat"}, {"Bundle", "SubBundle", "DeepCat"}} {
		if err := w.News.PostArticle(np, 0, hotline.NewsArtData{Title: "Nested", Poster: "setup",
			Date: hotline.NewTime(time.Unix(1700000000, 0)), DataFlav: hotline.NewsFlavor, Data: "nested article"}); err != nil {
			return fail(err)
		}
	}
	if o.orphan {
		if err := os.WriteFile(filepath.Join(w.Config, "Users", "newacct.yaml"), []byte(sim.AccountYAML(sim.Acct{Login: "newacct", Name: "Orphan", Password: "op"})), 0644); err != nil {
			return fail(err)
		}
	}
	// the requester's account gets exactly the case's bitmap (all 64 bits, through the real account manager)
	if err := setAccess(w, "req", acc); err != nil {
		return fail(err)
	}
	if err := setAccess(w, "other", othAcc); err != nil {
		return fail(err)
	}
	h.oth = w.Dial("")
	ol, op := "other", "op"
	if o.othLogin == "req" {
		ol, op = "req", "rp"
	}
	if rep, err := h.oth.Login(sim.LoginOpts{Login: ol, Password: op, Name: "Other", Icon: 7}); err != nil || rep.Err != 0 {
		return fail(fmt.Errorf("login other: %v err=%d", err, rep.Err))
	}
	h.req = w.Dial("")
	lo := sim.LoginOpts{Login: "req", Password: "rp", Name: reqLoginName, Icon: 5}
	switch o.reqState {
	case "", "agreed":
	case "old":
		lo.Old = true
	case "pre", "noname":
		lo.NoAgreed = true
	default:
		return fail(fmt.Errorf("requester state %q", o.reqState))
	}
	if rep, err := h.req.Login(lo); err != nil || rep.Err != 0 {
		return fail(fmt.Errorf("login req: %v err=%d", err, rep.Err))
	}
	if o.reqState == "noname" {
		// an Agreed that carries no name field
		if rep, err := h.req.Request(sim.TAgreed, sim.Fld(sim.FUserIconID, sim.U16(5)), sim.Fld(sim.FOptions, sim.U16(0))); err != nil || rep.Err != 0 {
			return fail(fmt.Errorf("agreed without name: %v", err))
		}
	}
	if h.req.ID() < 0 || h.oth.ID() < 0 {
		return fail(fmt.Errorf("clients not registered"))
	}
	if o.third == "same" || o.third == "other" {
		if err := setAccess(w, "prot", o.pacc); err != nil {
			return fail(err)
		}
		addr := "10.77.7.7:45001"
		if o.third == "same" {
			addr = strings.Split(h.oth.Addr, ":")[0] + ":45000"
		}
		h.prot = w.Dial(addr)
		if rep, err := h.prot.Login(sim.LoginOpts{Login: "prot", Password: "pp", Name: "Bystander", Icon: 3}); err != nil || rep.Err != 0 {
			return fail(fmt.Errorf("login prot: %v err=%d", err, rep.Err))
		}
		h.prot.Drain()
	}
	if withChat {
		// the second client opens a private chat (it is its only member) and invites the requester
		rep, err := h.oth.Request(sim.TInviteNewChat, sim.Fld(sim.FUserID, sim.U16(h.req.ID())))
		if err != nil || rep.Err != 0 {
			return fail(fmt.Errorf("setup chat: %v", err))
		}
		id, ok := rep.Get(sim.FChatID)
		if !ok || len(id) != 4 {
			return fail(fmt.Errorf("setup chat: no chat id"))
		}
		h.chat = id
	}
	if err := h.oth.Settle(); err != nil {
		return fail(err)
	}
	if err := h.req.Settle(); err != nil {
		return fail(err)
	}
	h.oth.Drain()
	h.req.Drain()
	return h, nil
}

// ---- snapshot / digest ----------------------------------------------------------------------------------------

type snapshot struct {
	fs, cfg []sim.Entry
	amem    []string
	chats   []string
	xfers   []string
}

func (h *hworld) xfers() []string {
	cc := h.req.ServerConn()
	if cc == nil {
		return nil
	}
	names := map[hotline.FileTransferType]string{hotline.FileDownload: "download-file", hotline.FileUpload: "upload-file",
		hotline.FolderDownload: "download-folder", hotline.FolderUpload: "upload-folder", hotline.BannerDownload: "download-banner"}
	var out []string
	for ty, n := range names {
		if k := len(cc.ClientFileTransferMgr.Get(ty)); k > 0 {
			out = append(out, fmt.Sprintf("%s:%d", n, k))
		}
	}
	sort.Strings(out)
	return out
}

func (h *hworld) snapshot() (snapshot, error) {
	var s snapshot
	var err error
	if s.fs, err = sim.Snapshot(h.w.Root); err != nil {
		return s, err
	}
	if s.cfg, err = sim.Snapshot(h.w.Config); err != nil {
		return s, err
	}
	for _, a := range h.w.AM.List() {
		s.amem = append(s.amem, fmt.Sprintf("%s access=%s name=%q", a.Login, hex.EncodeToString(a.Access[:]), a.Name))
	}
	sort.Strings(s.amem)
	s.chats = h.cm.digest()
	s.xfers = h.xfers()
	return s, nil
}

func strDiff(a, b []string) []string {
	in := func(l []string, x string) bool {
		for _, y := range l {
			if x == y {
				return true
			}
		}
		return false
	}
	out := []string{}
	for _, x := range a {
		if !in(b, x) {
			out = append(out, "-"+x)
		}
	}
	for _, x := range b {
		if !in(a, x) {
			out = append(out, "+"+x)
		}
	}
	return out
}

// diffInto writes the effect digest: one list per channel, empty = unchanged.
func diffInto(ev map[string]any, a, b snapshot) {
	ev["fs"] = nzs(sim.SnapDiff(a.fs, b.fs))
	accts, news, board, bans, cfgx := []string{}, []string{}, []string{}, []string{}, []string{}
	for _, d := range sim.SnapDiff(a.cfg, b.cfg) {
		p := d[1:]
		switch {
		case p == "Users" || strings.HasPrefix(p, "Users/"):
			accts = append(accts, d)
		case strings.HasPrefix(p, "ThreadedNews.yaml"):
			news = append(news, d)
		case strings.HasPrefix(p, "MessageBoard.txt"):
			board = append(board, d)
		case strings.HasPrefix(p, "Banlist.yaml"):
			bans = append(bans, d)
		default:
			cfgx = append(cfgx, d)
		}
	}
	ev["accts"] = accts
	ev["amem"] = strDiff(a.amem, b.amem)
	ev["news"] = news
	ev["board"] = board
	ev["bans"] = bans
	ev["cfgx"] = cfgx
	ev["chats"] = strDiff(a.chats, b.chats)
	ev["xfers"] = strDiff(a.xfers, b.xfers)
}

// ---- requests -------------------------------------------------------------------------------------------------

func encSub(fields ...sim.F) []byte {
	b := sim.U16(len(fields))
	for _, f := range fields {
		b = append(b, sim.U16(f.ID)...)
		b = append(b, sim.U16(len(f.Data))...)
		b = append(b, f.Data...)
	}
	return b
}

func subCreate(login string, access [8]byte) sim.F {
	return sim.Fld(sim.FData, encSub(sim.Fld(sim.FUserLogin, sim.Obfuscate([]byte(login))), sim.Fld(sim.FUserName, []byte("Created")),
		sim.Fld(sim.FUserPassword, []byte("pw")), sim.Fld(sim.FUserAccess, access[:])))
}

func subModify(login string) sim.F {
	var z [8]byte
	return sim.Fld(sim.FData, encSub(sim.Fld(sim.FUserLogin, sim.Obfuscate([]byte(login))), sim.Fld(sim.FUserName, []byte("Changed")),
		sim.Fld(sim.FUserPassword, []byte{0}), sim.Fld(sim.FUserAccess, z[:])))
}

func subRename(login, newLogin string) sim.F {
	var z [8]byte
	return sim.Fld(sim.FData, encSub(sim.Fld(sim.FData, sim.Obfuscate([]byte(login))), sim.Fld(sim.FUserLogin, sim.Obfuscate([]byte(newLogin))),
		sim.Fld(sim.FUserName, []byte("Renamed")), sim.Fld(sim.FUserPassword, []byte{0}), sim.Fld(sim.FUserAccess, z[:])))
}

func subDelete(login string) sim.F {
	return sim.Fld(sim.FData, encSub(sim.Fld(sim.FData, sim.Obfuscate([]byte(login)))))
}

func needsChat(t int, k string) bool {
	switch t {
	case 113, 114, 115, 116, 120:
		return true
	case 105:
		return k == "private"
	}
	return false
}

// buildReq translates (transaction type, context) into the request's fields.  The contexts are those of
// Authz!Table; every request is otherwise valid in the world built by newHWorld.
func (h *hworld) buildReq(t int, kvs string) ([]sim.F, error) {
	kv, _, _ := strings.Cut(kvs, "@") // "@<state>" is about the requester, not the request
	k, variant, _ := strings.Cut(kv, "/")
	k = strings.TrimSuffix(k, "+xfer") // "+xfer": the granted transfer is also opened (runHandle)
	f, err := h.baseReq(t, k, variant)
	if err == nil && t == 213 && strings.Contains(kv, "+xfer") {
		f = setField(f, sim.FFolderItemCount, sim.U16(0)) // the transfer that is opened carries no items
	}
	if err != nil || variant == "" {
		return f, err
	}
	return applyVariant(t, variant, f)
}

// field editing helpers for the variants
func dropField(f []sim.F, id int) []sim.F {
	out := []sim.F{}
	for _, x := range f {
		if x.ID != id {
			out = append(out, x)
		}
	}
	return out
}

func setField(f []sim.F, id int, data []byte) []sim.F {
	return append(dropField(f, id), sim.Fld(id, data))
}

// applyVariant edits the fields of an otherwise valid request: optional fields present / absent, option values,
// 2- vs 4-byte integers, an extra unknown field.
func applyVariant(t int, v string, f []sim.F) ([]sim.F, error) {
	if v == "extra" {
		return append(f, sim.Fld(999, []byte("unknown field"))), nil
	}
	if v == "self" {
		// the request names the requester's own account
		switch t {
		case 351, 353:
			return setField(f, sim.FUserLogin, sim.Obfuscate([]byte("req"))), nil
		case 352:
			return setField(f, sim.FUserLogin, []byte("req")), nil
		case 349:
			return f, nil // built by baseReq
		}
	}
	if v == "orphan" || (t == 112 && v == "chat") {
		return f, nil // the world differs, not the request
	}
	if v == "exists" {
		switch t {
		case 350:
			return setField(f, sim.FUserLogin, sim.Obfuscate([]byte("spare"))), nil
		case 381:
			return setField(f, sim.FFileName, []byte("Bundle")), nil
		case 382:
			return setField(f, sim.FNewsCatName, []byte("Cat")), nil
		case 205:
			return setField(f, sim.FFileName, []byte("Folder")), nil
		case 208, 209:
			return setField(f, sim.FFileName, []byte("occupied.txt")), nil
		case 207:
			return setField(f, sim.FFileNewName, []byte("occupied.txt")), nil
		}
	}
	switch t {
	case 108:
		switch v {
		case "noopt":
			return dropField(f, sim.FOptions), nil
		case "opt2", "opt3", "opt4":
			return setField(f, sim.FOptions, []byte{0, v[3] - '0'}), nil
		case "opt4w":
			return setField(f, sim.FOptions, []byte{0, 0, 0, 4}), nil
		case "quote":
			return append(f, sim.Fld(sim.FQuotingMsg, []byte("> earlier"))), nil
		}
	case 105:
		switch v {
		case "emote":
			return append(f, sim.Fld(sim.FChatOptions, []byte{0, 1})), nil
		case "opt2":
			return append(f, sim.Fld(sim.FChatOptions, []byte{0, 2})), nil
		case "zeroid":
			return setField(f, sim.FChatID, []byte{0, 0, 0, 0}), nil
		}
	case 110:
		switch v {
		case "opt0":
			return setField(f, sim.FOptions, []byte{0, 0}), nil
		case "opt3":
			return setField(f, sim.FOptions, []byte{0, 3}), nil
		case "opt1w":
			return setField(f, sim.FOptions, []byte{0, 0, 0, 1}), nil
		}
	case 207:
		switch v {
		case "empty":
			return setField(f, sim.FFileComment, []byte{}), nil
		case "one":
			return setField(f, sim.FFileComment, []byte("x")), nil
		}
	case 202:
		if v == "preview" {
			return append(f, sim.Fld(sim.FFileTransferOptions, []byte{0, 2})), nil
		}
	case 203:
		if v == "nosize" {
			return dropField(f, sim.FTransferSize), nil
		}
	case 213:
		if v == "opt1" {
			return append(f, sim.Fld(sim.FFileTransferOptions, []byte{0, 1})), nil
		}
	case 304, 121:
		switch v {
		case "opts":
			return setField(f, sim.FOptions, sim.U16(1)), nil
		case "auto":
			return append(setField(f, sim.FOptions, sim.U16(4)), sim.Fld(sim.FAutomaticResponse, []byte("away"))), nil
		case "icon4":
			return setField(f, sim.FUserIconID, []byte{0, 0, 0, 9}), nil
		}
	case 350:
		if v == "nopw" {
			return dropField(f, sim.FUserPassword), nil
		}
	case 353:
		switch v {
		case "nopw":
			return dropField(f, sim.FUserPassword), nil
		case "pw":
			return setField(f, sim.FUserPassword, sim.Obfuscate([]byte("newpw"))), nil
		case "noaccess":
			return dropField(f, sim.FUserAccess), nil
		}
	case 349:
		if v == "nopw" || v == "pw" {
			return f, nil // built by baseReq
		}
	case 381, 382:
		if v == "nested" {
			return append(f, sim.Fld(sim.FNewsPath, sim.EncNewsPath("Bundle"))), nil
		}
		if v == "deep" {
			return append(f, sim.Fld(sim.FNewsPath, sim.EncNewsPath("Bundle", "SubBundle"))), nil
		}
	case 370:
		if v == "nested" {
			return setField(f, sim.FNewsPath, sim.EncNewsPath("Bundle")), nil
		}
		if v == "deep" {
			return setField(f, sim.FNewsPath, sim.EncNewsPath("Bundle", "SubBundle")), nil
		}
	case 371:
		if v == "nested" {
			return setField(f, sim.FNewsPath, sim.EncNewsPath("Bundle", "SubCat")), nil
		}
		if v == "deep" {
			return setField(f, sim.FNewsPath, sim.EncNewsPath("Bundle", "SubBundle", "DeepCat")), nil
		}
	case 400:
		switch v {
		case "nested":
			return setField(f, sim.FNewsPath, sim.EncNewsPath("Bundle", "SubCat")), nil
		case "deep":
			return setField(f, sim.FNewsPath, sim.EncNewsPath("Bundle", "SubBundle", "DeepCat")), nil
		case "id2":
			return setField(f, sim.FNewsArtID, sim.U16(1)), nil
		case "noflavor":
			return dropField(f, sim.FNewsArtDataFlav), nil
		}
	case 410:
		switch v {
		case "nested":
			return setField(f, sim.FNewsPath, sim.EncNewsPath("Bundle", "SubCat")), nil
		case "deep":
			return setField(f, sim.FNewsPath, sim.EncNewsPath("Bundle", "SubBundle", "DeepCat")), nil
		case "id2":
			return setField(f, sim.FNewsArtID, sim.U16(0)), nil
		case "reply":
			return setField(f, sim.FNewsArtID, sim.U32(1)), nil
		}
	case 411:
		switch v {
		case "nested":
			return setField(f, sim.FNewsPath, sim.EncNewsPath("Bundle", "SubCat")), nil
		case "deep":
			return setField(f, sim.FNewsPath, sim.EncNewsPath("Bundle", "SubBundle", "DeepCat")), nil
		case "id2":
			return setField(f, sim.FNewsArtID, sim.U16(1)), nil
		case "norecurse":
			return dropField(f, sim.FNewsArtRecurseDel), nil
		}
	}
	return nil, fmt.Errorf("no variant %q for transaction %d", v, t)
}

func (h *hworld) baseReq(t int, k, variant string) ([]sim.F, error) {
	other := sim.Fld(sim.FUserID, sim.U16(h.oth.ID()))
	name := func(n string) sim.F { return sim.Fld(sim.FFileName, []byte(n)) }
	path := func(items ...string) sim.F { return sim.Fld(sim.FFilePath, sim.EncPath(items...)) }
	npath := func(items ...string) sim.F { return sim.Fld(sim.FNewsPath, sim.EncNewsPath(items...)) }
	var zero [8]byte
	bad := func() ([]sim.F, error) { return nil, fmt.Errorf("no request for (%d, %q)", t, k) }
	fileOrFolder := func() (string, bool) {
		switch {
		case strings.HasPrefix(k, "aliasfile"):
			return "alias-file", true
		case strings.HasPrefix(k, "aliasfolder"):
			return "alias-folder", true
		case strings.HasPrefix(k, "aliasdangling"):
			return "alias-dangling", true
		case strings.HasPrefix(k, "filelie"):
			return "liar.txt", true
		case strings.HasPrefix(k, "folderlie"):
			return "Stuff", true
		case strings.HasPrefix(k, "file"):
			return "file.txt", true
		case strings.HasPrefix(k, "folder"):
			return "Folder", true
		case k == "missing":
			return "nosuch.txt", true
		}
		return "", false
	}
	uploadPath := func() ([]sim.F, bool) {
		switch k {
		case "uploads", "resume":
			return []sim.F{path("Uploads")}, true
		case "dropbox":
			return []sim.F{path("Drop Box")}, true
		case "elsewhere":
			return []sim.F{path("Folder")}, true
		case "root":
			return nil, true
		case "missingupload": // a folder that does not exist, named like an upload folder
			if t == 213 {
				return []sim.F{path("fresh uploads")}, true
			}
			return []sim.F{path("Uploads", "fresh uploads")}, true
		case "missingdropbox":
			return []sim.F{path("new drop box")}, true
		case "missingnested": // missing folders, two levels, below an ordinary folder
			return []sim.F{path("Folder", "deep", "er")}, true
		}
		return nil, false
	}
	switch t {
	case 101, 212, 300, 348, 370, 500:
		return nil, nil
	case 103:
		return []sim.F{sim.Fld(sim.FData, []byte("a post"))}, nil
	case 105:
		f := []sim.F{sim.Fld(sim.FData, []byte("hi all"))}
		if k == "private" {
			f = append(f, sim.Fld(sim.FChatID, h.chat))
		}
		return f, nil
	case 108:
		return []sim.F{other, sim.Fld(sim.FOptions, []byte{0, 1}), sim.Fld(sim.FData, []byte("psst"))}, nil
	case 110:
		switch k {
		case "ban0":
			return []sim.F{other}, nil
		case "ban1":
			return []sim.F{other, sim.Fld(sim.FOptions, []byte{0, 1})}, nil
		case "ban2":
			return []sim.F{other, sim.Fld(sim.FOptions, []byte{0, 2})}, nil
		}
	case 112, 303:
		return []sim.F{other}, nil
	case 113:
		return []sim.F{other, sim.Fld(sim.FChatID, h.chat)}, nil
	case 114, 115, 116:
		return []sim.F{sim.Fld(sim.FChatID, h.chat)}, nil
	case 120:
		return []sim.F{sim.Fld(sim.FChatID, h.chat), sim.Fld(sim.FChatSubject, []byte("new subject"))}, nil
	case 121:
		return []sim.F{sim.Fld(sim.FUserName, []byte(reqNewName)), sim.Fld(sim.FUserIconID, sim.U16(9)), sim.Fld(sim.FOptions, sim.U16(0))}, nil
	case 304:
		return []sim.F{sim.Fld(sim.FUserName, []byte(reqNewName)), sim.Fld(sim.FUserIconID, sim.U16(9))}, nil
	case 200:
		switch k {
		case "root":
			return nil, nil
		case "folder":
			return []sim.F{path("Folder")}, nil
		case "dropbox":
			return []sim.F{path("Drop Box")}, nil
		}
	case 202, 204, 206:
		if n, ok := fileOrFolder(); ok {
			return []sim.F{name(n)}, nil
		}
	case 203:
		if p, ok := uploadPath(); ok {
			if k == "resume" {
				return append([]sim.F{name("part.bin"), sim.Fld(sim.FFileTransferOptions, []byte{0, 2})}, p...), nil
			}
			return append([]sim.F{name("new.bin"), sim.Fld(sim.FTransferSize, sim.U32(10))}, p...), nil
		}
	case 213:
		if p, ok := uploadPath(); ok && k != "resume" {
			return append([]sim.F{name("UpDir"), sim.Fld(sim.FTransferSize, sim.U32(10)), sim.Fld(sim.FFolderItemCount, sim.U16(1))}, p...), nil
		}
	case 205:
		switch k {
		case "root":
			return []sim.F{name("NewDir")}, nil
		case "nested":
			return []sim.F{name("NewDir"), path("Folder")}, nil
		}
	case 207:
		n, ok := fileOrFolder()
		if !ok {
			return bad()
		}
		f := []sim.F{name(n)}
		if strings.HasSuffix(k, ".comment") || strings.HasSuffix(k, ".both") || k == "missing" {
			f = append(f, sim.Fld(sim.FFileComment, []byte("a comment")))
		}
		if strings.HasSuffix(k, ".rename") || strings.HasSuffix(k, ".both") || k == "missing" {
			f = append(f, sim.Fld(sim.FFileNewName, []byte("renamed-"+n)))
		}
		return f, nil
	case 208, 209:
		if n, ok := fileOrFolder(); ok {
			return []sim.F{name(n), sim.Fld(sim.FFileNewPath, sim.EncPath("Dest"))}, nil
		}
	case 210:
		return []sim.F{name("Folder")}, nil
	case 349:
		switch k {
		case "create":
			return []sim.F{subCreate("newacct", zero)}, nil
		case "modify":
			switch variant {
			case "self":
				return []sim.F{subModify("req")}, nil
			case "nopw":
				var z [8]byte
				return []sim.F{sim.Fld(sim.FData, encSub(sim.Fld(sim.FUserLogin, sim.Obfuscate([]byte("victim"))),
					sim.Fld(sim.FUserName, []byte("Changed")), sim.Fld(sim.FUserAccess, z[:])))}, nil
			case "pw":
				var z [8]byte
				return []sim.F{sim.Fld(sim.FData, encSub(sim.Fld(sim.FUserLogin, sim.Obfuscate([]byte("victim"))),
					sim.Fld(sim.FUserName, []byte("Changed")), sim.Fld(sim.FUserPassword, sim.Obfuscate([]byte("newpw"))), sim.Fld(sim.FUserAccess, z[:])))}, nil
			}
			return []sim.F{subModify("victim")}, nil
		case "rename":
			if variant == "self" {
				return []sim.F{subRename("req", "req2")}, nil
			}
			return []sim.F{subRename("victim", "victim2")}, nil
		case "delete":
			if variant == "self" {
				return []sim.F{subDelete("req")}, nil
			}
			return []sim.F{subDelete("victim")}, nil
		case "modify+create":
			return []sim.F{subModify("victim"), subCreate("newacct", zero)}, nil
		case "create+delete":
			return []sim.F{subCreate("newacct", zero), subDelete("victim")}, nil
		case "delete+modify":
			return []sim.F{subDelete("victim"), subModify("spare")}, nil
		}
	case 350:
		return []sim.F{sim.Fld(sim.FUserLogin, sim.Obfuscate([]byte("newacct"))), sim.Fld(sim.FUserName, []byte("Created")),
			sim.Fld(sim.FUserPassword, []byte("pw")), sim.Fld(sim.FUserAccess, zero[:])}, nil
	case 351:
		return []sim.F{sim.Fld(sim.FUserLogin, sim.Obfuscate([]byte("victim")))}, nil
	case 352:
		return []sim.F{sim.Fld(sim.FUserLogin, []byte("victim"))}, nil
	case 353:
		return []sim.F{sim.Fld(sim.FUserLogin, sim.Obfuscate([]byte("victim"))), sim.Fld(sim.FUserName, []byte("Changed")),
			sim.Fld(sim.FUserPassword, []byte{0}), sim.Fld(sim.FUserAccess, zero[:])}, nil
	case 355:
		return []sim.F{sim.Fld(sim.FData, []byte("attention"))}, nil
	case 371:
		return []sim.F{npath("Cat")}, nil
	case 380:
		switch k {
		case "cat":
			return []sim.F{npath("Cat")}, nil
		case "bundle":
			return []sim.F{npath("Bundle")}, nil
		case "cat2":
			return []sim.F{npath("Bundle", "SubCat")}, nil
		case "bundle2":
			return []sim.F{npath("Bundle", "SubBundle")}, nil
		case "cat3":
			return []sim.F{npath("Bundle", "SubBundle", "DeepCat")}, nil
		case "bundle3":
			return []sim.F{npath("Bundle", "SubBundle", "DeepBundle")}, nil
		case "missing":
			return []sim.F{npath("Nope")}, nil
		case "missing2":
			return []sim.F{npath("Bundle", "Nope")}, nil
		}
	case 381:
		return []sim.F{name("NewBundle")}, nil
	case 382:
		return []sim.F{sim.Fld(sim.FNewsCatName, []byte("NewCat"))}, nil
	case 400:
		return []sim.F{npath("Cat"), sim.Fld(sim.FNewsArtID, sim.U32(1)), sim.Fld(sim.FNewsArtDataFlav, []byte("text/plain"))}, nil
	case 410:
		return []sim.F{npath("Cat"), sim.Fld(sim.FNewsArtID, sim.U32(0)), sim.Fld(sim.FNewsArtTitle, []byte("Second")),
			sim.Fld(sim.FNewsArtDataFlav, []byte("text/plain")), sim.Fld(sim.FNewsArtData, []byte("more"))}, nil
	case 411:
		return []sim.F{npath("Cat"), sim.Fld(sim.FNewsArtID, sim.U32(1)), sim.Fld(sim.FNewsArtRecurseDel, []byte{0, 1})}, nil
	}
	return bad()
}

// nameClass classifies the requester's display name as the second client sees it in the user list.
func (h *hworld) nameClass() string {
	if h.oth.ServerDone() {
		return "unknown"
	}
	rep, err := h.oth.Request(sim.TGetUserNameList)
	if err != nil || rep.Err != 0 {
		return "unknown"
	}
	id := h.req.ID()
	for _, b := range rep.GetAll(sim.FUsernameWithInfo) {
		if len(b) < 8 || sim.BE(b[0:2]) != id {
			continue
		}
		n := sim.BE(b[6:8])
		nm := b[8:]
		if n <= len(nm) {
			nm = nm[:n]
		}
		switch string(nm) {
		case reqNewName:
			return "req"
		case reqAcctName:
			return "acct"
		case reqLoginName:
			return "login"
		case "":
			return "empty"
		}
		return "other"
	}
	return "absent"
}

// observeRequest sends one request on the requester's connection, settles, and records the reply and what the
// two clients received.
func (h *hworld) observeRequest(ev map[string]any, typ int, fields []sim.F, waitOther func(replyOK bool)) {
	id := h.req.Send(typ, fields...)
	settleErr := h.req.Settle()
	frames := h.req.Drain()
	reply, nrep := "none", 0
	etext, rf, selfx := []int{}, []int{}, []int{}
	replyOK := false
	for _, f := range frames {
		if f.IsReply == 1 && f.ID == id {
			nrep++
			if nrep > 1 {
				continue
			}
			h.lastReply = f
			if f.Err != 0 {
				reply = "err"
			} else {
				reply = "ok"
				replyOK = true
			}
			seen := map[int]bool{}
			for _, fl := range f.Fields {
				if !seen[fl.ID] {
					seen[fl.ID] = true
					rf = append(rf, fl.ID)
				}
			}
			sort.Ints(rf)
			if b, ok := f.Get(sim.FError); ok {
				etext = sim.Ints(b)
			}
			continue
		}
		if f.IsReply == 1 {
			selfx = append(selfx, -1) // a reply to something that was not asked
		} else {
			selfx = append(selfx, f.Type)
		}
	}
	if settleErr != nil && nrep == 0 {
		reply = "closed" // the server ended the requester's connection instead of answering
	}
	if waitOther != nil {
		waitOther(replyOK)
	}
	if !h.oth.ServerDone() {
		_ = h.oth.Settle()
	}
	otherGot := []int{}
	for _, f := range h.oth.Drain() {
		if f.IsReply == 0 {
			otherGot = append(otherGot, f.Type)
		}
	}
	sort.Ints(otherGot)
	sort.Ints(selfx)
	ev["reply"] = reply
	ev["nrep"] = nrep
	ev["etext"] = etext
	ev["rf"] = rf
	ev["selfx"] = selfx
	ev["other"] = otherGot
	ev["closed"] = h.oth.ServerDone()
	ev["reqclosed"] = h.req.ServerDone()
}

func runHandle(c map[string]any, ev map[string]any) error {
	t := intOf(c["t"])
	k, _ := c["k"].(string)
	acc := bitmapOf(c["acc"])
	kv, state, _ := strings.Cut(k, "@")
	base, _, _ := strings.Cut(kv, "/")
	if t == 121 && state == "" {
		state = "pre" // an Agreed is normally the request that completes the login
	}
	h, err := newHWorld(hopts{acc: acc, othAcc: allDefinedBut(23), withChat: needsChat(t, base) || (t == 112 && strings.HasSuffix(kv, "/chat")),
		reqState: state, orphan: strings.HasSuffix(kv, "/orphan")})
	if err != nil {
		return err
	}
	defer h.w.Close()
	fields, err := h.buildReq(t, k)
	if err != nil {
		return err
	}
	before, err := h.snapshot()
	if err != nil {
		return err
	}
	var wait func(bool)
	if t == 110 {
		// the server closes the victim about a second after the reply: bounded wait (longer when it said yes)
		wait = func(ok bool) {
			if ok {
				h.oth.WaitServerDone(6 * time.Second)
			} else {
				h.oth.WaitServerDone(1600 * time.Millisecond)
			}
		}
	}
	h.observeRequest(ev, t, fields, wait)
	ev["xfer"] = "none"
	if strings.HasSuffix(base, "+xfer") {
		ev["xfer"] = h.openTransfer(t)
	}
	after, err := h.snapshot()
	if err != nil {
		return err
	}
	diffInto(ev, before, after)
	// folders that appeared, and those of them that are not the folder a folder upload names (or below it)
	newdirs, outdirs := []string{}, []string{}
	was := map[string]bool{}
	for _, e := range before.fs {
		was[e.Path] = true
	}
	named := ""
	if t == 213 {
		named = uploadTarget(fields)
	}
	for _, e := range after.fs {
		if e.Kind == "dir" && !was[e.Path] {
			newdirs = append(newdirs, e.Path)
			if named == "" || !(e.Path == named || strings.HasPrefix(e.Path, named+"/")) {
				outdirs = append(outdirs, e.Path)
			}
		}
	}
	ev["newdirs"], ev["outdirs"] = newdirs, outdirs
	ev["name"] = h.nameClass()
	return nil
}

// uploadTarget is the path (relative to the file root) an upload request names: its path items and its name.
func uploadTarget(fields []sim.F) string {
	var parts []string
	name := ""
	for _, f := range fields {
		switch f.ID {
		case sim.FFilePath:
			b := f.Data
			if len(b) >= 2 {
				n := sim.BE(b[0:2])
				b = b[2:]
				for i := 0; i < n && len(b) >= 3; i++ {
					l := int(b[2])
					if len(b) < 3+l {
						break
					}
					parts = append(parts, string(b[3:3+l]))
					b = b[3+l:]
				}
			}
		case sim.FFileName:
			name = string(f.Data)
		}
	}
	return strings.Join(append(parts, name), "/")
}

// openTransfer opens the transfer connection for the reference number the reply granted (if any) and plays the
// client's part: for a file upload a tiny well-formed flattened file object, for a folder upload nothing (the request
// announced no items).  It returns how that went ("no-grant", "done", "error: ...", "timeout"); it waits, bounded,
// until the server has finished with the transfer (the handler keeps the connection for 3 more seconds afterwards,
// which is not waited for).
func (h *hworld) openTransfer(t int) string {
	ref, ok := h.lastReply.Get(sim.FRefNum)
	if !ok || len(ref) != 4 || h.lastReply.Err != 0 {
		return "no-grant"
	}
	var payload []byte
	if t == 203 {
		data := []byte("0123456789")
		inf := infoFork("TEXT", "ttxt", "new.bin", "")
		fork := func(tag string, n int) []byte {
			b := append([]byte(tag), 0, 0, 0, 0, 0, 0, 0, 0)
			return append(b, sim.U32(n)...)
		}
		payload = append([]byte("FILP"), 0, 1)
		payload = append(payload, make([]byte, 16)...)
		payload = append(payload, 0, 2)
		payload = append(payload, fork("INFO", len(inf))...)
		payload = append(payload, inf...)
		payload = append(payload, fork("DATA", len(data))...)
		payload = append(payload, data...)
	}
	pre := append([]byte("HTXF"), ref...)
	pre = append(pre, sim.U32(len(payload))...)
	pre = append(pre, 0, 0, 0, 0)
	ce, se := sim.Pipe()
	_, _ = ce.Write(append(pre, payload...))
	done := make(chan error, 1)
	go func() {
		done <- h.w.Srv.VerifHandleFileTransfer(context.Background(), se, h.req.Addr)
		se.Close()
	}()
	var id hotline.FileTransferID
	copy(id[:], ref)
	deadline := time.Now().Add(8 * time.Second)
	for time.Now().Before(deadline) {
		select {
		case err := <-done:
			if err != nil {
				return "error: " + err.Error()
			}
			return "done"
		default:
		}
		if h.w.Srv.FileTransferMgr.Get(id) == nil {
			return "done" // the server has finished its work and released the reference number
		}
		time.Sleep(5 * time.Millisecond)
	}
	return "timeout"
}
