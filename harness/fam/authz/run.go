// Package authz is the driver/observer of the privilege family (C05, C06, C16; specification spec/Authz.tla).
//
// It executes the cases emitted by TLC from MC_Authz (one JSON object per line) against the real server code -
// one fresh world per case - and records, per case, one ndjson event = the case's arguments + what the real code
// did (reply class and text, an effect digest, bitmaps read back from memory / disk / wire).  It holds no
// expectations and no privilege table: Trace_Authz.tla judges the log.
package authz

import (
	"encoding/json"
	"flag"
	"fmt"
	"os"
	"sync"
	"time"

	"verifharness/sim"
)

func Run(args []string) error {
	fs := flag.NewFlagSet("authz", flag.ContinueOnError)
	in := fs.String("scripts", "", "ndjson file, one case per line (emitted by TLC from MC_Authz)")
	out := fs.String("out", "log.ndjson", "event log")
	par := fs.Int("par", 48, "cases run in parallel")
	caseTimeout := fs.Duration("case-timeout", 90*time.Second, "bound on one case")
	if err := fs.Parse(args); err != nil {
		return err
	}
	cases, err := sim.ReadNDJSON(*in)
	if err != nil {
		return fmt.Errorf("scripts: %w", err)
	}
	lg, err := sim.NewLog(*out)
	if err != nil {
		return err
	}
	results := make([]map[string]any, len(cases))
	errs := make([]error, len(cases))
	var wg sync.WaitGroup
	sem := make(chan struct{}, *par)
	for i := range cases {
		wg.Add(1)
		sem <- struct{}{}
		go func(i int) {
			defer wg.Done()
			defer func() { <-sem }()
			type res struct {
				ev  map[string]any
				err error
			}
			ch := make(chan res, 1)
			go func() {
				defer func() {
					if r := recover(); r != nil {
						ch <- res{nil, fmt.Errorf("driver panic: %v", r)}
					}
				}()
				ev, err := runCase(cases[i])
				ch <- res{ev, err}
			}()
			select {
			case r := <-ch:
				results[i], errs[i] = r.ev, r.err
			case <-time.After(*caseTimeout):
				errs[i] = fmt.Errorf("case exceeded %v", *caseTimeout)
			}
		}(i)
	}
	wg.Wait()
	for i := range cases {
		if errs[i] != nil {
			b, _ := json.Marshal(cases[i])
			return fmt.Errorf("case %d %s: %w", i+1, b, errs[i])
		}
		results[i]["run"] = i + 1
		lg.Emit(results[i])
	}
	if err := lg.Close(); err != nil {
		return err
	}
	fmt.Fprintf(os.Stderr, "authz: %d cases\n", len(cases))
	return nil
}

func runCase(c map[string]any) (map[string]any, error) {
	ev := map[string]any{}
	for k, v := range c {
		if k == "allnames" {
			continue // input of the C16 file writer only; not part of the observation
		}
		ev[k] = v
	}
	op, _ := c["op"].(string)
	switch op {
	case "handle":
		return ev, runHandle(c, ev)
	case "create":
		return ev, runCreate(c, ev)
	case "kick":
		return ev, runKick(c, ev)
	case "rt":
		return ev, runRt(c, ev)
	case "upd":
		return ev, runUpd(c, ev)
	case "multi":
		return ev, runMulti(c, ev)
	case "open":
		return ev, runOpen(c, ev)
	case "batch":
		return ev, runBatch(c, ev)
	}
	return nil, fmt.Errorf("unknown op %q", op)
}

// ---- small helpers ---------------------------------------------------------------------------------------------

func intOf(v any) int {
	switch x := v.(type) {
	case float64:
		return int(x)
	case int:
		return x
	}
	return 0
}

func intsOf(v any) []int {
	out := []int{}
	if l, ok := v.([]any); ok {
		for _, e := range l {
			out = append(out, intOf(e))
		}
	}
	return out
}

func strsOf(v any) []string {
	out := []string{}
	if l, ok := v.([]any); ok {
		for _, e := range l {
			s, _ := e.(string)
			out = append(out, s)
		}
	}
	return out
}

func bitmapOf(v any) [8]byte { return sim.AccessBits(intsOf(v)...) }

func bytes8(v any) ([8]byte, error) {
	var a [8]byte
	l := intsOf(v)
	if len(l) != 8 {
		return a, fmt.Errorf("want 8 bytes, got %d", len(l))
	}
	for i, x := range l {
		a[i] = byte(x)
	}
	return a, nil
}

func nzs(v []string) []string {
	if v == nil {
		return []string{}
	}
	return v
}

func nzi(v []int) []int {
	if v == nil {
		return []int{}
	}
	return v
}
