package authz

import (
	"fmt"
	"path/filepath"
	"strings"
	"time"

	"github.com/jhalter/mobius/verifexport"

	"verifharness/sim"
)

// runCreate (C06): the requester, holding exactly c["acc"], asks for a new account with access c["want"] through
// New User (350) or the create branch of Update User (349).  Recorded: the reply, and the access bitmap of the
// account that exists afterwards - in the running account manager ("mem") and in a fresh account manager loaded
// from the same directory ("disk"); an empty list means the account does not exist there.
func runCreate(c map[string]any, ev map[string]any) error {
	acc := bitmapOf(c["acc"])
	want := bitmapOf(c["want"])
	login, _ := c["login"].(string)
	if by, _ := c["by"].(string); by != "req" {
		return fmt.Errorf("create: only the requester is driven (by=%q)", by)
	}
	shape, _ := c["shape"].(string)
	w, err := sim.NewWorld(sim.WorldOpts{Accounts: []sim.Acct{
		{Login: "req", Name: reqAcctName, Password: "rp"},
		{Login: "spare", Name: "Spare", Password: "sp"},
		{Login: "guest", Name: "Guest", Password: ""},
	}})
	if err != nil {
		return err
	}
	defer w.Close()
	if err := setAccess(w, "req", acc); err != nil {
		return err
	}
	// the accounts a handler might take defaults from hold everything
	for _, l := range []string{"guest", "spare"} {
		if err := setAccess(w, l, sim.AllAccess()); err != nil {
			return err
		}
	}
	// the access field(s) in the requested shape
	var af []sim.F
	ones := []byte{255, 255, 255, 255, 255, 255, 255, 255}
	switch shape {
	case "full", "":
		af = []sim.F{sim.Fld(sim.FUserAccess, want[:])}
	case "absent":
	case "empty":
		af = []sim.F{sim.Fld(sim.FUserAccess, []byte{})}
	case "len1":
		af = []sim.F{sim.Fld(sim.FUserAccess, want[:1])}
	case "len4":
		af = []sim.F{sim.Fld(sim.FUserAccess, want[:4])}
	case "len7":
		af = []sim.F{sim.Fld(sim.FUserAccess, want[:7])}
	case "len9":
		af = []sim.F{sim.Fld(sim.FUserAccess, append(append([]byte{}, want[:]...), 255))}
	case "len16":
		af = []sim.F{sim.Fld(sim.FUserAccess, append(append([]byte{}, want[:]...), ones...))}
	case "dup":
		af = []sim.F{sim.Fld(sim.FUserAccess, want[:]), sim.Fld(sim.FUserAccess, ones)}
	default:
		return fmt.Errorf("create: shape %q", shape)
	}
	req := w.Dial("")
	if rep, err := req.Login(sim.LoginOpts{Login: "req", Password: "rp", Name: reqLoginName}); err != nil || rep.Err != 0 {
		return fmt.Errorf("login req: %v err=%d", err, rep.Err)
	}
	req.Drain()
	var typ int
	var fields []sim.F
	switch intOf(c["via"]) {
	case 350:
		typ = sim.TNewUser
		fields = append([]sim.F{sim.Fld(sim.FUserLogin, sim.Obfuscate([]byte(login))), sim.Fld(sim.FUserName, []byte("Created")),
			sim.Fld(sim.FUserPassword, []byte("pw"))}, af...)
	case 349:
		typ = sim.TUpdateUser
		fields = []sim.F{sim.Fld(sim.FData, encSub(append([]sim.F{sim.Fld(sim.FUserLogin, sim.Obfuscate([]byte(login))),
			sim.Fld(sim.FUserName, []byte("Created")), sim.Fld(sim.FUserPassword, []byte("pw"))}, af...)...))}
	default:
		return fmt.Errorf("create: via %v", c["via"])
	}
	id := req.Send(typ, fields...)
	settleErr := req.Settle()
	reply, etext := "none", []int{}
	for _, f := range req.Drain() {
		if f.IsReply == 1 && f.ID == id {
			if f.Err != 0 {
				reply = "err"
			} else {
				reply = "ok"
			}
			if b, ok := f.Get(sim.FError); ok {
				etext = sim.Ints(b)
			}
			break
		}
	}
	if settleErr != nil && reply == "none" {
		reply = "closed"
	}
	ev["reply"] = reply
	ev["etext"] = etext
	mem, disk := []int{}, []int{}
	if a := w.AM.Get(login); a != nil {
		mem = sim.Ints(a.Access[:])
	}
	fresh, err := verifexport.NewYAMLAccountManager(filepath.Join(w.Config, "Users"))
	if err != nil {
		return fmt.Errorf("reload accounts: %w", err)
	}
	if a := fresh.Get(login); a != nil {
		disk = sim.Ints(a.Access[:])
	}
	ev["mem"] = mem
	ev["disk"] = disk
	return nil
}

// runKick (C06): the requester (access c["acc"]) sends Disconnect User with ban option c["ban"] against the
// second client, whose account has access c["tacc"].  Recorded: the reply, whether the victim's connection was
// closed within the bounded wait, and whether a ban list freshly loaded from the file lists its address.
func runKick(c map[string]any, ev map[string]any) error {
	acc := bitmapOf(c["acc"])
	tacc := bitmapOf(c["tacc"])
	ban := intOf(c["ban"])
	third, _ := c["third"].(string)
	othLogin := ""
	if sh, _ := c["shared"].(bool); sh {
		othLogin = "req" // the target is a second connection of the requester's own account
	}
	h, err := newHWorld(hopts{acc: acc, othAcc: tacc, third: third, pacc: bitmapOf(c["pacc"]), othLogin: othLogin})
	if err != nil {
		return err
	}
	defer h.w.Close()
	fields := []sim.F{sim.Fld(sim.FUserID, sim.U16(h.oth.ID()))}
	if ban != 0 {
		fields = append(fields, sim.Fld(sim.FOptions, sim.U16(ban)))
	}
	h.observeRequest(ev, sim.TDisconnectUser, fields, func(ok bool) {
		// the code disconnects one second after answering; a refusal is watched for longer than that second
		if ok {
			h.oth.WaitServerDone(6 * time.Second)
		} else {
			h.oth.WaitServerDone(1800 * time.Millisecond)
		}
		if h.prot != nil {
			// anything the request does to other sessions is scheduled together with the target's disconnect
			h.prot.WaitServerDone(900 * time.Millisecond)
		}
	})
	ev["pclosed"] = h.prot != nil && h.prot.ServerDone()
	ip := strings.Split(h.oth.Addr, ":")[0]
	bl, err := verifexport.NewBanFile(filepath.Join(h.w.Config, "Banlist.yaml"))
	if err != nil {
		return fmt.Errorf("reload ban list: %w", err)
	}
	listed, _ := bl.IsBanned(ip)
	ev["banned"] = listed
	return nil
}

// runMulti (C06): the account "x" (access c["a0"]) has c["n"] live sessions (logged in one after the other, from
// different addresses); an administrator changes the account's access to c["a1"] through Set User (353) or the
// modify branch of Update User (349) (c["edit"]); then
//
//	kind "kick":   the administrator sends Disconnect User with ban option c["ban"] against session number c["k"]
//	kind "create": session number c["k"] asks for a new account with access c["want"] through request c["via"]
//
// Recorded: editreply / reply (reply classes), sclosed (per session: connection closed within the bounded wait), banned
// (the target session's address is listed by a freshly loaded ban list), mem / disk (bitmap of the created account in
// the running / a freshly loaded account manager, empty = no such account).
func runMulti(c map[string]any, ev map[string]any) error {
	a0, a1 := bitmapOf(c["a0"]), bitmapOf(c["a1"])
	n, k := intOf(c["n"]), intOf(c["k"])
	kind, _ := c["kind"].(string)
	if n < 1 || n > 4 || k < 1 || k > n {
		return fmt.Errorf("multi: n=%d k=%d", n, k)
	}
	near, _ := c["near"].(string)
	edited, namesake := "x", ""
	switch near {
	case "", "none":
	case "case":
		edited, namesake = "bob", "Bob"
	case "prefix":
		edited, namesake = "bob", "bo"
	case "suffix":
		edited, namesake = "bob", "bobby"
	default:
		return fmt.Errorf("multi: near %q", near)
	}
	accts := []sim.Acct{{Login: "adm", Name: "Admin", Password: "ap"}, {Login: edited, Name: "X", Password: "xp"}}
	if namesake != "" {
		accts = append(accts, sim.Acct{Login: namesake, Name: "Namesake", Password: "np"})
	}
	w, err := sim.NewWorld(sim.WorldOpts{Accounts: accts})
	if err != nil {
		return err
	}
	defer w.Close()
	if err := setAccess(w, "adm", sim.AllAccess()); err != nil {
		return err
	}
	if err := setAccess(w, edited, a0); err != nil {
		return err
	}
	var ss []*sim.Client
	for i := 0; i < n; i++ {
		cl := w.Dial("")
		if rep, err := cl.Login(sim.LoginOpts{Login: edited, Password: "xp", Name: fmt.Sprintf("X%d", i+1)}); err != nil || rep.Err != 0 {
			return fmt.Errorf("multi: login x#%d: %v err=%d", i+1, err, rep.Err)
		}
		ss = append(ss, cl)
	}
	// a protected account whose login is a near variant of the edited one, with its own session
	var ns *sim.Client
	ev["bclosed"] = false
	if namesake != "" {
		if err := setAccess(w, namesake, sim.AccessBits(23)); err != nil {
			return err
		}
		ns = w.Dial("")
		if rep, err := ns.Login(sim.LoginOpts{Login: namesake, Password: "np", Name: "Namesake"}); err != nil || rep.Err != 0 {
			return fmt.Errorf("multi: login namesake: %v err=%d", err, rep.Err)
		}
	}
	adm := w.Dial("")
	if rep, err := adm.Login(sim.LoginOpts{Login: "adm", Password: "ap", Name: "Admin"}); err != nil || rep.Err != 0 {
		return fmt.Errorf("multi: login adm: %v err=%d", err, rep.Err)
	}
	replyOf := func(cl *sim.Client, id uint32, settleErr error) (string, []int) {
		reply, etext := "none", []int{}
		for _, f := range cl.Drain() {
			if f.IsReply == 1 && f.ID == id {
				reply = "ok"
				if f.Err != 0 {
					reply = "err"
				}
				if b, ok := f.Get(sim.FError); ok {
					etext = sim.Ints(b)
				}
				break
			}
		}
		if settleErr != nil && reply == "none" {
			reply = "closed"
		}
		return reply, etext
	}
	// the edit
	var id uint32
	switch intOf(c["edit"]) {
	case 353:
		id = adm.Send(sim.TSetUser, sim.Fld(sim.FUserLogin, sim.Obfuscate([]byte(edited))), sim.Fld(sim.FUserName, []byte("X")),
			sim.Fld(sim.FUserPassword, []byte{0}), sim.Fld(sim.FUserAccess, a1[:]))
	case 349:
		id = adm.Send(sim.TUpdateUser, sim.Fld(sim.FData, encSub(sim.Fld(sim.FUserLogin, sim.Obfuscate([]byte(edited))),
			sim.Fld(sim.FUserName, []byte("X")), sim.Fld(sim.FUserPassword, []byte{0}), sim.Fld(sim.FUserAccess, a1[:]))))
	default:
		return fmt.Errorf("multi: edit %v", c["edit"])
	}
	ev["editreply"], _ = replyOf(adm, id, adm.Settle())
	for _, cl := range ss {
		if err := cl.Settle(); err != nil {
			return fmt.Errorf("multi: settle session: %w", err)
		}
		cl.Drain()
	}
	ev["banned"] = false
	ev["mem"], ev["disk"] = []int{}, []int{}
	target := ss[k-1]
	if ns != nil {
		if err := ns.Settle(); err != nil {
			return fmt.Errorf("multi: settle namesake: %w", err)
		}
		ns.Drain()
		if kind == "kick" {
			target = ns // the disconnect request is aimed at the protected namesake's session
		}
	}
	switch kind {
	case "kick":
		fields := []sim.F{sim.Fld(sim.FUserID, sim.U16(target.ID()))}
		if ban := intOf(c["ban"]); ban != 0 {
			fields = append(fields, sim.Fld(sim.FOptions, sim.U16(ban)))
		}
		id := adm.Send(sim.TDisconnectUser, fields...)
		reply, etext := replyOf(adm, id, adm.Settle())
		ev["reply"], ev["etext"] = reply, etext
		if reply == "ok" {
			target.WaitServerDone(6 * time.Second)
		} else {
			target.WaitServerDone(1800 * time.Millisecond)
		}
		for _, cl := range ss {
			if cl != target {
				cl.WaitServerDone(300 * time.Millisecond)
			}
		}
		if ns != nil {
			ev["bclosed"] = ns.ServerDone()
		}
		bl, err := verifexport.NewBanFile(filepath.Join(w.Config, "Banlist.yaml"))
		if err != nil {
			return fmt.Errorf("multi: reload ban list: %w", err)
		}
		listed, _ := bl.IsBanned(strings.Split(target.Addr, ":")[0])
		ev["banned"] = listed
	case "create":
		want := bitmapOf(c["want"])
		var id uint32
		switch intOf(c["via"]) {
		case 350:
			id = target.Send(sim.TNewUser, sim.Fld(sim.FUserLogin, sim.Obfuscate([]byte("newacct"))), sim.Fld(sim.FUserName, []byte("Created")),
				sim.Fld(sim.FUserPassword, []byte("pw")), sim.Fld(sim.FUserAccess, want[:]))
		case 349:
			id = target.Send(sim.TUpdateUser, subCreate("newacct", want))
		default:
			return fmt.Errorf("multi: via %v", c["via"])
		}
		reply, etext := replyOf(target, id, target.Settle())
		ev["reply"], ev["etext"] = reply, etext
		if a := w.AM.Get("newacct"); a != nil {
			ev["mem"] = sim.Ints(a.Access[:])
		}
		fresh, err := verifexport.NewYAMLAccountManager(filepath.Join(w.Config, "Users"))
		if err != nil {
			return fmt.Errorf("multi: reload accounts: %w", err)
		}
		if a := fresh.Get("newacct"); a != nil {
			ev["disk"] = sim.Ints(a.Access[:])
		}
	default:
		return fmt.Errorf("multi: kind %q", kind)
	}
	closed := []bool{}
	for _, cl := range ss {
		closed = append(closed, cl.ServerDone())
	}
	ev["sclosed"] = closed
	return nil
}

// runBatch (C06): one Update User (349) request of the requester (access c["acc"]) with several entries, in order:
// "modself" (its own account gets access entry.set), "renself" (its own account is renamed req -> req2, access
// entry.set), "delete" (account spare), "create" (new account entry.login with access entry.set).  Recorded: the
// reply, and for every create entry i the bitmap of that account afterwards in the running account manager (mem) and in
// a freshly loaded one (disk), empty = no such account.
func runBatch(c map[string]any, ev map[string]any) error {
	acc := bitmapOf(c["acc"])
	entries, _ := c["entries"].([]any)
	w, err := sim.NewWorld(sim.WorldOpts{Accounts: []sim.Acct{
		{Login: "req", Name: reqAcctName, Password: "rp"},
		{Login: "spare", Name: "Spare", Password: "sp"},
		{Login: "guest", Name: "Guest", Password: ""},
	}})
	if err != nil {
		return err
	}
	defer w.Close()
	if err := setAccess(w, "req", acc); err != nil {
		return err
	}
	for _, l := range []string{"guest", "spare"} {
		if err := setAccess(w, l, sim.AllAccess()); err != nil {
			return err
		}
	}
	req := w.Dial("")
	if rep, err := req.Login(sim.LoginOpts{Login: "req", Password: "rp", Name: reqLoginName}); err != nil || rep.Err != 0 {
		return fmt.Errorf("batch: login req: %v err=%d", err, rep.Err)
	}
	req.Drain()
	var fields []sim.F
	type made struct {
		i     int
		login string
	}
	var creates []made
	for i, x := range entries {
		e, _ := x.(map[string]any)
		kind, _ := e["kind"].(string)
		login, _ := e["login"].(string)
		set := bitmapOf(e["set"])
		switch kind {
		case "modself":
			fields = append(fields, sim.Fld(sim.FData, encSub(sim.Fld(sim.FUserLogin, sim.Obfuscate([]byte("req"))),
				sim.Fld(sim.FUserName, []byte(reqAcctName)), sim.Fld(sim.FUserPassword, []byte{0}), sim.Fld(sim.FUserAccess, set[:]))))
		case "renself":
			fields = append(fields, sim.Fld(sim.FData, encSub(sim.Fld(sim.FData, sim.Obfuscate([]byte("req"))), sim.Fld(sim.FUserLogin, sim.Obfuscate([]byte("req2"))),
				sim.Fld(sim.FUserName, []byte(reqAcctName)), sim.Fld(sim.FUserPassword, []byte{0}), sim.Fld(sim.FUserAccess, set[:]))))
		case "delete":
			fields = append(fields, subDelete("spare"))
		case "create":
			fields = append(fields, subCreate(login, set))
			creates = append(creates, made{i + 1, login})
		default:
			return fmt.Errorf("batch: entry kind %q", kind)
		}
	}
	id := req.Send(sim.TUpdateUser, fields...)
	settleErr := req.Settle()
	reply, etext := "none", []int{}
	for _, f := range req.Drain() {
		if f.IsReply == 1 && f.ID == id {
			reply = "ok"
			if f.Err != 0 {
				reply = "err"
			}
			if b, ok := f.Get(sim.FError); ok {
				etext = sim.Ints(b)
			}
			break
		}
	}
	if settleErr != nil && reply == "none" {
		reply = "closed"
	}
	ev["reply"], ev["etext"] = reply, etext
	fresh, err := verifexport.NewYAMLAccountManager(filepath.Join(w.Config, "Users"))
	if err != nil {
		return fmt.Errorf("batch: reload accounts: %w", err)
	}
	out := []map[string]any{}
	for _, m := range creates {
		mem, disk := []int{}, []int{}
		if a := w.AM.Get(m.login); a != nil {
			mem = sim.Ints(a.Access[:])
		}
		if a := fresh.Get(m.login); a != nil {
			disk = sim.Ints(a.Access[:])
		}
		out = append(out, map[string]any{"i": m.i, "login": m.login, "mem": mem, "disk": disk})
	}
	ev["made"] = out
	return nil
}
