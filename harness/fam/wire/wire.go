// Package wire is the C01 driver/observer: it builds real hotline objects from scripts, drains the real encoders
// with exactly the scripted buffer sizes, hands the emitted bytes to the real decoders and records what happened.
// It holds no expectations and no reference encoder: Trace_Wire.tla judges the log.
//
//	vh-wire run -scripts s.ndjson -out log.ndjson [-par N]   execute scripts
//	vh-wire gen -out big.ndjson -tier quick|thorough           draw large objects (seeded by VERIF_SEED)
package wire

import (
	"encoding/json"
	"errors"
	"flag"
	"fmt"
	"io"
	"os"
	"runtime"
	"strconv"
	"sync"
	"time"

	"verifharness/sim"
)

type script struct {
	Kind   string         `json:"kind"`
	Obj    map[string]any `json:"obj"`
	Reads  []int          `json:"reads"`
	Fed    []int          `json:"fed,omitempty"`
	hasFed bool
}

func Run(args []string) error {
	if len(args) < 1 {
		return errors.New("usage: vh-wire run|gen [flags]")
	}
	switch args[0] {
	case "run":
		return runScripts(args[1:])
	case "gen":
		return runGen(args[1:])
	}
	return fmt.Errorf("unknown subcommand %q", args[0])
}

func runScripts(args []string) error {
	fs := flag.NewFlagSet("run", flag.ExitOnError)
	in := fs.String("scripts", "", "ndjson file, one script per line")
	out := fs.String("out", "log.ndjson", "event log")
	par := fs.Int("par", runtime.NumCPU(), "parallel objects")
	_ = fs.Parse(args)
	raw, err := sim.ReadNDJSON(*in)
	if err != nil {
		return err
	}
	scripts := make([]script, len(raw))
	for i, m := range raw {
		b, _ := json.Marshal(m)
		if err := json.Unmarshal(b, &scripts[i]); err != nil {
			return fmt.Errorf("script %d: %w", i+1, err)
		}
		_, scripts[i].hasFed = m["fed"]
	}
	lg, err := sim.NewLog(*out)
	if err != nil {
		return err
	}
	lg.Emit(map[string]any{"op": "world", "run": 0, "scripts": len(scripts)})

	// Every object runs in its own goroutine.  Last line of defence against a real call that never returns (the known
	// in-call loops are covered by preflight): when one object has been running for hangLimit, or the heap explodes,
	// the recording is closed - finished objects as they are, the unfinished ones marked "hung" (Trace_Wire reports
	// them as DRIFT: no verdict, but within the time budget) - and the process exits.
	hangLimit := 30 * time.Second
	if v, err := strconv.Atoi(os.Getenv("VERIF_WIRE_HANG_S")); err == nil && v > 0 {
		hangLimit = time.Duration(v) * time.Second
	}
	var mu sync.Mutex
	results := make([][]map[string]any, len(scripts))
	started := make([]time.Time, len(scripts))
	finished := make([]bool, len(scripts))
	closeOut := func(reason string) error {
		mu.Lock()
		defer mu.Unlock()
		notrun := 0
		for i := range scripts {
			switch {
			case finished[i]:
				if i > 0 && i%200 == 0 {
					lg.Emit(map[string]any{"op": "world", "run": 0, "part": i / 200}) // section mark, no model effect
				}
				lg.EmitAll(results[i])
			case !started[i].IsZero():
				head := map[string]any{"op": "obj", "run": i + 1, "kind": scripts[i].Kind, "obj": scripts[i].Obj, "reads": nonNil(scripts[i].Reads)}
				if scripts[i].hasFed {
					head["fed"] = nonNil(scripts[i].Fed)
				}
				lg.EmitAll([]map[string]any{head, {"op": "end", "run": i + 1, "calls": 0, "nreads": len(scripts[i].Reads), "hung": true, "reason": reason}})
			default:
				notrun++
			}
		}
		if reason != "" {
			lg.Emit(map[string]any{"op": "world", "run": 0, "aborted": reason, "notrun": notrun})
		}
		return lg.Close()
	}
	allDone := make(chan struct{})
	go func() {
		var wg sync.WaitGroup
		sem := make(chan struct{}, *par)
		for i := range scripts {
			wg.Add(1)
			sem <- struct{}{}
			go func(i int) {
				defer wg.Done()
				defer func() { <-sem }()
				mu.Lock()
				started[i] = time.Now()
				mu.Unlock()
				r := runOne(i+1, scripts[i])
				mu.Lock()
				results[i], finished[i] = r, true
				mu.Unlock()
			}(i)
		}
		wg.Wait()
		close(allDone)
	}()
	tick := time.NewTicker(200 * time.Millisecond)
	defer tick.Stop()
	var ms runtime.MemStats
	for n := 0; ; n++ {
		select {
		case <-allDone:
			return closeOut("")
		case <-tick.C:
			reason := ""
			mu.Lock()
			for i := range scripts {
				if !finished[i] && !started[i].IsZero() && time.Since(started[i]) > hangLimit {
					reason = fmt.Sprintf("object %d (%s) still running after %s", i+1, scripts[i].Kind, hangLimit)
					break
				}
			}
			mu.Unlock()
			if reason == "" && n%5 == 4 {
				runtime.ReadMemStats(&ms)
				if ms.HeapAlloc > 6<<30 {
					reason = "heap beyond 6 GiB"
				}
			}
			if reason != "" {
				time.Sleep(time.Second) // healthy objects in flight finish in milliseconds: only the stuck ones stay unfinished
				if err := closeOut(reason); err != nil {
					return err
				}
				os.Exit(0) // goroutines stuck inside the real code cannot be stopped
			}
		}
	}
}

// runOne executes one script and returns its log lines: obj, read*, end.
func runOne(run int, s script) []map[string]any {
	head := map[string]any{"op": "obj", "run": run, "kind": s.Kind, "obj": s.Obj, "reads": nonNil(s.Reads)}
	if s.hasFed {
		head["fed"] = nonNil(s.Fed)
	}
	evs := []map[string]any{head}
	end := map[string]any{"op": "end", "run": run, "nreads": len(s.Reads)}

	var emitted []byte
	calls := 0
	drained := false
	if via, pc, pe := preflight(s); emits(s.Kind) && via != "" {
		end["terminated"] = false
		end["via"] = via
		end["precalls"] = pc
		end["prebytes"] = pe
	} else if emits(s.Kind) {
		r, msg := buildReader(s)
		if r == nil {
			// the object could not even be built (constructor panicked): recorded as a failed first read
			evs = append(evs, map[string]any{"op": "read", "run": run, "i": 1, "n": firstRead(s.Reads), "got": []int{}, "eof": false, "err": "build: " + msg})
			calls = 1
		} else {
			var lines []map[string]any
			lines, emitted, drained = drain(run, r, s.Reads)
			evs = append(evs, lines...)
			calls = len(lines)
			if !drained && len(lines) > 0 {
				last := lines[len(lines)-1]
				if _, failed := last["err"]; !failed {
					end["terminated"] = false // the call bound was used up without end of stream
				}
			}
		}
	}
	end["calls"] = calls

	// decoders: fed with the specification's bytes (decoder-only kinds) or with what the real encoder emitted
	input := emitted
	if s.hasFed {
		input = bytesOfInts(s.Fed)
	}
	if s.hasFed || drained {
		if d, msg, ok := decode(s.Kind, input, 1); ok {
			end["dec"] = d
			if msg != "" {
				end["decmsg"] = msg
			}
		}
		if d, msg, ok := decode(s.Kind, input, 2); ok {
			end["dec2"] = d
			if msg != "" {
				end["dec2msg"] = msg
			}
		}
	}
	return append(evs, end)
}

func firstRead(reads []int) int {
	if len(reads) == 0 {
		return 1
	}
	return reads[0]
}

// drain calls r.Read with exactly the scripted buffer sizes; when the script is exhausted it goes on with the last
// size for at most len(reads)+4 further calls.  It stops at the first error (io.EOF included).  Bounded: an encoder
// that never ends is observed, not waited for.
func drain(run int, r io.Reader, reads []int) (lines []map[string]any, emitted []byte, eof bool) {
	if len(reads) == 0 {
		reads = []int{1}
	}
	max := 2*len(reads) + 4
	for i := 0; i < max; i++ {
		n := reads[len(reads)-1]
		if i < len(reads) {
			n = reads[i]
		}
		buf := make([]byte, n)
		k, err, pmsg := safeRead(r, buf)
		if k < 0 || k > n {
			pmsg = fmt.Sprintf("Read returned n=%d for a %d byte buffer", k, n)
			k = 0
		}
		ev := map[string]any{"op": "read", "run": run, "i": i + 1, "n": n, "got": sim.Ints(buf[:k]), "eof": err == io.EOF}
		if pmsg != "" {
			ev["err"] = "panic: " + pmsg
		} else if err != nil && err != io.EOF {
			ev["err"] = err.Error()
		}
		lines = append(lines, ev)
		emitted = append(emitted, buf[:k]...)
		if pmsg != "" || err != nil {
			return lines, emitted, err == io.EOF && pmsg == ""
		}
	}
	return lines, emitted, false
}

func safeRead(r io.Reader, buf []byte) (k int, err error, pmsg string) {
	defer func() {
		if p := recover(); p != nil {
			pmsg = fmt.Sprint(p)
		}
	}()
	k, err = r.Read(buf)
	return
}

func nonNil(x []int) []int {
	if x == nil {
		return []int{}
	}
	return x
}

func bytesOfInts(x []int) []byte {
	b := make([]byte, len(x))
	for i, v := range x {
		b[i] = byte(v)
	}
	return b
}

func writeScripts(path string, ss []map[string]any) error {
	f, err := os.Create(path)
	if err != nil {
		return err
	}
	defer f.Close()
	enc := json.NewEncoder(f)
	for _, s := range ss {
		if err := enc.Encode(s); err != nil {
			return err
		}
	}
	return nil
}
