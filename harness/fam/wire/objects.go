package wire

import (
	"bufio"
	"bytes"
	"encoding/binary"
	"fmt"
	"io"
	"strings"
	"time"

	"github.com/jhalter/mobius/hotline"

	"verifharness/sim"
)

// ---- script object accessors (objects arrive as generic JSON) ----

func oInt(o map[string]any, k string) int {
	switch x := o[k].(type) {
	case float64:
		return int(x)
	case int:
		return x
	case bool:
		if x {
			return 1
		}
	}
	return 0
}

func oBool(o map[string]any, k string) bool {
	b, _ := o[k].(bool)
	return b
}

func anyBytes(v any) []byte {
	switch x := v.(type) {
	case []any:
		b := make([]byte, len(x))
		for i, e := range x {
			f, _ := e.(float64)
			b[i] = byte(int(f))
		}
		return b
	case []int:
		return bytesOfInts(x)
	case []byte:
		return append([]byte{}, x...)
	}
	return []byte{}
}

func oBytes(o map[string]any, k string) []byte { return anyBytes(o[k]) }

func oList(o map[string]any, k string) []any {
	l, _ := o[k].([]any)
	return l
}

func oMap(o map[string]any, k string) map[string]any {
	m, _ := o[k].(map[string]any)
	return m
}

func b2(n int) [2]byte { return [2]byte{byte(n >> 8), byte(n)} }

func widen(v, width int) []byte {
	if width == 4 {
		return []byte{0xAB, 0xCD, byte(v >> 8), byte(v)}
	}
	return []byte{byte(v >> 8), byte(v)}
}

func arr4(b []byte) (a [4]byte)   { copy(a[:], b); return }
func arr8(b []byte) (a [8]byte)   { copy(a[:], b); return }
func arr16(b []byte) (a [16]byte) { copy(a[:], b); return }
func arr32(b []byte) (a [32]byte) { copy(a[:], b); return }

// ---- which kinds have an encoder ----

func emits(kind string) bool {
	switch kind {
	case "field", "txn", "user", "account", "fnwi", "infofork", "ffo", "fileheader", "nald", "newsartlist",
		"newscat15", "trackerreg", "resume", "time", "handshake", "listing":
		return true
	}
	return false
}

// buildReader builds the real object the way the server builds it and returns its encoder.  Objects without an
// incremental Read (resume data, time stamp, handshake reply) are produced in one piece and served from memory.
func buildReader(s script) (r io.Reader, pmsg string) {
	defer func() {
		if p := recover(); p != nil {
			r, pmsg = nil, fmt.Sprint(p)
		}
	}()
	o := s.Obj
	switch s.Kind {
	case "field":
		f := hotline.NewField(b2(oInt(o, "id")), oBytes(o, "data"))
		return &f, ""
	case "txn":
		t := hotline.Transaction{
			Flags:     byte(oInt(o, "flags")),
			IsReply:   byte(oInt(o, "isReply")),
			Type:      hotline.TranType(b2(oInt(o, "type"))),
			ID:        arr4(oBytes(o, "id")),
			ErrorCode: arr4(oBytes(o, "err")),
		}
		for _, fv := range oList(o, "fields") {
			fm, _ := fv.(map[string]any)
			t.Fields = append(t.Fields, hotline.NewField(b2(oInt(fm, "id")), oBytes(fm, "data")))
		}
		return &t, ""
	case "user":
		// Icon and Flags in their 2-byte form or as a 4-byte integer (iconw / flagsw = 4): the low half is the value,
		// the high half must not reach the wire (non-zero here so that it would be seen)
		id := b2(oInt(o, "id"))
		return &hotline.User{ID: id, Icon: widen(oInt(o, "icon"), oInt(o, "iconw")), Flags: widen(oInt(o, "flags"), oInt(o, "flagsw")),
			Name: string(oBytes(o, "name"))}, ""
	case "account":
		pw := ""
		if oBool(o, "haspw") {
			pw = "pw"
		}
		var acc hotline.AccessBitmap
		copy(acc[:], oBytes(o, "access"))
		return hotline.NewAccount(string(oBytes(o, "login")), string(oBytes(o, "name")), pw, acc), ""
	case "fnwi":
		name := oBytes(o, "name")
		f := hotline.FileNameWithInfo{Name: name}
		f.Type = arr4(oBytes(o, "type"))
		f.Creator = arr4(oBytes(o, "creator"))
		f.FileSize = arr4(oBytes(o, "size"))
		f.RSVD = arr4(oBytes(o, "rsvd"))
		f.NameScript = b2(oInt(o, "script"))
		binary.BigEndian.PutUint16(f.NameSize[:], uint16(len(name))) // as hotline.GetFileNameList does
		return &f, ""
	case "infofork":
		ff := buildInfoFork(o)
		return &ff, ""
	case "ffo":
		ff := buildInfoFork(oMap(o, "info"))
		v := hotline.VerifFlatFileObject{
			Header:     hotline.FlatFileHeader{Format: [4]byte{'F', 'I', 'L', 'P'}, Version: [2]byte{0, 1}, ForkCount: b2(oInt(o, "forks"))},
			InfoHeader: hotline.FlatFileForkHeader{ForkType: [4]byte{'I', 'N', 'F', 'O'}, DataSize: ff.Size()},
			Info:       ff,
			DataHeader: hotline.FlatFileForkHeader{ForkType: [4]byte{'D', 'A', 'T', 'A'}, DataSize: arr4(oBytes(o, "datasize"))},
		}
		return hotline.VerifFlatFileObjectReader(v), ""
	case "resume":
		var list []hotline.ForkInfoList
		for _, fv := range oList(o, "forks") {
			fm, _ := fv.(map[string]any)
			list = append(list, hotline.ForkInfoList{Fork: arr4(oBytes(fm, "fork")), DataSize: arr4(oBytes(fm, "size"))})
		}
		b, err := hotline.NewFileResumeData(list).BinaryMarshal()
		if err != nil {
			panic(err)
		}
		return bytes.NewReader(b), ""
	case "fileheader":
		var segs []string
		for _, sv := range oList(o, "segs") {
			segs = append(segs, string(anyBytes(sv)))
		}
		fh := hotline.NewFileHeader(strings.Join(segs, "/"), oBool(o, "isdir"))
		return &fh, ""
	case "nald":
		cat := hotline.NewsCategoryListData15{Type: hotline.NewsCategory, Articles: map[uint32]*hotline.NewsArtData{}}
		for _, av := range oList(o, "arts") {
			am, _ := av.(map[string]any)
			id := binary.BigEndian.Uint32(oBytes(am, "id"))
			cat.Articles[id] = &hotline.NewsArtData{
				Title:     string(oBytes(am, "title")),
				Poster:    string(oBytes(am, "poster")),
				Date:      arr8(oBytes(am, "date")),
				ParentArt: arr4(oBytes(am, "parent")),
				Data:      strings.Repeat("d", oInt(am, "size")),
			}
		}
		nald := cat.GetNewsArtListData() // the server's own way to build the list
		nald.ID = arr4(oBytes(o, "id"))
		nald.Name = oBytes(o, "name")
		nald.Description = oBytes(o, "desc")
		return &nald, ""
	case "newsartlist":
		return &hotline.NewsArtList{
			ID:          arr4(oBytes(o, "id")),
			TimeStamp:   arr8(oBytes(o, "date")),
			ParentID:    arr4(oBytes(o, "parent")),
			Flags:       arr4(oBytes(o, "flags")),
			Title:       oBytes(o, "title"),
			Poster:      oBytes(o, "poster"),
			ArticleSize: b2(oInt(o, "size")),
		}, ""
	case "newscat15":
		c := hotline.NewsCategoryListData15{
			Type:     hotline.NewsCategory,
			Name:     string(oBytes(o, "name")),
			Articles: map[uint32]*hotline.NewsArtData{},
			SubCats:  map[string]hotline.NewsCategoryListData15{},
			GUID:     arr16(oBytes(o, "guid")),
			AddSN:    arr4(oBytes(o, "addsn")),
			DeleteSN: arr4(oBytes(o, "delsn")),
		}
		if oBool(o, "bundle") {
			c.Type = hotline.NewsBundle
		}
		for i := 0; i < oInt(o, "narts"); i++ {
			c.Articles[uint32(i+1)] = &hotline.NewsArtData{Title: "t"}
		}
		for i := 0; i < oInt(o, "nsubs"); i++ {
			c.SubCats[fmt.Sprintf("s%d", i)] = hotline.NewsCategoryListData15{Type: hotline.NewsCategory}
		}
		return &c, ""
	case "trackerreg":
		return &hotline.TrackerRegistration{
			Port:        b2(oInt(o, "port")),
			UserCount:   oInt(o, "users"),
			PassID:      arr4(oBytes(o, "passid")),
			Name:        string(oBytes(o, "name")),
			Description: string(oBytes(o, "desc")),
			Password:    string(oBytes(o, "pass")),
		}, ""
	case "time":
		t := time.Date(oInt(o, "year"), time.January, 1, 0, 0, 0, 0, time.Local).Add(time.Duration(oInt(o, "secs")) * time.Second)
		b := hotline.NewTime(t)
		return bytes.NewReader(b[:]), ""
	case "handshake":
		// the whole exchange: the server reads the client's 12 bytes (delivered in one piece: segmentation is C02's
		// subject) and writes its reply
		rw := &hsConn{in: bytes.NewReader(bytesOfInts(s.Fed))}
		_ = hotline.VerifPerformHandshake(rw)
		return bytes.NewReader(rw.out.Bytes()), ""
	case "listing":
		// the tracker listing client: what it sends before it reads the (specification's) reply
		rw := &hsConn{in: bytes.NewReader(bytesOfInts(s.Fed))}
		_, _ = hotline.GetListing(rw)
		return bytes.NewReader(rw.out.Bytes()), ""
	}
	panic("no encoder for kind " + s.Kind)
}

type hsConn struct {
	in  *bytes.Reader
	out bytes.Buffer
}

func (h *hsConn) Read(p []byte) (int, error)  { return h.in.Read(p) }
func (h *hsConn) Write(p []byte) (int, error) { return h.out.Write(p) }
func (h *hsConn) Close() error                { return nil }

func buildInfoFork(o map[string]any) hotline.FlatFileInformationFork {
	ff := hotline.NewFlatFileInformationFork(string(oBytes(o, "name")), arr8(oBytes(o, "mdate")),
		string(oBytes(o, "type")), string(oBytes(o, "creator")))
	ff.Platform = arr4(oBytes(o, "platform"))
	ff.Flags = arr4(oBytes(o, "flags"))
	ff.PlatformFlags = arr4(oBytes(o, "pflags"))
	ff.RSVD = arr32(oBytes(o, "rsvd"))
	ff.CreateDate = arr8(oBytes(o, "cdate"))
	ff.NameScript = b2(oInt(o, "script"))
	_ = ff.SetComment(oBytes(o, "comment"))
	return ff
}

// ---- decoders: canonical re-description of what the real decoder produced ----

func ok(v any) map[string]any { return map[string]any{"st": "ok", "v": v} }

func be16(b [2]byte) int { return int(binary.BigEndian.Uint16(b[:])) }

func canonField(f hotline.Field) map[string]any {
	return map[string]any{"id": be16(f.Type), "size": be16(f.FieldSize), "data": sim.Ints(f.Data)}
}

func canonInfo(ff *hotline.FlatFileInformationFork) map[string]any {
	return map[string]any{
		"platform": sim.Ints(ff.Platform[:]), "type": sim.Ints(ff.TypeSignature[:]), "creator": sim.Ints(ff.CreatorSignature[:]),
		"flags": sim.Ints(ff.Flags[:]), "pflags": sim.Ints(ff.PlatformFlags[:]), "rsvd": sim.Ints(ff.RSVD[:]),
		"cdate": sim.Ints(ff.CreateDate[:]), "mdate": sim.Ints(ff.ModifyDate[:]), "script": be16(ff.NameScript),
		"nsize": be16(ff.NameSize), "name": sim.Ints(ff.Name), "csize": be16(ff.CommentSize), "comment": sim.Ints(ff.Comment),
	}
}

func canonForkHdr(h hotline.FlatFileForkHeader) map[string]any {
	return map[string]any{"type": sim.Ints(h.ForkType[:]), "comp": sim.Ints(h.CompressionType[:]), "rsvd": sim.Ints(h.RSVD[:]), "size": sim.Ints(h.DataSize[:])}
}

func canonPath(fp *hotline.FilePath) map[string]any {
	segs := []any{}
	for _, it := range fp.Items {
		segs = append(segs, map[string]any{"len": int(it.Len), "name": sim.Ints(it.Name)})
	}
	return map[string]any{"count": be16(fp.ItemCount), "segs": segs}
}

func canonServer(s *hotline.ServerRecord) map[string]any {
	return map[string]any{"ip": sim.Ints(s.IPAddr[:]), "port": be16(s.Port), "users": be16(s.NumUsers), "nsize": int(s.NameSize),
		"name": sim.Ints(s.Name), "dsize": int(s.DescriptionSize), "desc": sim.Ints(s.Description)}
}

// decode runs the real decoder number `which` of the kind on b.  ok=false: the kind has no such decoder.
func decode(kind string, b []byte, which int) (d map[string]any, msg string, has bool) {
	defer func() {
		if p := recover(); p != nil {
			d, msg, has = map[string]any{"st": "panic"}, fmt.Sprint(p), true
		}
	}()
	fail := func(err error) (map[string]any, string, bool) {
		return map[string]any{"st": "error"}, err.Error(), true
	}
	in := append([]byte{}, b...) // decoders may alias their input
	if which == 2 {
		switch kind {
		case "infofork":
			var ff hotline.FlatFileInformationFork
			if err := ff.UnmarshalBinary(in); err != nil {
				return fail(err)
			}
			return ok(canonInfo(&ff)), "", true
		case "fileheader":
			// the folder-upload item as UploadFolderHandler reads it: DataSize(2) IsFolder(2) PathItemCount(2) path
			if len(in) < 6 {
				return fail(fmt.Errorf("short item header"))
			}
			// the item path is relative to the upload folder; a leading separator (the cleaned form) means the same
			p := strings.TrimPrefix(hotline.VerifFolderUploadPath([2]byte{in[4], in[5]}, in[6:]), "/")
			return ok(map[string]any{"path": sim.Ints([]byte(p))}), "", true
		}
		return nil, "", false
	}
	switch kind {
	case "field":
		var f hotline.Field
		if _, err := f.Write(in); err != nil {
			return fail(err)
		}
		return ok(canonField(f)), "", true
	case "txn":
		var t hotline.Transaction
		if _, err := t.Write(in); err != nil {
			return fail(err)
		}
		fields := []any{}
		for _, f := range t.Fields {
			fields = append(fields, canonField(f))
		}
		return ok(map[string]any{"flags": int(t.Flags), "isReply": int(t.IsReply), "type": be16(t.Type), "id": sim.Ints(t.ID[:]),
			"err": sim.Ints(t.ErrorCode[:]), "total": sim.Ints(t.TotalSize[:]), "dsize": sim.Ints(t.DataSize[:]),
			"count": be16(t.ParamCount), "fields": fields}), "", true
	case "user":
		var u hotline.User
		if _, err := u.Write(in); err != nil {
			return fail(err)
		}
		return ok(map[string]any{"id": be16(u.ID), "icon": int(binary.BigEndian.Uint16(u.Icon)), "flags": int(binary.BigEndian.Uint16(u.Flags)),
			"name": sim.Ints([]byte(u.Name))}), "", true
	case "account":
		// the account record is a counted field list; the library's decoder for that shape is FieldScanner +
		// Field.Write (as HandleUpdateUser uses them)
		if len(in) < 2 {
			return fail(fmt.Errorf("short"))
		}
		count := int(binary.BigEndian.Uint16(in[0:2]))
		sc := bufio.NewScanner(bytes.NewReader(in[2:])) // default buffer (4096, doubling), as the handler's
		sc.Split(hotline.FieldScanner)
		fields := []any{}
		for i := 0; i < count; i++ {
			if !sc.Scan() {
				return fail(fmt.Errorf("field %d: scan failed: %v", i, sc.Err()))
			}
			var f hotline.Field
			if _, err := f.Write(sc.Bytes()); err != nil {
				return fail(err)
			}
			fields = append(fields, canonField(f))
		}
		return ok(map[string]any{"count": count, "fields": fields}), "", true
	case "fnwi":
		var f hotline.FileNameWithInfo
		if _, err := f.Write(in); err != nil {
			return fail(err)
		}
		return ok(map[string]any{"type": sim.Ints(f.Type[:]), "creator": sim.Ints(f.Creator[:]), "size": sim.Ints(f.FileSize[:]),
			"rsvd": sim.Ints(f.RSVD[:]), "script": be16(f.NameScript), "nsize": be16(f.NameSize), "name": sim.Ints(f.Name)}), "", true
	case "infofork":
		var ff hotline.FlatFileInformationFork
		if _, err := ff.Write(in); err != nil {
			return fail(err)
		}
		return ok(canonInfo(&ff)), "", true
	case "ffo":
		v, err := hotline.VerifReadFlatFileObject(bytes.NewReader(in))
		if err != nil {
			return fail(err)
		}
		return ok(map[string]any{"format": sim.Ints(v.Header.Format[:]), "version": be16(v.Header.Version), "rsvd": sim.Ints(v.Header.RSVD[:]),
			"forks": be16(v.Header.ForkCount), "ihdr": canonForkHdr(v.InfoHeader), "info": canonInfo(&v.Info), "dhdr": canonForkHdr(v.DataHeader)}), "", true
	case "resume":
		var frd hotline.FileResumeData
		if err := frd.UnmarshalBinary(in); err != nil {
			return fail(err)
		}
		forks := []any{}
		for _, f := range frd.ForkInfoList {
			forks = append(forks, map[string]any{"fork": sim.Ints(f.Fork[:]), "size": sim.Ints(f.DataSize[:]), "rsvda": sim.Ints(f.RSVDA[:]), "rsvdb": sim.Ints(f.RSVDB[:])})
		}
		return ok(map[string]any{"format": sim.Ints(frd.Format[:]), "version": be16(frd.Version), "count": be16(frd.ForkCount), "forks": forks}), "", true
	case "fileheader":
		// Header size(2) Type(2), then the path in the File Path layout
		if len(in) < 4 {
			return fail(fmt.Errorf("short item header"))
		}
		var fp hotline.FilePath
		if _, err := fp.Write(in[4:]); err != nil {
			return fail(err)
		}
		return ok(map[string]any{"size": int(binary.BigEndian.Uint16(in[0:2])), "type": int(binary.BigEndian.Uint16(in[2:4])), "path": canonPath(&fp)}), "", true
	case "filepath":
		var fp hotline.FilePath
		if _, err := fp.Write(in); err != nil {
			return fail(err)
		}
		return ok(canonPath(&fp)), "", true
	case "newspath":
		f := hotline.NewField(hotline.FieldNewsPath, in)
		names, err := f.DecodeNewsPath()
		if err != nil {
			return fail(err)
		}
		out := []any{}
		for _, n := range names {
			out = append(out, sim.Ints([]byte(n)))
		}
		return ok(map[string]any{"names": out}), "", true
	case "preamble":
		ref, size, err := hotline.VerifDecodeTransfer(in)
		if err != nil {
			return fail(err)
		}
		return ok(map[string]any{"ref": sim.Ints(ref[:]), "size": sim.Ints(size[:])}), "", true
	case "handshake":
		valid, err := hotline.VerifDecodeHandshake(in)
		if err != nil {
			return fail(err)
		}
		return ok(map[string]any{"valid": valid}), "", true
	case "int":
		f := hotline.NewField(hotline.FieldUserIconID, in)
		v, err := f.DecodeInt()
		if err != nil {
			return fail(err)
		}
		var b4 [4]byte
		binary.BigEndian.PutUint32(b4[:], uint32(v))
		return ok(map[string]any{"v": sim.Ints(b4[:])}), "", true
	case "listing":
		srvs, err := hotline.GetListing(&hsConn{in: bytes.NewReader(in)})
		if err != nil {
			return fail(err)
		}
		out := []any{}
		for _, s := range srvs {
			out = append(out, canonServer(&s))
		}
		return ok(map[string]any{"servers": out}), "", true
	case "flatfile":
		// the receiving side of a flattened file: header, INFO fork, DATA fork, optional MACR fork header + content
		var data, rsrc, info bytes.Buffer
		if err := hotline.VerifReceiveFile(bytes.NewReader(in), &data, &rsrc, &info, io.Discard); err != nil {
			return fail(err)
		}
		return ok(map[string]any{"info": sim.Ints(info.Bytes()), "data": sim.Ints(data.Bytes()), "rsrc": sim.Ints(rsrc.Bytes())}), "", true
	case "obfstr":
		f := hotline.NewField(hotline.FieldUserLogin, in)
		return ok(map[string]any{"s": sim.Ints([]byte(f.DecodeObfuscatedString()))}), "", true
	case "serverrecord":
		var s hotline.ServerRecord
		if _, err := s.Write(in); err != nil {
			return fail(err)
		}
		return ok(canonServer(&s)), "", true
	}
	return nil, "", false
}

// ---- component pre-flight ----
//
// Three encoders drain other encoders in an unbounded loop *inside* one call: Transaction.Read (bytes.Buffer.ReadFrom
// over every Field), Account.Read (io.ReadAll over its Fields) and GetNewsArtListData (io.ReadAll over every
// NewsArtList).  If such a component never reports end of stream the composite call never returns, which the
// driver could not observe.  So before a composite is built, equal copies of its components are drained the way
// those loops do (512-byte buffers) with a bound on calls and bytes; a component that is not finished within the
// bound is recorded ("terminated": false, "via": ...) and the composite is not called.

func componentFinishes(r io.Reader, maxBytes int) (finished bool, calls, emitted int) {
	maxCalls := maxBytes/512 + 8
	buf := make([]byte, 512)
	for calls < maxCalls && emitted <= maxBytes {
		k, err, pmsg := safeRead(r, buf)
		calls++
		if pmsg != "" {
			return true, calls, emitted // a panic ends the composite call too: seen by the drain proper
		}
		if k > 0 {
			emitted += k
		}
		if err != nil {
			return true, calls, emitted
		}
	}
	return false, calls, emitted
}

func preflight(s script) (via string, calls, emitted int) {
	o := s.Obj
	field := func(id int, data []byte) (bool, int, int) {
		f := hotline.NewField(b2(id), data)
		return componentFinishes(&f, len(data)+4+1024)
	}
	switch s.Kind {
	case "txn":
		for i, fv := range oList(o, "fields") {
			fm, _ := fv.(map[string]any)
			if fin, c, e := field(oInt(fm, "id"), oBytes(fm, "data")); !fin {
				return fmt.Sprintf("Field.Read (field %d)", i+1), c, e
			}
		}
	case "account":
		for i, d := range [][]byte{oBytes(o, "name"), hotline.EncodeString(oBytes(o, "login")), oBytes(o, "access"), []byte("x")} {
			if fin, c, e := field([]int{102, 105, 110, 106}[i], d); !fin {
				return fmt.Sprintf("Field.Read (account field %d)", i+1), c, e
			}
		}
	case "nald":
		for i, av := range oList(o, "arts") {
			am, _ := av.(map[string]any)
			nal := hotline.NewsArtList{ID: arr4(oBytes(am, "id")), TimeStamp: arr8(oBytes(am, "date")), ParentID: arr4(oBytes(am, "parent")),
				Title: oBytes(am, "title"), Poster: oBytes(am, "poster"), ArticleSize: b2(oInt(am, "size"))}
			if fin, c, e := componentFinishes(&nal, len(nal.Title)+len(nal.Poster)+64+1024); !fin {
				return fmt.Sprintf("NewsArtList.Read (article %d)", i+1), c, e
			}
		}
	}
	return "", 0, 0
}
