package wire

import (
	"flag"
	"math/rand"
	"os"
	"strconv"
)

// Seeded generator of LARGE scripts (the small ones come from TLC): objects whose variable parts sit at the
// boundaries of their wire length prefixes, drained with realistic buffer sizes.  It only draws inputs: object
// descriptions in the same JSON shape as the TLC-generated ones, and read sizes.  It contains no encoder; to size
// a script it uses a crude upper bound of the encoded length (sum of the variable parts + slack).

type gen struct {
	r   *rand.Rand
	out []map[string]any
}

var bigReads = []int{1, 2, 511, 512, 513, 4095, 32768, 40000}

func (g *gen) bytes(n int) []int {
	b := make([]int, n)
	mode := g.r.Intn(4)
	for i := range b {
		switch mode {
		case 0:
			b[i] = g.r.Intn(256)
		case 1:
			b[i] = 65 + i%26
		case 2:
			b[i] = []int{0, 255, 1, 254}[g.r.Intn(4)]
		default:
			b[i] = i % 251
		}
	}
	return b
}

// name bytes that are legal inside a slash-joined path and are neither "." nor "..": no '/', no '.'
func (g *gen) nameBytes(n int) []int {
	b := g.bytes(n)
	for i := range b {
		if b[i] == 47 || b[i] == 46 {
			b[i] = 95
		}
	}
	return b
}

func (g *gen) b4() []int { return g.bytes(4) }

// reads draws buffer sizes for an object of at most `bound` encoded bytes: at most ~200 calls in total, never
// byte-wise over a large object; the sizes add up to more than the bound so that the script drains the encoder.
func (g *gen) reads(bound int) []int {
	var ok []int
	for _, s := range bigReads {
		if bound/s <= 150 {
			ok = append(ok, s)
		}
	}
	uniform := g.r.Intn(3) == 0
	pick := ok[g.r.Intn(len(ok))]
	var out []int
	for sum := 0; sum <= bound+1; {
		s := pick
		if !uniform {
			s = ok[g.r.Intn(len(ok))]
		}
		out = append(out, s)
		sum += s
	}
	return out
}

func (g *gen) add(kind string, obj map[string]any, bound int) {
	g.out = append(g.out, map[string]any{"kind": kind, "obj": obj, "reads": g.reads(bound + 64)})
}

func (g *gen) field(n int) map[string]any {
	return map[string]any{"id": []int{0, 101, 200, 300, 65535}[g.r.Intn(5)], "data": g.bytes(n)}
}

// b4edge: boundary values of an opaque 32-bit header value (0, 1, all ones) as often as a random one
func (g *gen) b4edge() []int {
	switch g.r.Intn(6) {
	case 0:
		return []int{0, 0, 0, 0}
	case 1:
		return []int{0, 0, 0, 1}
	case 2:
		return []int{255, 255, 255, 255}
	}
	return g.b4()
}

func (g *gen) txn(fields []any, bound int) {
	g.add("txn", map[string]any{"flags": g.r.Intn(2), "isReply": g.r.Intn(2), "type": []int{0, 107, 200, 354, 65535}[g.r.Intn(5)],
		"id": g.b4edge(), "err": g.b4edge(), "fields": fields}, bound+22)
}

func (g *gen) info(nl, cl int) map[string]any {
	plat := []int{65, 77, 65, 67}
	if g.r.Intn(2) == 0 {
		plat = []int{77, 87, 73, 78}
	}
	return map[string]any{"platform": plat, "type": g.b4(), "creator": g.b4(), "flags": g.b4(), "pflags": g.b4(),
		"rsvd": g.bytes(32), "cdate": g.bytes(8), "mdate": g.bytes(8), "script": g.r.Intn(3), "name": g.bytes(nl), "comment": g.bytes(cl)}
}

func (g *gen) art(id, tl, pl int) map[string]any {
	return map[string]any{"id": []int{0, 0, id >> 8, id & 255}, "date": g.bytes(8), "parent": g.b4(), "title": g.bytes(tl), "poster": g.bytes(pl),
		"size": []int{0, 1, 65535, g.r.Intn(65536)}[g.r.Intn(4)]}
}

func pickN(r *rand.Rand, xs []int, n int) []int {
	p := r.Perm(len(xs))
	if n > len(xs) {
		n = len(xs)
	}
	out := make([]int, n)
	for i := 0; i < n; i++ {
		out[i] = xs[p[i]]
	}
	return out
}

func runGen(args []string) error {
	fs := flag.NewFlagSet("gen", flag.ExitOnError)
	out := fs.String("out", "big.ndjson", "scripts file")
	tier := fs.String("tier", "quick", "quick|thorough")
	_ = fs.Parse(args)
	seed, _ := strconv.ParseInt(os.Getenv("VERIF_SEED"), 10, 64)
	g := &gen{r: rand.New(rand.NewSource(seed*1000003 + 17))}
	thorough := *tier == "thorough"
	rounds := 1
	if thorough {
		rounds = 6
	}
	dataLens := []int{0, 1, 254, 255, 256, 65531, 65532, 65533, 65534, 65535}
	hugeLens := []int{65531, 65532, 65533, 65534, 65535}
	strLens := []int{0, 1, 127, 128, 254, 255}
	for round := 0; round < rounds; round++ {
		// per round: every small boundary, and a rotating subset of the 64 KiB ones (a few dozen huge objects per run)
		nh := 2
		if thorough {
			nh = 5
		}
		for _, n := range []int{0, 1, 254, 255, 256} {
			g.add("field", g.field(n), n+4)
			g.txn([]any{g.field(n)}, n+4)
		}
		for _, n := range pickN(g.r, hugeLens, nh) {
			g.add("field", g.field(n), n+4)
		}
		for _, n := range pickN(g.r, hugeLens, nh) {
			g.txn([]any{g.field(n)}, n+4)
		}
		// 65532 is the last field size Transaction.Write's scanner takes: always cover both sides of it
		g.txn([]any{g.field(65532)}, 65540)
		g.txn([]any{g.field(65533)}, 65540)
		// many fields
		for _, cnt := range []int{17, 300, 1000 + g.r.Intn(1000)} {
			var fl []any
			tot := 0
			for i := 0; i < cnt; i++ {
				n := g.r.Intn(12)
				if g.r.Intn(50) == 0 {
					n = 255 + g.r.Intn(3)
				}
				fl = append(fl, g.field(n))
				tot += n + 4
			}
			g.txn(fl, tot)
		}
		// scanner-buffer boundary behind a random prefix: the decoder's buffer ends 4096 bytes after the start of the
		// first field that did not fit; an empty field (or a field header) ends / straddles exactly there
		for _, d := range []int{-1, 0, 0, 1, 2} {
			var fl []any
			tot := 0
			for tot < 200+g.r.Intn(2500) {
				n := g.r.Intn(300)
				fl = append(fl, g.field(n))
				tot += n + 4
			}
			fl = append(fl, g.field(4088+d), g.field(0), g.field(g.r.Intn(5)))
			g.txn(fl, tot+4120)
		}
		// several large fields in one transaction (total size beyond 64 KiB)
		if thorough || round == 0 {
			a, b := dataLens[5+g.r.Intn(5)], 30000+g.r.Intn(30000)
			g.txn([]any{g.field(b), g.field(a), g.field(3)}, a+b+3+12)
		}
		// user records: two-byte name size
		for _, n := range append([]int{0, 1, 254, 255, 256, 4000}, pickN(g.r, []int{65527, 65534, 65535}, 1)...) {
			g.add("user", map[string]any{"id": g.r.Intn(65536), "icon": g.r.Intn(65536), "flags": g.r.Intn(16), "name": g.bytes(n),
				"iconw": 2 + 2*g.r.Intn(2), "flagsw": 2 + 2*g.r.Intn(2)}, n+8)
		}
		for _, n := range pickN(g.r, []int{0, 1, 255, 256, 1000}, 3) {
			g.add("account", map[string]any{"login": g.bytes(n % 300), "name": g.bytes(n), "access": g.bytes(8), "haspw": g.r.Intn(2) == 0}, 2*n+40)
		}
		for _, n := range append(pickN(g.r, strLens, 3), 256, []int{65515, 65535}[g.r.Intn(2)]) {
			g.add("fnwi", map[string]any{"type": g.b4(), "creator": g.b4(), "size": g.b4(), "rsvd": []int{0, 0, 0, 0}, "script": g.r.Intn(2), "name": g.bytes(n)}, n+20)
		}
		for _, n := range pickN(g.r, strLens, 4) {
			c := []int{0, 1, 255, 256, 4000}[g.r.Intn(5)]
			g.add("infofork", g.info(n, c), n+c+80)
			c = []int{0, 1, 255, 256, 4000}[g.r.Intn(5)]
			g.add("ffo", map[string]any{"forks": 2 + g.r.Intn(2), "info": g.info(n, c), "datasize": g.b4()}, n+c+140)
		}
		for _, k := range []int{0, 1, 2, 3, 255} {
			var forks []any
			for i := 0; i < k; i++ {
				forks = append(forks, map[string]any{"fork": [][]int{{68, 65, 84, 65}, {77, 65, 67, 82}}[g.r.Intn(2)], "size": g.b4()})
			}
			if forks == nil {
				forks = []any{}
			}
			g.add("resume", map[string]any{"forks": forks}, 42+16*k)
		}
		// folder item headers: long names, deep paths (names 253..255 bytes hit the path decoders' byte arithmetic)
		for _, lens := range [][]int{{1}, {252}, {253}, {254}, {255}, {255, 255, 255, 255, 255, 255, 255, 255}, {3, 200, 1, 17, 64}} {
			var segs []any
			tot := 6
			for _, n := range lens {
				segs = append(segs, g.nameBytes(n))
				tot += n + 3
			}
			g.add("fileheader", map[string]any{"isdir": g.r.Intn(2) == 0, "segs": segs}, tot)
		}
		// news: entries beyond 512 bytes (title+poster), long lists
		for _, tp := range [][2]int{{0, 0}, {255, 255}, {254, 1}, {255, 219}, {255, 220}, {255, 221}} {
			g.add("newsartlist", map[string]any{"id": g.b4(), "date": g.bytes(8), "parent": g.b4(), "flags": g.b4(),
				"title": g.bytes(tp[0]), "poster": g.bytes(tp[1]), "size": g.r.Intn(65536)}, tp[0]+tp[1]+40)
		}
		for _, shape := range [][]int{{}, {10, 10}, {255, 255}, {100, 50, 255, 255, 3, 3}, nil} {
			var arts []any
			tot := 12
			if shape == nil { // many short entries
				for i := 0; i < 120; i++ {
					arts = append(arts, g.art(i+1, g.r.Intn(20), g.r.Intn(12)))
					tot += 70
				}
			}
			for i := 0; i+1 < len(shape); i += 2 {
				arts = append(arts, g.art(i+1, shape[i], shape[i+1]))
				tot += 40 + shape[i] + shape[i+1]
			}
			if arts == nil {
				arts = []any{}
			}
			nl, dl := strLens[g.r.Intn(len(strLens))], strLens[g.r.Intn(len(strLens))]
			g.add("nald", map[string]any{"id": g.b4(), "name": g.bytes(nl), "desc": g.bytes(dl), "arts": arts}, tot+nl+dl)
		}
		for _, n := range pickN(g.r, strLens, 4) {
			g.add("newscat15", map[string]any{"bundle": g.r.Intn(2) == 0, "narts": []int{0, 1, 300}[g.r.Intn(3)], "nsubs": g.r.Intn(3),
				"guid": g.bytes(16), "addsn": g.b4(), "delsn": g.b4(), "name": g.bytes(n)}, n+32)
			g.add("trackerreg", map[string]any{"port": g.r.Intn(65536), "users": g.r.Intn(65536), "passid": g.b4(),
				"name": g.bytes(n), "desc": g.bytes(strLens[g.r.Intn(len(strLens))]), "pass": g.bytes([]int{0, 8, 255}[g.r.Intn(3)])}, n+530)
		}
		g.add("time", map[string]any{"year": 1970 + g.r.Intn(130), "secs": g.r.Intn(31536000)}, 8)
	}
	return writeScripts(*out, g.out)
}
