// Package outbox drives the real sendTransaction / processOutbox for C14.
//
//	sched:  enacts write schedules chosen by TLC (Gen_Outbox) on the real sendTransaction through a gating
//	        connection: every Write call of the server blocks at the gate and is released in the scheduled order.
//	stress: free-running goroutine clients against the real processOutbox; records the per-connection ledger.
//
// The driver records what happened; Trace_Outbox.tla decides.
package outbox

import (
	"bytes"
	"encoding/json"
	"flag"
	"fmt"
	"os"
	"sync"
	"time"

	"github.com/jhalter/mobius/hotline"
	"verifharness/sim"
)

func Run(args []string) error {
	if len(args) == 0 {
		return fmt.Errorf("usage: vh-outbox sched|stress ...")
	}
	switch args[0] {
	case "sched":
		return runSched(args[1:])
	case "stress":
		return runStress(args[1:])
	case "slow":
		return runSlow(args[1:])
	case "sweep":
		return runSweep(args[1:])
	}
	return fmt.Errorf("unknown mode %q", args[0])
}

type schedule struct {
	Sizes []int `json:"sizes"` // abstract sizes (1 = small, 2 = one full copy buffer, 3 = buffer + rest, 5 = 2 buffers + rest)
	Order []int `json:"order"` // sender index (1-based) of each write call
}

func concreteLen(abs int) int {
	switch abs {
	case 1:
		return 120
	case 2:
		return 32768
	case 3:
		return 40000
	case 4:
		return 65536
	default:
		return 70000
	}
}

// gate is a client connection whose Write calls block until the scheduler releases them.
type gate struct {
	mu       sync.Mutex
	encs     [][]byte // expected encoding of each transaction
	offs     []int    // bytes of each transaction seen at the gate so far
	arrivals chan *arrival
	stream   []byte
	writes   []map[string]any
	unknown  int
}

type arrival struct {
	tx      int // 0-based, -1 unknown
	off, n  int
	release chan struct{}
	done    chan struct{}
}

func (g *gate) Read(p []byte) (int, error) { select {} }
func (g *gate) Close() error               { return nil }

func (g *gate) Write(p []byte) (int, error) {
	g.mu.Lock()
	tx := -1
	for i, e := range g.encs {
		o := g.offs[i]
		if o+len(p) <= len(e) && bytes.Equal(e[o:o+len(p)], p) {
			tx = i
			break
		}
	}
	a := &arrival{tx: tx, n: len(p), release: make(chan struct{}), done: make(chan struct{})}
	if tx >= 0 {
		a.off = g.offs[tx]
		g.offs[tx] += len(p)
	} else {
		g.unknown++
	}
	g.mu.Unlock()
	g.arrivals <- a
	<-a.release
	g.mu.Lock()
	g.stream = append(g.stream, p...)
	g.writes = append(g.writes, map[string]any{"op": "write", "tx": tx + 1, "off": a.off, "n": len(p)})
	g.mu.Unlock()
	close(a.done)
	return len(p), nil
}

func runSched(args []string) error {
	fs := flag.NewFlagSet("sched", flag.ExitOnError)
	in := fs.String("scripts", "", "schedules (ndjson)")
	out := fs.String("out", "log.ndjson", "event log")
	par := fs.Int("par", 64, "parallel schedules")
	_ = fs.Parse(args)
	b, err := os.ReadFile(*in)
	if err != nil {
		return err
	}
	var scheds []schedule
	for _, line := range bytes.Split(b, []byte("\n")) {
		if len(line) == 0 {
			continue
		}
		var s schedule
		if err := json.Unmarshal(line, &s); err != nil {
			return err
		}
		scheds = append(scheds, s)
	}
	results := make([][]map[string]any, len(scheds))
	var wg sync.WaitGroup
	sem := make(chan struct{}, *par)
	for i := range scheds {
		wg.Add(1)
		sem <- struct{}{}
		go func(i int) {
			defer wg.Done()
			defer func() { <-sem }()
			results[i] = enact(i+1, scheds[i])
		}(i)
	}
	wg.Wait()
	lg, err := sim.NewLog(*out)
	if err != nil {
		return err
	}
	for _, r := range results {
		lg.EmitAll(r)
	}
	return lg.Close()
}

func enact(run int, sc schedule) []map[string]any {
	srv, _ := hotline.NewServer(hotline.WithLogger(sim.Discard()))
	g := &gate{arrivals: make(chan *arrival, 16)}
	cc := srv.NewClientConn(g, fmt.Sprintf("10.9.9.9:%d", 1000+run))
	var txs []hotline.Transaction
	lens := []int{}
	for i, abs := range sc.Sizes {
		total := concreteLen(abs)
		// header 20 + count 2 + fields (4 + data each); split the payload over fields of at most 60000 bytes
		payload := total - 22
		var fields []hotline.Field
		for payload > 0 {
			d := payload - 4
			if d > 60000 {
				d = 60000
			}
			if d < 0 {
				d = 0
			}
			fields = append(fields, hotline.NewField(hotline.FieldData, bytes.Repeat([]byte{byte(0x41 + i)}, d)))
			payload -= 4 + d
		}
		t := hotline.NewTransaction(hotline.TranServerMsg, cc.ID, fields...)
		t.ID = [4]byte{0xAA, byte(run >> 8), byte(run), byte(i + 1)}
		txs = append(txs, t)
		// the expected bytes come from the independent codec, not from the code under test
		var sf []sim.F
		for _, f := range fields {
			sf = append(sf, sim.Fld(101, f.Data))
		}
		enc := sim.Tx{Type: 104, ID: uint32(0xAA)<<24 | uint32(byte(run>>8))<<16 | uint32(byte(run))<<8 | uint32(i+1), Fields: sf}.Encode()
		g.encs = append(g.encs, enc)
		g.offs = append(g.offs, 0)
		lens = append(lens, len(enc))
	}
	evs := []map[string]any{{"op": "world", "run": run, "lens": lens, "sizes": sc.Sizes, "order": sc.Order}}
	var senders sync.WaitGroup
	for i := range txs {
		senders.Add(1)
		go func(t hotline.Transaction) {
			defer senders.Done()
			_ = srv.VerifSendTransaction(t)
		}(txs[i])
	}
	allDone := make(chan struct{})
	go func() { senders.Wait(); close(allDone) }()

	waiting := map[int]*arrival{} // tx -> arrival blocked at the gate
	var strays []*arrival
	infeasible := false
	stuck := false
	pull := func(d time.Duration) bool {
		select {
		case a := <-g.arrivals:
			if a.tx >= 0 {
				waiting[a.tx] = a
			} else {
				strays = append(strays, a)
			}
			return true
		case <-time.After(d):
			return false
		}
	}
	release := func(a *arrival) {
		close(a.release)
		<-a.done
	}
	for _, s := range sc.Order {
		want := s - 1
		deadline := time.Now().Add(300 * time.Millisecond)
		for waiting[want] == nil && time.Now().Before(deadline) {
			pull(time.Until(deadline))
		}
		a := waiting[want]
		if a == nil {
			// the real code cannot reach this step now (e.g. a lock serialises senders): not a failure
			infeasible = true
			break
		}
		delete(waiting, want)
		release(a)
	}
	// let everything else run to completion in arrival order
	for {
		for tx, a := range waiting {
			delete(waiting, tx)
			release(a)
		}
		for _, a := range strays {
			release(a)
		}
		strays = nil
		select {
		case <-allDone:
			// drain late arrivals (none can exist after allDone) and finish
			goto finished
		default:
		}
		if !pull(sim.Patience(2 * time.Second)) {
			select {
			case <-allDone:
				goto finished
			default:
				stuck = true
				evs = append(evs, map[string]any{"op": "stuck", "run": run})
				goto finished
			}
		}
	}
finished:
	g.mu.Lock()
	for _, w := range g.writes {
		w["run"] = run
		evs = append(evs, w)
	}
	var sp sim.Splitter
	frames := []map[string]any{}
	for _, f := range sp.Feed(g.stream) {
		which := 0
		for i, e := range g.encs {
			if bytes.Equal(e, f.Raw) {
				which = i + 1
			}
		}
		frames = append(frames, map[string]any{"wf": f.WellFormed, "tx": which, "len": len(f.Raw)})
	}
	evs = append(evs, map[string]any{"op": "end", "run": run, "infeasible": infeasible, "stuck": stuck, "frames": frames, "pending": sp.Pending(),
		"garbage": sp.Garbage, "unknown": g.unknown})
	g.mu.Unlock()
	return evs
}
