package outbox

import (
	"context"
	"flag"
	"fmt"
	"net"
	"strings"
	"time"

	"verifharness/sim"
)

// runSlow: a real TCP client that asks for far more than the socket buffers hold, stops reading for several seconds in
// the middle of the replies, then resumes.  Whatever the server does while the reader is stalled, the stream the
// client finally reads must be whole transactions (recorded as a ledger like the stress runs).
func runSlow(args []string) error {
	fs := flag.NewFlagSet("slow", flag.ExitOnError)
	out := fs.String("out", "log.ndjson", "event log")
	stall := fs.Duration("stall", 6500*time.Millisecond, "how long the reader stalls")
	nreq := fs.Int("requests", 320, "requests (each answered with ~44 KiB)")
	_ = fs.Parse(args)
	board := strings.Repeat("From someone (Jan01 00:00):\r\rlorem ipsum dolor sit amet\r__________________________________________________________\r", 400)
	w, err := sim.NewWorld(sim.WorldOpts{Board: board, RealOutbox: true, Agreement: "a"})
	if err != nil {
		return err
	}
	defer w.Close()
	ln, err := net.Listen("tcp", "127.0.0.1:0")
	if err != nil {
		return err
	}
	defer ln.Close()
	go func() { _ = w.Srv.Serve(context.Background(), ln) }()
	c, err := net.DialTimeout("tcp", ln.Addr().String(), 5*time.Second)
	if err != nil {
		return err
	}
	defer c.Close()
	var sp sim.Splitter
	var frames []sim.Tx
	pre := 8
	readFor := func(d time.Duration, until func() bool) {
		deadline := time.Now().Add(d)
		buf := make([]byte, 1<<16)
		for time.Now().Before(deadline) && !until() {
			_ = c.SetReadDeadline(time.Now().Add(200 * time.Millisecond))
			n, err := c.Read(buf)
			if n > 0 {
				b := buf[:n]
				if pre > 0 {
					k := pre
					if k > len(b) {
						k = len(b)
					}
					pre -= k
					b = b[k:]
				}
				frames = append(frames, sp.Feed(b)...)
			}
			if err != nil {
				if ne, ok := err.(net.Error); ok && ne.Timeout() {
					continue
				}
				return
			}
		}
	}
	_, _ = c.Write(sim.HandshakeBytes)
	_, _ = c.Write(sim.NewTx(sim.TLogin, 1, sim.Fld(sim.FUserLogin, sim.Obfuscate([]byte("admin"))), sim.Fld(sim.FUserPassword, sim.Obfuscate([]byte("admin"))),
		sim.Fld(sim.FUserName, []byte("slow")), sim.Fld(sim.FUserIconID, []byte{0, 1})).Encode())
	readFor(5*time.Second, func() bool {
		for _, f := range frames {
			if f.IsReply == 1 && f.ID == 1 {
				return true
			}
		}
		return false
	})
	reqs := []map[string]any{}
	for i := 0; i < *nreq; i++ {
		id := uint32(100 + i)
		if _, err := c.Write(sim.NewTx(sim.TGetMsgs, id).Encode()); err != nil {
			break
		}
		reqs = append(reqs, map[string]any{"id": int(id), "type": sim.TGetMsgs})
	}
	// read a little (so that a reply is cut in the middle somewhere on the way), then stall, then drain
	readFor(300*time.Millisecond, func() bool { return len(frames) > 10 })
	time.Sleep(*stall)
	last := -1
	quiet := 0
	readFor(60*time.Second, func() bool {
		if len(frames) == last {
			quiet++
		} else {
			quiet, last = 0, len(frames)
		}
		return quiet > 15 // ~3 s without a new frame
	})
	malformed := 0
	reps := []map[string]any{}
	for _, f := range frames {
		if !f.WellFormed {
			malformed++
		}
		if (f.IsReply != 0 || f.Type == 0) && f.ID >= 100 {
			reps = append(reps, map[string]any{"id": int(f.ID), "flag": f.IsReply, "err": int(f.Err)})
		}
	}
	lg, err := sim.NewLog(*out)
	if err != nil {
		return err
	}
	lg.EmitAll([]map[string]any{
		{"op": "world", "run": 200001, "mode": "stress", "alone": []int{sim.TGetMsgs}},
		{"op": "ledger", "run": 200001, "client": 1, "frames": len(frames), "malformed": malformed, "pending": sp.Pending(), "garbage": sp.Garbage,
			"reqs": reqs, "reps": reps, "note": fmt.Sprintf("slow reader, stalled %v", *stall)},
	})
	return lg.Close()
}
