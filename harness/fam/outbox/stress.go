package outbox

import (
	"flag"
	"fmt"
	"math/rand"
	"os"
	"path/filepath"
	"strings"
	"sync"
	"time"

	"verifharness/sim"
)

// runStress: free-running clients against the real processOutbox (one goroutine per outgoing transaction).
func runStress(args []string) error {
	fs := flag.NewFlagSet("stress", flag.ExitOnError)
	out := fs.String("out", "log.ndjson", "event log")
	runs := fs.Int("runs", 2, "independent servers")
	nclients := fs.Int("clients", 8, "clients per server")
	nreq := fs.Int("requests", 150, "requests per client")
	seed := fs.Int64("seed", 1, "seed")
	_ = fs.Parse(args)
	lg, err := sim.NewLog(*out)
	if err != nil {
		return err
	}
	for r := 1; r <= *runs; r++ {
		evs, err := stressRun(r, *nclients, *nreq, *seed*1000+int64(r))
		if err != nil {
			return fmt.Errorf("stress run %d: %w", r, err)
		}
		lg.EmitAll(evs)
	}
	return lg.Close()
}

var stressTypes = []int{sim.TGetMsgs, sim.TGetUserNameList, sim.TGetFileNameList, sim.TChatSend, sim.TKeepAlive, sim.TGetNewsCatNameList}

func stressRun(run, nclients, nreq int, seed int64) ([]map[string]any, error) {
	board := strings.Repeat("From someone (Jan01 00:00):\r\rlorem ipsum dolor sit amet\r__________________________________________________________\r", 400) // ~44 KiB
	w, err := sim.NewWorld(sim.WorldOpts{Board: board, RealOutbox: true, Agreement: strings.Repeat("agree ", 7000)}) // ~41 KiB: larger than the 32 KiB copy buffer
	if err != nil {
		return nil, err
	}
	defer w.Close()
	for i := 0; i < 300; i++ {
		_ = os.WriteFile(filepath.Join(w.Root, fmt.Sprintf("file-%03d-with-a-rather-long-name.txt", i)), []byte("x"), 0644)
	}
	// which request types are answered when issued alone
	solo := w.Dial("")
	if _, err := solo.Login(sim.LoginOpts{Login: "admin", Password: "admin", Name: "solo"}); err != nil {
		return nil, err
	}
	alone := []int{}
	for _, t := range stressTypes {
		id := solo.Send(t, fieldsFor(t, 0)...)
		if _, err := solo.WaitReply(id, 3*time.Second); err == nil {
			alone = append(alone, t)
		}
	}
	solo.Close()
	solo.WaitServerDone(5 * time.Second)

	clients := make([]*sim.Client, nclients)
	for i := range clients {
		c := w.Dial("")
		if _, err := c.Login(sim.LoginOpts{Login: "admin", Password: "admin", Name: fmt.Sprintf("c%d", i)}); err != nil {
			return nil, fmt.Errorf("login %d: %w", i, err)
		}
		clients[i] = c
	}
	type req struct {
		ID   uint32
		Type int
	}
	reqs := make([][]req, nclients)
	var wg sync.WaitGroup
	for i, c := range clients {
		wg.Add(1)
		go func(i int, c *sim.Client) {
			defer wg.Done()
			rng := rand.New(rand.NewSource(seed + int64(i)))
			for k := 0; k < nreq; k++ {
				t := stressTypes[rng.Intn(len(stressTypes))]
				id := c.Send(t, fieldsFor(t, k)...)
				reqs[i] = append(reqs[i], req{id, t})
				if rng.Intn(4) == 0 {
					time.Sleep(time.Duration(rng.Intn(300)) * time.Microsecond)
				}
			}
		}(i, c)
	}
	// late joiners: log in while the others are talking (the login sequence incl. the agreement is sent while
	// broadcasts are already addressed to the new connection)
	late := make([]*sim.Client, 4)
	for i := range late {
		wg.Add(1)
		go func(i int) {
			defer wg.Done()
			time.Sleep(time.Duration(2+i*3) * time.Millisecond)
			c := w.Dial("")
			if _, err := c.Login(sim.LoginOpts{Login: "guest", Password: "", Name: fmt.Sprintf("late%d", i), Old: true}); err == nil {
				late[i] = c
			} else {
				late[i] = c // keep the connection: its stream is judged all the same
			}
		}(i)
	}
	wg.Wait()
	for _, c := range late {
		if c != nil {
			clients = append(clients, c)
			reqs = append(reqs, nil)
		}
	}
	nclients = len(clients)
	// quiescence: no client has received a byte for a while (bounded)
	deadline := time.Now().Add(60 * time.Second)
	last := make([]int, nclients)
	quiet := 0
	for quiet < 8 && time.Now().Before(deadline) {
		time.Sleep(100 * time.Millisecond)
		changed := false
		for i, c := range clients {
			c.Peek()
			if n := len(c.AllBytes); n != last[i] {
				last[i] = n
				changed = true
			}
		}
		if changed {
			quiet = 0
		} else {
			quiet++
		}
	}
	aloneSet := map[int]bool{}
	for _, t := range alone {
		aloneSet[t] = true
	}
	evs := []map[string]any{{"op": "world", "run": 100000 + run, "mode": "stress", "alone": alone}}
	for i, c := range clients {
		frames := c.Drain()
		malformed := 0
		reps := []map[string]any{}
		for _, f := range frames {
			if !f.WellFormed {
				malformed++
				if os.Getenv("VERIF_DEBUG") != "" {
					fmt.Fprintf(os.Stderr, "malformed frame: type=%d reply=%d id=%d total=%d data=%d params=%d rawlen=%d head=%x\n", f.Type, f.IsReply, f.ID, f.TotalSize, f.DataSize, f.ParamCount, len(f.Raw), f.Raw[:min(64, len(f.Raw))])
				}
			}
			if f.IsReply != 0 || f.Type == 0 {
				reps = append(reps, map[string]any{"id": int(f.ID), "flag": f.IsReply, "err": int(f.Err)})
			}
		}
		rq := []map[string]any{}
		for _, q := range reqs[i] {
			rq = append(rq, map[string]any{"id": int(q.ID), "type": q.Type})
		}
		evs = append(evs, map[string]any{"op": "ledger", "run": 100000 + run, "client": i + 1, "frames": len(frames), "malformed": malformed,
			"pending": c.PendingBytes(), "garbage": c.Garbage(), "reqs": rq, "reps": reps})
	}
	return evs, nil
}

func fieldsFor(t, k int) []sim.F {
	switch t {
	case sim.TChatSend:
		return []sim.F{sim.Fld(sim.FData, []byte(fmt.Sprintf("hello %d %s", k, strings.Repeat("z", k%200))))}
	}
	return nil
}
