// Package accounts is the driver/observer of property C15 (accounts: what can log in = what is listed = what is
// on disk).  It executes action scripts of the Accounts specification (spec/Accounts.tla: new-user, set-user,
// batched update-user, delete-user, get-user, list-users, login attempts, restart) against the real server: every
// step is a real transaction sent by an administrator over a connection served by the real connection handler.
// After every step the four views of the account set are recorded:
//
//	can    - the result of a real login attempt (fresh connection) for every login x password of the script
//	list   - the list-users reply (348) as the administrator sees it, parsed with the independent codec
//	files  - the account directory parsed independently (yaml.v3): file name, Login, Name, Access flags and, for
//	         the Password string, whether it is a bcrypt hash and which of the script's passwords it verifies
//	reload - the account map of a second manager freshly constructed from the directory
//
// The driver holds no expectations; spec/Trace_Accounts.tla judges the log.
package accounts

import (
	"bytes"
	"encoding/json"
	"flag"
	"fmt"
	"math/rand"
	"os"
	"path/filepath"
	"runtime"
	"sort"
	"strconv"
	"strings"
	"sync"
	"time"

	"github.com/jhalter/mobius/verifexport"
	"golang.org/x/crypto/bcrypt"
	"gopkg.in/yaml.v3"

	"verifharness/sim"
)

type script struct {
	Steps []map[string]any `json:"steps"`
}

const adminLogin, adminPw, adminName = "admin", "admin", "adm"

func Run(args []string) error {
	fs := flag.NewFlagSet("accounts", flag.ExitOnError)
	in := fs.String("scripts", "", "ndjson file, one script per line")
	out := fs.String("out", "log.ndjson", "event log")
	par := fs.Int("par", 2*runtime.NumCPU(), "parallel worlds")
	big := fs.Int("big", 0, "k > 0: every k-th script gets its logins, names and passwords replaced by seeded random byte strings that are legal file names")
	_ = fs.Parse(args)
	seed, _ := strconv.ParseInt(os.Getenv("VERIF_SEED"), 10, 64)
	raw, err := os.ReadFile(*in)
	if err != nil {
		return err
	}
	var scripts []script
	for _, line := range bytes.Split(raw, []byte("\n")) {
		if len(bytes.TrimSpace(line)) == 0 {
			continue
		}
		var s script
		if err := json.Unmarshal(line, &s); err != nil {
			return fmt.Errorf("script: %w", err)
		}
		scripts = append(scripts, s)
	}
	lg, err := sim.NewLog(*out)
	if err != nil {
		return err
	}
	results := make([][]map[string]any, len(scripts))
	errs := make([]error, len(scripts))
	var wg sync.WaitGroup
	sem := make(chan struct{}, *par)
	for i := range scripts {
		wg.Add(1)
		sem <- struct{}{}
		go func(i int) {
			defer wg.Done()
			defer func() { <-sem }()
			steps := scripts[i].Steps
			isBig := *big > 0 && i%*big == *big-1
			if isBig {
				steps = substitute(steps, rand.New(rand.NewSource(seed*1000003+int64(i))))
			}
			results[i], errs[i] = runScript(i+1, steps, isBig)
		}(i)
	}
	wg.Wait()
	for i := range scripts {
		if errs[i] != nil {
			return fmt.Errorf("script %d: %w", i+1, errs[i])
		}
		lg.EmitAll(results[i])
	}
	return lg.Close()
}

// ---- values ----------------------------------------------------------------------------------------------------

func bytesOf(v any) []byte {
	switch x := v.(type) {
	case nil:
		return nil
	case string:
		return []byte(x)
	case []byte:
		return x
	case []int:
		b := make([]byte, len(x))
		for i, e := range x {
			b[i] = byte(e)
		}
		return b
	case []any:
		b := make([]byte, len(x))
		for i, e := range x {
			f, _ := e.(float64)
			b[i] = byte(int(f))
		}
		return b
	}
	return nil
}

func intsOf(v any) []int {
	out := []int{}
	switch x := v.(type) {
	case []any:
		for _, e := range x {
			f, _ := e.(float64)
			out = append(out, int(f))
		}
	case []int:
		out = append(out, x...)
	}
	return out
}

// pwOf decodes a password argument record {has, v}: has=false means the password field is absent from the
// request; the marker is simply the password whose wire form is the single byte 0.
func pwOf(v any) (has bool, clear []byte) {
	m, _ := v.(map[string]any)
	if m == nil {
		return false, nil
	}
	has, _ = m["has"].(bool)
	return has, bytesOf(m["v"])
}

func subsOf(st map[string]any) []map[string]any {
	var out []map[string]any
	l, _ := st["subs"].([]any)
	for _, e := range l {
		if m, ok := e.(map[string]any); ok {
			out = append(out, m)
		}
	}
	return out
}

// ---- big values -------------------------------------------------------------------------------------------------

// legalName draws a byte string that is a legal file name component: non-empty, no '/' and no NUL, not "." or "..".
func legalName(r *rand.Rand, maxLen int) []byte {
	for {
		n := 1 + r.Intn(12)
		switch r.Intn(10) {
		case 0:
			n = 1 + r.Intn(maxLen)
		case 1:
			n = maxLen - r.Intn(3)
		}
		if n > maxLen {
			n = maxLen
		}
		b := make([]byte, n)
		mode := r.Intn(3)
		for i := range b {
			switch mode {
			case 0: // printable ASCII with the characters YAML, globbing and shells care about
				const set = "abcXYZ019 .:-_#'\"\\*?[]{}!&|<>%@`~,;=+$^()\t"
				b[i] = set[r.Intn(len(set))]
			case 1: // any byte
				b[i] = byte(1 + r.Intn(255))
			default: // mostly letters, some high bytes / control characters
				if r.Intn(4) == 0 {
					b[i] = byte(1 + r.Intn(255))
				} else {
					b[i] = byte('a' + r.Intn(26))
				}
			}
			if b[i] == '/' || b[i] == 0 {
				b[i] = '_'
			}
		}
		switch r.Intn(12) {
		case 0:
			b[0] = '\n' // a leading line feed: legal in a file name, awkward for YAML
		case 1, 2:
			b[0] = '.' // a hidden file
		case 3:
			b[0] = "-~# *"[r.Intn(5)]
		}
		s := string(b)
		if s == "." || s == ".." {
			continue
		}
		return b
	}
}

// substitute replaces every distinct login, name and (non-marker, non-empty) password of a script by a random byte
// string, consistently, so that the script keeps its shape.  Logins stay distinct and different from the
// administrator's; file names stay within NAME_MAX (login + ".yaml" <= 255 bytes).
func substitute(steps []map[string]any, r *rand.Rand) []map[string]any {
	maps := map[string]map[string][]byte{"login": {}, "name": {}, "pw": {}}
	used := map[string]map[string]bool{"login": {adminLogin: true}, "name": {}, "pw": {"": true, "\xff": true, adminPw: true}}
	longPw := 0
	if r.Intn(4) == 0 {
		longPw = 2
	}
	longHead := legalName(r, 72)
	edgeLogin := r.Intn(5) == 0
	overLogin := r.Intn(4) == 0
	m := func(role string, v any) []int {
		b := bytesOf(v)
		if len(b) == 0 || (role == "pw" && string(b) == "\xff") || (role == "login" && len(b) > 250) {
			return sim.Ints(b)
		}
		if n, ok := maps[role][string(b)]; ok {
			return sim.Ints(n)
		}
		for {
			// a login must leave room for ".yaml" in NAME_MAX (255)
			max := 250
			if role == "pw" {
				max = 72 // bcrypt's input limit
			}
			n := legalName(r, max)
			if role == "pw" {
				// a password that begins with / contains the marker byte keeps that shape
				if i := bytes.IndexByte(b, 0xff); i == 0 {
					n = append([]byte{0xff}, legalName(r, 60)...)
				} else if i > 0 {
					n = append(append(legalName(r, 30), 0xff), legalName(r, 30)...)
				}
			}
			if role == "login" && edgeLogin {
				// one script in five: the first login is as long as a file name allows (login + ".yaml" = 252..255 bytes)
				edgeLogin = false
				n = legalName(r, 200)
				for want := 247 + r.Intn(4); len(n) < want; {
					n = append(n, byte('a'+r.Intn(26)))
				}
			}
			if role == "login" && !edgeLogin && overLogin && len(b) < 200 {
				// one script in four: a (second) login is itself a legal file name but too long to be an account:
				// login + ".yaml" = 256..260 bytes
				overLogin = false
				n = legalName(r, 200)
				for want := 251 + r.Intn(5); len(n) < want; {
					n = append(n, byte('a'+r.Intn(26)))
				}
			}
			if role == "pw" && longPw > 0 {
				// one script in four: the first password is longer than bcrypt's 72-byte limit (73..222 bytes) and,
				// half of the time, the second one shares its first 72 bytes (its twin for bcrypt)
				if longPw == 2 {
					for len(longHead) < 72 {
						longHead = append(longHead, byte('a'+r.Intn(26)))
					}
					n = append(append([]byte{}, longHead...), legalName(r, 150)...)
					longPw = r.Intn(2)
				} else {
					n = append(append([]byte{}, longHead...), legalName(r, 20)...)
					if r.Intn(3) == 0 {
						n = append([]byte{}, longHead...)
					}
					longPw = 0
				}
			}
			if used[role][string(n)] {
				continue
			}
			used[role][string(n)] = true
			maps[role][string(b)] = n
			return sim.Ints(n)
		}
	}
	fix := func(rec map[string]any) map[string]any {
		o := map[string]any{}
		for k, v := range rec {
			switch k {
			case "login", "old":
				o[k] = m("login", v)
			case "name":
				o[k] = m("name", v)
			case "pw":
				if pm, ok := v.(map[string]any); ok {
					o[k] = map[string]any{"has": pm["has"], "v": m("pw", pm["v"])}
				} else {
					o[k] = m("pw", v)
				}
			default:
				o[k] = v
			}
		}
		return o
	}
	var out []map[string]any
	for _, st := range steps {
		o := fix(st)
		if subs := subsOf(st); subs != nil {
			var l []any
			for _, s := range subs {
				l = append(l, fix(s))
			}
			o["subs"] = l
		}
		out = append(out, o)
	}
	return out
}

// ---- one run ----------------------------------------------------------------------------------------------------

type run struct {
	w      *sim.World
	admin  *sim.Client
	storms []*sim.Client // the administrators of the concurrent rounds
	rng    *rand.Rand
	round  int
	dir    string
	logins [][]byte // the logins of the script (capped), probed after every step
	pws    [][]byte // the passwords of the script (clear, capped)
	vcache map[string]bool
}

func addUniq(l *[][]byte, b []byte, cap int) {
	for _, x := range *l {
		if bytes.Equal(x, b) {
			return
		}
	}
	if len(*l) < cap {
		*l = append(*l, append([]byte{}, b...))
	}
}

func (r *run) universe(steps []map[string]any) {
	r.pws = [][]byte{{}}
	scan := func(rec map[string]any) {
		for _, k := range []string{"login", "old"} {
			if v, ok := rec[k]; ok && len(bytesOf(v)) > 0 {
				addUniq(&r.logins, bytesOf(v), 4)
			}
		}
		if v, ok := rec["pw"]; ok {
			if _, isRec := v.(map[string]any); isRec {
				if has, c := pwOf(v); has {
					addUniq(&r.pws, c, 7)
				}
			} else {
				addUniq(&r.pws, bytesOf(v), 7)
			}
		}
	}
	for _, st := range steps {
		if st["op"] == "storm" {
			for _, l := range stormLogins(st) {
				addUniq(&r.logins, l, 4)
			}
			for _, p := range stormPool {
				addUniq(&r.pws, p, 7)
			}
		}
		scan(st)
		for _, s := range subsOf(st) {
			scan(s)
		}
	}
}

func (r *run) dialAdmin() error {
	c := r.w.Dial("")
	rep, err := c.Login(sim.LoginOpts{Login: adminLogin, Password: adminPw, Name: adminName})
	if err != nil {
		return fmt.Errorf("administrator login: %w", err)
	}
	if rep.Err != 0 {
		return fmt.Errorf("administrator login refused")
	}
	r.admin = c
	return nil
}

// request sends one transaction as the administrator and settles it with a keep-alive round trip (requests on
// one connection are handled in order and the outbox pump is in order, so the reply - if the handler produces
// one - has arrived when the keep-alive reply has).  cls: ok | err | none | closed.
func (r *run) request(typ int, fields ...sim.F) (cls string, rep sim.Tx, err error) {
	cls, rep, err = requestOn(r.admin, typ, fields...)
	if cls == "closed" && err == nil {
		// the handler died (a panic is recovered per connection) - the administrator reconnects
		r.admin.WaitServerDone(5 * time.Second)
		err = r.dialAdmin()
	}
	return cls, rep, err
}

// requestOn: see request; usable from several goroutines on different connections.
func requestOn(c *sim.Client, typ int, fields ...sim.F) (cls string, rep sim.Tx, err error) {
	id := c.Send(typ, fields...)
	kid := c.Send(sim.TKeepAlive)
	_, werr := c.WaitReply(kid, 15*time.Second)
	frames := c.Drain()
	for _, t := range frames {
		if t.IsReply == 1 && t.ID == id {
			rep = t
			if t.Err != 0 {
				cls = "err"
			} else {
				cls = "ok"
			}
		}
	}
	if werr == sim.ErrClosed {
		return "closed", rep, nil
	}
	if werr != nil {
		return "", rep, fmt.Errorf("settling transaction %d: %w", typ, werr)
	}
	if cls == "" {
		cls = "none"
	}
	return cls, rep, nil
}

func accBytes(v any) []byte {
	a := sim.AccessBits(intsOf(v)...)
	return a[:]
}

func bitsOf(b []byte) []int {
	out := []int{}
	for i := 0; i < 8*len(b) && i < 64; i++ {
		if b[i/8]&(1<<uint(7-i%8)) != 0 {
			out = append(out, i)
		}
	}
	return out
}

func wirePw(clear []byte) []byte { return sim.Obfuscate(clear) }

// acctFields renders the argument fields shared by new-user, set-user and the nested update-user records.
func acctFields(rec map[string]any) []sim.F {
	f := []sim.F{sim.Fld(sim.FUserLogin, sim.Obfuscate(bytesOf(rec["login"]))), sim.Fld(sim.FUserName, bytesOf(rec["name"]))}
	if has, c := pwOf(rec["pw"]); has {
		f = append(f, sim.Fld(sim.FUserPassword, wirePw(c)))
	}
	return append(f, sim.Fld(sim.FUserAccess, accBytes(rec["acc"])))
}

func nested(fields []sim.F) []byte {
	b := sim.U16(len(fields))
	for _, f := range fields {
		b = append(b, sim.U16(f.ID)...)
		b = append(b, sim.U16(len(f.Data))...)
		b = append(b, f.Data...)
	}
	return b
}

func (r *run) step(st map[string]any, ev map[string]any) error {
	op, _ := st["op"].(string)
	switch op {
	case "newuser", "setuser":
		typ := sim.TNewUser
		if op == "setuser" {
			typ = sim.TSetUser
		}
		cls, _, err := r.request(typ, acctFields(st)...)
		ev["reply"] = cls
		return err
	case "deluser":
		cls, _, err := r.request(sim.TDeleteUser, sim.Fld(sim.FUserLogin, sim.Obfuscate(bytesOf(st["login"]))))
		ev["reply"] = cls
		return err
	case "update":
		var top []sim.F
		for _, s := range subsOf(st) {
			switch s["k"] {
			case "del":
				top = append(top, sim.Fld(sim.FData, nested([]sim.F{sim.Fld(sim.FData, sim.Obfuscate(bytesOf(s["login"])))})))
			case "ren":
				top = append(top, sim.Fld(sim.FData, nested(append([]sim.F{sim.Fld(sim.FData, sim.Obfuscate(bytesOf(s["old"])))}, acctFields(s)...))))
			case "put":
				top = append(top, sim.Fld(sim.FData, nested(acctFields(s))))
			default:
				return fmt.Errorf("unknown sub-operation %v", s["k"])
			}
		}
		cls, _, err := r.request(sim.TUpdateUser, top...)
		ev["reply"] = cls
		return err
	case "getuser":
		cls, rep, err := r.request(sim.TGetUser, sim.Fld(sim.FUserLogin, bytesOf(st["login"])))
		ev["reply"] = cls
		g := map[string]any{"login": []int{}, "name": []int{}, "acc": []int{}, "pwkind": "none"}
		if cls == "ok" {
			if b, ok := rep.Get(sim.FUserLogin); ok {
				g["login"] = sim.Ints(sim.Obfuscate(b))
			}
			if b, ok := rep.Get(sim.FUserName); ok {
				g["name"] = sim.Ints(b)
			}
			if b, ok := rep.Get(sim.FUserAccess); ok {
				g["acc"] = bitsOf(b)
			}
			if b, ok := rep.Get(sim.FUserPassword); ok {
				g["pwkind"] = r.pwKind(string(b))
			}
		}
		ev["got"] = g
		return err
	case "list":
		// the list view is taken after every step anyway
		ev["reply"] = "ok"
		return nil
	case "login":
		ok, err := r.tryLogin(bytesOf(st["login"]), bytesOf(st["pw"]))
		ev["reply"] = map[bool]string{true: "ok", false: "err"}[ok]
		return err
	case "storm":
		return r.storm(st, ev)
	case "restart":
		am, err := verifexport.NewYAMLAccountManager(r.dir)
		if err != nil {
			ev["reply"] = "err"
			ev["error"] = err.Error()
			return nil
		}
		r.w.AM = am
		r.w.Srv.AccountManager = am
		ev["reply"] = "ok"
		return nil
	}
	return fmt.Errorf("unknown op %q", op)
}

var stormPool = [][]byte{{}, []byte("p"), []byte("q"), []byte("r"), []byte("\xffs")} // the last one begins like the marker

func stormLogins(st map[string]any) [][]byte {
	n := 3
	if v, ok := st["logins"].(float64); ok && v >= 1 && v <= 4 {
		n = int(v)
	}
	out := [][]byte{}
	for i := 0; i < n; i++ {
		out = append(out, []byte{byte('a' + i)})
	}
	return out
}

// storm: one concurrent round.  K administrator connections each send one request (drawn from the run's seeded
// generator: set-user / update-user put / new-user / delete-user / update-user delete, on a handful of logins, with
// a unique name per request and a password from a small pool) at the same moment (start barrier); the round ends
// when every request is settled.  The requests really sent and how each was answered are logged; the views follow.
func (r *run) storm(st map[string]any, ev map[string]any) error {
	k := 6
	if v, ok := st["admins"].(float64); ok && v >= 2 && v <= 32 {
		k = int(v)
	}
	for len(r.storms) < k {
		c := r.w.Dial("")
		rep, err := c.Login(sim.LoginOpts{Login: adminLogin, Password: adminPw, Name: fmt.Sprintf("s%d", len(r.storms))})
		if err != nil || rep.Err != 0 {
			return fmt.Errorf("storm administrator login: %v", err)
		}
		r.storms = append(r.storms, c)
	}
	logins := stormLogins(st)
	r.round++
	type req struct {
		rec map[string]any
		typ int
		f   []sim.F
	}
	reqs := make([]req, k)
	kinds := []string{"setuser", "setuser", "setuser", "setuser", "put", "put", "newuser", "newuser", "deluser", "del"}
	// in half of the rounds everybody aims at one login
	focus := logins[r.rng.Intn(len(logins))]
	focused := r.rng.Intn(2) == 0
	for i := range reqs {
		kind := kinds[r.rng.Intn(len(kinds))]
		lg := logins[r.rng.Intn(len(logins))]
		if focused {
			lg = focus
		}
		pw := stormPool[r.rng.Intn(len(stormPool))]
		has := len(pw) > 0 || kind == "put"
		acc := []int{}
		if r.rng.Intn(2) == 0 {
			acc = []int{2, 9}
		}
		rec := map[string]any{"admin": i + 1, "kind": kind, "login": sim.Ints(lg), "name": sim.Ints([]byte(fmt.Sprintf("r%da%d", r.round, i+1))),
			"pw": map[string]any{"has": has, "v": sim.Ints(pw)}, "acc": acc}
		arg := map[string]any{"login": lg, "name": []byte(fmt.Sprintf("r%da%d", r.round, i+1)), "pw": map[string]any{"has": has, "v": pw}, "acc": acc}
		q := req{rec: rec}
		switch kind {
		case "setuser":
			q.typ, q.f = sim.TSetUser, acctFields(arg)
		case "newuser":
			q.typ, q.f = sim.TNewUser, acctFields(arg)
		case "put":
			q.typ, q.f = sim.TUpdateUser, []sim.F{sim.Fld(sim.FData, nested(acctFields(arg)))}
		case "deluser":
			q.typ, q.f = sim.TDeleteUser, []sim.F{sim.Fld(sim.FUserLogin, sim.Obfuscate(lg))}
			rec["name"], rec["pw"], rec["acc"] = []int{}, map[string]any{"has": false, "v": []int{}}, []int{}
		case "del":
			q.typ, q.f = sim.TUpdateUser, []sim.F{sim.Fld(sim.FData, nested([]sim.F{sim.Fld(sim.FData, sim.Obfuscate(lg))}))}
			rec["name"], rec["pw"], rec["acc"] = []int{}, map[string]any{"has": false, "v": []int{}}, []int{}
		}
		reqs[i] = q
	}
	start := make(chan struct{})
	var wg sync.WaitGroup
	errs := make([]error, k)
	for i := range reqs {
		wg.Add(1)
		go func(i int) {
			defer wg.Done()
			<-start
			cls, _, err := requestOn(r.storms[i], reqs[i].typ, reqs[i].f...)
			reqs[i].rec["reply"] = cls
			errs[i] = err
		}(i)
	}
	close(start)
	wg.Wait()
	out := []map[string]any{}
	for i := range reqs {
		if errs[i] != nil {
			return fmt.Errorf("storm request %d: %w", i, errs[i])
		}
		if reqs[i].rec["reply"] == "closed" {
			return fmt.Errorf("storm connection %d was closed by the server", i)
		}
		out = append(out, reqs[i].rec)
	}
	ev["reqs"] = out
	ev["reply"] = "ok"
	return nil
}

// pwKind classifies a password string shown or stored by the server: a bcrypt hash, one of the script's
// passwords in clear or wire form, empty, or something else.
func (r *run) pwKind(s string) string {
	if s == "" {
		return "empty"
	}
	for _, p := range append(append([][]byte{}, r.pws...), []byte(adminPw)) {
		if len(p) > 0 && (s == string(p) || s == string(sim.Obfuscate(p))) {
			return "clear"
		}
	}
	if _, err := bcrypt.Cost([]byte(s)); err == nil && strings.HasPrefix(s, "$2") && len(s) == 60 {
		return "bcrypt"
	}
	return "other"
}

// tryLogin makes a real login attempt over a fresh connection.
func (r *run) tryLogin(login, pw []byte) (bool, error) {
	c := r.w.Dial("")
	defer func() {
		c.Close()
		c.WaitServerDone(10 * time.Second)
	}()
	if err := c.Handshake(10 * time.Second); err != nil {
		return false, fmt.Errorf("probe handshake: %w", err)
	}
	rep, err := c.Request(sim.TLogin, sim.Fld(sim.FUserLogin, sim.Obfuscate(login)), sim.Fld(sim.FUserPassword, wirePw(pw)), sim.Fld(sim.FVersion, sim.U16(190)))
	if err != nil {
		return false, fmt.Errorf("probe login: %w", err)
	}
	return rep.Err == 0, nil
}

func (r *run) verifies(hash string) [][]byte {
	out := [][]byte{}
	ps := append(append([][]byte{}, r.pws...), []byte(adminPw))
	for _, p := range ps {
		k := hash + "\x00" + string(p)
		ok, seen := r.vcache[k]
		if !seen {
			ok = bcrypt.CompareHashAndPassword([]byte(hash), wirePw(p)) == nil
			r.vcache[k] = ok
		}
		if ok {
			out = append(out, p)
		}
	}
	return out
}

func intsList(bs [][]byte) [][]int {
	out := [][]int{}
	for _, b := range bs {
		out = append(out, sim.Ints(b))
	}
	return out
}

func (r *run) viewCan() ([]map[string]any, error) {
	out := []map[string]any{}
	probe := func(l, p []byte) error {
		ok, err := r.tryLogin(l, p)
		if err != nil {
			return err
		}
		out = append(out, map[string]any{"login": sim.Ints(l), "pw": sim.Ints(p), "ok": ok})
		return nil
	}
	for _, l := range r.logins {
		for _, p := range r.pws {
			if err := probe(l, p); err != nil {
				return nil, err
			}
		}
	}
	for _, p := range [][]byte{[]byte(adminPw), {}} {
		if err := probe([]byte(adminLogin), p); err != nil {
			return nil, err
		}
	}
	return out, nil
}

// parseAcctRecord decodes one account record of a list-users reply: count(2) then fields 102 name, 105 login
// (obfuscated), 110 access, 106 present when a password is set.
func parseAcctRecord(b []byte) map[string]any {
	rec := map[string]any{"login": []int{}, "name": []int{}, "acc": []int{}, "haspw": false, "wf": true}
	if len(b) < 2 {
		rec["wf"] = false
		return rec
	}
	n := sim.BE(b[:2])
	p := b[2:]
	seen := map[int]bool{}
	for i := 0; i < n; i++ {
		if len(p) < 4 {
			rec["wf"] = false
			return rec
		}
		id, sz := sim.BE(p[0:2]), sim.BE(p[2:4])
		if len(p) < 4+sz {
			rec["wf"] = false
			return rec
		}
		d := p[4 : 4+sz]
		p = p[4+sz:]
		if seen[id] {
			rec["wf"] = false
		}
		seen[id] = true
		switch id {
		case sim.FUserName:
			rec["name"] = sim.Ints(d)
		case sim.FUserLogin:
			rec["login"] = sim.Ints(sim.Obfuscate(d))
		case sim.FUserAccess:
			rec["acc"] = bitsOf(d)
			if len(d) != 8 {
				rec["wf"] = false
			}
		case sim.FUserPassword:
			rec["haspw"] = true
		default:
			rec["wf"] = false
		}
	}
	if len(p) != 0 || !seen[sim.FUserName] || !seen[sim.FUserLogin] || !seen[sim.FUserAccess] {
		rec["wf"] = false
	}
	return rec
}

func byLogin(recs []map[string]any) {
	sort.SliceStable(recs, func(i, j int) bool {
		a, _ := recs[i]["login"].([]int)
		b, _ := recs[j]["login"].([]int)
		return bytes.Compare(bytesOf(a), bytesOf(b)) < 0
	})
}

func (r *run) viewList() (map[string]any, error) {
	cls, rep, err := r.request(sim.TListUsers)
	if err != nil {
		return nil, err
	}
	recs := []map[string]any{}
	if cls == "ok" {
		for _, f := range rep.Fields {
			if f.ID == sim.FData {
				recs = append(recs, parseAcctRecord(f.Data))
			} else {
				recs = append(recs, map[string]any{"login": []int{}, "name": []int{}, "acc": []int{}, "haspw": false, "wf": false})
			}
		}
	}
	byLogin(recs)
	return map[string]any{"cls": cls, "recs": recs}, nil
}

var privByName = func() map[string]int {
	m := map[string]int{}
	for i, n := range sim.PrivNames {
		m[n] = i
	}
	return m
}()

type acctFile struct {
	Login    string    `yaml:"Login"`
	Name     string    `yaml:"Name"`
	Password string    `yaml:"Password"`
	Access   yaml.Node `yaml:"Access"`
}

// viewFiles parses the account directory without any server code.
func (r *run) viewFiles() (recs []map[string]any, stray [][]int, raw string, err error) {
	ents, err := os.ReadDir(r.dir)
	if err != nil {
		return nil, nil, "", err
	}
	recs = []map[string]any{}
	stray = [][]int{}
	var rawb strings.Builder
	for _, e := range ents {
		name := e.Name()
		if !strings.HasSuffix(name, ".yaml") || !e.Type().IsRegular() {
			stray = append(stray, sim.Ints([]byte(name)))
			fmt.Fprintf(&rawb, "%q stray\n", name)
			continue
		}
		b, err := os.ReadFile(filepath.Join(r.dir, name))
		if err != nil {
			return nil, nil, "", err
		}
		fmt.Fprintf(&rawb, "%q %q\n", name, b)
		rec := map[string]any{"file": sim.Ints([]byte(name)), "login": []int{}, "name": []int{}, "acc": []int{}, "accfmt": "none",
			"pwkind": "none", "ver": [][]int{}, "bad": false}
		var a acctFile
		if err := yaml.Unmarshal(b, &a); err != nil {
			rec["bad"] = true
			recs = append(recs, rec)
			continue
		}
		rec["login"] = sim.Ints([]byte(a.Login))
		rec["name"] = sim.Ints([]byte(a.Name))
		acc := []int{}
		switch a.Access.Kind {
		case yaml.MappingNode:
			rec["accfmt"] = "flags"
			var m map[string]bool
			if err := a.Access.Decode(&m); err != nil {
				rec["bad"] = true
			}
			for k, v := range m {
				i, known := privByName[k]
				if !known {
					rec["accfmt"] = "flags+unknown"
				} else if v {
					acc = append(acc, i)
				}
			}
		case yaml.SequenceNode:
			rec["accfmt"] = "bytes"
			var l []int
			if err := a.Access.Decode(&l); err != nil {
				rec["bad"] = true
			}
			bs := make([]byte, len(l))
			for i, v := range l {
				bs[i] = byte(v)
			}
			acc = bitsOf(bs)
		}
		sort.Ints(acc)
		rec["acc"] = acc
		rec["pwkind"] = r.pwKind(a.Password)
		if rec["pwkind"] == "bcrypt" {
			rec["ver"] = intsList(r.verifies(a.Password))
		}
		recs = append(recs, rec)
	}
	sort.SliceStable(recs, func(i, j int) bool {
		return bytes.Compare(bytesOf(recs[i]["file"]), bytesOf(recs[j]["file"])) < 0
	})
	return recs, stray, rawb.String(), nil
}

// viewReload constructs a second account manager from the directory and lists it.
func (r *run) viewReload() map[string]any {
	am, err := verifexport.NewYAMLAccountManager(r.dir)
	if err != nil {
		return map[string]any{"ok": false, "error": err.Error(), "recs": []map[string]any{}}
	}
	recs := []map[string]any{}
	for _, a := range am.List() {
		rec := map[string]any{"login": sim.Ints([]byte(a.Login)), "name": sim.Ints([]byte(a.Name)), "acc": bitsOf(a.Access[:]),
			"pwkind": r.pwKind(a.Password), "ver": [][]int{}}
		if rec["pwkind"] == "bcrypt" {
			rec["ver"] = intsList(r.verifies(a.Password))
		}
		recs = append(recs, rec)
	}
	byLogin(recs)
	return map[string]any{"ok": true, "error": "", "recs": recs}
}

func (r *run) views(ev map[string]any) error {
	can, err := r.viewCan()
	if err != nil {
		return err
	}
	ev["can"] = can
	ev["pws"] = intsList(append(append([][]byte{}, r.pws...), []byte(adminPw)))
	list, err := r.viewList()
	if err != nil {
		return err
	}
	ev["list"] = list
	files, stray, raw1, err := r.viewFiles()
	if err != nil {
		return err
	}
	ev["files"] = files
	ev["stray"] = stray
	ev["reload"] = r.viewReload()
	// constructing a manager may rewrite files (format migration): observe whether it did
	files2, _, raw2, err := r.viewFiles()
	if err != nil {
		return err
	}
	ev["touched"] = raw1 != raw2
	if raw1 != raw2 {
		ev["files2"] = files2
	} else {
		ev["files2"] = files
	}
	return nil
}

func runScript(runID int, steps []map[string]any, big bool) (evs []map[string]any, err error) {
	all := sim.DefinedOnly(sim.AllAccess())
	w, err := sim.NewWorld(sim.WorldOpts{Accounts: []sim.Acct{{Login: adminLogin, Name: adminName, Password: adminPw, Access: all}}})
	if err != nil {
		return nil, err
	}
	defer w.Close()
	seed, _ := strconv.ParseInt(os.Getenv("VERIF_SEED"), 10, 64)
	r := &run{w: w, dir: filepath.Join(w.Config, "Users"), vcache: map[string]bool{}, rng: rand.New(rand.NewSource(seed*7919 + int64(runID)))}
	r.universe(steps)
	if err := r.dialAdmin(); err != nil {
		return nil, err
	}
	w0 := map[string]any{"op": "world", "run": runID, "big": big, "accts": []map[string]any{{"login": sim.Ints([]byte(adminLogin)),
		"name": sim.Ints([]byte(adminName)), "pw": sim.Ints([]byte(adminPw)), "acc": bitsOf(all[:])}}}
	if err := r.views(w0); err != nil {
		return nil, fmt.Errorf("initial views: %w", err)
	}
	evs = append(evs, w0)
	for i, st := range steps {
		ev := map[string]any{}
		for k, v := range st {
			ev[k] = v
		}
		ev["run"] = runID
		ev["i"] = i + 1
		if err := r.step(st, ev); err != nil {
			return nil, fmt.Errorf("step %d %v: %w", i+1, st["op"], err)
		}
		if err := r.views(ev); err != nil {
			return nil, fmt.Errorf("views after step %d: %w", i+1, err)
		}
		evs = append(evs, ev)
	}
	return evs, nil
}
