package stream

import (
	"context"
	"crypto/sha256"
	"encoding/hex"
	"encoding/json"
	"errors"
	"flag"
	"fmt"
	"io/fs"
	"os"
	"path/filepath"
	"sort"
	"strings"
	"sync"
	"time"

	"github.com/jhalter/mobius/hotline"

	"verifharness/sim"
)

// Script is one scripted run: a library session and the TCP segmentation of its byte stream.
type Script struct {
	Sess string `json:"sess"`
	Segs []int  `json:"segs"`
	Src  string `json:"src"`
}

type recorder struct {
	mu  sync.Mutex
	evs []map[string]any
	nd  int
}

func (r *recorder) add(ev map[string]any) {
	r.mu.Lock()
	r.evs = append(r.evs, ev)
	r.mu.Unlock()
}

func short(b []byte) string {
	h := sha256.Sum256(b)
	return hex.EncodeToString(h[:6])
}

// flush returns once every transaction put on the outbox before the call has been written: the world's pump is
// a single in-order consumer of an unbuffered channel, so when it accepts the marker it has finished its
// predecessors.  The marker is addressed to a user ID nobody holds (sendTransaction drops it).
func flush(w *sim.World) error {
	marker := hotline.NewTransaction(hotline.TranKeepAlive, [2]byte{0xff, 0xfe})
	select {
	case w.Srv.VerifOutbox() <- marker:
		return nil
	case <-time.After(10 * time.Second):
		return errors.New("outbox not drained within 10 s")
	}
}

// canonTx renders one transaction the server wrote: type, reply flag, id (replies only: the ids of
// server-initiated transactions are random), error code, and per field id, length and content hash (the
// reference number of a transfer is random: length only).
func canonTx(t sim.Tx) string {
	id := uint32(0)
	if t.IsReply == 1 {
		id = t.ID
	}
	var fl []string
	for _, f := range t.Fields {
		if f.ID == sim.FRefNum {
			fl = append(fl, fmt.Sprintf("%d:%d", f.ID, len(f.Data)))
		} else {
			fl = append(fl, fmt.Sprintf("%d:%d:%s", f.ID, len(f.Data), short(f.Data)))
		}
	}
	wf := ""
	if !t.WellFormed {
		wf = "!malformed"
	}
	return fmt.Sprintf("t%d r%d id%d e%d [%s]%s", t.Type, t.IsReply, id, t.Err, strings.Join(fl, " "), wf)
}

func fsKeys(root string) ([]string, error) {
	es, err := sim.Snapshot(root)
	if err != nil {
		return nil, err
	}
	out := []string{}
	for _, e := range es {
		out = append(out, fmt.Sprintf("%s|%s|%d|%s", e.Path, e.Kind, e.Size, e.Hash))
	}
	return out, nil
}

// forkBytes sums the sizes of data-fork files (complete or .incomplete) and of resource-fork side files.
func forkBytes(root string) (data, rsrc int) {
	_ = filepath.WalkDir(root, func(p string, d fs.DirEntry, err error) error {
		if err != nil || d.IsDir() {
			return nil
		}
		info, err := d.Info()
		if err != nil {
			return nil
		}
		switch {
		case strings.HasPrefix(d.Name(), ".rsrc_"):
			rsrc += int(info.Size())
		case strings.HasPrefix(d.Name(), ".info_"):
		default:
			data += int(info.Size())
		}
		return nil
	})
	return
}

func newWorld(s *Session) (*sim.World, error) {
	w, err := sim.NewWorld(sim.WorldOpts{Agreement: "Be segment agnostic.\rThank you.", Board: "old news\r", PreserveForks: s.Forks})
	if err != nil {
		return nil, err
	}
	w.Srv.Config.NewsDateFormat = "--" // the board text must not depend on the wall clock
	if s.Cls == "control" || s.Cls == "download" {
		if err := populate(w); err != nil {
			w.Close()
			return nil, err
		}
	}
	return w, nil
}

type outcome struct {
	evs   []map[string]any // ask / disp events in the order the handler goroutine produced them
	end   map[string]any
	total int
	base  map[string]any
}

const runTimeout = 90 * time.Second

// guarded turns a panic that escapes the real handler into that run's recorded error.
func guarded(f func() error) (err error) {
	defer func() {
		if r := recover(); r != nil {
			err = fmt.Errorf("panic: %v", r)
		}
	}()
	return f()
}

// execute runs one session with one segmentation on a fresh world.
func execute(s *Session, segs []int) (*outcome, error) {
	w, err := newWorld(s)
	if err != nil {
		return nil, err
	}
	defer w.Close()
	if s.Conn == "control" {
		return runControl(w, s, segs)
	}
	return runTransfer(w, s, segs)
}

func runControl(w *sim.World, s *Session, segs []int) (*outcome, error) {
	data := join(s.parts(nil))
	sc := sim.NewScriptConn(data, segs)
	rec := &recorder{}
	// every dispatch to a request handler is logged from the handler goroutine itself
	for _, ty := range w.Srv.VerifHandlerTypes() {
		h, _ := w.Srv.VerifHandler(ty)
		w.Srv.HandleFunc(ty, func(cc *hotline.ClientConn, t *hotline.Transaction) []hotline.Transaction {
			rec.mu.Lock()
			rec.nd++
			rec.evs = append(rec.evs, map[string]any{"op": "disp", "ty": sim.BE(t.Type[:]), "id": sim.BE(t.ID[:]), "at": sc.Delivered()})
			rec.mu.Unlock()
			return h(cc, t)
		})
	}
	var flushErr error
	sawFinal := false // the handler came back for more after the last byte: it has processed everything
	sc.OnRead = func(d int) {
		if d >= len(data) {
			sawFinal = true
			// the client has said everything: let the replies out before it hangs up
			if err := flush(w); err != nil {
				flushErr = err
			}
		}
		hs := 0
		if len(sc.Written()) >= 8 {
			hs = 1
		}
		rec.mu.Lock()
		nd := rec.nd
		rec.mu.Unlock()
		rec.add(map[string]any{"op": "ask", "d": d, "hs": hs, "reg": len(w.Srv.ClientMgr.List()), "nd": nd, "wrote": 0, "data": 0, "rsrc": 0})
	}
	done := make(chan error, 1)
	go func() {
		done <- guarded(func() error { return w.Srv.VerifHandleNewConnection(context.Background(), sc, "10.9.8.7:4321") })
	}()
	end := map[string]any{"op": "end", "timeout": false, "err": "", "setup": ""}
	select {
	case err := <-done:
		if err != nil {
			end["err"] = err.Error()
		}
	case <-time.After(runTimeout):
		end["timeout"] = true
	}
	if err := flush(w); err != nil {
		flushErr = err
	}
	if flushErr != nil {
		end["timeout"] = true
		end["err"] = fmt.Sprintf("%v; %v", end["err"], flushErr)
	}
	end["d"] = sc.Delivered()
	end["fin"] = sawFinal && end["timeout"] == false
	_ = sc.Close()
	written := sc.Written()
	obs := map[string]any{"out": "", "nout": 0}
	pre := written
	if len(pre) > 8 {
		pre = pre[:8]
	}
	obs["hsr"] = hex.EncodeToString(pre)
	var sp sim.Splitter
	txs := []string{}
	if len(written) > 8 {
		for _, t := range sp.Feed(written[8:]) {
			txs = append(txs, canonTx(t))
		}
	}
	sort.Strings(txs)
	obs["txs"] = txs
	obs["pend"] = sp.Pending()
	keys, err := fsKeys(w.Root)
	if err != nil {
		return nil, err
	}
	obs["fs"] = keys
	board, _ := os.ReadFile(filepath.Join(w.Config, "MessageBoard.txt"))
	obs["board"] = fmt.Sprintf("%d:%s", len(board), short(board))
	end["obs"] = obs
	return &outcome{evs: rec.evs, end: end, total: len(data), base: map[string]any{"data": 0, "rsrc": 0}}, nil
}

func runTransfer(w *sim.World, s *Session, segs []int) (*outcome, error) {
	// the helper connection is not the object of the experiment: on a loaded machine its login or request may time
	// out, so it is tried up to three times (a persistent failure is still reported)
	var c *sim.Client
	var rep sim.Tx
	var err error
	for attempt := 0; attempt < 3; attempt++ {
		c = w.Dial("")
		if _, err = c.Login(sim.LoginOpts{Login: "admin", Password: "admin", Name: "xfer", Old: true}); err != nil {
			err = fmt.Errorf("transfer session login: %w", err)
			c.Close()
			continue
		}
		if rep, err = s.Request(c); err != nil {
			err = fmt.Errorf("transfer request: %w", err)
			c.Close()
			continue
		}
		break
	}
	if err != nil {
		return setupFailed(err), nil
	}
	ref, ok := rep.Get(sim.FRefNum)
	if !ok || rep.Err != 0 || len(ref) != 4 {
		return setupFailed(fmt.Errorf("transfer request refused: %s", rep.String())), nil
	}
	data := join(s.parts(ref))
	sc := sim.NewScriptConn(data, segs)
	rec := &recorder{}
	bd, br := forkBytes(w.Root)
	sc.OnRead = func(d int) {
		dd, rr := forkBytes(w.Root)
		rec.add(map[string]any{"op": "ask", "d": d, "hs": 0, "reg": 0, "nd": 0, "wrote": len(sc.Written()), "data": dd, "rsrc": rr})
	}
	done := make(chan error, 1)
	go func() {
		done <- guarded(func() error { return w.Srv.VerifHandleFileTransfer(context.Background(), sc, "10.9.8.7:4322") })
	}()
	end := map[string]any{"op": "end", "timeout": false, "err": "", "setup": ""}
	select {
	case err := <-done:
		if err != nil {
			end["err"] = err.Error()
		}
	case <-time.After(runTimeout):
		end["timeout"] = true
	}
	end["d"] = sc.Delivered()
	end["fin"] = sc.Delivered() == len(data) && end["timeout"] == false // a transfer handler need not read past the last byte
	_ = sc.Close()
	written := sc.Written()
	keys, err := fsKeys(w.Root)
	if err != nil {
		return nil, err
	}
	end["obs"] = map[string]any{"out": short(written), "nout": len(written), "hsr": "", "txs": []string{}, "pend": 0, "fs": keys, "board": ""}
	return &outcome{evs: rec.evs, end: end, total: len(data), base: map[string]any{"data": bd, "rsrc": br}}, nil
}

func emptyObs() map[string]any {
	return map[string]any{"out": "", "nout": 0, "hsr": "", "txs": []string{}, "pend": 0, "fs": []string{}, "board": ""}
}

// setupFailed: the unsegmented helper connection of a transfer session did not get as far as a reference
// number.  Nothing about the scripted stream was observed; the trace specification reports it as drift.
func setupFailed(err error) *outcome {
	return &outcome{end: map[string]any{"op": "end", "timeout": false, "err": "", "setup": err.Error(), "d": 0, "fin": false, "obs": emptyObs()},
		base: map[string]any{"data": 0, "rsrc": 0}, total: -1}
}

func obsKey(o *outcome) string {
	b, _ := json.Marshal(o.end["obs"])
	return string(b)
}

// Run is the entry point of vh-stream.
//
//	vh-stream -describe sessions.ndjson            frame lengths of the session library (input of Gen_Stream)
//	vh-stream -scripts s.ndjson -out log.ndjson    execute scripts, record what the real code did
func Run(args []string) error {
	fl := flag.NewFlagSet("vh-stream", flag.ExitOnError)
	describe := fl.String("describe", "", "write the session library (frames) to this ndjson file and exit")
	in := fl.String("scripts", "", "ndjson file, one script per line")
	out := fl.String("out", "log.ndjson", "event log")
	par := fl.Int("par", 64, "parallel control runs")
	xpar := fl.Int("xpar", 400, "parallel transfer runs (each sleeps 3 s in the server)")
	corrupt := fl.String("corrupt", "", "binding demonstration only: corrupt one logged field (early|lazy|final)")
	_ = fl.Parse(args)
	lib := Library()
	byName := map[string]*Session{}
	for _, s := range lib {
		byName[s.Name] = s
	}
	if *describe != "" {
		lg, err := sim.NewLog(*describe)
		if err != nil {
			return err
		}
		for _, s := range lib {
			total := 0
			fr := s.Frames()
			for _, f := range fr {
				total += f.N
			}
			lg.Emit(map[string]any{"sess": s.Name, "conn": s.Conn, "cls": s.Cls, "forks": s.Forks, "ones": s.Ones, "frames": fr, "total": total})
		}
		return lg.Close()
	}
	raw, err := os.ReadFile(*in)
	if err != nil {
		return err
	}
	var scripts []Script
	for _, line := range strings.Split(string(raw), "\n") {
		if strings.TrimSpace(line) == "" {
			continue
		}
		var s Script
		if err := json.Unmarshal([]byte(line), &s); err != nil {
			return fmt.Errorf("script: %w", err)
		}
		if byName[s.Sess] == nil {
			return fmt.Errorf("unknown session %q", s.Sess)
		}
		scripts = append(scripts, s)
	}
	// the unsegmented reference run of every session used, twice: the observation must be reproducible
	refs := map[string]*outcome{}
	var rmu sync.Mutex
	var rerr error
	var wg sync.WaitGroup
	csem := make(chan struct{}, *par)
	xsem := make(chan struct{}, *xpar)
	semOf := func(name string) chan struct{} {
		if byName[name].Conn == "transfer" {
			return xsem
		}
		return csem
	}
	for _, sc := range scripts {
		if _, ok := refs[sc.Sess]; ok {
			continue
		}
		refs[sc.Sess] = nil
		wg.Add(1)
		go func(name string) {
			defer wg.Done()
			var a, b *outcome
			var ea, eb error
			var w2 sync.WaitGroup
			w2.Add(2)
			go func() { defer w2.Done(); a, ea = execute(byName[name], nil) }()
			go func() { defer w2.Done(); b, eb = execute(byName[name], nil) }()
			w2.Wait()
			err := ea
			if err == nil {
				err = eb
			}
			if err == nil {
				// what an abandoned connection had written back by the time it was dropped depends on the outbox
				// pump's timing, not on the bytes: only completed runs have to be reproducible
				a.end["stable"] = a.end["fin"] == b.end["fin"] &&
					(a.end["fin"] == false || (obsKey(a) == obsKey(b) && a.end["d"] == b.end["d"]))
			}
			rmu.Lock()
			defer rmu.Unlock()
			if err != nil && rerr == nil {
				rerr = fmt.Errorf("reference %s: %w", name, err)
			}
			refs[name] = a
		}(sc.Sess)
	}
	results := make([]*outcome, len(scripts))
	errs := make([]error, len(scripts))
	for i := range scripts {
		sem := semOf(scripts[i].Sess)
		wg.Add(1)
		sem <- struct{}{}
		go func(i int, sem chan struct{}) {
			defer wg.Done()
			defer func() { <-sem }()
			results[i], errs[i] = execute(byName[scripts[i].Sess], scripts[i].Segs)
		}(i, sem)
	}
	wg.Wait()
	if rerr != nil {
		return rerr
	}
	lg, err := sim.NewLog(*out)
	if err != nil {
		return err
	}
	for i, sc := range scripts {
		if errs[i] != nil {
			return fmt.Errorf("script %d (%s): %w", i+1, sc.Sess, errs[i])
		}
		s := byName[sc.Sess]
		o := results[i]
		run := i + 1
		segs := sc.Segs
		if segs == nil {
			segs = []int{}
		}
		total := 0
		for _, f := range s.Frames() {
			total += f.N
		}
		if o.total >= 0 {
			total = o.total
		}
		evs := []map[string]any{{"op": "world", "run": run, "sess": s.Name, "conn": s.Conn, "cls": s.Cls, "forks": s.Forks,
			"frames": s.Frames(), "segs": segs, "total": total, "base": o.base, "ref": refs[sc.Sess].end["obs"],
			"refd": refs[sc.Sess].end["d"], "reffin": refs[sc.Sess].end["fin"], "referr": refs[sc.Sess].end["err"], "refstable": refs[sc.Sess].end["stable"],
			"refsetup": refs[sc.Sess].end["setup"], "reftimeout": refs[sc.Sess].end["timeout"], "src": sc.Src}}
		for _, e := range o.evs {
			e["run"] = run
			evs = append(evs, e)
		}
		o.end["run"] = run
		evs = append(evs, o.end)
		if *corrupt != "" && i == 0 {
			corruptLog(*corrupt, evs)
		}
		lg.EmitAll(evs)
	}
	return lg.Close()
}

// corruptLog falsifies one logged field of the first run (used only to demonstrate that the trace
// specification is bound to the log).
func corruptLog(kind string, evs []map[string]any) {
	switch kind {
	case "early":
		for i := len(evs) - 1; i >= 0; i-- {
			if evs[i]["op"] == "disp" {
				evs[i]["at"] = evs[i]["at"].(int) - 1
				return
			}
		}
	case "lazy":
		for i := len(evs) - 1; i >= 0; i-- {
			if evs[i]["op"] == "ask" && evs[i]["nd"].(int) > 0 {
				evs[i]["nd"] = evs[i]["nd"].(int) - 1
				return
			}
		}
	case "final":
		obs := evs[len(evs)-1]["obs"].(map[string]any)
		obs["board"] = "0:corrupted"
	}
}
