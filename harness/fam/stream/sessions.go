// Package stream is the driver/observer of property C02 (segmentation-independent parsing of client byte
// streams).  It builds the bytes of a library of well-formed client sessions with the independent codec of
// harness/sim, feeds them to the real connection handlers through a sim.ScriptConn whose Read returns exactly the
// scripted TCP segments, and records what the real code did.  It holds no expectations: Trace_Stream.tla judges.
package stream

import (
	"bytes"
	"fmt"
	"os"
	"path/filepath"
	"time"

	"verifharness/sim"
)

// Frame is one unit of a client byte stream as the protocol document frames it.
type Frame struct {
	K    string `json:"k"`    // H L T | P FILP INFOH INFO DATAH DATA MACRH RSRC ITEMD ITEMF FSIZE
	N    int    `json:"n"`    // length in bytes
	G    bool   `json:"g"`    // byte-granular (fork contents: every byte is taken on arrival)
	Ty   int    `json:"ty"`   // transaction type for L / T frames
	ID   int    `json:"id"`   // transaction id for L / T frames
	Last bool   `json:"last"` // folder upload: the last fork of a file
}

type part struct {
	f Frame
	b []byte
}

func mk(k string, b []byte) part { return part{Frame{K: k, N: len(b)}, b} }
func gran(k string, b []byte, last bool) part {
	return part{Frame{K: k, N: len(b), G: true, Last: last}, b}
}
func tx(k string, t sim.Tx) part {
	b := t.Encode()
	return part{Frame{K: k, N: len(b), Ty: t.Type, ID: int(t.ID)}, b}
}

// Session is one well-formed client session of the library.
type Session struct {
	Name  string
	Conn  string // control | transfer
	Cls   string // control | upload | download | fup
	Forks bool   // world keeps info / resource forks
	Ones  bool   // small enough for the one-byte-at-a-time segmentation
	// control sessions: the whole stream
	Control func() []part
	// transfer sessions: the request made on an (unsegmented) control connection, and the stream after the preamble
	Request func(c *sim.Client) (sim.Tx, error)
	Payload func() []part
}

var fixedTime = time.Date(2020, 1, 2, 3, 4, 5, 0, time.UTC)

func pattern(n int, seed byte) []byte {
	b := make([]byte, n)
	x := uint32(seed)*2654435761 + 12345
	for i := range b {
		x = x*1664525 + 1013904223
		b[i] = byte(x >> 24)
	}
	return b
}

func text(n int, seed byte) []byte {
	b := pattern(n, seed)
	for i := range b {
		b[i] = 'a' + b[i]%26
		if i%17 == 16 {
			b[i] = ' '
		}
	}
	return b
}

// populate puts the same files with the same times into every world.
func populate(w *sim.World) error {
	put := func(rel string, data []byte) error {
		p := filepath.Join(w.Root, rel)
		if err := os.MkdirAll(filepath.Dir(p), 0755); err != nil {
			return err
		}
		if err := os.WriteFile(p, data, 0644); err != nil {
			return err
		}
		return os.Chtimes(p, fixedTime, fixedTime)
	}
	if err := put("doc.txt", text(300, 1)); err != nil {
		return err
	}
	if err := put("sub/inner.bin", pattern(45, 2)); err != nil {
		return err
	}
	if err := os.Chtimes(filepath.Join(w.Root, "sub"), fixedTime, fixedTime); err != nil {
		return err
	}
	return os.Chtimes(w.Root, fixedTime, fixedTime)
}

func loginOld(login, pw, name string) sim.Tx {
	return sim.NewTx(sim.TLogin, 1, sim.Fld(sim.FUserLogin, sim.Obfuscate([]byte(login))),
		sim.Fld(sim.FUserPassword, sim.Obfuscate([]byte(pw))), sim.Fld(sim.FUserName, []byte(name)),
		sim.Fld(sim.FUserIconID, sim.U16(128)))
}

func loginNew(login, pw string) sim.Tx {
	return sim.NewTx(sim.TLogin, 1, sim.Fld(sim.FUserLogin, sim.Obfuscate([]byte(login))),
		sim.Fld(sim.FUserPassword, sim.Obfuscate([]byte(pw))), sim.Fld(sim.FVersion, sim.U16(190)))
}

func control(login sim.Tx, rest ...sim.Tx) []part {
	ps := []part{mk("H", sim.HandshakeBytes), tx("L", login)}
	for i, t := range rest {
		t.ID = uint32(i + 2)
		ps = append(ps, tx("T", t))
	}
	return ps
}

// ---- flattened file object, from the protocol document ("Flattened File Object") ----

func filpHeader(forks int) []byte {
	b := append([]byte("FILP"), 0, 1)
	b = append(b, make([]byte, 16)...)
	return append(b, 0, byte(forks))
}

func forkHeader(typ string, size int) []byte {
	b := append([]byte(typ), make([]byte, 8)...)
	return append(b, sim.U32(size)...)
}

func infoFork(name, comment string) []byte {
	var b bytes.Buffer
	b.WriteString("AMAC")
	b.WriteString("TEXT")
	b.WriteString("ttxt")
	b.Write(make([]byte, 4))                  // flags
	b.Write([]byte{0, 0, 1, 0})               // platform flags
	b.Write(make([]byte, 32))                 // reserved
	b.Write([]byte{7, 112, 0, 0, 0, 1, 2, 3}) // create date
	b.Write([]byte{7, 112, 0, 0, 0, 4, 5, 6}) // modify date
	b.Write([]byte{0, 0})                     // name script
	b.Write(sim.U16(len(name)))
	b.WriteString(name)
	b.Write(sim.U16(len(comment)))
	b.WriteString(comment)
	return b.Bytes()
}

// flatFile is the upload form of one file; last marks the final fork (folder uploads).
func flatFile(name, comment string, data, rsrc []byte, inFolder bool) []part {
	forks := 2
	if rsrc != nil {
		forks = 3
	}
	info := infoFork(name, comment)
	ps := []part{
		mk("FILP", filpHeader(forks)),
		mk("INFOH", forkHeader("INFO", len(info))),
		mk("INFO", info),
		mk("DATAH", forkHeader("DATA", len(data))),
		gran("DATA", data, inFolder && rsrc == nil),
	}
	if rsrc != nil {
		ps = append(ps, mk("MACRH", forkHeader("MACR", len(rsrc))), gran("RSRC", rsrc, inFolder))
	}
	return ps
}

func flatSize(ps []part) int {
	n := 0
	for _, p := range ps {
		n += len(p.b)
	}
	return n
}

func preamble(ref []byte, size int) []byte {
	b := append([]byte("HTXF"), ref...)
	b = append(b, sim.U32(size)...)
	return append(b, 0, 0, 0, 0)
}

// folder upload item header: size(2) of what follows, isFolder(2), path item count(2), path items
func itemHeader(isDir bool, comps ...string) []byte {
	var p []byte
	for _, c := range comps {
		p = append(p, 0, 0, byte(len(c)))
		p = append(p, c...)
	}
	b := sim.U16(4 + len(p))
	if isDir {
		b = append(b, 0, 1)
	} else {
		b = append(b, 0, 0)
	}
	b = append(b, sim.U16(len(comps))...)
	return append(b, p...)
}

func uploadSession(name, file, comment string, ndata int, nrsrc int, ones bool) *Session {
	payload := func() []part {
		var rs []byte
		if nrsrc >= 0 {
			rs = pattern(nrsrc, 9)
		}
		return flatFile(file, comment, pattern(ndata, 7), rs, false)
	}
	return &Session{Name: name, Conn: "transfer", Cls: "upload", Forks: true, Ones: ones,
		Request: func(c *sim.Client) (sim.Tx, error) {
			return c.Request(sim.TUploadFile, sim.Fld(sim.FFileName, []byte(file)),
				sim.Fld(sim.FTransferSize, sim.U32(flatSize(payload()))))
		},
		Payload: payload}
}

// Library is the fixed set of sessions; frame lengths are those of the bytes built here.
func Library() []*Session {
	var many []sim.Tx
	for i := 0; i < 18; i++ {
		switch i % 3 {
		case 0:
			many = append(many, sim.NewTx(sim.TKeepAlive, 0))
		case 1:
			many = append(many, sim.NewTx(sim.TGetUserNameList, 0))
		default:
			many = append(many, sim.NewTx(sim.TChatSend, 0, sim.Fld(sim.FData, []byte(fmt.Sprintf("m%d", i)))))
		}
	}
	// pipelined sessions: the login and everything after it can sit in the server's buffer at once
	pipe := func(n, msg int) []sim.Tx {
		var ts []sim.Tx
		for i := 0; i < n; i++ {
			switch i % 4 {
			case 0:
				ts = append(ts, sim.NewTx(sim.TChatSend, 0, sim.Fld(sim.FData, text(msg+i, byte(i)))))
			case 1:
				ts = append(ts, sim.NewTx(sim.TGetUserNameList, 0))
			case 2:
				ts = append(ts, sim.NewTx(sim.TOldPostNews, 0, sim.Fld(sim.FData, text(msg+2*i, byte(i+50)))))
			default:
				ts = append(ts, sim.NewTx(sim.TGetFileNameList, 0))
			}
		}
		return ts
	}
	fupPayload := func() []part {
		ps := []part{mk("ITEMD", itemHeader(true, "sub"))}
		ps = append(ps, mk("ITEMF", itemHeader(false, "a.txt")))
		f1 := flatFile("a.txt", "", text(10, 3), nil, true)
		ps = append(ps, mk("FSIZE", sim.U32(flatSize(f1))))
		ps = append(ps, f1...)
		ps = append(ps, mk("ITEMF", itemHeader(false, "sub", "b.txt")))
		f2 := flatFile("b.txt", "", text(5, 4), pattern(4, 5), true)
		ps = append(ps, mk("FSIZE", sim.U32(flatSize(f2))))
		ps = append(ps, f2...)
		return ps
	}
	return []*Session{
		{Name: "c123", Conn: "control", Cls: "control", Ones: true, Control: func() []part {
			return control(loginOld("guest", "", "Seg Tester"),
				sim.NewTx(sim.TGetUserNameList, 0),
				sim.NewTx(sim.TChatSend, 0, sim.Fld(sim.FData, []byte("hello world"))),
				sim.NewTx(sim.TGetFileNameList, 0),
				sim.NewTx(sim.TOldPostNews, 0, sim.Fld(sim.FData, []byte("first post"))),
				sim.NewTx(sim.TGetMsgs, 0),
				sim.NewTx(sim.TKeepAlive, 0))
		}},
		{Name: "c15", Conn: "control", Cls: "control", Ones: true, Control: func() []part {
			return control(loginNew("admin", "admin"),
				sim.NewTx(sim.TAgreed, 0, sim.Fld(sim.FUserName, []byte("Fifteen")), sim.Fld(sim.FUserIconID, sim.U16(414)),
					sim.Fld(sim.FOptions, sim.U16(0))),
				sim.NewTx(sim.TGetUserNameList, 0),
				sim.NewTx(sim.TChatSend, 0, sim.Fld(sim.FData, []byte("waves")), sim.Fld(sim.FChatOptions, sim.U16(1))),
				sim.NewTx(sim.TGetFileNameList, 0, sim.Fld(sim.FFilePath, sim.EncPath("sub"))),
				sim.NewTx(sim.TOldPostNews, 0, sim.Fld(sim.FData, []byte("second post\nwith two lines"))),
				sim.NewTx(sim.TGetMsgs, 0),
				sim.NewTx(sim.TSetClientUserInfo, 0, sim.Fld(sim.FUserName, []byte("Renamed")), sim.Fld(sim.FUserIconID, sim.U16(2))),
				sim.NewTx(sim.TGetFileInfo, 0, sim.Fld(sim.FFileName, []byte("doc.txt"))),
				sim.NewTx(sim.TDownloadFile, 0, sim.Fld(sim.FFileName, []byte("doc.txt"))),
				sim.NewTx(sim.TKeepAlive, 0))
		}},
		{Name: "cbig", Conn: "control", Cls: "control", Ones: false, Control: func() []part {
			return control(loginOld("guest", "", "Big"),
				sim.NewTx(sim.TChatSend, 0, sim.Fld(sim.FData, text(5000, 5))),
				sim.NewTx(sim.TOldPostNews, 0, sim.Fld(sim.FData, text(9000, 6))),
				sim.NewTx(sim.TGetMsgs, 0),
				sim.NewTx(sim.TChatSend, 0, sim.Fld(sim.FData, []byte("x"))))
		}},
		{Name: "cbound", Conn: "control", Cls: "control", Ones: false, Control: func() []part {
			// field areas that end exactly at the field scanner's buffer sizes (4096, 8192) with a trailing empty
			// field, and one whose last field header straddles 4096: Transaction.Write splits the field area with a
			// bufio.Scanner of its own, whatever the segmentation of the connection
			return control(loginOld("guest", "", "Bound"),
				sim.NewTx(sim.TChatSend, 0, sim.Fld(sim.FData, text(4088, 7)), sim.Fld(sim.FChatOptions, nil)),
				sim.NewTx(sim.TOldPostNews, 0, sim.Fld(sim.FData, text(8184, 8)), sim.Fld(sim.FOptions, nil)),
				sim.NewTx(sim.TChatSend, 0, sim.Fld(sim.FData, text(4086, 9)), sim.Fld(sim.FChatOptions, sim.U16(0))),
				sim.NewTx(sim.TGetMsgs, 0),
				sim.NewTx(sim.TKeepAlive, 0))
		}},
		{Name: "cmany", Conn: "control", Cls: "control", Ones: true, Control: func() []part {
			return control(loginOld("guest", "", "Many"), many...)
		}},
		{Name: "cflood", Conn: "control", Cls: "control", Ones: true, Control: func() []part { // 200 small requests: > 64 per 4 KiB read when coalesced
			var ts []sim.Tx
			for i := 0; i < 200; i++ {
				switch i % 4 {
				case 0, 1:
					ts = append(ts, sim.NewTx(sim.TKeepAlive, 0))
				case 2:
					ts = append(ts, sim.NewTx(sim.TGetUserNameList, 0))
				default:
					ts = append(ts, sim.NewTx(sim.TChatSend, 0, sim.Fld(sim.FData, []byte(fmt.Sprintf("l%d", i)))))
				}
			}
			return control(loginOld("guest", "", "Flood"), ts...)
		}},
		{Name: "cpipe", Conn: "control", Cls: "control", Ones: true, Control: func() []part { // > 2 KiB
			return control(loginOld("guest", "", "Pipe"), pipe(24, 150)...)
		}},
		{Name: "cpipe2", Conn: "control", Cls: "control", Ones: true, Control: func() []part { // > 4 KiB: past the scanner's first buffer
			return control(loginNew("admin", "admin"), append([]sim.Tx{sim.NewTx(sim.TAgreed, 0, sim.Fld(sim.FUserName, []byte("Pipe Two")),
				sim.Fld(sim.FUserIconID, sim.U16(7)), sim.Fld(sim.FOptions, sim.U16(0)))}, pipe(36, 220)...)...)
		}},
		{Name: "chuge", Conn: "control", Cls: "control", Ones: false, Control: func() []part { // > 64 KiB in total
			return control(loginOld("guest", "", "Huge"), pipe(28, 5200)...)
		}},
		uploadSession("up", "up.bin", "", 100, -1, true),
		uploadSession("uprsrc", "res.bin", "a comment", 60, 30, true),
		uploadSession("up0", "empty.bin", "", 0, -1, true),
		uploadSession("upbig", "big.bin", "", 70000, -1, false),
		{Name: "down", Conn: "transfer", Cls: "download", Forks: false, Ones: true,
			Request: func(c *sim.Client) (sim.Tx, error) {
				return c.Request(sim.TDownloadFile, sim.Fld(sim.FFileName, []byte("doc.txt")))
			},
			Payload: func() []part { return nil }},
		{Name: "fup", Conn: "transfer", Cls: "fup", Forks: true, Ones: true,
			Request: func(c *sim.Client) (sim.Tx, error) {
				return c.Request(sim.TUploadFldr, sim.Fld(sim.FFileName, []byte("tree")),
					sim.Fld(sim.FTransferSize, sim.U32(flatSize(fupPayload()))), sim.Fld(sim.FFolderItemCount, sim.U16(3)))
			},
			Payload: fupPayload},
	}
}

func (s *Session) parts(ref []byte) []part {
	if s.Conn == "control" {
		return s.Control()
	}
	pl := s.Payload()
	return append([]part{mk("P", preamble(ref, flatSize(pl)))}, pl...)
}

func (s *Session) Frames() []Frame {
	var fs []Frame
	for _, p := range s.parts(make([]byte, 4)) {
		fs = append(fs, p.f)
	}
	return fs
}

func join(ps []part) []byte {
	var b []byte
	for _, p := range ps {
		b = append(b, p.b...)
	}
	return b
}
