// Package board drives the real message board / agreement code for C19.
//
//	sched: enacts TLC-generated interleavings of the store calls (Seek / Read / Write) of concurrent
//	       get-messages, post-news and login requests through a gating wrapper around the real store.
//	hist:  sequential histories of posts and reads with sizes up to the 64 KiB field limit, plus a free-running
//	       concurrent phase.
//
// The driver records the calls in the order the store saw them and what every request returned; Trace_Board.tla
// decides.
package board

import (
	"bytes"
	"encoding/json"
	"flag"
	"fmt"
	"io"
	"math/rand"
	"os"
	"path/filepath"
	"regexp"
	"strconv"
	"sync"
	"time"

	"verifharness/sim"
)

func Run(args []string) error {
	if len(args) == 0 {
		return fmt.Errorf("usage: vh-board sched|hist ...")
	}
	switch args[0] {
	case "sched":
		return runSched(args[1:])
	case "hist":
		return runHist(args[1:])
	}
	return fmt.Errorf("unknown mode %q", args[0])
}

type schedule struct {
	Readers []int  `json:"readers"`
	Posters []int  `json:"posters"`
	Order   []int  `json:"order"`
	Store   string `json:"store"` // "board" | "agreement"
	Chunk   int    `json:"chunk"` // posts per model Read step
	N       int    `json:"n"`     // posts in the model's initial text
}

type call struct {
	actor   int
	kind    string
	release chan struct{}
	done    chan struct{}
	n       int
	eof     bool
}

// gateStore wraps the real store: every call parks at the gate until the scheduler releases it.
type gateStore struct {
	inner    io.ReadSeeker
	w        io.Writer
	mu       sync.Mutex
	actorOf  map[int64]int
	arrivals chan *call
	log      []map[string]any
	free     bool // after the schedule: let calls through without parking
}

func (g *gateStore) enter(kind string) *call {
	g.mu.Lock()
	a, ok := g.actorOf[sim.GID()]
	free := g.free
	g.mu.Unlock()
	if !ok {
		a = -1
	}
	c := &call{actor: a, kind: kind, release: make(chan struct{}), done: make(chan struct{})}
	if free || a < 0 {
		close(c.release)
		return c
	}
	g.arrivals <- c
	<-c.release
	return c
}

func (g *gateStore) leave(c *call) {
	g.mu.Lock()
	g.log = append(g.log, map[string]any{"op": "call", "a": c.actor, "kind": c.kind, "n": c.n, "eof": c.eof})
	g.mu.Unlock()
	close(c.done)
}

func (g *gateStore) Seek(off int64, whence int) (int64, error) {
	c := g.enter("seek")
	n, err := g.inner.Seek(off, whence)
	g.leave(c)
	return n, err
}

func (g *gateStore) Read(p []byte) (int, error) {
	c := g.enter("read")
	n, err := g.inner.Read(p)
	c.n, c.eof = n, err == io.EOF
	g.leave(c)
	return n, err
}

func (g *gateStore) Write(p []byte) (int, error) {
	c := g.enter("write")
	n, err := g.w.Write(p)
	c.n = n
	g.leave(c)
	return n, err
}

var markerRe = regexp.MustCompile(`<<P([0-9]+)>>`)

// postsIn lists the post markers found in a text, in order.
func postsIn(b []byte) []int {
	out := []int{}
	for _, m := range markerRe.FindAllSubmatch(b, -1) {
		k, _ := strconv.Atoi(string(m[1]))
		out = append(out, k)
	}
	return out
}

func initialBoard(ids []int, size int) (string, map[int][]byte) {
	var sb bytes.Buffer
	rend := map[int][]byte{}
	for _, id := range ids {
		body := fmt.Sprintf("From init (Jan01 00:00):\r\r<<P%d>> %s\r__________________________________________________________\r", id, bytes.Repeat([]byte{byte('a' + id%26)}, size))
		rend[id] = []byte(body)
		sb.WriteString(body)
	}
	return sb.String(), rend
}

func concat(rend map[int][]byte, ids []int) []byte {
	var b []byte
	for _, id := range ids {
		b = append(b, rend[id]...)
	}
	return b
}

func readSchedules(path string) ([]schedule, error) {
	b, err := os.ReadFile(path)
	if err != nil {
		return nil, err
	}
	var out []schedule
	for _, line := range bytes.Split(b, []byte("\n")) {
		if len(line) == 0 {
			continue
		}
		var s schedule
		if err := json.Unmarshal(line, &s); err != nil {
			return nil, err
		}
		out = append(out, s)
	}
	return out, nil
}

func runSched(args []string) error {
	fs := flag.NewFlagSet("sched", flag.ExitOnError)
	in := fs.String("scripts", "", "schedules (ndjson)")
	out := fs.String("out", "log.ndjson", "event log")
	par := fs.Int("par", 48, "parallel schedules")
	_ = fs.Parse(args)
	scheds, err := readSchedules(*in)
	if err != nil {
		return err
	}
	results := make([][]map[string]any, len(scheds))
	errs := make([]error, len(scheds))
	var wg sync.WaitGroup
	sem := make(chan struct{}, *par)
	for i := range scheds {
		wg.Add(1)
		sem <- struct{}{}
		go func(i int) {
			defer wg.Done()
			defer func() { <-sem }()
			results[i], errs[i] = enact(i+1, scheds[i])
		}(i)
	}
	wg.Wait()
	lg, err := sim.NewLog(*out)
	if err != nil {
		return err
	}
	for i, r := range results {
		if errs[i] != nil {
			return fmt.Errorf("schedule %d: %w", i+1, errs[i])
		}
		lg.EmitAll(r)
	}
	return lg.Close()
}

func enact(run int, sc schedule) ([]map[string]any, error) {
	agreement := sc.Store == "agreement"
	initIDs := []int{101, 102, 103}
	text, rend := initialBoard(initIDs, 600) // ~2 KiB: io.ReadAll needs several Read calls
	opts := sim.WorldOpts{Board: text, Agreement: "plain agreement"}
	if agreement {
		opts = sim.WorldOpts{Board: "x", Agreement: text}
	}
	w, err := sim.NewWorld(opts)
	if err != nil {
		return nil, err
	}
	defer w.Close()
	g := &gateStore{actorOf: map[int64]int{}, arrivals: make(chan *call, 64)}
	if agreement {
		g.inner = w.Agree
		w.Srv.Agreement = g
	} else {
		g.inner = w.Board
		g.w = w.Board
		w.Srv.MessageBoard = g
	}
	actors := append(append([]int{}, sc.Readers...), sc.Posters...)
	if agreement {
		actors = append([]int{}, sc.Readers...)
	}
	isPoster := map[int]bool{}
	for _, p := range sc.Posters {
		isPoster[p] = true
	}
	clients := map[int]*sim.Client{}
	bind := func(a int) func(se *sim.End) {
		return func(se *sim.End) {
			once := sync.Once{}
			se.ReadHook = func() {
				once.Do(func() {
					g.mu.Lock()
					g.actorOf[sim.GID()] = a
					g.mu.Unlock()
				})
			}
		}
	}
	evs := []map[string]any{{"op": "world", "run": run, "store": sc.Store, "init": initIDs, "readers": sc.Readers, "posters": sc.Posters, "order": sc.Order}}
	// connect everybody; for the board variant log in first (the agreement is then read at login, ungated:
	// the gate only wraps the board there)
	for _, a := range actors {
		c := w.DialWith("", bind(a))
		clients[a] = c
		if !agreement {
			if _, err := c.Login(sim.LoginOpts{Login: "admin", Password: "admin", Name: fmt.Sprintf("u%d", a), Old: true}); err != nil {
				return nil, fmt.Errorf("login actor %d: %w", a, err)
			}
			c.Drain()
		} else if err := c.Handshake(10 * time.Second); err != nil {
			return nil, err
		}
	}
	// start every actor's request; its handler parks at its first store call
	reqID := map[int]uint32{}
	for _, a := range actors {
		c := clients[a]
		switch {
		case agreement:
			reqID[a] = c.Send(sim.TLogin, sim.Fld(sim.FUserLogin, sim.Obfuscate([]byte("guest"))), sim.Fld(sim.FUserPassword, nil), sim.Fld(sim.FVersion, sim.U16(190)))
		case isPoster[a]:
			reqID[a] = c.Send(sim.TOldPostNews, sim.Fld(sim.FData, []byte(fmt.Sprintf("<<P%d>> posted", a))))
		default:
			reqID[a] = c.Send(sim.TGetMsgs)
		}
	}
	waiting := map[int]*call{}
	pull := func(d time.Duration) bool {
		select {
		case c := <-g.arrivals:
			waiting[c.actor] = c
			return true
		case <-time.After(d):
			return false
		}
	}
	infeasible := false
	// One model step of a reader = Seek, or one Read "chunk" of sc.Chunk posts.  The real io.ReadAll uses more and
	// smaller Read calls, so a model Read step releases real Read calls until the reader has received the same
	// fraction of the initial text (the final model step, EOF, releases calls until one reports EOF).
	textLen := len(text)
	if sc.Chunk <= 0 {
		sc.Chunk, sc.N = 2, 3
	}
	seeked := map[int]bool{}
	rstep := map[int]int{}
	gotBytes := map[int]int{}
	finished := map[int]bool{}
	releaseOne := func(a int) (*call, bool) {
		deadline := time.Now().Add(250 * time.Millisecond)
		for waiting[a] == nil && time.Now().Before(deadline) {
			pull(time.Until(deadline))
		}
		c := waiting[a]
		if c == nil {
			return nil, false
		}
		delete(waiting, a)
		close(c.release)
		select {
		case <-c.done:
		case <-time.After(500 * time.Millisecond):
			// released, but the real call does not return: it waits for a lock that a parked actor holds.  The
			// schedule cannot be followed any further; the rest runs freely (observed, judged by the trace).
			return nil, false
		}
		return c, true
	}
sched:
	for _, a := range sc.Order {
		if agreement && isPoster[a] {
			continue
		}
		if finished[a] {
			continue
		}
		if isPoster[a] || !seeked[a] {
			if _, ok := releaseOne(a); !ok {
				infeasible = true // the real code cannot make this call now (serialised by a lock, or finished)
				break
			}
			seeked[a] = true
			if isPoster[a] {
				finished[a] = true
			}
			continue
		}
		rstep[a]++
		posts := rstep[a] * sc.Chunk
		eofStep := (rstep[a]-1)*sc.Chunk >= sc.N
		if posts > sc.N {
			posts = sc.N
		}
		target := textLen * posts / sc.N
		for k := 0; k < 64; k++ {
			if !eofStep && gotBytes[a] >= target {
				break
			}
			c, ok := releaseOne(a)
			if !ok {
				infeasible = true
				break sched
			}
			gotBytes[a] += c.n
			if c.eof {
				finished[a] = true
				break
			}
		}
	}
	// free-run the remainder
	g.mu.Lock()
	g.free = true
	g.mu.Unlock()
	for {
		for a, c := range waiting {
			delete(waiting, a)
			close(c.release)
			select {
			case <-c.done:
			case <-time.After(2 * time.Second):
			}
		}
		if !pull(50 * time.Millisecond) {
			break
		}
	}
	// collect replies
	type res struct {
		a    int
		data []byte
		ok   bool
	}
	var results []res
	for _, a := range actors {
		c := clients[a]
		if agreement {
			t, err := c.WaitFor(func(t sim.Tx) bool { return t.Type == sim.TShowAgreement }, 10*time.Second)
			d, _ := t.Get(sim.FData)
			results = append(results, res{a, d, err == nil})
			continue
		}
		t, err := c.WaitReply(reqID[a], 10*time.Second)
		d, _ := t.Get(sim.FData)
		results = append(results, res{a, d, err == nil && t.Err == 0})
	}
	// late calls (after free-run started) are in g.log too
	g.mu.Lock()
	calls := append([]map[string]any(nil), g.log...)
	g.mu.Unlock()
	// the rendering of new posts: whatever the store now holds that is not an initial post
	if !agreement {
		disk, _ := os.ReadFile(filepath.Join(w.Config, "MessageBoard.txt"))
		for _, seg := range bytes.SplitAfter(disk, []byte("__________________________________________________________\r")) {
			ids := postsIn(seg)
			if len(ids) == 1 {
				if _, known := rend[ids[0]]; !known {
					rend[ids[0]] = append([]byte(nil), seg...)
				}
			}
		}
	}
	for _, c := range calls {
		c["run"] = run
		evs = append(evs, c)
	}
	for _, r := range results {
		if !agreement && isPoster[r.a] {
			disk, _ := os.ReadFile(filepath.Join(w.Config, "MessageBoard.txt"))
			evs = append(evs, map[string]any{"op": "acked", "run": run, "a": r.a, "ok": r.ok, "disk": postsIn(disk)})
			continue
		}
		ids := postsIn(r.data)
		evs = append(evs, map[string]any{"op": "reply", "run": run, "a": r.a, "ok": r.ok, "posts": ids, "len": len(r.data),
			"exact": bytes.Equal(r.data, concat(rend, ids))})
	}
	evs = append(evs, map[string]any{"op": "end", "run": run, "infeasible": infeasible})
	return evs, nil
}

// ---- sequential histories + free-running concurrency -------------------------------------------------------

func runHist(args []string) error {
	fs := flag.NewFlagSet("hist", flag.ExitOnError)
	out := fs.String("out", "log.ndjson", "event log")
	runs := fs.Int("runs", 6, "histories")
	steps := fs.Int("steps", 25, "steps per history")
	seed := fs.Int64("seed", 1, "seed")
	conc := fs.Int("conc", 6, "concurrent clients in the free-running phase")
	_ = fs.Parse(args)
	results := make([][]map[string]any, *runs)
	errs := make([]error, *runs)
	var wg sync.WaitGroup
	for i := 0; i < *runs; i++ {
		wg.Add(1)
		go func(i int) {
			defer wg.Done()
			results[i], errs[i] = history(100000+i+1, *steps, *conc, *seed*7777+int64(i))
		}(i)
	}
	wg.Wait()
	lg, err := sim.NewLog(*out)
	if err != nil {
		return err
	}
	for i, r := range results {
		if errs[i] != nil {
			return fmt.Errorf("history %d: %w", i+1, errs[i])
		}
		lg.EmitAll(r)
	}
	return lg.Close()
}

func history(run, steps, conc int, seed int64) ([]map[string]any, error) {
	rng := rand.New(rand.NewSource(seed))
	initIDs := []int{101, 102}
	text, rend0 := initialBoard(initIDs, 300+rng.Intn(3000))
	rend := map[int][][]byte{}
	for k, v := range rend0 {
		rend[k] = [][]byte{v}
	}
	// "chatonly": a connected user who may neither read nor post news - "announced to all connected users" includes it
	w, err := sim.NewWorld(sim.WorldOpts{Board: text, Agreement: "agreement", Accounts: []sim.Acct{
		{Login: "guest", Name: "guest", Access: sim.AccessBits(2, 9, 10, 11, 20, 21, 26, 40)},
		{Login: "admin", Name: "admin", Password: "admin", Access: sim.DefinedOnly(sim.AllAccess())},
		{Login: "chatonly", Name: "chatonly", Access: sim.AccessBits(9, 10)}}})
	if err != nil {
		return nil, err
	}
	defer w.Close()
	n := 4
	clients := make([]*sim.Client, n)
	for i := range clients {
		c := w.Dial("")
		login, pw := "admin", "admin"
		if i == n-1 {
			login, pw = "chatonly", "" // only listens (never chosen as poster or reader below)
		}
		if _, err := c.Login(sim.LoginOpts{Login: login, Password: pw, Name: fmt.Sprintf("user%d", i+1), Old: true}); err != nil {
			return nil, err
		}
		clients[i] = c
	}
	for _, c := range clients {
		c.Settle()
		c.Drain()
	}
	evs := []map[string]any{{"op": "world", "run": run, "store": "hist", "init": initIDs, "readers": []int{}, "posters": []int{}, "order": []int{}, "clients": n}}
	next := 200
	total := len(text)
	// the free-running phase below adds (conc/3)*12 short posts: the sequential phase stops growing the board early
	// enough for the whole run to stay under the 64 KiB field limit (the property's quantifier)
	reserve := ((conc + 2) / 3) * 12 * 160
	var lastBody []byte
	lastCi := 0
	for s := 0; s < steps; s++ {
		ci := rng.Intn(n - 1)
		c := clients[ci]
		if rng.Intn(3) > 0 && total < 60000-reserve {
			var body []byte
			if lastBody != nil && rng.Intn(4) == 0 {
				// the same user posts the very same text again (a repeated post is a post)
				body, ci, c = lastBody, lastCi, clients[lastCi]
			} else {
				next++
				size := []int{0, 1, 10, 200, 1000, 5000}[rng.Intn(6)]
				if total+size > 62000-reserve {
					size = 10
				}
				body = []byte(fmt.Sprintf("<<P%d>>%s", next, bytes.Repeat([]byte{byte('A' + next%26)}, size)))
				if next%3 == 0 {
					body = append(body, []byte(" 100% done %d %s %!")...) // text that a format function would mangle
				}
				if rng.Intn(4) == 0 {
					body = append(body, '\n', 'x')
				}
			}
			lastBody, lastCi = body, ci
			rep, err := c.Request(sim.TOldPostNews, sim.Fld(sim.FData, body))
			if err != nil {
				// observed: the post was never answered.  Recorded as such (the history ends here).
				disk, _ := os.ReadFile(filepath.Join(w.Config, "MessageBoard.txt"))
				evs = append(evs, map[string]any{"op": "post", "run": run, "a": next, "c": ci + 1, "ok": false, "noreply": err.Error(), "announced": []int{},
					"disk": postsIn(disk), "diskExact": false, "name": sim.Ints([]byte(fmt.Sprintf("user%d", ci+1))),
					"body": sim.Ints(bytes.ReplaceAll(body, []byte("\n"), []byte("\r"))), "rendered": []int{}})
				return evs, nil
			}
			for _, x := range clients {
				x.Settle()
			}
			announced := []int{}
			var rendered []byte
			for k, x := range clients {
				for _, t := range x.Drain() {
					if t.Type == sim.TNewMsg {
						d, _ := t.Get(sim.FData)
						if ids := postsIn(d); len(ids) == 1 && ids[0] == next {
							announced = append(announced, k+1)
							rendered = d
						}
					}
				}
			}
			disk, _ := os.ReadFile(filepath.Join(w.Config, "MessageBoard.txt"))
			if rendered != nil {
				rend[next] = append(rend[next], rendered)
			}
			ids := postsIn(disk)
			total = len(disk)
			ev := map[string]any{"op": "post", "run": run, "a": next, "c": ci + 1, "ok": rep.Err == 0, "announced": announced, "disk": ids,
				"diskExact": bytes.Equal(disk, concatOcc(rend, ids)), "name": sim.Ints([]byte(fmt.Sprintf("user%d", ci+1))),
				"body": sim.Ints(bytes.ReplaceAll(body, []byte("\n"), []byte("\r"))), "rendered": []int{}}
			if len(rendered) <= 400 {
				ev["rendered"] = sim.Ints(rendered)
			}
			evs = append(evs, ev)
		} else {
			rep, err := c.Request(sim.TGetMsgs)
			if err != nil {
				// observed: the board request was never answered (the history ends here)
				evs = append(evs, map[string]any{"op": "read", "run": run, "c": ci + 1, "ok": false, "noreply": err.Error(), "posts": []int{}, "len": 0, "exact": false})
				return evs, nil
			}
			d, _ := rep.Get(sim.FData)
			ids := postsIn(d)
			evs = append(evs, map[string]any{"op": "read", "run": run, "c": ci + 1, "ok": rep.Err == 0, "posts": ids, "len": len(d),
				"exact": bytes.Equal(d, concatOcc(rend, ids))})
		}
	}
	// one post while the board cannot be saved (the name of its temporary file is occupied by a directory), then a
	// read by another client.  Observed only; Trace_Board!FaultPostEv says what the statement requires of it.
	if total < 58000-reserve {
		tmp := filepath.Join(w.Config, "MessageBoard.txt.tmp")
		if err := os.Mkdir(tmp, 0755); err == nil {
			next++
			body := []byte(fmt.Sprintf("<<P%d>> unsaved", next))
			id := clients[0].Send(sim.TOldPostNews, sim.Fld(sim.FData, body))
			rep, perr := clients[0].WaitReply(id, 2*time.Second)
			_ = os.Remove(tmp)
			rrep, rerr := clients[1].Request(sim.TGetMsgs)
			d, _ := rrep.Get(sim.FData)
			disk, _ := os.ReadFile(filepath.Join(w.Config, "MessageBoard.txt"))
			// the rendering of the unsaved post, if it shows up in what the reader got
			if ids := postsIn(d); len(ids) > 0 && ids[0] == next {
				if i := bytes.Index(d, []byte("__________________________________________________________\r")); i >= 0 {
					rend[next] = append(rend[next], append([]byte(nil), d[:i+59]...))
				}
			}
			evs = append(evs, map[string]any{"op": "faultpost", "run": run, "a": next, "ok": perr == nil && rep.Err == 0, "readOk": rerr == nil && rrep.Err == 0,
				"after": postsIn(d), "exact": bytes.Equal(d, concatOcc(rend, postsIn(d))), "diskAfter": postsIn(disk)})
			if rerr != nil {
				return evs, nil // the board is not served any more: the history ends here
			}
			for _, x := range clients {
				x.Settle()
				x.Drain()
			}
			total = len(disk) + 200
		}
	}
	// free-running phase: concurrent readers, posters and logins on the real processOutbox-less pump is not
	// concurrent enough; use raw goroutine clients and judge each completed read against the versions current
	// during it (version counter read before and after by the driver).
	cur := func() []int {
		disk, _ := os.ReadFile(filepath.Join(w.Config, "MessageBoard.txt"))
		return postsIn(disk)
	}
	startText := cur()
	if rep, err := clients[1].Request(sim.TGetMsgs); err == nil {
		// the board as the server holds it (a post whose save failed is in memory only)
		d, _ := rep.Get(sim.FData)
		startText = postsIn(d)
	}
	var mu sync.Mutex
	datas := map[int][]byte{}
	var cevs []map[string]any
	var wg sync.WaitGroup
	var postMu sync.Mutex
	for k := 0; k < conc; k++ {
		wg.Add(1)
		go func(k int) {
			defer wg.Done()
			c := w.Dial("")
			if _, err := c.Login(sim.LoginOpts{Login: "admin", Password: "admin", Name: fmt.Sprintf("cc%d", k), Old: true}); err != nil {
				return
			}
			lr := rand.New(rand.NewSource(seed + int64(1000+k)))
			for j := 0; j < 12; j++ {
				if k%3 == 0 {
					postMu.Lock()
					next++
					id := next
					postMu.Unlock()
					rep, err := c.Request(sim.TOldPostNews, sim.Fld(sim.FData, []byte(fmt.Sprintf("<<P%d>> c", id))))
					mu.Lock()
					cevs = append(cevs, map[string]any{"op": "cpost", "run": run, "a": id, "ok": err == nil && rep.Err == 0})
					mu.Unlock()
				} else {
					rep, err := c.Request(sim.TGetMsgs)
					d, _ := rep.Get(sim.FData)
					mu.Lock()
					datas[len(cevs)] = d
					cevs = append(cevs, map[string]any{"op": "cread", "run": run, "ok": err == nil && rep.Err == 0, "posts": postsIn(d), "len": len(d)})
					mu.Unlock()
				}
				time.Sleep(time.Duration(lr.Intn(200)) * time.Microsecond)
			}
			c.Close()
		}(k)
	}
	wg.Wait()
	disk, _ := os.ReadFile(filepath.Join(w.Config, "MessageBoard.txt"))
	for _, seg := range bytes.SplitAfter(disk, []byte("__________________________________________________________\r")) {
		if ids := postsIn(seg); len(ids) == 1 {
			if _, known := rend[ids[0]]; !known {
				rend[ids[0]] = [][]byte{append([]byte(nil), seg...)}
			}
		}
	}
	// the agreement after the operator changed it (file rewritten, Agreement.Reload as on SIGHUP): a client being shown
	// the agreement at login receives the CURRENT text
	{
		shown := func(name string) (string, bool) {
			c := w.Dial("")
			defer c.Close()
			if err := c.Handshake(10 * time.Second); err != nil {
				return "", false
			}
			c.Send(sim.TLogin, sim.Fld(sim.FUserLogin, sim.Obfuscate([]byte("guest"))), sim.Fld(sim.FUserPassword, nil), sim.Fld(sim.FVersion, sim.U16(190)))
			t, err := c.WaitFor(func(t sim.Tx) bool { return t.Type == sim.TShowAgreement }, 5*time.Second)
			d, _ := t.Get(sim.FData)
			return string(d), err == nil
		}
		before, ok1 := shown("ag1")
		newText := fmt.Sprintf("agreement version %d of run %d", seed%1000+2, run)
		_ = os.WriteFile(filepath.Join(w.Config, "Agreement.txt"), []byte(newText), 0644)
		rerr := w.Agree.Reload()
		after, ok2 := shown("ag2")
		evs = append(evs, map[string]any{"op": "agreement", "run": run, "reloaded": rerr == nil, "shownBefore": ok1, "beforeExact": before == "agreement",
			"shownAfter": ok2, "afterExact": after == newText})
	}
	final := postsIn(disk)
	evs = append(evs, map[string]any{"op": "concstart", "run": run, "text": startText, "final": final, "finalExact": bytes.Equal(disk, concatOcc(rend, final))})
	for i, e := range cevs {
		if e["op"] == "cread" {
			e["exact"] = bytes.Equal(datas[i], concatOcc(rend, e["posts"].([]int)))
		}
		evs = append(evs, e)
	}
	return evs, nil
}


// concatOcc concatenates the renderings of the listed posts (newest first); a post id that occurs several times
// (the same text posted again) uses its renderings newest first as well.
func concatOcc(rend map[int][][]byte, ids []int) []byte {
	seen := map[int]int{}
	var b []byte
	for _, id := range ids {
		r := rend[id]
		k := len(r) - 1 - seen[id]
		seen[id]++
		if k >= 0 && k < len(r) {
			b = append(b, r[k]...)
		}
	}
	return b
}
